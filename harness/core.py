"""Core of the datascope verification harness.

Flow of one check (see DESIGN.md section 2):
  1. stage /repo's working tree outside /repo and /verif and rebuild the Cython extension from source
  2. Coq side: `make` (full .vo build), re-compile Properties/<id>.v capturing `Print Assumptions`, audit grep
  3. generate cases (corpus first), run the staged implementation on them in a worker process
  4. write cases_*.v, evaluate the model/spec on the same inputs inside Coq (vm_compute), parse one digit per case
  5. classify, shrink, write replay + evidence, print VIOLATION / KNOWN-FINDING lines
"""
import concurrent.futures
import fcntl
import hashlib
import importlib
import json
import os
import random
import re
import shutil
import subprocess
import sys
import tempfile
import time

VERIF = os.path.dirname(os.path.dirname(os.path.abspath(__file__)))
REPO = os.environ.get("DATASCOPE_REPO", "/repo")
COQ = os.path.join(VERIF, "coq")
PY = "/venv/bin/python"
EXTCACHE = os.path.join(VERIF, "build", "extcache")
SO_NAME = "shapley_cy.cpython-312-x86_64-linux-gnu.so"

PRIMITIVE_TYPE_TOKENS = {"int", "PrimInt63.int", "Uint63.int", "float", "PrimFloat.float", "bool", "comparison",
                         "float_comparison", "PrimFloat.float_comparison", "float_class", "PrimFloat.float_class",
                         "Set", "->", "*", "(", ")"}


def primitive_axiom(line):
    """A `Print Assumptions` entry is acceptable iff it is one of the kernel's primitive machine-integer /
    binary64 operations, recognised by its type mentioning primitive types only (user declarations are ruled out
    separately by the source audit)."""
    if ":" not in line:
        return False
    ty = line.split(":", 1)[1]
    toks = re.findall(r"->|\*|\(|\)|[A-Za-z_][A-Za-z0-9_.']*", ty)
    return bool(toks) and all(t in PRIMITIVE_TYPE_TOKENS for t in toks)


def log(*a):
    print(*a, file=sys.stderr, flush=True)


class Lock:
    def __init__(self, name):
        os.makedirs(os.path.join(VERIF, "build"), exist_ok=True)
        self.path = os.path.join(VERIF, "build", name + ".lock")

    def __enter__(self):
        self.f = open(self.path, "w")
        fcntl.flock(self.f, fcntl.LOCK_EX)
        return self

    def __exit__(self, *a):
        fcntl.flock(self.f, fcntl.LOCK_UN)
        self.f.close()


# --------------------------------------------------------------------------- staging
class Stage:
    """A copy of /repo's working tree (the package, setup.py and what setup.py reads) with the extension rebuilt."""

    def __init__(self):
        self.dir = tempfile.mkdtemp(prefix="datascope-verif-", dir="/var/tmp")
        self.build_log = ""
        self.ext_from_cache = False
        try:
            self._copy()
            self._build()
        except Exception:
            self.cleanup()
            raise

    def _copy(self):
        shutil.copytree(
            os.path.join(REPO, "datascope"),
            os.path.join(self.dir, "datascope"),
            ignore=shutil.ignore_patterns("*.so", "__pycache__", "*.pyc", "build"),
        )
        for f in ("setup.py", "README.md", "requirements.txt", "requirements-dev.txt", "pyproject.toml", "setup.cfg",
                  "MANIFEST.in"):
            src = os.path.join(REPO, f)
            if os.path.exists(src):
                shutil.copy(src, os.path.join(self.dir, f))

    def source_hash(self):
        h = hashlib.sha256()
        for root, _, files in sorted(os.walk(os.path.join(self.dir, "datascope"))):
            for f in sorted(files):
                if f.endswith((".pyx", ".pxd", ".pxi")):
                    h.update(f.encode())
                    h.update(open(os.path.join(root, f), "rb").read())
        for f in ("setup.py", "pyproject.toml", "setup.cfg"):
            p = os.path.join(self.dir, f)
            if os.path.exists(p):
                h.update(open(p, "rb").read())
        v = subprocess.run([PY, "-c", "import numpy,Cython,sys;print(numpy.__version__,Cython.__version__,sys.version)"],
                           capture_output=True, text=True).stdout
        h.update(v.encode())
        return h.hexdigest()

    def _build(self):
        key = self.source_hash()
        os.makedirs(EXTCACHE, exist_ok=True)
        cached = os.path.join(EXTCACHE, key + ".so")
        target = os.path.join(self.dir, "datascope", "importance", SO_NAME)
        with Lock("extbuild"):
            if os.path.exists(cached):
                shutil.copy(cached, target)
                self.ext_from_cache = True
                return
            # remove any generated C file so that the extension is really rebuilt from the .pyx
            for root, _, files in os.walk(os.path.join(self.dir, "datascope")):
                for f in files:
                    if f.endswith(".pyx") and os.path.exists(os.path.join(root, f[:-4] + ".c")):
                        os.remove(os.path.join(root, f[:-4] + ".c"))
            env = dict(os.environ, PYTHONPATH="", PIP_NO_INDEX="1")
            r = subprocess.run([PY, "setup.py", "build_ext", "--inplace", "--force"], cwd=self.dir, env=env,
                               capture_output=True, text=True, timeout=900)
            self.build_log = (r.stdout + r.stderr)[-4000:]
            if r.returncode != 0 or not os.path.exists(target):
                raise BuildError("extension build failed:\n" + self.build_log)
            shutil.copy(target, cached + ".tmp%d" % os.getpid())
            os.replace(cached + ".tmp%d" % os.getpid(), cached)
            shutil.rmtree(os.path.join(self.dir, "build"), ignore_errors=True)

    def env(self, extra=None):
        e = dict(os.environ)
        e["PYTHONPATH"] = self.dir + os.pathsep + os.path.join(VERIF, "harness")
        e["PYTHONHASHSEED"] = "0"
        e["DATASCOPE_STAGE"] = self.dir
        e["OMP_NUM_THREADS"] = "1"
        e["OPENBLAS_NUM_THREADS"] = "1"
        e["MKL_NUM_THREADS"] = "1"
        e["PYTHONWARNINGS"] = "default"
        if extra:
            e.update(extra)
        return e

    def cleanup(self):
        shutil.rmtree(self.dir, ignore_errors=True)


class BuildError(Exception):
    pass


# --------------------------------------------------------------------------- implementation worker
IMPL_STMTS = {}      # staged file (relative) -> statement start lines as coverage.py normalises them
IMPL_LINES = {}      # staged file (relative) -> set of executed lines, accumulated over every worker of this check


def impl_coverage(stage_dir, anchors):
    """Per anchored function `file:Qualified.name`: executable statements, how many the correspondence cases ran, and the
    source lines never run.  Measured on the staged copy of /repo's working tree; reported in the evidence only."""
    import ast
    out = []
    for a in anchors:
        f, _, qual = a.partition(":")
        path = os.path.join(stage_dir, f)
        try:
            tree = ast.parse(open(path).read())
        except Exception as e:  # noqa
            out.append({"function": a, "error": str(e)[:100]})
            continue
        node = tree
        for part in [x for x in qual.split(".") if x]:
            cands = [n for n in ast.iter_child_nodes(node)
                     if isinstance(n, (ast.FunctionDef, ast.ClassDef, ast.AsyncFunctionDef)) and n.name == part]
            node = cands[-1] if cands else None      # the last definition wins (typing.overload stubs come first)
            if node is None:
                break
        if node is None:
            out.append({"function": a, "error": "not found in the current source"})
            continue
        body = list(node.body) if hasattr(node, "body") else []
        lo = body[0].lineno if body else node.lineno
        hi = getattr(node, "end_lineno", lo)
        stmts = set(x for x in IMPL_STMTS.get(f, set()) if lo <= x <= hi)
        ran = IMPL_LINES.get(f, set())
        missed = sorted(stmts - ran)
        out.append({"function": a, "statements": len(stmts), "executed": len(stmts & ran), "never_executed_lines": missed[:60]})
    return out


def run_worker(stage, pid, cases, timeout=3600, jobs=1, env_extra=None):
    """Run props.<pid>.run_impl on every case inside the staged interpreter. Returns list of outputs
    (dict; {'exc': name, 'msg': ...} when the implementation raised)."""
    if not cases:
        return []
    jobs = max(1, min(jobs, len(cases)))
    chunks = [cases[i::jobs] for i in range(jobs)]
    tmp = tempfile.mkdtemp(prefix="dsv-w-", dir="/var/tmp")
    try:
        procs = []
        for k, ch in enumerate(chunks):
            fin = os.path.join(tmp, "in%d.json" % k)
            fout = os.path.join(tmp, "out%d.json" % k)
            json.dump(ch, open(fin, "w"))
            envx = dict(env_extra or {})
            envx.setdefault("DSV_COVERAGE", os.environ.get("DSV_COVERAGE", "1"))
            p = subprocess.Popen([PY, os.path.join(VERIF, "harness", "worker.py"), pid, fin, fout],
                                 env=stage.env(envx), stdout=subprocess.PIPE, stderr=subprocess.STDOUT, text=True)
            procs.append((p, fout, len(ch)))
        results = []
        for p, fout, n in procs:
            try:
                so, _ = p.communicate(timeout=timeout)
            except subprocess.TimeoutExpired:
                p.kill()
                so = "worker timeout"
            if os.path.exists(fout + ".cov"):
                try:
                    for f, d in json.load(open(fout + ".cov")).items():
                        IMPL_LINES.setdefault(f, set()).update(d["executed"])
                        IMPL_STMTS.setdefault(f, set()).update(d["stmts"])
                except Exception:  # noqa
                    pass
            if p.returncode == 0 and os.path.exists(fout):
                results.append(json.load(open(fout)))
            else:
                log("worker failed:", (so or "")[-2000:])
                results.append([{"exc": "WorkerCrash", "msg": (so or "")[-500:]}] * n)
        outs = [None] * len(cases)
        for k, res in enumerate(results):
            for j, o in enumerate(res):
                outs[k + j * jobs] = o
        return outs
    finally:
        shutil.rmtree(tmp, ignore_errors=True)


# --------------------------------------------------------------------------- Coq side
def coq_make():
    with Lock("coqmake"):
        if not os.path.exists(os.path.join(COQ, "Makefile")):
            subprocess.run(["coq_makefile", "-f", "_CoqProject", "-o", "Makefile"], cwd=COQ, capture_output=True)
        r = subprocess.run(["timeout", "3000", "make", "-j16"], cwd=COQ, capture_output=True, text=True)
    return r.returncode == 0, (r.stdout + r.stderr)[-3000:]


FORBIDDEN = re.compile(r"\b(Admitted|admit|Axiom|Axioms|Parameter|Parameters|Conjecture|Conjectures|Hypothesis|"
                       r"Hypotheses|Variable|Variables|Abort)\b|Unset\s+Guard|bypass_check|type-in-type|"
                       r"impredicative-set|Admit\s+Obligations|Unset\s+Positivity|Unset\s+Universe|native_compute")


def strip_comments(s):
    out, depth, i = [], 0, 0
    while i < len(s):
        if s.startswith("(*", i):
            depth += 1
            i += 2
        elif s.startswith("*)", i) and depth > 0:
            depth -= 1
            i += 2
        else:
            if depth == 0:
                out.append(s[i])
            i += 1
    return "".join(out)


def audit_sources():
    """No Admitted/admit/Axiom/Parameter/...; Variable/Hypothesis only inside Sections."""
    bad = []
    for root, dirs, files in os.walk(COQ):
        if "Cases" in root.split(os.sep):
            continue
        for f in files:
            if not f.endswith(".v"):
                continue
            path = os.path.join(root, f)
            src = strip_comments(open(path).read())
            depth = 0
            for ln, line in enumerate(src.split("\n"), 1):
                if re.match(r"\s*Section\s+\w+", line):
                    depth += 1
                if re.match(r"\s*End\s+\w+", line) and depth > 0:
                    depth -= 1
                m = FORBIDDEN.search(line)
                if m:
                    w = m.group(0)
                    if w.startswith(("Variable", "Hypothes")) and depth > 0:
                        continue
                    bad.append("%s:%d: %s" % (os.path.relpath(path, VERIF), ln, w))
    proj = open(os.path.join(COQ, "_CoqProject")).read()
    if re.search(r"type-in-type|impredicative-set|-vos|-vok", proj):
        bad.append("_CoqProject: forbidden flag")
    return bad


def run_coqchk(pid):
    """Thorough tier: re-check the compiled property file and everything it depends on with Coq's independent checker and read
    the axioms it reports.  Allowed: none, or the standard library's own declarations about the primitive 63-bit integers and
    binary64 floats (Coq.Numbers.Cyclic.Int63.*, Coq.Floats.*), which coqchk lists for every library that loads them."""
    t0 = time.time()
    try:
        r = subprocess.run(["timeout", "1500", "coqchk", "-silent", "-Q", COQ, "DS", "-o", "DS.Properties.%s" % pid],
                           capture_output=True, text=True, cwd=COQ)
    except Exception as e:  # noqa
        return {"ran": False, "ok": False, "error": str(e)[:200]}
    out = r.stdout + r.stderr
    summary = out[out.find("CONTEXT SUMMARY"):] if "CONTEXT SUMMARY" in out else ""

    def section(title):
        m = re.search(r"\* %s:(.*?)(?:\n\s*\n\* |\Z)" % re.escape(title), summary, re.S)
        items = [x.strip() for x in (m.group(1) if m else "").split("\n") if x.strip()]
        return [] if items == ["<none>"] else items
    axioms = section("Axioms")
    foreign = [a for a in axioms if not a.startswith(("Coq.Numbers.Cyclic.Int63.", "Coq.Floats."))]
    tit = section("Constants/Inductives relying on type-in-type")
    unsafe = section("Constants/Inductives relying on unsafe (co)fixpoints")
    pos = section("Inductives whose positivity is assumed")
    ok = r.returncode == 0 and bool(summary) and not foreign and not tit and not unsafe and not pos
    return {"ran": True, "ok": ok, "returncode": r.returncode, "seconds": round(time.time() - t0, 1),
            "axioms_reported": len(axioms), "axioms_outside_stdlib_primitives": foreign[:20],
            "stdlib_primitive_axioms": sorted(set(a.rsplit(".", 1)[0] for a in axioms))[:10],
            "type_in_type": tit[:5], "unsafe_fixpoints": unsafe[:5], "assumed_positivity": pos[:5],
            "cmd": "coqchk -silent -Q coq DS -o DS.Properties.%s" % pid, "log_tail": "" if ok else out[-1500:]}


def check_property_file(pid):
    """Re-compile Properties/<pid>.v from scratch; return (ok, theorems, assumption_report, log)."""
    path = os.path.join(COQ, "Properties", pid + ".v")
    src = strip_comments(open(path).read())
    theorems = re.findall(r"^\s*(?:Theorem|Lemma|Corollary)\s+(\w+)", src, re.M)
    printed = re.findall(r"^\s*Print Assumptions\s+(\w+)\.", src, re.M)
    missing = [t for t in theorems if t not in printed]
    out_dir = tempfile.mkdtemp(prefix="dsv-p-", dir="/var/tmp")
    try:
        r = subprocess.run(["timeout", "900", "coqc", "-Q", COQ, "DS", "-o", os.path.join(out_dir, pid + ".vo"), path],
                           capture_output=True, text=True)
    finally:
        shutil.rmtree(out_dir, ignore_errors=True)
    text = r.stdout
    blocks = []
    cur = None
    for line in text.split("\n"):
        if line.startswith("Closed under the global context"):
            blocks.append(("closed", []))
            cur = None
        elif line.startswith("Axioms:"):
            cur = []
            blocks.append(("axioms", cur))
        elif cur is not None and line.strip():
            cur.append(line)
    report, ok = [], (r.returncode == 0 and not missing and len(blocks) == len(printed))
    for name, (kind, lines) in zip(printed, blocks):
        if kind == "closed":
            report.append({"theorem": name, "assumptions": "Closed under the global context"})
        else:
            entries = []
            for ln in lines:
                if re.match(r"^\S", ln):
                    entries.append(ln.strip())
                elif entries:
                    entries[-1] += " " + ln.strip()
            names = [e.split(":")[0].strip() for e in entries]
            notallowed = [e for e in entries if not primitive_axiom(e)]
            report.append({"theorem": name, "assumptions": "primitive int63/binary64 operations only: " + ", ".join(names)
                           if not notallowed else entries})
            if notallowed:
                ok = False
    return ok, theorems, report, (r.stdout + r.stderr)[-3000:], missing


def coq_eval(pid, terms, check_fn="check", shard=300, extra_imports="", mode="flags"):
    """terms: list of Gallina terms of type <pid>.case. Returns list of 3-bit flags (ints 0..7) or None on failure."""
    if not terms:
        return [], ""
    d = tempfile.mkdtemp(prefix="%s_" % pid, dir=os.path.join(COQ, "Cases")) if os.path.isdir(os.path.join(COQ, "Cases")) else None
    if d is None:
        os.makedirs(os.path.join(COQ, "Cases"), exist_ok=True)
        d = tempfile.mkdtemp(prefix="%s_" % pid, dir=os.path.join(COQ, "Cases"))
    try:
        files = []
        for k in range(0, len(terms), shard):
            part = terms[k:k + shard]
            fn = os.path.join(d, "cases_%s_%d.v" % (pid, k // shard))
            with open(fn, "w") as f:
                f.write("From Coq Require Import List Arith ZArith QArith Bool String.\n")
                f.write("From DS Require Import Check.Harness Check.%s.\n%s\nImport ListNotations.\n" % (pid, extra_imports))
                f.write("Set Printing Width 1000000.\nSet Printing Depth 1000000.\n")
                f.write("Definition cases : list %s.case := [\n" % pid)
                f.write(";\n".join(part))
                f.write("\n].\n")
                if mode == "flags":
                    f.write("Eval vm_compute in render (map %s.%s cases).\n" % (pid, check_fn))
                else:
                    f.write("Eval vm_compute in map %s.%s cases.\n" % (pid, check_fn))
            files.append(fn)

        def run(fn):
            r = subprocess.run(["timeout", "1800", "coqc", "-Q", COQ, "DS", fn], capture_output=True, text=True)
            return fn, r

        flags, logs = [], ""
        with concurrent.futures.ThreadPoolExecutor(max_workers=16) as ex:
            res = list(ex.map(run, files))
        if mode != "flags":
            return None, "\n".join(r.stdout + r.stderr for _, r in res)
        for (fn, r), k in zip(res, range(0, len(terms), shard)):
            n = len(terms[k:k + shard])
            m = re.search(r'=\s*"([0-7]*)"', r.stdout)
            if r.returncode != 0 or not m or len(m.group(1)) != n:
                logs += "coqc failed on %s:\n%s\n" % (os.path.basename(fn), (r.stdout + r.stderr)[-3000:])
                flags.extend([None] * n)
            else:
                flags.extend(int(ch) for ch in m.group(1))
        return flags, logs
    finally:
        shutil.rmtree(d, ignore_errors=True)


# --------------------------------------------------------------------------- known findings
def load_known_findings():
    res = []
    p = os.path.join(VERIF, "known_findings.txt")
    if not os.path.exists(p):
        return res
    for line in open(p):
        line = line.strip()
        if line.startswith("finding:"):
            m = re.match(r"finding:\s+property=(\S+)\s+id=(\S+)\s+match=(\S+)\s+what=(.*)", line)
            if m:
                res.append({"properties": m.group(1).split(","), "id": m.group(2), "match": m.group(3),
                            "what": m.group(4)})
    return res


# --------------------------------------------------------------------------- the check driver
def get_prop(pid):
    sys.path.insert(0, os.path.join(VERIF, "harness"))
    return importlib.import_module("props." + pid.lower())


def evaluate_cases(stage, pid, prop, cases, jobs=1):
    """Run impl + Coq on cases; returns list of dicts {case, out, flags, tag}."""
    outs = run_worker(stage, pid, cases, jobs=jobs, timeout=getattr(prop, "WORKER_TIMEOUT", 3600))
    terms, idx = [], []
    for i, (c, o) in enumerate(zip(cases, outs)):
        if isinstance(o, dict) and "exc" in o:
            continue
        parts = prop.expand(c, o) if hasattr(prop, "expand") else [(c, o)]
        for (cc, oo) in parts:
            try:
                t = prop.emit(cc, oo)
            except Exception as e:  # noqa
                # an output that cannot be written as a Coq literal (NaN / infinity where a number is expected, a missing field):
                # the implementation did not return what the model predicts -- the case fails like a raised exception does
                outs[i] = {"exc": "UnrepresentableOutput", "msg": "%s: %s" % (type(e).__name__, str(e)[:200]), "raw": str(oo)[:600]}
                t = None
            if t is not None:
                terms.append(t)
                idx.append(i)
    flags, logs = coq_eval(pid, terms, shard=getattr(prop, "SHARD", 300),
                           extra_imports=getattr(prop, "COQ_IMPORTS", ""))
    res = []
    fl = {}
    for i, f in zip(idx, flags):        # a case expanded into several Coq cases passes iff all of them do
        if i not in fl:
            fl[i] = f
        elif f is None or fl[i] is None:
            fl[i] = None
        else:
            fl[i] = fl[i] & f
    for i, (c, o) in enumerate(zip(cases, outs)):
        if i in fl:
            f = fl[i]
        elif hasattr(prop, "flags_without_coq"):
            f = prop.flags_without_coq(c, o)      # e.g. an exception the model predicts
        else:
            f = 0                                  # impl raised: differs from model and from spec
        res.append({"case": c, "out": o, "flags": f})
    return res, logs


def shrink(stage, pid, prop, bad, budget_s=90):
    """Greedy delta debugging on the structured input."""
    if not hasattr(prop, "shrink"):
        return bad
    t0 = time.time()
    cur = bad
    improved = True
    while improved and time.time() - t0 < budget_s:
        improved = False
        cands = list(prop.shrink(cur["case"]))[:60]
        if not cands:
            break
        res, _ = evaluate_cases(stage, pid, prop, cands)
        for r in res:
            raised = lambda o: isinstance(o, dict) and "exc" in o  # noqa: E731
            if raised(r["out"]) != raised(cur["out"]):
                continue      # a candidate that fails in ANOTHER way (the implementation now raises / no longer raises) is not a smaller instance
            if r["flags"] is not None and not (r["flags"] & 2) and bool(r["flags"] & 4) == bool(cur["flags"] & 4):
                cur = r
                improved = True
                break
    return cur


def write_replay(pid, tier, seed, kind, payload):
    os.makedirs(os.path.join(VERIF, "replays"), exist_ok=True)
    body = json.dumps(payload, sort_keys=True, default=str)
    h = hashlib.sha1(body.encode()).hexdigest()[:10]
    path = os.path.join(VERIF, "replays", "%s-%s.json" % (pid, h))
    doc = {"property": pid, "tier": tier, "seed": seed, "kind": kind,
           "replay_cmd": "bin/vcheck --replay %s" % os.path.relpath(path, VERIF)}
    doc.update(payload)
    json.dump(doc, open(path, "w"), indent=1, default=str)
    return os.path.relpath(path, VERIF)


def explain_case(pid, prop, r):
    if r["out"] is None or (isinstance(r["out"], dict) and "exc" in r["out"]):
        return "implementation raised: %s" % (r["out"],)
    t = prop.emit(r["case"], r["out"])
    if t is None:
        return ""
    _, text = coq_eval(pid, [t], check_fn="explain", mode="explain", extra_imports=getattr(prop, "COQ_IMPORTS", ""))
    return text[-6000:]


def main_check(pid, tier, seed):
    t0 = time.time()
    prop = get_prop(pid)
    violations = []          # (replay_path, suffix)
    known_lines = []
    stage = None
    ev = {"property_id": pid, "tier": tier, "seed": seed, "level": "proof", "coverage": {}, "assumptions": [],
          "wall_s": 0.0, "violations": 0}
    cov = ev["coverage"]
    try:
        # ---- 1. stage + build the implementation from /repo's working tree
        try:
            stage = Stage()
        except Exception as e:  # build failure of the changed tree: the property is no longer shown to hold
            rp = write_replay(pid, tier, seed, "build-failure",
                              {"correspondence": "staging/build of /repo working tree", "error": str(e)[-3000:]})
            violations.append((rp, " no-failing-input-found"))
            raise StopCheck()
        # ---- 2. Coq side
        ok_make, make_log = coq_make()
        audit = audit_sources()
        ok_prop, theorems, report, prop_log, missing = check_property_file(pid) if ok_make else (False, [], [], make_log, [])
        obligations = len(theorems) + 2
        discharged = (len(theorems) if ok_prop else 0) + (1 if ok_make else 0) + (1 if not audit else 0)
        cov.update({"obligations": obligations, "discharged": discharged,
                    "checker_cmd": "make -C coq (full .vo build) && coqc -Q coq DS coq/Properties/%s.v" % pid,
                    "theorems": report, "audit_findings": audit})
        chk = None
        if tier == "thorough" and ok_make and ok_prop:
            chk = run_coqchk(pid)
            cov["coqchk"] = chk
            cov["obligations"] += 1
            cov["discharged"] += 1 if chk["ok"] else 0
            if not chk["ok"]:
                audit = audit + ["coqchk: " + (chk.get("error") or "; ".join(chk["axioms_outside_stdlib_primitives"][:3]) or chk.get("log_tail", "")[-300:])]
                cov["audit_findings"] = audit
        proofs_ok = ok_make and ok_prop and not audit
        if not ok_make:
            log(make_log)
        if not ok_prop:
            log(prop_log)
        # ---- 3/4. correspondence
        rng = random.Random(seed * 1000003 + int(pid[1:]))
        cases = list(prop.corpus()) if hasattr(prop, "corpus") else []
        ncorpus = len(cases)
        cases += prop.gen(rng, tier)
        res, coq_logs = evaluate_cases(stage, pid, prop, cases, jobs=getattr(prop, "JOBS", 8))
        if coq_logs:
            log(coq_logs)
        findings = [k for k in load_known_findings() if pid in k["properties"]]
        n_eval = len(res)
        bad_spec, bad_model_only, selftest, broken_eval = [], [], [], []
        exercised = {}
        for r in res:
            f = r["flags"]
            if f is None:
                broken_eval.append(r)
                continue
            tag = prop.finding_tag(r["case"], r["out"]) if hasattr(prop, "finding_tag") else None
            fk = next((k for k in findings if tag is not None and k["match"] == tag), None)
            if fk is not None:
                # a case of an open known finding: expected to fail in the recorded way
                if not (f & 2):
                    exercised[fk["id"]] = fk
                    continue
            if not (f & 2):
                bad_spec.append(r)
            elif not (f & 4):
                bad_model_only.append(r)
            elif not (f & 1):
                selftest.append(r)
        for fk in exercised.values():
            known_lines.append("KNOWN-FINDING: property=%s %s (%s)" % (pid, fk["what"], fk["id"]))
        # ---- 5. verdicts
        seen = set()
        for r in bad_spec[:3]:
            r2 = shrink(stage, pid, prop, r)
            key = json.dumps(r2["case"], sort_keys=True, default=str)
            if key in seen:
                continue
            seen.add(key)
            rp = write_replay(pid, tier, seed, "counterexample",
                              {"case": r2["case"], "impl_out": r2["out"], "flags": r2["flags"],
                               "flags_meaning": "bit4 impl=model, bit2 impl=spec, bit1 model=spec",
                               "model_and_spec_outputs": explain_case(pid, prop, r2)})
            violations.append((rp, ""))
        if not bad_spec and (bad_model_only or selftest or broken_eval or not proofs_ok):
            # correspondence or a proof obligation is broken although impl = spec on every explored case: search harder
            hit = None
            if tier == "quick" and hasattr(prop, "gen"):
                rng2 = random.Random(seed + 7919)
                extra = prop.gen(rng2, "search")
                res2, _ = evaluate_cases(stage, pid, prop, extra, jobs=getattr(prop, "JOBS", 8))
                n_eval += len(res2)
                for r in res2:
                    tag = prop.finding_tag(r["case"], r["out"]) if hasattr(prop, "finding_tag") else None
                    if any(k["match"] == tag for k in findings):
                        continue
                    if r["flags"] is not None and not (r["flags"] & 2):
                        hit = shrink(stage, pid, prop, r)
                        break
            if hit is not None:
                rp = write_replay(pid, tier, seed, "counterexample",
                                  {"case": hit["case"], "impl_out": hit["out"], "flags": hit["flags"],
                                   "model_and_spec_outputs": explain_case(pid, prop, hit)})
                violations.append((rp, ""))
            else:
                what = []
                if not ok_make:
                    what.append("coq build (make) failed")
                if ok_make and not ok_prop:
                    what.append("property file Properties/%s.v no longer checks (theorems: %s; missing Print Assumptions: %s)"
                                % (pid, ", ".join(theorems), missing))
                if audit:
                    what.append("source audit: " + "; ".join(audit[:5]))
                if bad_model_only:
                    what.append("correspondence impl=model broken on %d case(s) while impl=spec holds" % len(bad_model_only))
                if selftest:
                    what.append("self-test model=spec failed on %d generated case(s)" % len(selftest))
                if broken_eval:
                    what.append("%d case(s) could not be evaluated in Coq" % len(broken_eval))
                sample = (bad_model_only or selftest or broken_eval or [None])[0]
                rp = write_replay(pid, tier, seed, "unchecked",
                                  {"no_longer_checks": what,
                                   "example_case": sample and sample["case"], "example_impl_out": sample and sample["out"],
                                   "model_and_spec_outputs": explain_case(pid, prop, sample) if sample in bad_model_only else "",
                                   "log": (prop_log if not ok_prop else "") + coq_logs[-2000:]})
                violations.append((rp, " no-failing-input-found"))
        # ---- evidence
        distinct = set()
        nontrivial = 0
        for r in res:
            key = json.dumps(r["case"], sort_keys=True, default=str)
            if key in distinct:
                continue
            distinct.add(key)
            if prop.nontrivial(r["case"], r["out"]):
                nontrivial += 1
        cov.update({
            "evaluations": n_eval, "distinct_nontrivial": nontrivial, "rule": prop.RULE,
            "samples": [{"case": r["case"], "impl_out": r["out"], "flags": r["flags"]} for r in res[ncorpus:ncorpus + 2]]
                       + [{"case": r["case"], "impl_out": r["out"], "flags": r["flags"]} for r in res[:1]],
            "traces_validated_against_impl": sum(1 for r in res if r["flags"] == 7),
            "corpus_cases": ncorpus,
            "distribution": prop.distribution([r["case"] for r in res], [r["out"] for r in res])
            if hasattr(prop, "distribution") else {},
            "exhaustive": bool(getattr(prop, "EXHAUSTIVE", {}).get(tier, False)),
            "extension_rebuilt_from_source": not stage.ext_from_cache,
            "extension_cache_key_is_source_hash": True,
            "known_findings_exercised": sorted(exercised),
            "trusted_base": TRUSTED_BASE + getattr(prop, "TRUSTED", []),
        })
        if getattr(prop, "ANCHORS", None):
            cov["implementation_line_coverage"] = impl_coverage(stage.dir, prop.ANCHORS)
        if hasattr(prop, "extra_evidence"):
            cov.update(prop.extra_evidence())
        ev["assumptions"] = getattr(prop, "ASSUMPTIONS", [])
        # degenerate generator = failing self-test of the check
        cov["generator_mostly_trivial"] = bool(n_eval and nontrivial * 2 < len(distinct))
        if cov["generator_mostly_trivial"] and not getattr(prop, "ALLOW_TRIVIAL", False):
            log("generator degenerate: %d nontrivial of %d distinct" % (nontrivial, len(distinct)))
    except StopCheck:
        pass
    except Exception as e:  # noqa
        # the check's own machinery failed on this tree (an output shape it cannot digest, ...): the property is no longer shown
        # to hold; reported as such rather than as a crash
        import traceback
        rp = write_replay(pid, tier, seed, "unchecked",
                          {"no_longer_checks": ["the check could not be carried out: %s: %s" % (type(e).__name__, str(e)[:300])],
                           "traceback": traceback.format_exc()[-3000:]})
        violations.append((rp, " no-failing-input-found"))
    finally:
        if stage is not None:
            stage.cleanup()
    ev["wall_s"] = round(time.time() - t0, 2)
    ev["violations"] = len(violations)
    cov.setdefault("obligations", 1)
    cov.setdefault("discharged", 0)
    cov.setdefault("checker_cmd", "make -C coq && coqc Properties/%s.v" % pid)
    cov.setdefault("trusted_base", TRUSTED_BASE)
    os.makedirs(os.path.join(VERIF, "evidence"), exist_ok=True)
    json.dump(ev, open(os.path.join(VERIF, "evidence", pid + ".json"), "w"), indent=1, default=str)
    for ln in known_lines:
        print(ln)
    for rp, suffix in violations:
        print("VIOLATION property=%s replay=%s%s" % (pid, rp, suffix))
    sys.stdout.flush()
    return 1 if violations else 0


class StopCheck(Exception):
    pass


TRUSTED_BASE = [
    "Coq 8.16.1 kernel including the vm_compute virtual machine (no native_compute)",
    "Coq standard library; no axioms beyond those listed per theorem in coverage.theorems",
    "hand-written Gallina model tied to the code by this correspondence run (harness/: generators, "
    "Gallina literal emitter, result parser, shrinker, known-findings matcher)",
    "numpy/scipy/scikit-learn/pandas/CPython/Cython+gcc behaviour is modelled, not verified",
]


def main_replay(path):
    doc = json.load(open(path if os.path.isabs(path) else os.path.join(VERIF, path)))
    pid = doc["property"]
    prop = get_prop(pid)
    if "case" not in doc:
        print("replay names obligations that no longer check: %s" % doc.get("no_longer_checks", doc.get("error")))
        return main_check(pid, doc.get("tier", "quick"), doc.get("seed", 0))
    stage = Stage()
    try:
        res, logs = evaluate_cases(stage, pid, prop, [doc["case"]])
        r = res[0]
        print(json.dumps({"case": r["case"], "impl_out": r["out"], "flags": r["flags"]}, default=str)[:4000])
        print(explain_case(pid, prop, r))
        if r["flags"] is None or not (r["flags"] & 2):
            print("VIOLATION property=%s replay=%s" % (pid, path))
            return 1
        print("replayed case passes on the current tree")
        return 0
    finally:
        stage.cleanup()
