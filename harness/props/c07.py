"""C07 -- scores depend on the data, not on its presentation (metamorphic, API level)."""
import math
import random

import coqfmt as cf
from props import nncommon as nn
from props.c01 import materialise

RULE = ("cases = random datasets (1-7 rows, 1-4 points, all groupings, table and real accuracy utilities) WITHOUT tied "
        "reduced distances (C01 allows any tie order, so presentations may legitimately differ on ties), each run in "
        "up to 8 presentations: rows permuted together with labels and provenance, validation permuted, validation "
        "duplicated (half of the real-utility cases re-fit ONE importance object carrying an identity feature pipeline for every presentation), distances through x->2x+1 and x->x^2, class labels injectively renamed with a changed sort order "
        "(accuracy utility), BATCH_DISTANCE_MATRIX_SIZE patched to 1 / 3 / n_train / 2^25 on the staged module; plus "
        "datasets with two interchangeable units. Every presentation is compared with the model, and the presentations "
        "with each other, inside Coq; non-trivial = two units receive different scores; distinct = distinct JSON")
EXHAUSTIVE = {"quick": False, "thorough": False}
SHARD = 40
JOBS = 12
COQ_IMPORTS = "From DS Require Import Check.C01."
TRUSTED = ["argsort hints validated in Coq (as C01)", "patching a module-level constant of the staged copy"]
ASSUMPTIONS = ["untied reduced distances (except fully interchangeable units)"]


def permute_rows(ds, pi):
    """new row k = old row pi[k]"""
    d = dict(ds)
    d["labels"] = [ds["labels"][i] for i in pi]
    d["D"] = [[col[i] for i in pi] for col in ds["D"]]
    if "features" in ds:
        d["features"] = [ds["features"][i] for i in pi]
    if ds["grouping"]["kind"] == "default":
        d["owner"] = list(range(ds["n_train"]))
        umap = list(pi)
    else:
        owner = [ds["owner"][i] for i in pi]
        d["owner"] = owner
        d["grouping"] = {"kind": "grouped", "ids": owner}
        units = sorted(set(owner))
        assert units == list(range(ds["n_units"]))
        umap = list(range(ds["n_units"]))
    return d, umap


def permute_val(ds, pj):
    d = dict(ds)
    for k in ("D", "U", "nulls", "y_test"):
        d[k] = [ds[k][j] for j in pj]
    if "features_test" in ds:
        d["features_test"] = [ds["features_test"][j] for j in pj]
    d["n_test"] = len(pj)
    return d, list(range(ds["n_units"]))


def gen(rng, tier):
    cases = []
    N = {"quick": 140, "search": 500, "thorough": 1200}[tier]
    for k in range(N):
        acc = k % 4 == 3
        ds = nn.rand_dataset(rng, max_rows=7, max_points=4, ties=False)
        while ds["n_units"] < 2 or ds["grouping"]["kind"] == "cand3" or (len(set(ds["labels"])) < 2 and rng.random() < 0.8):
            ds = nn.rand_dataset(rng, max_rows=7, max_points=4, ties=False)
        if acc:
            ds["utility"] = "accuracy"
            while True:     # real features: pairwise DISTINCT distances to every validation point (checked exactly)
                ds["features"] = [[rng.randint(-8, 8) / 2.0, rng.randint(-8, 8) / 2.0] for _ in range(ds["n_train"])]
                ds["features_test"] = [[rng.randint(-8, 8) / 2.0 + 0.125, rng.randint(-8, 8) / 4.0 + 0.0625] for _ in range(ds["n_test"])]
                if all(len(set((a[0] - t[0]) ** 2 + (a[1] - t[1]) ** 2 for a in ds["features"])) == ds["n_train"]
                       for t in ds["features_test"]):
                    break
        if ds["grouping"]["kind"] == "fork":
            ds["grouping"] = {"kind": "grouped", "ids": ds["owner"]}
        variants = []
        pi = list(range(ds["n_train"]))
        rng.shuffle(pi)
        variants.append(("rowperm",) + permute_rows(ds, pi))
        pj = list(range(ds["n_test"]))
        rng.shuffle(pj)
        variants.append(("valperm",) + permute_val(ds, pj))
        variants.append(("valdup",) + permute_val(ds, list(range(ds["n_test"])) * rng.randint(2, 3)))
        if not acc:
            for name, f in (("mono_affine", lambda x: 2 * x + 1), ("mono_square", lambda x: x * x)):
                d = dict(ds)
                d["D"] = [[f(x) for x in col] for col in ds["D"]]
                variants.append((name, d, list(range(ds["n_units"]))))
        else:
            classes = sorted(set(ds["labels"]))
            new = rng.sample([-9, -4, 2, 6, 11, 17, 30], len(classes))
            ren = dict(zip(classes, new))
            d = dict(ds)
            d["labels"] = [ren[l] for l in ds["labels"]]
            d["y_test"] = [ren[l] for l in ds["y_test"]]
            variants.append(("rename", d, list(range(ds["n_units"]))))
        for b in rng.sample([1, 3, ds["n_train"], 2 ** 25], 2):
            d = dict(ds)
            d["batch"] = b
            variants.append(("batch%d" % b, d, list(range(ds["n_units"]))))
        equal = []
        if not acc and k % 5 == 0 and ds["grouping"]["kind"] != "default" and ds["n_train"] <= 5:
            # clone one unit: same rows (labels, distances) under a new unit id -> interchangeable with the original
            src = rng.randrange(ds["n_units"])
            rows = [r for r in range(ds["n_train"]) if ds["owner"][r] == src]
            new_id = ds["n_units"]
            ds = dict(ds)
            ds["labels"] = ds["labels"] + [ds["labels"][r] for r in rows]
            ds["D"] = [col + [col[r] for r in rows] for col in ds["D"]]
            ds["owner"] = ds["owner"] + [new_id] * len(rows)
            ds["grouping"] = {"kind": "grouped", "ids": ds["owner"]}
            ds["n_train"] += len(rows)
            ds["n_units"] += 1
            equal = [[src, new_id]]
            variants = []
        cases.append({"base": ds, "variants": [{"name": v[0], "ds": v[1], "umap": v[2]} for v in variants],
                      "equal": equal, "seed": rng.randrange(1 << 30), "reuse": bool(acc and rng.random() < 0.5)})
    return cases


# ----------------------------------------------------------------------------- implementation side
def run_one(ds, shared=None):
    import numpy as np
    import datascope.importance.shapley as sh
    old = sh.BATCH_DISTANCE_MATRIX_SIZE
    batch = []
    try:
        if "batch" in ds:
            sh.BATCH_DISTANCE_MATRIX_SIZE = ds["batch"]
            batch = [[ds["batch"], ds["n_train"], ds["n_test"], int(sh.get_test_batch_size(ds["n_train"], ds["n_test"]))],
                     [ds["batch"], 7 * ds["n_train"] + 1, 5 * ds["n_test"] + 3,
                      int(sh.get_test_batch_size(7 * ds["n_train"] + 1, 5 * ds["n_test"] + 3))]]
        if ds["utility"] == "accuracy":
            from props.c01 import run_impl as r1
            out = r1(ds, shared=shared)
        else:
            out = {"scores": nn.run_neighbor(ds)}
    finally:
        sh.BATCH_DISTANCE_MATRIX_SIZE = old
    out["batch"] = batch
    return out


def tie_probe(seed):
    """Presentations that keep every tie where it is (an order-REVERSING renaming of the classes with the utility table re-indexed
    accordingly; strictly increasing distance transforms whose range is negative) on a dataset WITH exactly tied distances between
    differently labelled rows: the scores must not move at all.  (Row permutations are excluded: they legitimately change which of
    two tied rows comes first, C01 allows any tie order.)"""
    rng = random.Random(seed)
    for _ in range(50):
        ds = nn.rand_dataset(rng, max_rows=6, max_points=2, ties=True)
        if len(set(ds["labels"])) >= 2 and ds["n_test"] <= 4 and nn.n_ties(ds) > 0:
            break
    else:
        return
    ds["refit_history"] = False
    s0 = nn.run_neighbor(ds)
    ren = dict(ds, labels=[-l for l in ds["labels"]], y_test=[-l for l in ds["y_test"]], U=[list(reversed(col)) for col in ds["U"]])
    assert nn.run_neighbor(ren) == s0, "renaming the classes (order reversed) changed the scores of a dataset with tied distances"
    for name, f in (("d - 10", lambda x: x - 10.0), ("-1 / d", lambda x: -1.0 / x), ("log d", lambda x: math.log(x))):
        mono = dict(ds, D=[[f(x) for x in col] for col in ds["D"]])
        assert nn.run_neighbor(mono) == s0, "the strictly increasing transform %s of the distances changed the scores" % name


def run_impl(c):
    tie_probe(c["seed"])
    # half of the real-utility cases run every presentation through ONE importance object (with an identity feature
    # pipeline), re-fitted for each presentation: nothing of an earlier fit may survive
    shared = {} if c.get("reuse") else None
    return {"base": run_one(c["base"], shared), "variants": [run_one(v["ds"], shared) for v in c["variants"]]}


# ----------------------------------------------------------------------------- Coq side
def emit_one(ds, o, seed):
    scores = [float.fromhex(h) for h in o["scores"]]
    if any(math.isnan(s) or math.isinf(s) for s in scores):
        return None
    m = materialise(ds, o)
    alts, _ = nn.order_alternatives(m, random.Random(seed), limit=4)
    return nn.emit_c01(m, alts, o["scores"], do_spec=m["n_units"] <= 5)


def emit(c, o):
    b = emit_one(c["base"], o["base"], c["seed"])
    if b is None:
        return None
    vs = []
    batch = list(o["base"]["batch"])
    for v, ov in zip(c["variants"], o["variants"]):
        t = emit_one(v["ds"], ov, c["seed"])
        if t is None:
            return None
        vs.append("(%s, %s)" % (t, cf.nats(v["umap"])))
        batch += ov["batch"]
    return "(C07.mkCase %s %s %s %s)" % (b, cf.lst(vs), cf.natpairs([tuple(e) for e in c["equal"]]),
                                      cf.lst(["(%s, %s, %s, %s)" % tuple("(%d)%%N" % x for x in t) for t in batch]))


def nontrivial(c, o):
    return isinstance(o, dict) and "base" in o and len(set(o["base"]["scores"])) > 1


def distribution(cases, outs):
    from collections import Counter
    return {"presentations": dict(Counter(v["name"].rstrip("0123456789") for c in cases for v in c["variants"])),
            "utility": dict(Counter(c["base"]["utility"] for c in cases)),
            "interchangeable_unit_cases": sum(1 for c in cases if c["equal"]),
            "units": dict(sorted(Counter(c["base"]["n_units"] for c in cases).items())),
            "exceptions": dict(Counter(o["exc"] for o in outs if isinstance(o, dict) and "exc" in o))}


def shrink(c):
    for i in range(len(c["variants"])):
        d = dict(c)
        d["variants"] = [c["variants"][i]]
        if len(c["variants"]) > 1:
            yield d


# functions of the implementation this property is anchored in: their line coverage under the correspondence cases is
# measured on the staged copy and reported in the evidence (implementation_line_coverage)
ANCHORS = [
    "datascope/importance/shapley.py:ShapleyImportance._shapley_neighbor",
    "datascope/importance/shapley.py:get_test_batch_size",
    "datascope/importance/shapley.py:get_unit_labels_and_distances",
    "datascope/importance/utility.py:SklearnModelAccuracy.elementwise_score",
    "datascope/importance/utility.py:SklearnModelAccuracy.elementwise_null_score",
]

MANIFEST = {
    "text": "Proof: C07_validation_permuted, C07_validation_duplicated, C07_monotone_rows/_orders (strictly increasing "
            "distance transforms keep every unit's nearest row and exactly the admissible rank orders), "
            "C07_units_renamed (row reordering = unit renaming), C07_batch_size (get_test_batch_size = n_test for every "
            "budget) + C07_batch_loop_general, C07_interchangeable_units (Shapley symmetry), "
            "C07_label_renaming (in full: injective renaming of the class labels, any change of the class sort order and of "
            "the tied class chosen by the null vector), via C07_label_renaming_utilities and "
            "C07_null_vector_only_through_sum; C07_null_shift. "
            "Tied to the code metamorphically at API level: each dataset in up to 8 presentations, every presentation "
            "vs the model and the presentations vs each other, inside Coq.",
    "note": "Trusted: Coq kernel + vm_compute; harness; argsort hints validated. Untied reduced distances only.",
    "technique": "Coq proof (permutation/duplication/monotonicity/relabelling lemmas on the kernel model) + metamorphic "
                 "model/implementation correspondence evaluated by vm_compute",
}
