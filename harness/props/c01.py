"""C01 -- 1-NN neighbor scores are the exact Shapley values of the 1-NN utility game (API level)."""
import itertools
import math
import random

import coqfmt as cf
from props import nncommon as nn

RULE = ("cases = exhaustive universe (<=3 rows, every grouping of rows into units, every label vector over 2 classes, "
        "every weak order of distances incl. ties, 1 validation point [quick] / 2 points [thorough]) + random datasets "
        "(1-7 rows, 1-4 points, 1-4 classes with non-contiguous/negative labels, groupings: default / Provenance(data=ids) "
        "/ ndarray ids / fork / a default provenance whose rows are reassigned in place, ~35% with tied distances, ~15% of the untied ones at magnitude 2^27, 3% with 257-300 validation points, 30% as the second fit of ONE object on the same feature array (first fit: rotated labels), generated utility tables and null vectors in {-4..4}/{1,2,4}) "
        "through ShapleyImportance('neighbor').fit(...).score(...) with an injected distance callable and table utility; "
        "plus the real accuracy utility with the default minkowski distance; non-trivial = at least two units receive "
        "different scores; distinct = distinct JSON of the case")
# the exhaustive small universe (<= 3 rows, every order / labelling / grouping) is by nature mostly made of cases in which all
# units score alike; the share of non-trivial cases is reported in the evidence
ALLOW_TRIVIAL = True
EXHAUSTIVE = {"quick": True, "thorough": True}
SHARD = 120
JOBS = 12
TRUSTED = ["numpy argsort is used only as a HINT: every rank order (and every tie permutation tried) is validated inside "
           "Coq as a permutation of the units that sorts the model's reduced distances",
           "sklearn LabelEncoder = position among sorted distinct labels; np.argmin = first minimum"]
ASSUMPTIONS = ["every unit owns at least one row (C01 quantifies over groupings of rows into units)",
               "binary64 results are compared with exact rationals up to 2^-40 * (1 + max |utility|)"]


def weak_orders(n):
    """all weak orders of n items as distance vectors with values in 1..n (canonical: dense ranks)"""
    res = []
    for v in itertools.product(range(1, n + 1), repeat=n):
        if set(v) == set(range(1, len(set(v)) + 1)):
            res.append(list(v))
    return res


def set_partitions(n):
    if n == 0:
        yield []
        return
    for part in set_partitions(n - 1):
        yield part + [max(part) + 1 if part else 0]
        for b in sorted(set(part)):
            yield part + [b]


def universe(points):
    for n_train in (1, 2, 3):
        for owner in set_partitions(n_train):
            units = sorted(set(owner))
            owner = [units.index(o) for o in owner]
            for labels in itertools.product([0, 1], repeat=n_train):
                if len(set(labels)) < (2 if n_train > 1 else 1) and n_train > 1 and labels[0] == 1:
                    continue
                ncls = len(set(labels))
                for ds_ in itertools.product(weak_orders(n_train), repeat=points):
                    yield {"n_train": n_train, "n_test": points, "labels": list(labels),
                           "D": [[float(x) for x in d] for d in ds_],
                           "U": [[1.0, -2.0][:ncls] if j == 0 else [0.5, 3.0][:ncls] for j in range(points)],
                           "nulls": [0.25, -1.0][:points], "owner": owner, "n_units": max(owner) + 1,
                           "grouping": {"kind": "grouped", "ids": owner} if owner != list(range(n_train)) else {"kind": "default"},
                           "utility": "table", "y_test": [labels[0]] * points}


def gen(rng, tier):
    cases = list(universe(1))
    if tier == "thorough":
        cases += list(universe(2))
    n = {"quick": 260, "search": 1500, "thorough": 3000}[tier]
    for _ in range(n):
        cases.append(nn.rand_dataset(rng))
    for _ in range({"quick": 40, "search": 100, "thorough": 300}[tier]):
        ds = nn.rand_dataset(rng, max_rows=6, max_points=4, max_classes=3, ties=False)
        ds["utility"] = "accuracy"
        ds["features"] = [[rng.randint(-8, 8) / 2.0 for _ in range(2)] for _ in range(ds["n_train"])]
        ds["features_test"] = [[rng.randint(-8, 8) / 2.0 + 0.125 for _ in range(2)] for _ in range(ds["n_test"])]
        cases.append(ds)
    for c in cases:
        c["seed"] = rng.randrange(1 << 30)
    return cases


def corpus():
    return [{"n_train": 4, "n_test": 1, "labels": [0, 1, 1, 2], "D": [[1.0, 1.0, 2.0, 0.5]], "U": [[1.0, 0.0, 3.0]],
             "nulls": [0.5], "owner": [0, 0, 1, 1], "n_units": 2, "grouping": {"kind": "grouped", "ids": [4, 4, 9, 9]},
             "utility": "table", "y_test": [1], "seed": 1}]


# ----------------------------------------------------------------------------- implementation side
def run_impl(c, shared=None):
    """shared: a dict that keeps ONE ShapleyImportance object (with an identity feature pipeline) across calls"""
    import numpy as np
    if c["utility"] == "accuracy":
        from datascope.importance.shapley import ShapleyImportance, DEFAULT_NN_DISTANCE
        from datascope.importance.utility import SklearnModelAccuracy
        from sklearn.neighbors import KNeighborsClassifier
        X = np.array(c["features"], dtype=float)
        Xv = np.array(c["features_test"], dtype=float)
        y, yv = np.array(c["labels"]), np.array(c["y_test"])
        if shared is None:
            imp = ShapleyImportance(method="neighbor", utility=SklearnModelAccuracy(KNeighborsClassifier(n_neighbors=1)))
        else:
            if "imp" not in shared:
                from sklearn.preprocessing import FunctionTransformer
                shared["imp"] = ShapleyImportance(method="neighbor", pipeline=FunctionTransformer(),
                                                  utility=SklearnModelAccuracy(KNeighborsClassifier(n_neighbors=1)))
            imp = shared["imp"]
        imp.fit(X, y, provenance=nn.make_provenance(c))
        s = np.asarray(imp.score(Xv, yv), dtype=float)
        D = DEFAULT_NN_DISTANCE(X, Xv)
        return {"scores": [v.hex() for v in s.tolist()], "D": [[float(D[r, j]).hex() for r in range(D.shape[0])]
                                                                 for j in range(D.shape[1])]}
    return {"scores": nn.run_neighbor(c)}


# ----------------------------------------------------------------------------- Coq side
def materialise(c, o):
    """the dataset the model sees; for the real accuracy utility the tables are computed here, independently"""
    ds = dict(c)
    if c["utility"] == "accuracy":
        classes = sorted(set(c["labels"]))
        ds["D"] = [[float.fromhex(h) for h in col] for col in o["D"]]
        ds["U"] = [[1.0 if cl == yt else 0.0 for cl in classes] for yt in c["y_test"]]
        # null: first training class of minimal constant-predictor accuracy
        accs = [sum(1 for yt in c["y_test"] if yt == cl) for cl in classes]
        best = classes[accs.index(min(accs))]
        ds["nulls"] = [1.0 if yt == best else 0.0 for yt in c["y_test"]]
    return ds


def emit(c, o):
    scores = [float.fromhex(h) for h in o["scores"]]
    if any(math.isnan(s) or math.isinf(s) for s in scores):
        return None
    ds = materialise(c, o)
    alts, _ = nn.order_alternatives(ds, random.Random(c.get("seed", 0)))
    return nn.emit_c01(ds, alts, o["scores"])


def nontrivial(c, o):
    return isinstance(o, dict) and "scores" in o and len(set(o["scores"])) > 1


def distribution(cases, outs):
    from collections import Counter
    return {"rows": dict(sorted(Counter(c["n_train"] for c in cases).items())),
            "units": dict(sorted(Counter(c["n_units"] for c in cases).items())),
            "points": dict(sorted(Counter(c["n_test"] for c in cases).items())),
            "classes": dict(sorted(Counter(len(set(c["labels"])) for c in cases).items())),
            "grouping": dict(Counter(c["grouping"]["kind"] for c in cases)),
            "utility": dict(Counter(c["utility"] for c in cases)),
            "cases_with_tied_reduced_distances": sum(1 for c in cases if c["utility"] == "table" and nn.n_ties(c) > 0),
            "exceptions": dict(Counter(o["exc"] for o in outs if isinstance(o, dict) and "exc" in o))}


def shrink(c):
    if c["utility"] != "table":
        return
    if c["n_test"] > 1:
        for j in range(c["n_test"]):
            d = dict(c)
            d["n_test"] = c["n_test"] - 1
            for k in ("D", "U", "nulls", "y_test"):
                d[k] = c[k][:j] + c[k][j + 1:]
            yield d
    if c["n_train"] > 1:
        for r in range(c["n_train"]):
            owner = c["owner"][:r] + c["owner"][r + 1:]
            labels = c["labels"][:r] + c["labels"][r + 1:]
            if len(set(labels)) != len(set(c["labels"])):
                continue
            units = sorted(set(owner))
            d = dict(c)
            d["n_train"] = c["n_train"] - 1
            d["labels"] = labels
            d["owner"] = [units.index(x) for x in owner]
            d["n_units"] = len(units)
            d["D"] = [col[:r] + col[r + 1:] for col in c["D"]]
            d["grouping"] = {"kind": "grouped", "ids": d["owner"]}
            yield d
    if c["grouping"]["kind"] != "default" and c["owner"] != list(range(c["n_train"])):
        d = dict(c)
        d["owner"] = list(range(c["n_train"]))
        d["n_units"] = c["n_train"]
        d["grouping"] = {"kind": "default"}
        yield d


# functions of the implementation this property is anchored in: their line coverage under the correspondence cases is
# measured on the staged copy and reported in the evidence (implementation_line_coverage)
ANCHORS = [
    "datascope/importance/shapley.py:ShapleyImportance._shapley_neighbor",
    "datascope/importance/shapley.py:compute_shapley_1nn_mapfork",
    "datascope/importance/shapley.py:get_unit_labels_and_distances",
    "datascope/importance/shapley.py:get_test_batch_size",
    "datascope/importance/shapley.py:compute_all_importances",
]

MANIFEST = {
    "text": "Proof: C01_kernel_is_shapley (the kernel's backward recurrence at every rank equals the Shapley value of "
            "the 1-NN game, all n, all orders, all utilities), C01_neighbor_is_shapley (any number of validation "
            "points, mean game), C01_game_is_nearest_present_row (under any order sorting the reduced distances the "
            "game is 'utility of the label of a nearest present row', null when no unit is present), C01_simple_fast_path (the "
            "fast path taken for a provenance flagged simple IS the per-unit reduction when row r belongs to unit r; the flag's "
            "soundness after any edit history is C19_simple_flag_sound, finding F19) -- all in Q, for "
            "all sizes. Tied to the code at API level: ShapleyImportance('neighbor') with injected distance/utility "
            "tables; scores compared inside Coq with the model AND with the Shapley value by definition of the "
            "row-level game (exponential, <=7 units), exhaustive small universe + random datasets with ties.",
    "note": "Trusted: Coq kernel + vm_compute; harness; argsort only as a validated hint; LabelEncoder/argmin as "
            "modelled; float results compared with exact rationals up to 2^-40*scale.",
    "technique": "Coq proof (Shapley axioms, OR-game decomposition, induction over rank orders) about an executable "
                 "model + API-level model/implementation correspondence evaluated by vm_compute",
}
