"""C13 -- the freshly compiled kernel equals the reference kernel in double precision (unit level, bit exact)."""
import math

import coqfmt as cf

RULE = ("cases = random kernel argument arrays (1-300 units, 1-5 validation points -- and few units with 255..1025 validation points --, 1-5 classes, ~35% tied distances, "
        "utilities of magnitude 1e0..1e12 incl. thirds/sevenths and negative values) each as the second step of a two-call history on the same array objects rewritten in place, run through the extension "
        "rebuilt from shapley_cy.pyx on this run AND through the pure-Python reference kernel; both results compared "
        "bit for bit with their binary64 models evaluated inside Coq and with each other; plus large cases (8k..65k "
        "units x 16..64 points, ties) compared with each other in Python; non-trivial = at least two units receive "
        "different values; distinct = distinct JSON of the case")
EXHAUSTIVE = {"quick": False, "thorough": False}
SHARD = 25
JOBS = 8
COQ_IMPORTS = "From Coq Require Import PrimFloat.\nFrom DS Require Import Model.KernelFloat."
TRUSTED = ["Coq's primitive binary64 operations implement IEEE-754 round-to-nearest-even as the hardware does",
           "Cython + gcc code generation is checked bit-exactly on every run, not verified",
           "np.argsort results are inputs of the model (both call styles are recorded separately)"]
ASSUMPTIONS = ["'to within double-precision rounding' is checked as |cy - ref| <= 2^-40 * (1 + max|utility|); the model "
               "correspondence itself is bit-exact"]
WORKER_TIMEOUT = 3000


def gen(rng, tier):
    cases = []
    n_small = {"quick": 160, "search": 400, "thorough": 1200}[tier]
    for k in range(n_small):
        if k % 8 == 0:
            n = rng.randint(100, 300)
        elif k % 8 == 1:
            n = rng.randint(16, 99)
        else:
            n = rng.randint(1, 15)
        cases.append({"n": n, "t": rng.randint(1, 5), "c": rng.randint(1, 5), "ties": rng.random() < 0.35,
                      "mag": rng.choice([0, 0, 3, 6, 9, 12]), "seed": rng.randrange(1 << 30), "large": False})
    # MANY validation points (the property quantifies over any number of them): few units, hundreds of points, on both sides of
    # the block sizes an implementation might pick (255|256|257, 511|513, 1000, 1025)
    for k, t in enumerate([255, 256, 257, 300, 511, 513, 1000, 1025] * {"quick": 1, "search": 1, "thorough": 4}[tier]):
        cases.append({"n": rng.randint(1, 6), "t": t, "c": rng.randint(1, 4), "ties": k % 3 == 0,
                      "mag": rng.choice([0, 3, 9]), "seed": rng.randrange(1 << 30), "large": False})
    # more than 2^21 distance entries with a number of validation points that no block count divides
    for k, (n, t) in enumerate([(21000, 101), (33000, 65)] * {"quick": 1, "search": 1, "thorough": 2}[tier]):
        cases.append({"n": n, "t": t, "c": rng.randint(2, 5), "ties": k % 2 == 1,
                      "mag": rng.choice([0, 6]), "seed": rng.randrange(1 << 30), "large": True})
    for k, t in enumerate([300, 1000] * {"quick": 1, "search": 1, "thorough": 3}[tier]):
        cases.append({"n": 2000, "t": t, "c": rng.randint(2, 5), "ties": k % 2 == 0,
                      "mag": rng.choice([0, 6]), "seed": rng.randrange(1 << 30), "large": True})
    for k in range({"quick": 4, "search": 4, "thorough": 24}[tier]):
        n = rng.choice([8192, 20000] if tier != "thorough" else [8192, 20000, 65536])
        cases.append({"n": n, "t": rng.choice([16, 64]), "c": rng.randint(2, 6), "ties": k % 2 == 0,
                      "mag": rng.choice([0, 6, 12]), "seed": rng.randrange(1 << 30), "large": True})
    return cases


def corpus():
    # the three-unit witness on which the pinned float accumulator (F6, fixed) differs
    return [{"n": 3, "t": 1, "c": 2, "ties": False, "mag": 0, "seed": 0, "large": False, "fixed": True}]


def arrays(c):
    import numpy as np
    r = np.random.RandomState(c["seed"])
    n, t, k = c["n"], c["t"], c["c"]
    if c.get("fixed"):
        return (np.array([[0], [1], [0]], dtype=np.int64), np.array([[1.0], [2.0], [3.0]]),
                np.array([[1.0], [0.0]]), np.array([0.0]))
    labels = r.randint(0, k, size=(n, t)).astype(np.int64)
    if c["ties"]:
        dist = r.randint(0, max(2, n // 3), size=(n, t)).astype(np.float64) / 4.0
    else:
        dist = r.rand(n, t)
    scale = 10.0 ** c["mag"]
    kind = r.randint(0, 3)
    if kind == 0:
        utils = r.randint(-9, 10, size=(k, t)).astype(np.float64) / r.choice([1.0, 3.0, 7.0]) * scale
    elif kind == 1:
        utils = (r.rand(k, t) - 0.5) * scale
    else:
        utils = r.randint(0, 2, size=(k, t)).astype(np.float64)
    nulls = (r.rand(t) - 0.5) * scale if kind != 2 else r.randint(0, 2, size=t).astype(np.float64)
    return labels, dist, utils, nulls


def run_impl(c):
    import numpy as np
    from datascope.importance.shapley import compute_all_importances
    from datascope.importance.shapley_cy import compute_all_importances_cy
    labels, dist, utils, nulls = arrays(c)
    if not c["large"] and not c.get("fixed"):
        # a two-step history on the SAME array objects: a first call on other contents, then the buffers are rewritten
        # in place and the measured call is made (the kernels must be functions of the argument VALUES)
        other = dict(c, seed=c["seed"] ^ 0x5bd1e995)
        l0, d0, u0, n0 = arrays(other)
        bl, bd, bu, bn = l0.copy(), d0.copy(), u0.copy(), n0.copy()
        compute_all_importances_cy(bl, bd, bu, bn)
        compute_all_importances(bl, bd, bu, bn)
        np.copyto(bl, labels); np.copyto(bd, dist); np.copyto(bu, utils); np.copyto(bn, nulls)
        cy = np.asarray(compute_all_importances_cy(bl, bd, bu, bn), dtype=np.float64)
        ref = np.asarray(compute_all_importances(bl, bd, bu, bn), dtype=np.float64)
        assert np.array_equal(bd, dist) and np.array_equal(bl, labels) and np.array_equal(bu, utils)
    else:
        cy = np.asarray(compute_all_importances_cy(labels.copy(), dist.copy(), utils.copy(), nulls.copy()), dtype=np.float64)
        ref = np.asarray(compute_all_importances(labels.copy(), dist.copy(), utils.copy(), nulls.copy()), dtype=np.float64)
    assert cy.shape == (c["n"],) and ref.shape == (c["n"],), (cy.shape, ref.shape)
    if c["large"]:
        scale = 1.0 + float(np.max(np.abs(utils))) if utils.size else 1.0
        err = float(np.max(np.abs(cy - ref)))
        bad = int(np.argmax(np.abs(cy - ref)))
        return {"large": True, "max_abs_diff": err, "tol": scale * 2.0 ** -40, "bit_equal": bool(np.array_equal(cy, ref)),
                "worst_unit": bad, "distinct_values": int(len(np.unique(ref)))}
    o_ref = [np.argsort(dist[:, j]).tolist() for j in range(c["t"])]
    a0 = np.argsort(dist, axis=0)
    o_cy = [a0[:, j].tolist() for j in range(c["t"])]
    return {"cy": [x.hex() for x in cy.tolist()], "ref": [x.hex() for x in ref.tolist()], "o_ref": o_ref, "o_cy": o_cy,
            "labels": labels.tolist(), "utils": [[x.hex() for x in row] for row in utils.tolist()],
            "nulls": [x.hex() for x in nulls.tolist()],
            "scale": 1.0 + (max(abs(float(x)) for x in utils.ravel()) if utils.size else 0.0)}


def fl(h):
    return cf.fl(float.fromhex(h))


def emit(c, o):
    if o.get("large"):
        return None
    args = "(mkArgs %s %s %s %s %s %s %s)" % (
        cf.nat(c["n"]), cf.nat(c["t"]), cf.nat(c["c"]), cf.lst([cf.nats(r) for r in o["labels"]]),
        cf.lst([cf.lst([fl(h) for h in row]) for row in o["utils"]]), cf.lst([fl(h) for h in o["nulls"]]),
        cf.lst([cf.nats(r) for r in o["o_ref"]]))
    tol = o["scale"] * 2.0 ** -40
    return "(mkCase %s %s %s %s %s)" % (args, cf.lst([cf.nats(r) for r in o["o_cy"]]), cf.fl(tol),
                                         cf.lst([fl(h) for h in o["cy"]]), cf.lst([fl(h) for h in o["ref"]]))


def flags_without_coq(c, o):
    if isinstance(o, dict) and o.get("large"):
        ok = o["max_abs_diff"] <= o["tol"] and not math.isnan(o["max_abs_diff"])
        return 7 if ok else 0
    return 0


def nontrivial(c, o):
    if not isinstance(o, dict):
        return False
    if o.get("large"):
        return o["distinct_values"] > 1
    return "ref" in o and len(set(o["ref"])) > 1


def distribution(cases, outs):
    from collections import Counter
    sizes = Counter("<16" if c["n"] < 16 else "16-99" if c["n"] < 100 else "100-300" if c["n"] <= 300 else ">=8192" for c in cases)
    return {"units": dict(sizes), "validation_points": dict(Counter("<=5" if c["t"] <= 5 else "16-64" if c["t"] <= 64 else ">=255" for c in cases)), "tied": sum(1 for c in cases if c["ties"]),
            "magnitudes_1e": dict(Counter(c["mag"] for c in cases)),
            "large_bit_equal": sum(1 for o in outs if isinstance(o, dict) and o.get("large") and o["bit_equal"]),
            "large_cases": sum(1 for c in cases if c["large"]),
            "exceptions": dict(Counter(o["exc"] for o in outs if isinstance(o, dict) and "exc" in o))}


def shrink(c):
    if c.get("fixed"):
        return
    n = c["n"]
    for m in (1, 2, 3, 5, 8, n // 4, n // 2, n - 1):
        if 0 < m < n:
            d = dict(c)
            d["n"] = m
            d["large"] = m > 300 or m * c["t"] > 30000      # only small instances are evaluated inside Coq
            yield d
    if c["t"] > 1:
        d = dict(c)
        d["t"] = 1
        yield d
    if c["mag"]:
        d = dict(c)
        d["mag"] = 0
        yield d


# functions of the implementation this property is anchored in: their line coverage under the correspondence cases is
# measured on the staged copy and reported in the evidence (implementation_line_coverage)
ANCHORS = [
    "datascope/importance/shapley.py:compute_all_importances",
]

MANIFEST = {
    "text": "Proof: C13_kernels_equal -- the binary64 (Coq primitive float) models of the compiled kernel and of the "
            "reference kernel, written separately after the two sources, return the SAME float list on all argument "
            "arrays (Leibniz, i.e. bit-identical incl. NaN/-0); C13_refuted_F6 for the pinned float accumulator. Tied "
            "to the code on every run: the extension is rebuilt from shapley_cy.pyx via the repo's setup.py, both "
            "kernels are run and each is compared BIT FOR BIT with its model inside Coq (1-300 units, ties, 1e12 "
            "magnitudes), and with each other up to 65 536 units.",
    "note": "Trusted: Coq kernel incl. primitive floats (IEEE-754 binary64 as the hardware); np.argsort outputs are "
            "model inputs; Cython/gcc checked bit-exactly, not verified. Print Assumptions lists only primitive "
            "int63/float operations.",
    "technique": "Coq proof over primitive binary64 floats (induction over the loops) + bit-exact model/implementation "
                 "correspondence evaluated by vm_compute",
}
