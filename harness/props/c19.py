"""C19 -- a Provenance behaves as a mutable list of formulas (edit histories, observed after every step; incl. assignment to slices / index lists / masks)."""
import coqfmt as cf
from props.c05 import rand_formula, build_expr

RULE = ("cases = random edit histories (length <= 12) over item assignment, insert (any integer index incl. negative "
        "and out of range), assignment to a slice / index list / boolean mask (as many expressions as positions), append, del, pop(), pop(i), extend, +=, slice deletion, reverse and aliasing probes (edit a slice / keep a slice across an edit), with formulas of mixed "
        "widths 1-3 x 1-3 over <=4 units, applied to a real Provenance and to a Python list of the same expressions; "
        "after the construction and after EVERY edit: len, every row read back (literals and truth value), query under "
        "3 assignments (as index arrays and as total / partial mappings to candidate values; 30% of the cases list the candidates in reverse so that the falsy candidate is not the default), stored widths; non-trivial = at least 2 edits and (2 different kinds of edit or a change of the stored widths); "
        "distinct = distinct JSON of the case")
EXHAUSTIVE = {"quick": False, "thorough": False}
SHARD = 100
JOBS = 8
COQ_IMPORTS = "From DS Require Import Spec.Dnf Model.Provenance Model.ProvOps."
TRUSTED = ["collections.abc.MutableSequence mix-in definitions (append/extend/pop/reverse/__iadd__) as modelled",
           "numpy np.insert / np.delete / np.pad as modelled", "CPython slice.indices()"]
ASSUMPTIONS = ["edits are legal for a Python list (indices of item assignment / deletion in range); assignment to a slice, "
               "index list or boolean mask is generated with exactly as many expressions as positions selected (where a list "
               "and the array-backed container agree; a length-changing slice assignment is not supported by the container)"]


def gen(rng, tier):
    cases = []
    N = {"quick": 250, "search": 1200, "thorough": 3000}[tier]
    for _ in range(N):
        n, k = rng.randint(1, 4), rng.randint(2, 3)
        wide = rng.random() < 0.5
        f0 = lambda: rand_formula(rng, n, k, maxd=(3 if wide or rng.random() < 0.3 else 1),  # noqa: E731
                                  maxc=(3 if wide or rng.random() < 0.3 else 1))
        fs = [f0() for _ in range(rng.randint(1, 4))]
        default_start = rng.random() < 0.2
        if default_start:
            # the history starts from the DEFAULT provenance (one unit per row, built by Provenance(units=n), flagged "simple")
            k = 2
            fs = [[[(i, 1)]] for i in range(n)]
        ln = len(fs)
        ops = []
        for _ in range(rng.randint(1, 12)):
            kinds = ["insert", "insert", "append", "extend", "iadd"]
            if ln > 0:
                kinds += ["set", "set", "del", "pop", "popat", "delslice", "reverse", "probe", "setmany", "delmask"]
            kd = rng.choice(kinds)
            if kd == "set":
                ops.append(["set", rng.randrange(-ln, ln), f0()])
            elif kd == "insert":
                ops.append(["insert", rng.randint(-ln - 2, ln + 2), f0()])
                ln += 1
            elif kd == "append":
                ops.append(["append", f0()])
                ln += 1
            elif kd in ("extend", "iadd"):
                m = rng.randint(0, 2)
                ops.append([kd, [f0() for _ in range(m)]])
                ln += m
            elif kd == "del":
                ops.append(["del", rng.randrange(-ln, ln)])
                ln -= 1
            elif kd == "pop":
                ops.append(["pop"])
                ln -= 1
            elif kd == "popat":
                ops.append(["popat", rng.randrange(-ln, ln)])
                ln -= 1
            elif kd == "probe":
                # q = p[slice]; q[0] = f  -- must not touch p (a slice of a list is a new list)
                ops.append(["probe", [rng.choice([None, 0, 1]), rng.choice([None, ln, -1]), rng.choice([None, 1, 2])], f0()])
            elif kd == "setmany":
                # p[slice] = es / p[[i, j]] = es / p[mask] = es with exactly as many expressions as positions (where a list and
                # the container agree): one assignment of several rows of mixed widths
                how = rng.choice(["slice", "list", "mask"])
                if how == "slice":
                    sl = [rng.choice([None, 0, 1, -2]), rng.choice([None, 2, -1, ln]), rng.choice([None, 1, 2])]
                    pos = list(range(*slice(*sl).indices(ln)))
                    sel = ["slice", sl]
                elif how == "list":
                    pos = sorted(rng.sample(range(ln), rng.randint(1, min(3, ln))))
                    sel = ["list", [i - ln if rng.random() < 0.3 else i for i in pos]]
                else:
                    pos = [i for i in range(ln) if rng.random() < 0.5]
                    # a boolean mask, as an ndarray or as a plain Python list of bools
                    sel = [rng.choice(["mask", "masklist"]), [i in pos for i in range(ln)]]
                if pos:
                    ops.append(["setmany", sel, pos, [f0() for _ in pos]])
            elif kd == "delmask":
                m = [rng.random() < 0.4 for _ in range(ln)]
                ops.append(["delmask", rng.choice(["mask", "masklist", "poslist"]), m])
                ln -= sum(m)
            elif kd == "delslice":
                s = [rng.choice([None, 0, 1, -1, -2]), rng.choice([None, 1, 2, -1, ln]), rng.choice([None, 1, 2, -1])]
                ops.append(["delslice", s])
                ln -= len(range(*slice(*s).indices(ln)))
            else:
                ops.append(["reverse"])
        xs = [[rng.randrange(k) for _ in range(n)] for _ in range(3)]
        cases.append({"n": n, "k": k, "fs": fs, "ops": ops, "xs": xs, "cand_rev": (not default_start) and rng.random() < 0.3,
                      "default_start": default_start})
    return cases


def corpus():
    ab = [[(0, 1), (1, 1)]]
    return [
        # F7 (fixed): narrower formula assigned / appended / reversed
        {"n": 3, "k": 2, "fs": [ab, ab], "ops": [["set", 0, [[(2, 1)]]], ["append", [[(2, 0)]]], ["reverse"]],
         "xs": [[1, 1, 1], [0, 1, 0], [1, 1, 0]]},
        # F13 (fixed): insert with negative / out-of-range index
        {"n": 3, "k": 2, "fs": [[[(0, 1)]], [[(1, 1)]], [[(2, 1)]]],
         "ops": [["insert", -1, [[(0, 0)]]], ["insert", -9, [[(1, 0)]]], ["insert", 9, [[(2, 0)], [(0, 1), (1, 1)]]]],
         "xs": [[1, 1, 1], [0, 0, 0], [1, 0, 1]]},
    ]


# ----------------------------------------------------------------------------- implementation side
def run_impl(c):
    import numpy as np
    from datascope.utility.provenance import Units, Provenance, Equality, Conjunction, Disjunction
    n, k = c["n"], c["k"]
    cand = list(range(k))[::-1] if c.get("cand_rev") else list(range(k))      # candidate VALUES by position
    units = Units(units=n, candidates=cand)

    def mk(f):
        return build_expr(units, f, "min")

    def lits_of(e):
        if isinstance(e, Equality):
            return [[(units.units_index[e.unit.key], units.candidates_index[e.value])]]
        if isinstance(e, Conjunction):
            return [[lits_of(x)[0][0] for x in e._elements]]
        return [lits_of(x)[0] for x in e._elements]

    p = Provenance(units=units) if c.get("default_start") else Provenance([mk(f) for f in c["fs"]])
    ref = [mk(f) for f in c["fs"]]
    state = {"ok": True}

    def observe():
        view = [lits_of(p[i]) for i in range(len(p))]
        qs = [np.asarray(p.query(np.array(x, dtype=int))).tolist() for x in c["xs"]]
        # the same assignments given as mappings unit -> candidate VALUE (total, and partial: omitted units take the
        # first candidate) must select the same rows
        for x, q in zip(c["xs"], qs):
            if np.asarray(p.query({i: cand[x[i]] for i in range(n)})).tolist() != q:
                state["ok"] = False
            xpart = [x[i] if i % 2 else 0 for i in range(n)]
            if np.asarray(p.query({i: cand[x[i]] for i in range(n) if i % 2})).tolist() != \
                    np.asarray(p.query(np.array(xpart, dtype=int))).tolist():
                state["ok"] = False
        # the "simple" flag is a promise used by the neighbor fast path: row i is exactly `unit i == candidate 1`, for every unit
        if p.is_simple and view != [[[(i, 1)]] for i in range(n)]:
            state["ok"] = False
        # the same observations on the reference list
        if len(p) != len(ref):
            state["ok"] = False
        else:
            for x, q in zip(c["xs"], qs):
                xv = [cand[v] for v in x]          # Expression.eval reads candidate VALUES
                if q != [bool(e.eval(xv)) for e in ref]:
                    state["ok"] = False
                if [bool(p[i].eval(xv)) for i in range(len(p))] != [bool(e.eval(xv)) for e in ref]:
                    state["ok"] = False
        return {"len": len(p), "view": view, "queries": qs, "shape": [int(p.data.shape[1]), int(p.data.shape[2])]}

    obs = [observe()]

    def snapshot(q):
        return [lits_of(q[i]) for i in range(len(q))]

    for op in c["ops"]:
        kd = op[0]
        watcher = p[0:len(p)]              # a full slice taken BEFORE the edit must not see the edit
        watcher_before = snapshot(watcher)
        if kd == "set":
            e = mk(op[2]); p[op[1]] = e; ref[op[1]] = e
        elif kd == "insert":
            e = mk(op[2]); p.insert(op[1], e); ref.insert(op[1], e)
        elif kd == "append":
            e = mk(op[1]); p.append(e); ref.append(e)
        elif kd == "extend":
            es = [mk(f) for f in op[1]]; p.extend(es); ref.extend(es)
        elif kd == "iadd":
            es = [mk(f) for f in op[1]]; p += es; ref += es
        elif kd == "del":
            del p[op[1]]; del ref[op[1]]
        elif kd == "pop":
            a = p.pop(); b = ref.pop()
            if lits_of(a) != [list(map(tuple, cj)) for cj in lits_of(b)] and \
                    any(bool(a.eval([cand[v] for v in x])) != bool(b.eval([cand[v] for v in x])) for x in c["xs"]):
                state["ok"] = False
        elif kd == "popat":
            a = p.pop(op[1]); b = ref.pop(op[1])
            if any(bool(a.eval([cand[v] for v in x])) != bool(b.eval([cand[v] for v in x])) for x in c["xs"]):
                state["ok"] = False
        elif kd == "setmany":
            es = [mk(f) for f in op[3]]
            how, arg = op[1]
            if how == "slice":
                p[slice(*arg)] = es
            elif how == "list":
                p[list(arg)] = es
            elif how == "masklist":
                p[list(arg)] = es
            else:
                p[np.array(arg, dtype=bool)] = es
            for i, e in zip(op[2], es):
                ref[i] = e
        elif kd == "delmask":
            pos = [i for i, b in enumerate(op[2]) if b]
            # reading the selection first: as many rows as the mask selects, equal to the list's
            sel = p[list(op[2])] if op[1] == "masklist" else p[np.array(op[2], dtype=bool)] if op[1] == "mask" else p[pos]
            if len(sel) != len(pos) or snapshot(sel) != [lits_of(ref[i]) for i in pos]:
                state["ok"] = False
            if op[1] == "masklist":
                del p[list(op[2])]
            elif op[1] == "mask":
                del p[np.array(op[2], dtype=bool)]
            else:
                del p[pos]
            for i in reversed(pos):
                del ref[i]
        elif kd == "delslice":
            del p[slice(*op[1])]; del ref[slice(*op[1])]
        elif kd == "reverse":
            p.reverse(); ref.reverse()
        elif kd == "probe":
            q = p[slice(*op[1])]
            qref = ref[slice(*op[1])]
            if len(q) != len(qref):
                state["ok"] = False
            if len(q) > 0:
                q[0] = mk(op[2])       # ref (the list) is untouched by an edit of its slice
        if snapshot(watcher) != watcher_before:
            state["ok"] = False
        obs.append(observe())
    return {"obs": obs, "list_ok": state["ok"]}


# ----------------------------------------------------------------------------- Coq side
def emit(c, o):
    ln = len(c["fs"])
    rops = []
    for op in c["ops"]:
        kd = op[0]
        if kd == "set":
            rops.append("(RSet %s %s)" % (cf.z(op[1]), cf.dnf(op[2])))
        elif kd == "insert":
            rops.append("(RInsert %s %s)" % (cf.z(op[1]), cf.dnf(op[2]))); ln += 1
        elif kd == "append":
            rops.append("(RAppend %s)" % cf.dnf(op[1])); ln += 1
        elif kd in ("extend", "iadd"):
            rops.append("(RExtend %s)" % cf.dnfs(op[1])); ln += len(op[1])
        elif kd == "del":
            rops.append("(RDel %s)" % cf.z(op[1])); ln -= 1
        elif kd == "pop":
            rops.append("RPop"); ln -= 1
        elif kd == "popat":
            rops.append("(RPopAt %s)" % cf.z(op[1])); ln -= 1
        elif kd == "delslice":
            pos = list(range(*slice(*op[1]).indices(ln)))
            rops.append("(RDelMany %s)" % cf.nats(pos)); ln -= len(pos)
        elif kd == "setmany":
            rops.append("(RSetMany %s %s)" % (cf.nats(op[2]), cf.dnfs(op[3])))
        elif kd == "delmask":
            pos = [i for i, b in enumerate(op[2]) if b]
            rops.append("(RDelMany %s)" % cf.nats(pos)); ln -= len(pos)
        elif kd == "probe":
            rops.append("(RDelMany [])")      # editing a slice is a no-op on the container itself
        else:
            rops.append("RReverse")
    obs = cf.lst(["(mkObs %s %s %s (%s, %s))" % (cf.nat(ob["len"]), cf.dnfs(ob["view"]),
                                                 cf.lst([cf.bools(q) for q in ob["queries"]]),
                                                 cf.nat(ob["shape"][0]), cf.nat(ob["shape"][1])) for ob in o["obs"]])
    return "(mkCase %s %s %s %s %s %s)" % (cf.nat(c["n"]), cf.dnfs(c["fs"]), cf.lst(rops),
                                            cf.lst([cf.nats(x) for x in c["xs"]]), obs, cf.b(o["list_ok"]))


def nontrivial(c, o):
    if not isinstance(o, dict) or "obs" not in o:
        return False
    shapes = set(tuple(ob["shape"]) for ob in o["obs"])
    return len(c["ops"]) >= 2 and (len(set(op[0] for op in c["ops"])) >= 2 or len(shapes) > 1)


def distribution(cases, outs):
    from collections import Counter
    ops = Counter(op[0] for c in cases for op in c["ops"])
    hist = Counter(len(c["ops"]) for c in cases)
    neg = sum(1 for c in cases for op in c["ops"] if op[0] in ("set", "insert", "del", "popat") and op[1] < 0)
    return {"op_kinds": dict(ops), "history_lengths": dict(sorted(hist.items())), "negative_indices": neg, "histories_starting_from_the_default_provenance": sum(1 for c in cases if c.get("default_start")),
            "exceptions": dict(Counter(o["exc"] for o in outs if isinstance(o, dict) and "exc" in o))}


def shrink(c):
    ops = c["ops"]
    for i in range(len(ops) - 1, -1, -1):
        d = dict(c)
        d["ops"] = ops[:i] + ops[i + 1:]
        if _legal(d):
            yield d
    for i in range(len(c["fs"])):
        if len(c["fs"]) > 1:
            d = dict(c)
            d["fs"] = c["fs"][:i] + c["fs"][i + 1:]
            if _legal(d):
                yield d


def _legal(c):
    ln = len(c["fs"])
    for op in c["ops"]:
        kd = op[0]
        if kd in ("set", "del", "popat"):
            if not (-ln <= op[1] < ln):
                return False
        if kd == "setmany":
            how, arg = op[1]
            pos = (list(range(*slice(*arg).indices(ln))) if how == "slice" else
                   [i % ln if -ln <= i < ln else None for i in arg] if how == "list" else
                   ([i for i, b in enumerate(arg) if b] if len(arg) == ln else None))
            if pos is None or None in pos or sorted(pos) != list(op[2]):
                return False
        if kd == "pop" and ln == 0:
            return False
        if kd in ("insert", "append"):
            ln += 1
        elif kd in ("extend", "iadd"):
            ln += len(op[1])
        elif kd in ("del", "pop", "popat"):
            ln -= 1
        elif kd == "delslice":
            ln -= len(range(*slice(*op[1]).indices(ln)))
        elif kd == "delmask":
            if len(op[2]) != ln:
                return False
            ln -= sum(1 for b in op[2] if b)
    return True


# functions of the implementation this property is anchored in: their line coverage under the correspondence cases is
# measured on the staged copy and reported in the evidence (implementation_line_coverage)
ANCHORS = [
    "datascope/utility/provenance.py:Provenance.__setitem__",
    "datascope/utility/provenance.py:Provenance.__getitem__",
    "datascope/utility/provenance.py:Provenance.__delitem__",
    "datascope/utility/provenance.py:Provenance.insert",
    "datascope/utility/provenance.py:Provenance.query",
    "datascope/utility/provenance.py:Provenance.__len__",
]

MANIFEST = {
    "text": "Proof (refinement, induction over the edit history): C19_refines_list / C19_step -- for every start list, "
            "every history of legal edits (assignment to one position or to several at once -- slice, index list, boolean mask --, insert, append, del, pop, extend/+=, slice deletion, reverse "
            "incl. the pairwise-swap loop C19_reverse_loop) over formulas of any widths and every assignment: length, "
            "every read-back and every query equal those of the plain list; C19_simple_flag_sound -- the container's 'simple' flag "
            "(read by the neighbor fast path) implies that the rows are the default formulas after ANY history, C19_refuted_F19 for "
            "the pinned container. Tied to the code by applying random "
            "histories to a real Provenance, to a Python list and to the model, comparing after EVERY step inside Coq.",
    "note": "Trusted: Coq kernel + vm_compute; harness; MutableSequence mix-ins, np.insert/np.delete/np.pad as "
            "modelled. Slice assignment is outside the modelled contract.",
    "technique": "Coq refinement proof (induction over operation sequences) about an executable model + stepwise "
                 "model/implementation/list correspondence evaluated by vm_compute",
}
