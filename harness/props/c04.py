"""C04 -- Monte-Carlo scores are the permutation-sampling estimator (API level; shared machinery with C16)."""
import itertools
import math
from fractions import Fraction

import coqfmt as cf
from props import c03

RULE = ("cases = random table games over 1-6 units (default / Provenance(data=ids) / random DNF provenances incl. value-0 "
        "literals, failing row sets), random seeds and 1-8 iterations, truncation and timeout disabled: score() with "
        "importance.randomstate wrapped by a recorder while numpy's and Python's GLOBAL generators are scrambled before "
        "and during the run; compared inside Coq: scores, the exact sequence of row selections, and the recorded "
        "permutations against an INDEPENDENT RandomState(seed) stream; plus scripted generators yielding every "
        "permutation equally often (exact Shapley value) and one case with 70 units; value-0-literal provenances whose "
        "empty coalition has rows are the known finding F10; non-trivial = two units differ; distinct = JSON")
EXHAUSTIVE = {"quick": False, "thorough": False}
SHARD = 100
JOBS = 12
COQ_IMPORTS = "From DS Require Import Spec.Dnf Model.MonteCarlo Check.C03."
TRUSTED = ["numpy RandomState(seed).permutation stream (an input of the model, generated independently by the harness)",
           "module attribute `time` and instance attribute `randomstate` are injectable (no source hooks)"]
ASSUMPTIONS = ["utilities are consistent: the value on no rows is the null score",
               "C04_mc_exact_when_uniform assumes v(no unit) = null, the hypothesis whose failure is finding F10"]
WORKER_TIMEOUT = 3000


def rand_mc_case(rng, truncation=False, timeout=False, n=None):
    c = c03.rand_case(rng, n=n)
    rows = c["rows"]
    # consistent utility: no rows -> the null score
    c["table"][0] = [[False] * rows, [c["null"][0], c["null"][1]]]
    c["seed"] = rng.choice([0, 1, 7, 123456, rng.randrange(1 << 30)])
    c["iters"] = rng.randint(1, 8)
    c["mean"] = [rng.randint(-6, 6), rng.choice([1, 2])]
    c["tolr"] = [rng.choice([0, 1, 1, 2, 5]), rng.choice([1, 2, 10])]
    c["steps"] = rng.choice([1, 1, 2, 3]) if truncation else 0
    c["timeout"] = rng.choice([1, 2, 3, 5, 8, 13]) if timeout else 0
    c["dt"] = 1
    c["script"] = None
    # a quarter of the cases are the SECOND score() of one fitted object: the first call plays another game (other null
    # and mean scores, selected by the validation labels) -- nothing of it may survive into the measured call
    c["warm"] = rng.random() < 0.25
    return c


def gen(rng, tier):
    cases = []
    for _ in range({"quick": 200, "search": 900, "thorough": 2500}[tier]):
        cases.append(rand_mc_case(rng))
    # every permutation equally often -> exact Shapley value
    for _ in range({"quick": 20, "search": 40, "thorough": 150}[tier]):
        n = rng.randint(1, 4)
        c = rand_mc_case(rng, n=n)
        perms = [list(p) for p in itertools.permutations(range(n))]
        copies = rng.randint(1, 2)
        script = perms * copies
        rng.shuffle(script)
        c["script"] = script
        c["uniform"] = copies
        c["iters"] = len(script)
        cases.append(c)
    # many units (more than 64)
    if tier != "search":
        n = 70
        c = {"n": n, "prov": {"kind": "default", "n": n}, "rows": n, "table": None, "additive": [rng.randint(-3, 3) for _ in range(n)],
             "null": [0, 1], "seed": 11, "iters": 2, "mean": [1, 1], "tolr": [0, 1], "steps": 0, "timeout": 0, "dt": 1,
             "script": None}
        cases.append(c)
    return cases


def corpus():
    # witness of finding F10 (open): rows x0=0 and x1=1
    return [{"n": 2, "prov": {"kind": "forms", "fs": [[[(0, 0)]], [[(1, 1)]]]}, "rows": 2,
             "table": [[[False, False], [-1, 1]], [[False, True], [2, 1]], [[True, False], [5, 1]], [[True, True], [7, 1]]],
             "null": [-1, 1], "seed": 7, "iters": 3, "mean": [0, 1], "tolr": [0, 1], "steps": 0, "timeout": 0, "dt": 1,
             "script": None}]


# ----------------------------------------------------------------------------- implementation side
def run_impl(c):
    import random as pyrandom
    import numpy as np
    import datascope.importance.shapley as sh
    from datascope.importance.shapley import ShapleyImportance
    from datascope.utility.provenance import Units, Provenance
    from datascope.importance.utility import Utility, UtilityResult
    hist, drawn, marks = [], [], []

    if c.get("table") is None:       # large additive game (no 2^n table)
        w = c["additive"]

        class U(Utility):
            def __call__(self, X_train, *a, null_score=None, **k):
                rows = sorted(int(v) for v in X_train[:, 0].tolist())
                hist.append(rows)
                r = UtilityResult()
                r.score = float(sum(w[i] for i in rows)) + (0.5 if len(rows) % 2 else 0.0) if rows else float(Fraction(*c["null"]))
                return r

            def null_score(self, *a, **k):
                return float(Fraction(*c["null"]))

            def mean_score(self, *a, **k):
                return float(Fraction(*c["mean"]))
        util = U()
    else:
        util = c03.table_utility(c, hist)
        mean = float(Fraction(*c["mean"]))
        null = float(Fraction(*c["null"]))
        phase = {"warm": False}
        util.mean_score = lambda *a, **k: (mean + 2.5 if phase["warm"] else mean)
        util.null_score = lambda *a, **k: (null - 3.0 if phase["warm"] else null)
        inner_call = util.__class__.__call__

        def noisy(self, *a, **k):      # scramble the global generators DURING the run as well
            np.random.rand(3)
            pyrandom.random()
            return inner_call(self, *a, **k)
        util.__class__.__call__ = noisy

    class Recorder:
        def __init__(self, rs):
            self.rs = rs

        def permutation(self, n):
            p = self.rs.permutation(n)
            drawn.append([int(x) for x in p])
            marks.append(len(hist))
            return p

        def __getattr__(self, name):
            return getattr(self.rs, name)

    class Script:
        def __init__(self, perms):
            self.perms = list(perms)

        def permutation(self, n):
            p = self.perms.pop(0)
            drawn.append(list(p))
            marks.append(len(hist))
            return np.array(p, dtype=int)

    class Clock:
        # first reading (start_time) is 0; every later reading is dt * (evaluations so far) + jump: a stall of `jump`
        # right after the start, so that the budget may already be exhausted at the very next reading
        def __init__(self):
            self.reads = 0

        def time(self):
            self.reads += 1
            if self.reads == 1:
                return 0.0
            return float(Fraction(c["dt"])) * len(hist) + float(Fraction(c.get("jump", 0)))

    p = c["prov"]
    if p["kind"] == "forms":
        units = Units(units=c["n"], candidates=2)
        prov = Provenance([c03.build_expr(units, f, "min") for f in p["fs"]])
    else:
        prov = c03.make_provenance(p)
    imp = ShapleyImportance(method="montecarlo", utility=util, mc_iterations=c["iters"], mc_timeout=c["timeout"],
                            mc_tolerance=float(Fraction(*c["tolr"])), mc_truncation_steps=c["steps"], seed=c["seed"])
    imp.randomstate = Script(c["script"]) if c["script"] is not None else Recorder(imp.randomstate)
    X = np.arange(c["rows"], dtype=float).reshape(-1, 1)
    imp.fit(X, np.zeros(c["rows"], dtype=int), provenance=prov)
    if c.get("warm") and c.get("table") is not None and c["script"] is None:
        import warnings
        phase["warm"] = True
        with warnings.catch_warnings():
            warnings.simplefilter("ignore")
            imp.score(np.zeros((1, 1)), np.ones(1, dtype=int))          # another game on the same fitted object
        phase["warm"] = False
        del hist[:], drawn[:], marks[:]
        imp.randomstate = Recorder(np.random.RandomState(c["seed"]))     # the measured call draws the stream from its start
    np.random.seed(c["seed"] * 7 + 3 if c["seed"] < 1000 else 99)
    pyrandom.seed(12345 + c["seed"])
    old_time = sh.time
    sh.time = Clock()
    try:
        import warnings
        with warnings.catch_warnings():
            warnings.simplefilter("ignore")
            s = np.asarray(imp.score(np.zeros((1, 1)), np.zeros(1, dtype=int)), dtype=float)
    finally:
        sh.time = old_time
    assert s.shape == (c["n"],), s.shape
    counts = [b - a for a, b in zip(marks, marks[1:] + [len(hist)])]
    return {"scores": [x.hex() for x in s.tolist()], "history": [[i in h for i in range(c["rows"])] for h in hist],
            "drawn": drawn, "counts": counts}


# ----------------------------------------------------------------------------- Coq side
def stream(c):
    import numpy as np
    if c["script"] is not None:
        return [list(p) for p in c["script"]]
    rs = np.random.RandomState(c["seed"])
    return [[int(x) for x in rs.permutation(c["n"])] for _ in range(c["iters"])]


def table_term(c):
    if c.get("table") is not None:
        return c03.table(c)
    return None


def emit(c, o):
    if c.get("table") is None:
        return None
    scores = [float.fromhex(h) for h in o["scores"]]
    sc = "None" if any(math.isnan(s) or math.isinf(s) for s in scores) else "(Some %s)" % cf.qs(scores)
    P = "(mkMC %s %s %s %s %s)" % (cf.qq(Fraction(*c["null"])), cf.qq(Fraction(*c["mean"])), cf.qq(Fraction(*c["tolr"])),
                                   cf.nat(c["steps"]), cf.qq(c["timeout"]))
    return "(C04.mkCase %s %s %s %s %s %s %s %s %s %s %s %s %s)" % (
        cf.nat(c["n"]), c03.provspec(c["prov"]), c03.table(c), P, cf.qq(Fraction(c["dt"])), cf.qq(Fraction(c.get("jump", 0))),
        cf.lst([cf.nats(p) for p in stream(c)]), cf.qq(c03.tol_of(c)), cf.nat(c.get("uniform", 0)),
        cf.lst([cf.nats(p) for p in o["drawn"]]), sc, cf.lst([cf.bools(h) for h in o["history"]]), cf.nats(o["counts"]))


def flags_without_coq(c, o):
    # the 70-unit additive game: checked here against an independent replay of the stated estimator
    if c.get("table") is None and isinstance(o, dict) and "scores" in o:
        w = c["additive"]
        null = Fraction(*c["null"])

        def val(S):
            return (Fraction(sum(w[i] for i in S)) + (Fraction(1, 2) if len(S) % 2 else 0)) if S else null
        acc = [Fraction(0)] * c["n"]
        st = stream(c)
        for pi in st:
            S = []
            prev = null
            for p in pi:
                S.append(p)
                cur = val(S)
                acc[p] += cur - prev
                prev = cur
        exp = [a / len(st) for a in acc]
        got = [Fraction(float.fromhex(h)) for h in o["scores"]]
        ok = o["drawn"] == st and all(abs(a - b) < Fraction(1, 10 ** 9) for a, b in zip(exp, got))
        return 7 if ok else 0
    return 0


def finding_tag(c, o):
    p = c["prov"]
    if p["kind"] != "forms" or c.get("table") is None:
        return None
    # rows present under the all-zero assignment whose utility differs from the null score
    present = [any(all(v == 0 for (_, v) in cj) for cj in f) for f in p["fs"]]
    if not any(present):
        return None
    for rs, v in c["table"]:
        if list(rs) == present:
            if isinstance(v, str) or Fraction(v[0], v[1]) == Fraction(*c["null"]):
                return None
            return "mc:first-marginal-vs-null:empty-coalition-has-rows"
    return None


def nontrivial(c, o):
    return isinstance(o, dict) and "scores" in o and len(set(o["scores"])) > 1


def distribution(cases, outs):
    from collections import Counter
    d = c03.distribution([c for c in cases if c.get("table") is not None], outs)
    d.update({"iterations": dict(sorted(Counter(c["iters"] for c in cases).items())),
              "scripted_uniform_cases": sum(1 for c in cases if c["script"] is not None),
              "seeds_zero": sum(1 for c in cases if c["seed"] == 0),
              "truncation_steps": dict(Counter(c["steps"] for c in cases)), "timeouts": dict(Counter(c["timeout"] for c in cases)),
              "large_unit_cases": sum(1 for c in cases if c.get("table") is None)})
    return d


def shrink(c):
    if c.get("table") is None:
        return
    if c["iters"] > 1 and c["script"] is None:
        yield dict(c, iters=c["iters"] - 1)
        yield dict(c, iters=1)
    for d in c03.shrink(c):
        d["table"][0] = [[False] * c["rows"], [c["null"][0], c["null"][1]]]
        yield d


# functions of the implementation this property is anchored in: their line coverage under the correspondence cases is
# measured on the staged copy and reported in the evidence (implementation_line_coverage)
ANCHORS = [
    "datascope/importance/shapley.py:ShapleyImportance._shapley_montecarlo",
    "datascope/utility/provenance.py:Provenance.query",
]

MANIFEST = {
    "text": "Proof: C04_mc_is_marginal_average / C04_one_permutation (for every utility, provenance, iteration count and "
            "EVERY sequence of sampled permutations the untruncated scores are the average of each unit's marginal "
            "contribution to the units preceding it), C04_mc_efficiency (sum = v(all) - null on every run), "
            "C04_before_count (counting lemma: the players before p form the set S exactly |S|!(|l|-1-|S|)! times over "
            "all permutations) and C04_mc_exact_when_uniform (every permutation sampled equally often, in any order: the "
            "estimator IS the Shapley value), C04_refuted_F10 (the first marginal is taken against null, not v(no "
            "unit): open known finding). Tied to the code at API level: recorder around "
            "importance.randomstate, scrambled global generators, independent RandomState(seed) stream, call history.",
    "note": "Trusted: Coq kernel + vm_compute; harness; numpy's RandomState stream is a model input. F10 printed as "
            "KNOWN-FINDING.",
    "technique": "Coq proof (induction over permutation prefixes, telescoping) about an executable model + API-level "
                 "correspondence incl. permutation stream and call history evaluated by vm_compute",
}
