"""C05 -- Provenance.query selects exactly the rows whose formula is true (unit level at Provenance.query)."""
import itertools
import coqfmt as cf

RULE = ("cases = exhaustive universe (every DNF formula with <=2 disjuncts of <=2 distinct literals over 2 binary units, "
        "singly [quick] and in every ordered pair [thorough], x every assignment) + random ragged DNF lists "
        "(<=6 rows, <=3 disjuncts, <=3 literals, <=4 units, <=3 candidates, three expression classes), each queried as "
        "array, list, mapping (partial) and dtype=int; half of the multi-row cases then replace one row IN PLACE by another row's "
        "formula on the same container and repeat every query; plus WIDE universes (up to 260 units, up to 300 candidate values, "
        "literals on both sides of 127|128 and 255|256); a case is non-trivial when the stored array contains padding or "
        "the expected mask contains both truth values; distinct = distinct JSON of the case")
EXHAUSTIVE = {"quick": True, "thorough": True}
SHARD = 400
JOBS = 8
TRUSTED = ["numpy fancy indexing / np.pad / np.all / np.any / np.argwhere semantics as modelled in Model/Provenance.v"]
ASSUMPTIONS = ["formulas are what Python Expressions can represent: every conjunction has >= 1 literal, every "
               "disjunction >= 1 conjunction; units referenced exist (query checks len(values) == num_units)"]


# ----------------------------------------------------------------------------- generation
def _universe():
    lits = [(u, v) for u in range(2) for v in range(2)]
    conjs = [[l] for l in lits] + [list(c) for c in itertools.combinations(lits, 2)]
    forms = [[c] for c in conjs] + [list(p) for p in itertools.combinations(conjs, 2)]
    return forms


def rand_formula(rng, n, k, maxd=3, maxc=3):
    d = rng.choice([1, 1, 2, 3][:maxd + 1]) if maxd >= 3 else rng.randint(1, maxd)
    f = []
    for _ in range(d):
        c = rng.randint(1, maxc)
        f.append([(rng.randrange(n), rng.randrange(k)) for _ in range(c)])
    return f


def gen(rng, tier):
    cases = []
    forms = _universe()
    assigns = list(itertools.product(range(2), repeat=2))
    for f in forms:
        for x in assigns:
            cases.append({"n": 2, "k": 2, "fs": [f], "kinds": ["min"], "x": list(x), "m": [[0, x[0]]]})
    if tier == "thorough":
        for f, g in itertools.product(forms, repeat=2):
            for x in assigns:
                cases.append({"n": 2, "k": 2, "fs": [f, g], "kinds": ["min", "min"], "x": list(x), "m": [[1, x[1]]]})
    else:
        for _ in range(150):
            f, g = rng.choice(forms), rng.choice(forms)
            x = rng.choice(assigns)
            cases.append({"n": 2, "k": 2, "fs": [f, g], "kinds": ["min", "full"], "x": list(x), "m": []})
    nrand = {"quick": 600, "search": 3000, "thorough": 8000}[tier]
    for _ in range(nrand):
        n = rng.randint(1, 4)
        k = rng.randint(2, 3)
        rows = rng.randint(1, 6)
        fs = [rand_formula(rng, n, k) for _ in range(rows)]
        kinds = [rng.choice(["min", "min", "conj", "full"]) for _ in range(rows)]
        x = [rng.randrange(k) for _ in range(n)]
        keys = [u for u in range(n) if rng.random() < 0.6]
        m = [[u, x[u] if rng.random() < 0.8 else rng.randrange(k)] for u in keys]
        case = {"n": n, "k": k, "fs": fs, "kinds": kinds, "x": x, "m": m,
                "enc": rng.choice(["list", "list", "npints", "boollist", "boolarr", "uint8", "int16", "uint64"]),
                "unit_names": rng.choice(["int", "int", "str", "tuple"]),
                "cand_names": rng.choice(["int", "int", "reversed", "falsy_last", "bool_rev", "str"])}
        if rows >= 2 and rng.random() < 0.5:
            # a second observation on the SAME container: after the queries, row i is replaced in place by the formula of row j
            # (narrower, wider or equal) and every query is repeated -- rows of different sizes must still not influence each other
            i = rng.randrange(rows)
            case["edit"] = [i, rng.choice([j for j in range(rows) if j != i])]
        cases.append(case)
    # WIDE universes: many units / candidate values, the literals placed on both sides of the boundaries of the narrow integer
    # types (127|128, 255|256): positions must not be confused whatever storage the container chooses
    for _ in range({"quick": 40, "search": 150, "thorough": 400}[tier]):
        n, upool = rng.choice([(3, [0, 1, 2]), (130, [0, 127, 128, 129]), (260, [127, 128, 255, 256])])
        k, cpool = rng.choice([(2, [0, 1]), (130, [0, 127, 128, 129]), (300, [1, 128, 255, 256, 299])])
        rows = rng.randint(1, 4)
        fs = [[[(rng.choice(upool), rng.choice(cpool)) for _ in range(rng.randint(1, 3))] for _ in range(rng.choice([1, 1, 2, 3]))]
              for _ in range(rows)]
        x = [0] * n
        for u in upool:
            x[u] = rng.choice(cpool + [0])
        m = [[u, x[u] if rng.random() < 0.8 else rng.choice(cpool)] for u in upool if rng.random() < 0.6]
        cases.append({"n": n, "k": k, "fs": fs, "kinds": [rng.choice(["min", "conj", "full"]) for _ in range(rows)], "x": x, "m": m,
                      "unit_names": rng.choice(["int", "str"]), "cand_names": "int" if k > 3 else rng.choice(["int", "reversed"]),
                      "wide": True})
    return cases


def corpus():
    # witness of finding F5 (fixed): rows `x0=1 | x1=1` and `x2=1`
    return [{"n": 3, "k": 2, "fs": [[[(0, 1)], [(1, 1)]], [[(2, 1)]]], "kinds": ["min", "min"], "x": [0, 0, 0], "m": []},
            {"n": 3, "k": 2, "fs": [[[(0, 1)], [(1, 1)]], [[(2, 1)]]], "kinds": ["full", "min"], "x": [1, 0, 1], "m": [[2, 1]]}]


# ----------------------------------------------------------------------------- implementation side
def build_expr(units, f, kind):
    from datascope.utility.provenance import Conjunction, Disjunction
    conjs = [[units[u] == units.candidates[v] for (u, v) in c] for c in f]
    if kind == "min" and len(f) == 1 and len(f[0]) == 1:
        return conjs[0][0]
    if kind in ("min", "conj") and len(f) == 1:
        return Conjunction(*conjs[0])
    return Disjunction(*[Conjunction(*c) for c in conjs])


def names(c):
    """unit and candidate NAMES (the model works on positions; mappings are keyed by names)"""
    n, k = c["n"], c["k"]
    un = {"int": list(range(n)), "str": ["u%d" % i for i in range(n)], "tuple": [("t", i) for i in range(n)]}[c.get("unit_names", "int")]
    cn = {"int": list(range(k)), "reversed": list(range(k))[::-1], "falsy_last": [7, 3, 0][3 - k:] if k <= 3 else list(range(k)),
          "bool_rev": [True, False] if k == 2 else list(range(k))[::-1], "str": ["present", "", "other"][:k]}[c.get("cand_names", "int")]
    return un, cn


def run_impl(c):
    import numpy as np
    from datascope.utility.provenance import Units, Provenance
    un, cn = names(c)
    units = Units(units=un, candidates=cn)
    units_by_pos = [units[u] for u in un]

    class Pos:     # build_expr addresses units / candidates by position
        candidates = cn

        def __getitem__(self, i):
            return units_by_pos[i]

    exprs = [build_expr(Pos(), f, kd) for f, kd in zip(c["fs"], c["kinds"])]
    p = Provenance(exprs)
    x = c["x"]
    qa = p.query(np.array(x, dtype=int))
    assert qa.dtype == np.bool_ and qa.ndim == 1, (qa.dtype, qa.shape)
    # the "list" observation uses one of several encodings of the same assignment: a list of ints, of numpy ints, and -- for two
    # candidates in their natural order -- a list of Python bools / a bool array; unsigned and narrow integer arrays
    enc = c.get("enc", "list")
    if enc in ("boollist", "boolarr") and not (c["k"] == 2 and c.get("cand_names", "int") == "int"):
        enc = "list"
    xs_enc = {"list": lambda: list(x), "npints": lambda: [np.int64(v) for v in x], "boollist": lambda: [bool(v) for v in x],
              "boolarr": lambda: np.array(x, dtype=bool), "uint8": lambda: np.array(x, dtype=np.uint8),
              "int16": lambda: np.array(x, dtype=np.int16), "uint64": lambda: np.array(x, dtype=np.uint64)}[enc]()
    ql = p.query(xs_enc)
    qm = p.query(dict((un[u], cn[v]) for u, v in c["m"]))
    qi = p.query(np.array(x, dtype=int), dtype=int)
    assert np.issubdtype(qi.dtype, np.integer)
    data0 = p.data.tolist()
    # malformed stream (outside the property's quantifier: recorded in the evidence, never a verdict): assignments of the wrong
    # length or dimension are rejected by the code the model's guard `length x = n` stands for
    malformed = {}
    for name, bad in (("too_long", list(x) + [0]), ("too_short", list(x)[:-1]), ("two_dim", [list(x)])):
        try:
            p.query(np.array(bad, dtype=int))
            malformed[name] = "accepted"
        except Exception as e:  # noqa
            malformed[name] = type(e).__name__
    after = None
    if c.get("edit"):
        i, j = c["edit"]
        p[i] = exprs[j]
        a_qa = p.query(np.array(x, dtype=int))
        a_ql = p.query(list(x))
        a_qm = p.query(dict((un[u], cn[v]) for u, v in c["m"]))
        a_qi = p.query(np.array(x, dtype=int), dtype=int)
        after = {"data": p.data.tolist(), "q_arr": a_qa.tolist(), "q_list": np.asarray(a_ql).tolist(),
                 "q_map": np.asarray(a_qm).tolist(), "q_int": a_qi.ravel().tolist()}
    return {"after": after, "malformed": malformed, "data": data0, "q_arr": qa.tolist(), "q_list": np.asarray(ql).tolist(),
            "q_map": np.asarray(qm).tolist(), "q_int": qi.ravel().tolist()}


# ----------------------------------------------------------------------------- Coq side
def emit(c, o):
    data = cf.lst([cf.lst([cf.zpairs([tuple(cell) for cell in conj]) for conj in row]) for row in o["data"]])
    return ("(mkCase %s %s %s %s %s %s %s %s %s %s)" % (
        cf.nat(c["n"]), cf.dnfs(c["fs"]), cf.nats(c["x"]), cf.natpairs([tuple(p) for p in c["m"]]), data,
        cf.bools(o["q_arr"]), cf.bools(o["q_list"]), cf.bools(o["q_map"]), cf.nats(o["q_int"]), cf.b(bool(c.get("edited")))))


def expand(c, o):
    """a case with an in-place edit is evaluated as two Coq cases: before, and after on the edited formula list"""
    if isinstance(o, dict) and o.get("after") and c.get("edit"):
        i, j = c["edit"]
        fs2 = list(c["fs"])
        fs2[i] = c["fs"][j]
        return [(c, o), (dict(c, fs=fs2, edited=True), o["after"])]
    return [(c, o)]


def nontrivial(c, o):
    if not isinstance(o, dict) or "data" not in o:
        return False
    pad = any(cell[0] == -1 for row in o["data"] for conj in row for cell in conj)
    return pad or len(set(o["q_arr"])) > 1


def distribution(cases, outs):
    from collections import Counter
    rows = Counter(len(c["fs"]) for c in cases)
    widths = Counter((max(len(f) for f in c["fs"]), max(len(cj) for f in c["fs"] for cj in f)) for c in cases)
    padded = sum(1 for c, o in zip(cases, outs) if isinstance(o, dict) and "data" in o and
                 any(cell[0] == -1 for row in o["data"] for conj in row for cell in conj))
    exc = Counter(o["exc"] for o in outs if isinstance(o, dict) and "exc" in o)
    return {"rows": dict(sorted(rows.items())), "widths_DxC": {"%dx%d" % k: v for k, v in sorted(widths.items())},
            "cases_with_padding": padded, "exceptions": dict(exc), "wide_universe_cases": sum(1 for c in cases if c.get("wide")),
            "cases_with_in_place_edit_then_requery": sum(1 for c in cases if c.get("edit")),
            "assignment_encodings": dict(Counter(c.get("enc", "list") for c in cases)),
            "malformed_assignments (wrong length / dimension; not a verdict)":
                dict(Counter("%s:%s" % kv for o in outs if isinstance(o, dict) for kv in o.get("malformed", {}).items()))}


def shrink(c):
    fs = c["fs"]
    for i in range(len(fs)):
        if len(fs) > 1:
            d = dict(c)
            d["fs"] = fs[:i] + fs[i + 1:]
            d["kinds"] = c["kinds"][:i] + c["kinds"][i + 1:]
            if "edit" in d:      # keep the in-place edit meaningful: re-index it, or drop it with the row it names
                if i in d["edit"]:
                    del d["edit"]
                else:
                    d["edit"] = [e - (1 if e > i else 0) for e in d["edit"]]
            yield d
    if "edit" in c:
        d = dict(c)
        del d["edit"]
        yield d
    for i, f in enumerate(fs):
        for j in range(len(f)):
            if len(f) > 1:
                d = dict(c)
                d["fs"] = fs[:i] + [f[:j] + f[j + 1:]] + fs[i + 1:]
                yield d
            for l in range(len(f[j])):
                if len(f[j]) > 1:
                    d = dict(c)
                    d["fs"] = fs[:i] + [f[:j] + [f[j][:l] + f[j][l + 1:]] + f[j + 1:]] + fs[i + 1:]
                    yield d
    for u in range(len(c["x"])):
        if c["x"][u] != 0:
            d = dict(c)
            d["x"] = c["x"][:u] + [0] + c["x"][u + 1:]
            yield d
    for i in range(len(c["m"])):
        d = dict(c)
        d["m"] = c["m"][:i] + c["m"][i + 1:]
        yield d

# functions of the implementation this property is anchored in: their line coverage under the correspondence cases is
# measured on the staged copy and reported in the evidence (implementation_line_coverage)
ANCHORS = [
    "datascope/utility/provenance.py:Provenance.query",
    "datascope/utility/provenance.py:Provenance.__init__",
    "datascope/utility/provenance.py:_pad_array",
]

MANIFEST = {
    "text": "Proof: Coq theorems C05_query_correct / C05_query_padded / C05_rows_independent / C05_int_output / "
            "C05_mapping_encoding hold for ALL ragged DNF lists, all widths and all assignments over a list model of the "
            "4-D provenance array (encode, query with the -1 sentinel, argwhere); the model is tied to the code on every "
            "run by comparing Provenance(...).data and query() in all three assignment encodings and both dtypes with the "
            "model evaluated inside Coq, on an exhaustive small universe plus random ragged lists.",
    "note": "Trusted: Coq kernel + vm_compute; the correspondence harness; numpy indexing/pad/all/any/argwhere as "
            "modelled. Hypotheses: conjunctions non-empty, units in range (what Python expressions can be).",
    "technique": "Coq proof (induction over lists) about an executable model + model/implementation correspondence "
                 "evaluated by vm_compute",
}
