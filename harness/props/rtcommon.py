"""Shared dataset / configuration builder for the runtime properties C17, C18, C20 (runs inside the staged interpreter)."""


def dataset(seed, n=7, nv=5, classes=2, gap=False, ties=False):
    import numpy as np
    r = np.random.RandomState(seed)
    y = np.array([i % classes for i in range(n)])
    r.shuffle(y)
    X = np.round(r.randn(n, 2) * 4) / 4 + y.reshape(-1, 1)
    if ties:
        # integer features and duplicated rows carrying DIFFERENT labels: validation points exactly equidistant from
        # differently labelled training rows (whatever order the code gives them must not depend on seed / process)
        X = np.round(X)
        for i in range(1, n, 2):
            X[i] = X[i - 1]
    else:
        X += np.arange(n).reshape(-1, 1) * 1e-3      # distinct rows / distances
    yv = np.array(list(range(classes)) + [int(r.randint(0, classes)) for _ in range(nv - classes)])
    r.shuffle(yv)
    Xv = np.round(r.randn(nv, 2) * 4) / 4 + yv.reshape(-1, 1) + 0.0625
    if gap:                                          # class labels with a gap: 0, 2 (, 5)
        m = {0: 0, 1: 2, 2: 5}
        y = np.array([m[v] for v in y])
        yv = np.array([m[v] for v in yv])
    return X, y, Xv, yv


def make_model(name):
    from sklearn.neighbors import KNeighborsClassifier
    from sklearn.linear_model import SGDClassifier, LogisticRegression
    from sklearn.tree import DecisionTreeClassifier
    from sklearn.dummy import DummyClassifier
    return {"knn": lambda: KNeighborsClassifier(n_neighbors=1),
            "sgd": lambda: SGDClassifier(max_iter=30, tol=None),                       # random_state=None: global RNG
            "rtree": lambda: DecisionTreeClassifier(splitter="random", max_depth=3),   # random_state=None: global RNG
            "dummy": lambda: DummyClassifier(strategy="uniform"),                     # predictions drawn from the global RNG
            "logreg": lambda: LogisticRegression(),
            # warm_start: a model object fitted twice remembers the first fit -- every evaluation must start from a fresh clone
            "sgd_warm": lambda: SGDClassifier(warm_start=True, max_iter=1, tol=None, eta0=0.05, learning_rate="constant",
                                              random_state=0)}[name]()


def make_utility(kind, model):
    from datascope.importance.utility import (SklearnModelAccuracy, SklearnModelRocAuc, SklearnModelEqualizedOddsDifference,
                                              JointUtility)
    if kind == "auc":
        return SklearnModelRocAuc(model)
    if kind == "eod":
        return SklearnModelEqualizedOddsDifference(model, sensitive_features=2)
    if kind == "joint":
        return JointUtility(SklearnModelAccuracy(model), SklearnModelRocAuc(model), weights=[0.5, 2.0])
    return SklearnModelAccuracy(model)


def make_provenance(kind, n):
    import numpy as np
    from datascope.utility.provenance import Provenance, Units, Conjunction
    if kind == "default":
        return None
    if kind == "grouped":
        return Provenance(data=np.array([i // 2 for i in range(n)], dtype=int))
    if kind == "named":
        # units named by STRINGS (hash-seed dependent hashes), one unit per pair of rows, in an order that is neither sorted
        # nor the hash order
        names = ["zeta", "alpha", "mu", "beta", "omega", "kappa", "delta", "pi"][: (n + 1) // 2]
        units = Units(units=names, candidates=2)
        return Provenance([units[names[i // 2]] == 1 for i in range(n)])
    # join-like: each row needs two units (a "left" and a "right" one)
    nl, nr = 2, (n + 1) // 2
    units = Units(units=nl + nr, candidates=2)
    return Provenance([Conjunction(units[i % nl] == 1, units[nl + i // 2] == 1) for i in range(n)])


def score_hex(cfg, hook=None):
    """one fresh importance object, fit + score; returns the bytes of the score vector in hex"""
    import warnings
    import numpy as np
    from datascope.importance.shapley import ShapleyImportance
    from datascope.importance.utility import SklearnModelAccuracy
    X, y, Xv, yv = dataset(cfg["data_seed"], n=cfg.get("n", 7), nv=cfg.get("nv", 5), classes=cfg.get("classes", 2),
                           ties=bool(cfg.get("ties")))
    if cfg.get("ties"):
        Xv = np.round(Xv)
    util = make_utility(cfg.get("utility", "accuracy"), make_model(cfg["model"]))
    if cfg.get("utility") == "eod":      # a discrete "sensitive" feature column for the equalized-odds utility
        X = np.hstack([X, (np.arange(len(X)) % 2).reshape(-1, 1).astype(float)])
        Xv = np.hstack([Xv, (np.arange(len(Xv)) // 2 % 2).reshape(-1, 1).astype(float)])
    kw = dict(cfg.get("kw", {}))
    imp = ShapleyImportance(method=cfg["method"], utility=util, seed=cfg["seed"], **kw)
    if hook is not None:
        hook(imp)
    with warnings.catch_warnings():
        warnings.simplefilter("ignore")
        imp.fit(X, y, provenance=make_provenance(cfg["prov"], len(y)))
        s = np.asarray(imp.score(Xv, yv), dtype=np.float64)
    return s.tobytes().hex()
