"""C20 -- scoring does not mutate or leak state between calls (partial by nature; snapshots over call sequences)."""
import coqfmt as cf

RULE = ("cases = random call sequences (6-10 calls of fit / score / score with an explicit partial `world`) over 2-3 importance objects (neighbor K=1 and K=2, "
        "bruteforce, montecarlo) that SHARE feature arrays, label arrays, a provenance, a distance callable with its "
        "matrix, one utility (accuracy, ROC-AUC, equalized-odds difference over a discrete feature column whose layout differs between the two datasets, or a JointUtility) and its model (KNN, random-splitter tree, SGD and a uniform DummyClassifier drawing from the global generator, and an "
        "ExtendedModelMixin model with metadata); before and after every call the bytes of every caller-owned object "
        "are compared (arrays, Provenance.data and unit lists, the distance matrix, the pickled model parameters and "
        "attribute names of the utility's model, metadata frame); repeated neighbor / bruteforce scores must be "
        "bit-equal, and a score must equal the score of a FRESH object given the same last fit; non-trivial = at "
        "least two objects and a refit on other data in the sequence; distinct = JSON")
EXHAUSTIVE = {"quick": False, "thorough": False}
SHARD = 50
JOBS = 10
COQ_IMPORTS = "From DS Require Import Model.Runtime."
TRUSTED = ["Python object identity / in-place mutation are runtime facts observed through byte snapshots"]
ASSUMPTIONS = ["PARTIAL: C20_store_invariant is about a model in which fit/score have explicit read and write sets"]
WORKER_TIMEOUT = 3300


def gen(rng, tier):
    cases = []
    for k in range({"quick": 14, "search": 40, "thorough": 120}[tier]):
        nobj = rng.randint(2, 3)
        methods = [rng.choice(["neighbor", "neighbor", "neighbor2", "bruteforce", "montecarlo", "montecarlo"]) for _ in range(nobj)]
        if k % 4 == 0:
            methods[0] = "bruteforce"
        calls = []
        fitted = set()
        for _ in range(rng.randint(6, 10)):
            w = rng.randrange(nobj)
            if w not in fitted or rng.random() < 0.3:
                calls.append(["fit", w, rng.randrange(2)])      # which of the two datasets
                fitted.add(w)
            else:
                # a third of the score calls pass an explicit `world` (some units switched off): same obligations --
                # nothing the caller owns may change, and later calls must not see it
                calls.append(["scorew" if rng.random() < 0.34 else "score", w, rng.randrange(2)])
        utility = ["accuracy", "eod", "auc", "accuracy", "joint", "accuracy", "eod"][k % 7]
        if utility == "eod":
            # the equalized-odds utility rejects single-class validation samples, which montecarlo's bootstrapped mean score
            # draws from a 3-point validation set: not a call sequence this property is about
            methods = [{"montecarlo": "bruteforce", "neighbor2": "neighbor"}.get(m, m) for m in methods]
        cases.append({"methods": methods, "calls": calls, "model": ["knn", "dummy", "sgd", "ext", "rtree", "dummy", "sgd_warm", "sgd_warm"][k % 8],
                      "nan_in_distances": k % 4 == 1,
                      "utility": utility,
                      "prov": rng.choice(["default", "grouped"]), "seed": rng.randrange(1 << 20)})
    return cases


def run_impl(c):
    import pickle
    import warnings
    import numpy as np
    import pandas as pd
    from sklearn.base import BaseEstimator, ClassifierMixin
    from sklearn.neighbors import KNeighborsClassifier
    from datascope.importance.common import ExtendedModelMixin
    from datascope.importance.shapley import ShapleyImportance
    from datascope.importance.utility import SklearnModelAccuracy, SklearnModelRocAuc, SklearnModelEqualizedOddsDifference, JointUtility
    from props import rtcommon

    class ExtModel(ExtendedModelMixin, ClassifierMixin, BaseEstimator):
        """history-dependent if fitted in place: remembers how often it was fitted"""

        def __init__(self, k=1):
            self.k = k

        def fit(self, X, y):
            self.n_fits_ = getattr(self, "n_fits_", 0) + 1
            self.inner_ = KNeighborsClassifier(n_neighbors=self.k).fit(X, y)
            self.classes_ = self.inner_.classes_
            return self

        def fit_extended(self, X, y, metadata=None, X_val=None, y_val=None, metadata_val=None):
            return self.fit(X, y)

        def predict(self, X):
            p = self.inner_.predict(X)
            if self.n_fits_ > 1:          # a reused (un-cloned) model starts to misbehave
                p = p[::-1].copy()
            return p

        def predict_extended(self, X, metadata=None):
            return self.predict(X)

        def predict_proba_extended(self, X, metadata=None):
            return self.inner_.predict_proba(X)

    NR, NV = (4, 2) if "neighbor2" in c["methods"] else (6, 3)
    if c.get("utility") == "eod":
        NR, NV = 6, 8        # equalized odds needs both groups and both classes among the validation points to say anything
    data = [rtcommon.dataset(c["seed"] + i, n=NR, nv=NV, classes=2) for i in range(2)]
    # a third, discrete feature column (the "sensitive" attribute of the equalized-odds utility); its layout differs between the
    # two datasets although their validation sets have the same length
    data = [(np.hstack([X, ((np.arange(len(X)) * (i + 1) + i) // (i + 1) % 2).reshape(-1, 1).astype(float)]), y,
             np.hstack([Xv, ((np.arange(len(Xv)) + i * (1 + np.arange(len(Xv)) // 2)) % 2).reshape(-1, 1).astype(float)]), yv)
            for i, (X, y, Xv, yv) in enumerate(data)]

    def make_model():
        return ExtModel() if c["model"] == "ext" else rtcommon.make_model(c["model"])

    def make_util(m):
        kind = c.get("utility", "accuracy")
        if kind == "auc":
            return SklearnModelRocAuc(m)
        if kind == "eod":
            return SklearnModelEqualizedOddsDifference(m, sensitive_features=2)
        if kind == "joint":
            return JointUtility(SklearnModelAccuracy(m), SklearnModelRocAuc(m), weights=[0.5, 2.0])
        return SklearnModelAccuracy(m)

    model = make_model()
    util = make_util(model)
    meta = [pd.DataFrame({"m": np.arange(NR)}), pd.DataFrame({"m": np.arange(NR) + 10})] if c["model"] == "ext" else [None, None]
    meta_v = [pd.DataFrame({"m": np.arange(NV)}), pd.DataFrame({"m": np.arange(NV) + 10})] if c["model"] == "ext" else [None, None]
    provs = [rtcommon.make_provenance(c["prov"], NR) for _ in range(2)]
    Dm = [np.abs(d[0][:, None, :] - d[2][None, :, :]).sum(axis=2) + np.arange(NR).reshape(-1, 1) * 1e-3 for d in data]

    if c.get("nan_in_distances"):
        # the caller marks an unknown distance with NaN in its own precomputed matrix: the marker is the caller's
        for D in Dm:
            D[min(1, D.shape[0] - 1), 0] = np.nan

    def distance(A, B):
        for i, d in enumerate(data):
            if A.shape == d[0].shape and np.array_equal(A, d[0]):
                return Dm[i]                      # the caller's own matrix object, returned by reference
        return np.abs(A[:, None, :] - B[None, :, :]).sum(axis=2)

    kws = {"neighbor": dict(method="neighbor", nn_distance=distance), "neighbor2": dict(method="neighbor", nn_k=2, nn_distance=distance),
           "bruteforce": dict(method="bruteforce"), "montecarlo": dict(method="montecarlo", mc_iterations=4, seed=11)}
    objs = [ShapleyImportance(utility=util, **kws[m]) for m in c["methods"]]

    def snap():
        s = []
        for (X, y, Xv, yv), p, D, mt, mv in zip(data, provs, Dm, meta, meta_v):
            s += [X.tobytes(), y.tobytes(), Xv.tobytes(), yv.tobytes(), D.tobytes()]
            if p is not None:
                s += [p.data.tobytes(), repr(list(p.units)), repr(list(p.candidates))]
            if mt is not None:
                s += [pickle.dumps(mt), pickle.dumps(mv)]
        s.append(pickle.dumps(model.get_params()))
        s.append(repr(sorted(vars(model).keys())))
        return s

    checks = {"inputs_unchanged": True, "model_never_fitted": True, "repeat_equal": True, "no_leak_from_other_calls": True}
    last_fit = {}
    n_world = [0]
    with warnings.catch_warnings():
        warnings.simplefilter("ignore")
        for ci, (kind, w, di) in enumerate(c["calls"]):
            X, y, Xv, yv = data[di]
            before = snap()
            np.random.rand(2)                      # the global generator moves between calls
            if kind == "scorew":
                fd = last_fit[w]
                pv = provs[fd]
                nu = pv.num_units if pv is not None else data[fd][0].shape[0]
                rr = np.random.RandomState(c["seed"] + 97 * ci)
                world = [int(v) for v in rr.randint(0, 2, size=nu)]
                if all(world):
                    world[int(rr.randint(0, nu))] = 0
                m = c["methods"][w]

                def call(obj):
                    try:
                        return np.asarray(obj.score(Xv, yv, metadata=meta_v[di], world=list(world)), dtype=float).tobytes()
                    except Exception as e:  # noqa -- scoring a partial world may be unsupported on a path: then it must be so for a fresh object too
                        return "raised:" + type(e).__name__
                r1 = call(objs[w])
                if m != "montecarlo":
                    if call(objs[w]) != r1:
                        checks["repeat_equal"] = False
                    fresh = ShapleyImportance(utility=make_util(make_model()), **kws[m])
                    fresh.fit(data[fd][0], data[fd][1], metadata=meta[fd], provenance=provs[fd])
                    if call(fresh) != r1:
                        checks["no_leak_from_other_calls"] = False
                n_world[0] += 1
            elif kind == "fit":
                objs[w].fit(X, y, metadata=meta[di], provenance=provs[di])
                last_fit[w] = di
            else:
                s1 = np.asarray(objs[w].score(Xv, yv, metadata=meta_v[di]), dtype=float)
                m = c["methods"][w]
                if m != "montecarlo":
                    s2 = np.asarray(objs[w].score(Xv, yv, metadata=meta_v[di]), dtype=float)
                    if s1.tobytes() != s2.tobytes():
                        checks["repeat_equal"] = False
                    # a fresh object -- with a FRESH utility and model, built the same way -- given the same last fit and the
                    # same score arguments: nothing remembered by the shared utility, its model or the object may matter
                    fresh = ShapleyImportance(utility=make_util(make_model()), **kws[m])
                    fd = last_fit[w]
                    fresh.fit(data[fd][0], data[fd][1], metadata=meta[fd], provenance=provs[fd])
                    s3 = np.asarray(fresh.score(Xv, yv, metadata=meta_v[di]), dtype=float)
                    if s1.tobytes() != s3.tobytes():
                        checks["no_leak_from_other_calls"] = False
            if snap() != before:
                checks["inputs_unchanged"] = False
            if any(k.endswith("_") and not k.startswith("_") for k in vars(model)):
                checks["model_never_fitted"] = False
    return {"checks": checks, "nobj": len(objs), "world_calls": n_world[0], "refit": len([1 for k, w, d in c["calls"] if k == "fit"]) > len(set(w for k, w, d in c["calls"] if k == "fit"))}


def emit(c, o):
    return "(mkCase %s [] (q 0 1))" % cf.bools(list(o["checks"].values()))


def nontrivial(c, o):
    return isinstance(o, dict) and o.get("nobj", 0) >= 2 and o.get("refit", False)


def distribution(cases, outs):
    from collections import Counter
    failed = Counter(k for o in outs if isinstance(o, dict) and "checks" in o for k, v in o["checks"].items() if not v)
    return {"methods": dict(Counter(m for c in cases for m in c["methods"])), "models": dict(Counter(c["model"] for c in cases)), "utilities": dict(Counter(c.get("utility", "accuracy") for c in cases)),
            "calls": dict(Counter(k for c in cases for k, _, _ in c["calls"])), "failed_checks": dict(failed),
            "cases_with_nan_in_the_callers_distance_matrix": sum(1 for c in cases if c.get("nan_in_distances")),
            "score_calls_with_partial_world": sum(o.get("world_calls", 0) for o in outs if isinstance(o, dict)),
            "exceptions": dict(Counter(o["exc"] for o in outs if isinstance(o, dict) and "exc" in o))}


def shrink(c):
    for i in range(len(c["calls"]) - 1, -1, -1):
        calls = c["calls"][:i] + c["calls"][i + 1:]
        fitted, ok = set(), True
        for k, w, d in calls:
            if k == "fit":
                fitted.add(w)
            elif w not in fitted:
                ok = False
        if ok and calls:
            yield dict(c, calls=calls)


# functions of the implementation this property is anchored in: their line coverage under the correspondence cases is
# measured on the staged copy and reported in the evidence (implementation_line_coverage)
ANCHORS = [
    "datascope/importance/importance.py:Importance.fit",
    "datascope/importance/importance.py:Importance.score",
    "datascope/importance/shapley.py:ShapleyImportance._fit",
    "datascope/importance/shapley.py:ShapleyImportance._score",
    "datascope/importance/shapley.py:get_unit_labels_and_distances",
    "datascope/importance/shapley.py:compute_shapley_1nn_mapfork",
    "datascope/importance/shapley.py:compute_shapley_add",
    "datascope/importance/utility.py:SklearnModelUtility._model_fit",
    "datascope/importance/utility.py:SklearnModelUtility.__call__",
]

MANIFEST = {
    "text": "PARTIAL BY NATURE. Proof: C20_store_invariant (any fit/score sequence on any number of objects leaves the "
            "store of caller-owned objects unchanged -- induction over the call sequence), "
            "C20_score_depends_on_last_fit, C20_repeat_equal, about a model with explicit read and write sets. That "
            "the CODE respects them is observed: random call sequences over 2-3 importance objects sharing arrays, "
            "provenance, distance matrix, utility and model (incl. estimators drawing from the global generator and an "
            "ExtendedModelMixin model with metadata); byte snapshots of every caller-owned object before/after each "
            "call; repeated scores bit-equal; scores equal to those of a fresh object with the same last fit.",
    "note": "Trusted: Coq kernel; harness; Python aliasing / mutation is observed through snapshots, not modelled.",
    "technique": "Coq invariant by induction over call sequences on an explicit-store model + byte-snapshot differential "
                 "runs over call sequences",
}
