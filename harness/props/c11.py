"""C11 -- expression operators (&, |) and the array encoding preserve logic (unit level)."""
import itertools
import coqfmt as cf

RULE = ("cases = every operator applied to every pair of operand classes over a small literal universe (exhaustive: "
        "2 operators x 3x3 operand shapes x several literal choices) + random expression trees of depth <= 4 over "
        "<=4 units and <=3 (possibly renamed) candidates, built with the real `&`/`|` overloads, 1-4 trees per case "
        "stored together in one Provenance and read back; plus WIDE universes (up to 300 units, up to 70 000 candidate values, the "
        "literals placed on both sides of 127|128, 255|256, 32767|32768, 65535|65536; evaluated in Coq over the compressed "
        "universe of the positions used); non-trivial = at least one operator node and a truth table "
        "that is not constant; distinct = distinct JSON of the case")
EXHAUSTIVE = {"quick": False, "thorough": False}
SHARD = 150
COQ_IMPORTS = "From DS Require Import Spec.Dnf Model.Expr."
JOBS = 8
TRUSTED = ["CPython object identity/aliasing semantics (the 'operands unchanged' clause is checked at run time by "
           "snapshotting operands before/after each operator application and after mutating the result)"]
ASSUMPTIONS = ["'operands unchanged' is a runtime check (partial): no Gallina model can exhibit Python aliasing"]


def rand_tree(rng, n, k, depth):
    if depth == 0 or rng.random() < 0.25:
        return ["L", rng.randrange(n), rng.randrange(k)]
    op = rng.choice(["A", "O"])
    return [op, rand_tree(rng, n, k, depth - 1), rand_tree(rng, n, k, depth - 1)]


def tree_size(t):
    return 1 if t[0] == "L" else 1 + tree_size(t[1]) + tree_size(t[2])


def gen(rng, tier):
    cases = []
    # all nine operand-shape combinations for both operators
    n, k = 3, 2
    L = lambda u, v: ["L", u, v]  # noqa: E731
    shapes = {"eq": L(0, 1), "conj": ["A", L(0, 1), L(1, 0)], "disj": ["O", L(1, 1), ["A", L(2, 1), L(0, 0)]]}
    shapes2 = {"eq": L(2, 0), "conj": ["A", L(2, 1), L(1, 1)], "disj": ["O", ["A", L(0, 1), L(1, 1)], L(2, 0)]}
    for op in ("A", "O"):
        for a in shapes.values():
            for b in shapes2.values():
                cases.append({"n": n, "k": k, "names": False, "ts": [[op, a, b], a, b]})
    nrand = {"quick": 250, "search": 1200, "thorough": 3000}[tier]
    for _ in range(nrand):
        n = rng.randint(1, 4)
        k = rng.randint(2, 3)
        nt = rng.randint(1, 4)
        depth = rng.choice([1, 2, 2, 3, 3, 4])
        ts = [rand_tree(rng, n, k, depth if i == 0 else rng.randint(0, depth)) for i in range(nt)]
        # keep DNF size bounded (distribution is exponential in the nesting of & over |)
        if any(tree_size(t) > 40 for t in ts):
            ts = [t if tree_size(t) <= 40 else rand_tree(rng, n, k, 2) for t in ts]
        cases.append({"n": n, "k": k, "names": rng.random() < 0.4, "ts": ts})
    # WIDE universes: many units / many candidate values, of which the formulas use a few positions on both sides of the
    # boundaries of the narrow integer types (127|128, 255|256, 32767|32768, 65535|65536).  The Coq case is the same
    # formula over the COMPRESSED universe (position -> rank among the positions used): the logic only compares positions.
    for _ in range({"quick": 40, "search": 120, "thorough": 400}[tier]):
        K, S = rng.choice([(129, [0, 127, 128]), (200, [1, 128, 199]), (300, [127, 255, 256]), (40000, [5, 32767, 32768]),
                           (70000, [0, 65535, 65536]), (129, [128, 3]), (2, [0, 1])])
        N, SU = rng.choice([(3, [0, 1, 2]), (2, [0, 1]), (129, [0, 127, 128]), (200, [128, 199]), (300, [127, 255, 256]), (3, [2, 0])])
        nt = rng.randint(1, 3)
        ts = [rand_tree(rng, len(SU), len(S), rng.choice([1, 2, 2, 3])) for _ in range(nt)]
        ts = [t if tree_size(t) <= 30 else rand_tree(rng, len(SU), len(S), 2) for t in ts]
        cases.append({"n": len(SU), "k": len(S), "names": rng.random() < 0.3, "ts": ts, "wide": {"K": K, "S": S, "N": N, "SU": SU}})
    return cases


def corpus():
    L = lambda u, v: ["L", u, v]  # noqa: E731
    # shapes that raised ValueError before fix F9: eq | conj, conj | eq, disj | eq, eq | disj
    return [{"n": 3, "k": 2, "names": False,
             "ts": [["O", L(0, 1), ["A", L(1, 1), L(2, 1)]], ["O", ["A", L(0, 1), L(1, 1)], L(2, 1)],
                    ["O", ["O", L(0, 1), L(1, 1)], L(2, 1)], ["O", L(0, 1), ["O", L(1, 1), L(2, 0)]]]}]


# ----------------------------------------------------------------------------- implementation side
def run_impl(c):
    import numpy as np
    from datascope.utility.provenance import Units, Provenance, Equality, Conjunction, Disjunction
    n, k = c["n"], c["k"]
    w = c.get("wide") or {"K": k, "S": list(range(k)), "N": n, "SU": list(range(n))}
    N, K, SU, S = w["N"], w["K"], w["SU"], w["S"]
    unit_names_all = ["u%d" % i for i in range(N)] if c["names"] else list(range(N))
    cand_names_all = [10 * (i + 1) + 3 for i in range(K)] if c["names"] else list(range(K))
    units = Units(units=unit_names_all, candidates=cand_names_all)
    unit_names = [unit_names_all[p] for p in SU]         # the positions the formulas use, in the order of the compressed universe
    cand_names = [cand_names_all[p] for p in S]
    urank = dict((p, i) for i, p in enumerate(SU))
    crank = dict((p, i) for i, p in enumerate(S))

    def lits_of(e):
        if isinstance(e, Equality):
            # positions outside the universe used (a corrupted literal) are mapped past its end, so that they differ from every
            # position the model knows
            up, cp = units.units_index[e.unit.key], units.candidates_index[e.value]
            return [[(urank.get(up, len(SU) + up % 5), crank.get(cp, len(S) + cp % 5))]]
        if isinstance(e, Conjunction):
            return [[lits_of(x)[0][0] for x in e._elements]]
        if isinstance(e, Disjunction):
            return [lits_of(x)[0] for x in e._elements]
        raise TypeError(type(e))

    def kind(e):
        return 0 if isinstance(e, Equality) else 1 if isinstance(e, Conjunction) else 2 if isinstance(e, Disjunction) else 9

    def snap(e):
        return (kind(e), lits_of(e), e.data.tolist(), id(e.units))

    def wreck(e):
        # mutate the result in place as deeply as possible
        if isinstance(e, Equality):
            e._value = cand_names[0] if e._value != cand_names[0] else cand_names[-1]
            e._unit._key = unit_names[-1]
        else:
            for x in list(e._elements):
                wreck(x)
            e._elements.reverse()
            e._elements.append(e._elements[0])

    state = {"unchanged": True}

    def build(t):
        if t[0] == "L":
            return units[unit_names[t[1]]] == cand_names[t[2]]
        a, b = build(t[1]), build(t[2])
        sa, sb = snap(a), snap(b)
        r = (a & b) if t[0] == "A" else (a | b)
        if snap(a) != sa or snap(b) != sb:
            state["unchanged"] = False
        r2 = (a & b) if t[0] == "A" else (a | b)
        sr = snap(r)
        wreck(r2)
        if snap(a) != sa or snap(b) != sb or snap(r) != sr:
            state["unchanged"] = False
        return r

    es = [build(t) for t in c["ts"]]
    assigns = list(itertools.product(range(k), repeat=n))

    def full(x):
        """the assignment over ALL units (as candidate values): the units the formulas do not use take the first candidate"""
        vals = [cand_names_all[0]] * N
        for u, v in enumerate(x):
            vals[SU[u]] = cand_names[v]
        return vals

    def tables(e):
        tl = [bool(e.eval(full(x))) for x in assigns]
        ta = [bool(e.eval(np.array(full(x)))) for x in assigns]
        tm = [bool(e.eval(dict((unit_names[u], cand_names[v]) for u, v in enumerate(x)))) for x in assigns]
        return tl, ta, tm

    tabs = [tables(e) for e in es]
    snaps = [snap(e) for e in es]
    p = Provenance(es)
    back = [p[i] for i in range(len(es))]
    if [snap(e) for e in es] != snaps:
        state["unchanged"] = False
    return {"kind": [kind(e) for e in es], "dnf": [lits_of(e) for e in es],
            "tt_list": [t[0] for t in tabs], "tt_arr": [t[1] for t in tabs], "tt_map": [t[2] for t in tabs],
            "unchanged": state["unchanged"],
            "back_dnf": [lits_of(e) for e in back], "back_tt": [tables(e)[0] for e in back]}


# ----------------------------------------------------------------------------- Coq side
def tree(t):
    if t[0] == "L":
        return "(TLit (%s, %s))" % (cf.nat(t[1]), cf.nat(t[2]))
    return "(%s %s %s)" % ("TAnd" if t[0] == "A" else "TOr", tree(t[1]), tree(t[2]))


def emit(c, o):
    tts = lambda l: cf.lst([cf.bools(t) for t in l])  # noqa: E731
    return "(mkCase %s %s %s %s %s %s %s %s %s %s %s)" % (
        cf.nat(c["n"]), cf.nat(c["k"]), cf.lst([tree(t) for t in c["ts"]]), cf.nats(o["kind"]),
        cf.dnfs_list(o["dnf"]) if hasattr(cf, "dnfs_list") else cf.lst([cf.dnf(f) for f in o["dnf"]]),
        tts(o["tt_list"]), tts(o["tt_arr"]), tts(o["tt_map"]), cf.b(o["unchanged"]),
        cf.lst([cf.dnf(f) for f in o["back_dnf"]]), tts(o["back_tt"]))


def nontrivial(c, o):
    if not isinstance(o, dict) or "tt_list" not in o:
        return False
    return any(t[0] != "L" for t in c["ts"]) and any(len(set(t)) > 1 for t in o["tt_list"])


def distribution(cases, outs):
    from collections import Counter
    sizes = Counter(min(40, max(tree_size(t) for t in c["ts"])) // 5 * 5 for c in cases)
    kinds = Counter(kd for o in outs if isinstance(o, dict) and "kind" in o for kd in o["kind"])
    dn = Counter(min(len(f), 16) for o in outs if isinstance(o, dict) and "dnf" in o for f in o["dnf"])
    exc = Counter(o["exc"] for o in outs if isinstance(o, dict) and "exc" in o)
    wide = Counter("%d units x %d candidates" % (c["wide"]["N"], c["wide"]["K"]) for c in cases if c.get("wide"))
    return {"wide_universes": dict(wide), "max_tree_size_bucket": dict(sorted(sizes.items())), "result_classes(0eq,1conj,2disj)": dict(kinds),
            "disjunct_counts": dict(sorted(dn.items())), "exceptions": dict(exc)}


def shrink(c):
    ts = c["ts"]
    for i in range(len(ts)):
        if len(ts) > 1:
            d = dict(c)
            d["ts"] = ts[:i] + ts[i + 1:]
            yield d
    for i, t in enumerate(ts):
        if t[0] != "L":
            for sub in (t[1], t[2]):
                d = dict(c)
                d["ts"] = ts[:i] + [sub] + ts[i + 1:]
                yield d
            for side in (1, 2):
                if t[side][0] != "L":
                    for sub in (t[side][1], t[side][2]):
                        d = dict(c)
                        nt = list(t)
                        nt[side] = sub
                        d["ts"] = ts[:i] + [nt] + ts[i + 1:]
                        yield d
    if c["names"]:
        d = dict(c)
        d["names"] = False
        yield d


# functions of the implementation this property is anchored in: their line coverage under the correspondence cases is
# measured on the staged copy and reported in the evidence (implementation_line_coverage)
ANCHORS = [
    "datascope/utility/provenance.py:Equality.__and__",
    "datascope/utility/provenance.py:Equality.__or__",
    "datascope/utility/provenance.py:Conjunction.__and__",
    "datascope/utility/provenance.py:Conjunction.__or__",
    "datascope/utility/provenance.py:Disjunction.__and__",
    "datascope/utility/provenance.py:Disjunction.__or__",
    "datascope/utility/provenance.py:Equality.from_data",
    "datascope/utility/provenance.py:Conjunction.from_data",
    "datascope/utility/provenance.py:Disjunction.from_data",
    "datascope/utility/provenance.py:Expression.from_data",
    "datascope/utility/provenance.py:Provenance.__getitem__",
]

MANIFEST = {
    "text": "Proof: C11_and / C11_or / C11_nesting (all nine operand-shape combinations, any nesting, every assignment), "
            "C11_and_wf / C11_or_wf, C11_roundtrip(_syntactic) for all ragged expression lists, over an inductive model "
            "of Equality/Conjunction/Disjunction and the list model of the provenance array; tied to the code by "
            "building the same trees with the real overloaded operators and comparing class, literals, truth tables "
            "(list/ndarray/dict assignments) and Provenance(es)[i] read-back with the model inside Coq. The clause "
            "'leave the operands unchanged' is partial: checked at run time by snapshots and by mutating the result.",
    "note": "Trusted: Coq kernel + vm_compute; harness; CPython aliasing semantics cannot be modelled in Gallina "
            "(runtime snapshot check instead).",
    "technique": "Coq proof (case analysis + induction on expression trees) about an executable model + "
                 "model/implementation correspondence evaluated by vm_compute",
}
