"""C12 -- fork, indexing and join act row-wise on provenance (metamorphic at query())."""
import coqfmt as cf
from props.c05 import rand_formula, build_expr

RULE = ("cases = random provenances built three ways (expression lists; Provenance(units=n) as Importance.fit does; "
        "Provenance(data=<integer identifiers>) with gaps, negative and large identifiers, as list or ndarray) x one "
        "transformation (fork by int / repeat vector incl. zeros; slice incl. negative steps; index list incl. "
        "negative and repeated indices; boolean mask as list or ndarray; none) x a random assignment, followed by an independence probe (the source is edited in place and the derived provenance re-queried, and vice versa); identifier pools incl. -1 and negative identifiers whose maximum equals the number of identifiers - 1; plus join cases "
        "(known finding F11). non-trivial = the original mask contains both truth values or the transformation "
        "changes the number of rows; distinct = distinct JSON of the case")
EXHAUSTIVE = {"quick": False, "thorough": False}
SHARD = 400
JOBS = 8
COQ_IMPORTS = "From DS Require Import Spec.Dnf Model.Provenance."
TRUSTED = ["CPython slice.indices() (slices are turned into row positions by Python itself before they reach the model)",
           "numpy np.repeat / fancy indexing / np.unique / np.searchsorted as modelled"]
ASSUMPTIONS = ["-1 is the padding sentinel of the array format and is not generated as a group identifier"]


def gen(rng, tier):
    cases = []
    n_rows = {"quick": 500, "search": 2500, "thorough": 6000}[tier]
    for _ in range(n_rows):
        kind = rng.choice(["forms", "forms", "default", "grouped", "grouped"])
        if kind == "forms":
            n, k = rng.randint(1, 4), rng.randint(2, 3)
            rows = rng.randint(1, 6)
            fs = [rand_formula(rng, n, k) for _ in range(rows)]
            if rng.random() < 0.3:
                # "staircase" formulas: the first disjunct is the narrowest, a LATER one the widest (a selection must keep the width
                # of every disjunct of the rows it keeps, not only of the first)
                lit = lambda: (rng.randrange(n), rng.randrange(k))  # noqa: E731
                fs = [[[lit()]] + [[lit() for _ in range(w)] for w in sorted(rng.sample([1, 2, 3], rng.randint(1, 2)))] for _ in range(rows)]
            base = {"kind": "forms", "n": n, "k": k, "fs": fs,
                    "kinds": [rng.choice(["min", "conj", "full"]) for _ in range(rows)]}
            x = [rng.randrange(k) for _ in range(n)]
        elif kind == "default":
            n = rng.randint(1, 7)
            rows = n
            base = {"kind": "default", "n": n}
            x = [rng.randrange(2) for _ in range(n)]
        else:
            rows = rng.randint(1, 8)
            pool = rng.choice([[0, 1, 2, 3], [1, 2, 5, 9], [-7, -2, 4, 100], [3, 10 ** 6, 10 ** 9, -10 ** 9], [5],
                               # negative identifiers whose maximum happens to equal (number of identifiers - 1)
                               [-2, 0, 2], [-7, 1], [-4, -3, 2], [-1, 0, 1], [-3, -2, -1, 3]])
            ids = [rng.choice(pool) for _ in range(rows)]
            base = {"kind": "grouped", "ids": ids, "as_list": rng.random() < 0.3}
            x = [rng.randrange(2) for _ in range(len(set(ids)))]
        tk = rng.choice(["none", "fork_int", "fork_vec", "fork_vec", "slice", "slice", "list", "mask", "mask_np"])
        if tk == "none":
            trans = {"kind": "none"}
        elif tk == "fork_int":
            trans = {"kind": "fork", "size": rng.randint(0, 3)}
        elif tk == "fork_vec":
            trans = {"kind": "fork", "size": [1] * rows if rng.random() < 0.2 else [rng.choice([0, 1, 1, 2, 3]) for _ in range(rows)]}
        elif tk == "slice":
            trans = {"kind": "slice", "s": [rng.choice([None, -rows - 1, -2, -1, 0, 1, 2, rows, rows + 2]),
                                            rng.choice([None, -rows - 1, -2, -1, 0, 1, 2, rows, rows + 2]),
                                            rng.choice([None, 1, 2, -1, -2, 3])]}
        elif tk == "list":
            trans = {"kind": "list", "idx": [rng.randrange(-rows, rows) for _ in range(rng.randint(0, rows + 2))]}
        else:
            trans = {"kind": "mask", "m": [rng.random() < 0.5 for _ in range(rows)], "np": tk == "mask_np"}
        cases.append({"base": base, "trans": trans, "x": x})
    for _ in range({"quick": 6, "search": 6, "thorough": 30}[tier]):
        n1, n2 = rng.randint(1, 3), rng.randint(1, 3)
        cases.append({"join": True, "n1": n1, "n2": n2,
                      "fs": [rand_formula(rng, n1, 2, maxd=2, maxc=2) for _ in range(rng.randint(1, 3))],
                      "gs": [rand_formula(rng, n2, 2, maxd=2, maxc=2) for _ in range(rng.randint(1, 3))],
                      "x1": [rng.randrange(2) for _ in range(n1)], "x2": [rng.randrange(2) for _ in range(n2)]})
    return cases


def corpus():
    return [
        # witnesses of F8 (fixed): identifiers that are not positions
        {"base": {"kind": "grouped", "ids": [1, 2, 2], "as_list": False}, "trans": {"kind": "none"}, "x": [1, 1]},
        {"base": {"kind": "grouped", "ids": [5, 5, 9], "as_list": False}, "trans": {"kind": "fork", "size": 2}, "x": [0, 1]},
        # witness of F11 (open): the smallest join
        {"join": True, "n1": 1, "n2": 1, "fs": [[[(0, 1)]]], "gs": [[[(0, 1)]]], "x1": [1], "x2": [1]},
    ]


# ----------------------------------------------------------------------------- implementation side
def _build_forms(n, k, fs, kinds):
    from datascope.utility.provenance import Units, Provenance
    units = Units(units=n, candidates=k)
    return Provenance([build_expr(units, f, kd) for f, kd in zip(fs, kinds)])


def run_impl(c):
    import numpy as np
    from datascope.utility.provenance import Provenance
    if c.get("join"):
        p1 = _build_forms(c["n1"], 2, c["fs"], ["full"] * len(c["fs"]))
        p2 = _build_forms(c["n2"], 2, c["gs"], ["full"] * len(c["gs"]))
        j = p1.join(p2, "a", "b")
        assign = {}
        for u, v in enumerate(c["x1"]):
            assign[("a", u)] = v
        for u, v in enumerate(c["x2"]):
            assign[("b", u)] = v
        assert len(j.units) == c["n1"] + c["n2"], j.units
        q = np.asarray(j.query(assign))
        assert q.ndim == 1 and q.dtype == np.bool_ and len(q) == len(j), (q.shape, q.dtype)
        return {"mask": q.tolist()}
    b = c["base"]
    units_out = []
    if b["kind"] == "forms":
        p = _build_forms(b["n"], b["k"], b["fs"], b["kinds"])
    elif b["kind"] == "default":
        p = Provenance(units=b["n"])
    else:
        p = Provenance(data=list(b["ids"]) if b["as_list"] else np.array(b["ids"], dtype=int))
        units_out = [int(u) for u in p.units]
    x = np.array(c["x"], dtype=int)
    q0 = p.query(x)
    t = c["trans"]
    if t["kind"] == "none":
        p2 = p
    elif t["kind"] == "fork":
        p2 = p.fork(t["size"] if isinstance(t["size"], int) else np.array(t["size"], dtype=int))
    elif t["kind"] == "slice":
        p2 = p[slice(*t["s"])]
    elif t["kind"] == "list":
        p2 = p[list(t["idx"])] if t["idx"] else p[np.array([], dtype=int)]
    else:
        p2 = p[np.array(t["m"], dtype=bool)] if t["np"] else p[list(t["m"])]
    q1 = p2.query(x)
    assert np.asarray(q0).ndim == 1 and np.asarray(q1).ndim == 1
    # the transformed provenance is a container of its own (row-wise COPY of the selection): an in-place edit of the source afterwards
    # must not show through it, nor an edit of it through the source (whatever the repeat counts / selection, incl. the identity)
    if p2 is not p and len(p) >= 2 and len(p2) >= 1:
        q1_before = np.asarray(q1).tolist()
        p[0] = p[len(p) - 1]
        assert np.asarray(p2.query(x)).tolist() == q1_before, "editing the source changed the derived provenance"
        src_after = np.asarray(p.query(x)).tolist()
        p2[0] = p2[len(p2) - 1]
        assert np.asarray(p.query(x)).tolist() == src_after, "editing the derived provenance changed the source"
    return {"units": units_out, "q_orig": np.asarray(q0).tolist(), "q_trans": np.asarray(q1).tolist(), "len": len(p2)}


# ----------------------------------------------------------------------------- Coq side
def emit(c, o):
    if c.get("join"):
        return "(CJoin (mkJoin %s %s %s %s %s))" % (cf.dnfs(c["fs"]), cf.dnfs(c["gs"]), cf.nats(c["x1"]),
                                                     cf.nats(c["x2"]), cf.bools(o["mask"]))
    b = c["base"]
    if b["kind"] == "forms":
        base = "(BForms %s)" % cf.dnfs(b["fs"])
        rows = len(b["fs"])
    elif b["kind"] == "default":
        base = "(BDefault %s)" % cf.nat(b["n"])
        rows = b["n"]
    else:
        base = "(BGrouped %s)" % cf.zs(b["ids"])
        rows = len(b["ids"])
    t = c["trans"]
    if t["kind"] == "none":
        trans = "TNone"
    elif t["kind"] == "fork":
        reps = [t["size"]] * rows if isinstance(t["size"], int) else t["size"]
        trans = "(TFork %s)" % cf.nats(reps)
    elif t["kind"] == "slice":
        trans = "(TSelect %s)" % cf.nats(list(range(*slice(*t["s"]).indices(rows))))
    elif t["kind"] == "list":
        trans = "(TSelect %s)" % cf.nats([i % rows for i in t["idx"]])
    else:
        trans = "(TMask %s)" % cf.bools(t["m"])
    return "(CRow (mkRow %s %s %s %s %s %s %s))" % (base, trans, cf.nats(c["x"]), cf.zs(o["units"]),
                                                     cf.bools(o["q_orig"]), cf.bools(o["q_trans"]), cf.nat(o["len"]))


def finding_tag(c, o):
    return "callsite:Provenance.join" if c.get("join") else None


def nontrivial(c, o):
    if c.get("join") or not isinstance(o, dict) or "q_orig" not in o:
        return False
    return len(set(o["q_orig"])) > 1 or len(o["q_trans"]) != len(o["q_orig"])


def distribution(cases, outs):
    from collections import Counter
    return {"base": dict(Counter("join" if c.get("join") else c["base"]["kind"] for c in cases)),
            "trans": dict(Counter("join" if c.get("join") else c["trans"]["kind"] for c in cases)),
            "exceptions": dict(Counter(o["exc"] for o in outs if isinstance(o, dict) and "exc" in o))}


def shrink(c):
    if c.get("join"):
        return
    if c["trans"]["kind"] != "none":
        d = dict(c)
        d["trans"] = {"kind": "none"}
        yield d
    b = c["base"]
    if b["kind"] == "grouped" and len(b["ids"]) > 1 and c["trans"]["kind"] == "none":
        for i in range(len(b["ids"])):
            ids = b["ids"][:i] + b["ids"][i + 1:]
            d = dict(c)
            d["base"] = dict(b, ids=ids)
            d["x"] = c["x"][:len(set(ids))]
            yield d
    if b["kind"] == "forms" and len(b["fs"]) > 1 and c["trans"]["kind"] == "none":
        for i in range(len(b["fs"])):
            d = dict(c)
            d["base"] = dict(b, fs=b["fs"][:i] + b["fs"][i + 1:], kinds=b["kinds"][:i] + b["kinds"][i + 1:])
            yield d


# functions of the implementation this property is anchored in: their line coverage under the correspondence cases is
# measured on the staged copy and reported in the evidence (implementation_line_coverage)
ANCHORS = [
    "datascope/utility/provenance.py:Provenance.fork",
    "datascope/utility/provenance.py:Provenance.__getitem__",
    "datascope/utility/provenance.py:Provenance.__init__",
    "datascope/utility/provenance.py:Provenance.join",
    "datascope/utility/provenance.py:Units.union",
    "datascope/utility/provenance.py:Units.prefix",
]

MANIFEST = {
    "text": "Proof: C12_fork, C12_select (slice / index list / mask), C12_default, C12_grouped + C12_grouped_units "
            "(any integer identifiers; units = sorted distinct identifiers; row present iff the unit named by its "
            "identifier is), for every stored array and assignment; C12_join_spec states and proves what a correct "
            "join must satisfy. Tied to the code metamorphically: query() of the transformed provenance vs the "
            "transformed query() of the original, and both vs the model, evaluated in Coq. Provenance.join itself does "
            "not meet its specification on any input: known finding F11 (printed as KNOWN-FINDING).",
    "note": "Trusted: Coq kernel + vm_compute; harness; CPython slice.indices; numpy repeat/indexing/unique/"
            "searchsorted as modelled. join: specification proved, implementation is an open finding.",
    "technique": "Coq proof (list induction) about an executable model + metamorphic model/implementation "
                 "correspondence evaluated by vm_compute",
}
