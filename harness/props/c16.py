"""C16 -- Monte-Carlo timeout and truncation budgets keep the estimate well defined (API level, scripted clock)."""
from props import c04
from props.c04 import (run_impl, emit, finding_tag, nontrivial, distribution, shrink, flags_without_coq,  # noqa: F401
                       COQ_IMPORTS, SHARD, JOBS, WORKER_TIMEOUT, TRUSTED)

RULE = ("cases = the C04 games with an injected clock at datascope.importance.shapley.time that advances by 1 per utility "
        "evaluation (a quarter of the timeout cases add a stall right after the start, so that the budget is already exhausted at the first reading after start_time), budgets chosen so that the time expires after EVERY possible iteration incl. the first (and never), "
        "and truncation settings steps in {0,1,2,3} x tolerances {0, .1, .5, 1, 2.5} with mean scores placed so that "
        "runs enter and leave the band; compared inside Coq: scores (None when NaN), call history, number of "
        "permutations drawn, evaluations per permutation -- against the loop model, and against the stated rules "
        "(completed permutations only, at least one; cut only after more than `steps` consecutive in-band scores; cut "
        "units get zero; steps = 0 never cuts); non-trivial = a cut or a timeout actually happened; distinct = JSON")
EXHAUSTIVE = {"quick": False, "thorough": False}
COQ_IMPORTS = "From DS Require Import Spec.Dnf Model.MonteCarlo Check.C03 Check.C04."
ASSUMPTIONS = ["the clock is read through the module attribute `time` (first reading 0 = start_time; later readings a function "
               "of the number of utility evaluations made so far plus an optional stall, so extra reads do not shift it)"]


def gen(rng, tier):
    cases = []
    N = {"quick": 240, "search": 900, "thorough": 2500}[tier]
    for k in range(N):
        kind = k % 3
        c = c04.rand_mc_case(rng, truncation=kind in (0, 2), timeout=kind in (1, 2))
        c["iters"] = rng.randint(1, 6) if kind == 0 else rng.randint(2, 6)
        if kind in (0, 2):
            # put the mean where the table lives so that the band is really entered and left
            vals = [v for _, v in c["table"] if not isinstance(v, str)]
            v = rng.choice(vals)
            c["mean"] = [v[0], v[1]] if v[0] != 0 else [1, 2]
            c["tolr"] = rng.choice([[0, 1], [1, 10], [1, 2], [1, 1], [1, 1], [5, 2], [5, 2]])
        if kind in (1, 2):
            # budgets: expire after every possible iteration, incl. the first
            c["timeout"] = rng.choice([1, c["n"] - 1 if c["n"] > 1 else 1, c["n"], c["n"], 2 * c["n"], 2 * c["n"], 3 * c["n"] + 1,
                                       3 * c["n"] + 1, 10 ** 6])
            # a stall right after the start: the budget is already exhausted at the first reading after start_time
            if rng.random() < 0.25:
                c["jump"] = rng.choice([c["timeout"] + 1, c["timeout"], 1])
        cases.append(c)
    return cases


def corpus():
    # finding F4 (fixed): the budget expires during the very first permutation
    return [{"n": 3, "prov": {"kind": "default", "n": 3}, "rows": 3,
             "table": [[list(rs), [sum(rs), 1]] for rs in c04.c03.all_row_sets(3)], "null": [0, 1], "seed": 7, "iters": 4,
             "mean": [1, 1], "tolr": [0, 1], "steps": 0, "timeout": 1, "dt": 1, "script": None}]


def nontrivial(c, o):  # noqa: F811
    if not isinstance(o, dict) or "counts" not in o:
        return False
    return any(k < c["n"] for k in o["counts"]) or len(o["drawn"]) < c["iters"]


# functions of the implementation this property is anchored in: their line coverage under the correspondence cases is
# measured on the staged copy and reported in the evidence (implementation_line_coverage)
ANCHORS = [
    "datascope/importance/shapley.py:ShapleyImportance._shapley_montecarlo",
]

MANIFEST = {
    "text": "Proof: C16_timeout_average (whatever the clock does, once an iteration has run the result is defined and is "
            "the average of exactly the first k >= 1 completed permutations), C16_first_iteration_timeout, "
            "C16_truncation_sound (counter invariant by induction over steps: a cut happens only after more than "
            "`steps` consecutive in-band scores), C16_cut_units_get_zero, C16_no_cut. Tied to the code at API level "
            "with an injected clock expiring after every possible iteration (incl. the first) and tolerance/steps "
            "grids: scores, call history, permutations drawn and evaluations per permutation vs the loop model and vs "
            "the stated rules evaluated on the implementation's own trace, inside Coq.",
    "note": "Trusted: Coq kernel + vm_compute; harness; the scripted clock (module attribute `time`).",
    "technique": "Coq proof (invariant by induction over loop steps and iterations) about an executable model + "
                 "API-level correspondence with fault-injected clock evaluated by vm_compute",
}
