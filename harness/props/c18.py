"""C18 -- results do not depend on how data and labels are represented (partial by nature; differential)."""
import coqfmt as cf

RULE = ("cases = datasets (6-8 rows, 2-3 classes; half of the neighbor cases with features of magnitude 2^27; incl. integer labels with a gap such as {0,2} / {0,2,5}) each scored by "
        "every method (neighbor K=1, bruteforce, montecarlo) in up to 14 representations: features ndarray / DataFrame "
        "(default and shuffled index labels); labels ndarray / Series (default index, shuffled index labels, the "
        "frame's index) as int / float / str (sort orders agreeing); a stateless FunctionTransformer pipeline instead "
        "of pre-transformed features, with dense and (neighbor only) sparse output; all score vectors must agree with "
        "the ndarray/int/pre-transformed baseline to 1e-12; a representation a method rejects by assertion counts as "
        "'not accepted', not as a failure; non-trivial = the baseline vector is not constant; distinct = JSON")
EXHAUSTIVE = {"quick": False, "thorough": False}
SHARD = 50
JOBS = 10
COQ_IMPORTS = "From DS Require Import Model.Runtime."
TRUSTED = ["pandas / scipy.sparse container semantics are runtime facts observed by this differential run"]
ASSUMPTIONS = ["PARTIAL: C18_same_decode_same_score is about an abstract decode function; that the code decodes every "
               "representation to the same canonical data is observed", "rows are paired with labels by POSITION"]
WORKER_TIMEOUT = 3300


def gen(rng, tier):
    cases = []
    for k in range({"quick": 36, "search": 60, "thorough": 150}[tier]):
        # the neighbor method is cheap: two thirds of the cases; labels with a gap in two thirds of those
        method = ["neighbor", "bruteforce", "neighbor", "montecarlo", "neighbor", "neighbor"][k % 6]
        cases.append({"data_seed": rng.randrange(1 << 20), "n": rng.choice([6, 7]) if method == "neighbor" else 6,
                      "classes": rng.choice([2, 2, 3]), "gap": k % 3 != 1, "method": method, "model": rng.choice(["knn", "logreg"]),
                      # half of the neighbor cases: features of timestamp-like magnitude (2^27 + small), whose neighbour order
                      # needs more than single precision -- every representation must still be handled in double precision
                      "big": method == "neighbor" and k % 4 < 2})
    return cases


def run_impl(c):
    import warnings
    import numpy as np
    import pandas as pd
    from scipy.sparse import csr_matrix
    from sklearn.pipeline import Pipeline
    from sklearn.preprocessing import FunctionTransformer
    from datascope.importance.shapley import ShapleyImportance
    from datascope.importance.utility import SklearnModelAccuracy
    from props import rtcommon
    X, y, Xv, yv = rtcommon.dataset(c["data_seed"], n=c["n"], classes=c["classes"], gap=c["gap"])
    if c.get("big"):
        X, Xv = X + 2.0 ** 27, Xv + 2.0 ** 27
    n = len(y)
    r = np.random.RandomState(c["data_seed"] + 1)
    perm_labels = r.permutation(n)            # shuffled index LABELS (positions unchanged)

    def tf(A):
        return np.asarray(A, dtype=float) * 2.0 + 1.0

    def tf_sparse(A):
        return csr_matrix(np.asarray(A, dtype=float) * 2.0 + 1.0)

    names = {0: "a", 2: "c", 5: "f", 1: "b"}

    def labels(kind, arr):
        if kind == "int":
            return arr.copy()
        if kind == "float":
            return arr.astype(float)
        return np.array([names[int(v)] for v in arr])

    kw = {"montecarlo": dict(mc_iterations=5, mc_truncation_steps=0, seed=5), "bruteforce": {}, "neighbor": {}}[c["method"]]

    def run(Xa, ya, Xb, yb, pipeline=None):
        util = SklearnModelAccuracy(rtcommon.make_model(c["model"]))
        imp = ShapleyImportance(method=c["method"], utility=util, pipeline=pipeline, **kw)
        with warnings.catch_warnings():
            warnings.simplefilter("ignore")
            if pipeline is not None:
                # a HISTORY on the one object: fitted first on other data of the same shape and container type (the rows in reverse
                # order) and scored, then fitted on the real data -- the pipeline must be applied to the data of the LAST fit
                rev = (lambda A: A.iloc[::-1] if hasattr(A, "iloc") else A[::-1])
                imp.fit(rev(Xa), rev(ya))
                imp.score(Xb, yb)
                if c["method"] == "montecarlo":      # the first call consumed permutations: restart the instance's stream
                    imp.randomstate = np.random.RandomState(kw["seed"])
            imp.fit(Xa, ya)
            return np.asarray(imp.score(Xb, yb), dtype=float)

    base = run(tf(X), y, tf(Xv), yv)
    reps = []
    df, dfv = pd.DataFrame(X, columns=["p", "q"]), pd.DataFrame(Xv, columns=["p", "q"])
    df_shuf = pd.DataFrame(X, columns=["p", "q"], index=perm_labels)
    variants = [
        ("ndarray,float-labels,pre", lambda: run(tf(X), labels("float", y), tf(Xv), labels("float", yv))),
        ("ndarray,str-labels,pre", lambda: run(tf(X), labels("str", y), tf(Xv), labels("str", yv))),
        ("ndarray,Series-labels,pre", lambda: run(tf(X), pd.Series(y), tf(Xv), pd.Series(yv))),
        ("ndarray,Series-shuffled-index,pre", lambda: run(tf(X), pd.Series(y, index=perm_labels), tf(Xv), pd.Series(yv))),
        ("ndarray,Series-str,pre", lambda: run(tf(X), pd.Series(labels("str", y)), tf(Xv), pd.Series(labels("str", yv)))),
        ("DataFrame,ndarray-labels,pre", lambda: run(pd.DataFrame(tf(X)), y, pd.DataFrame(tf(Xv)), yv)),
        ("DataFrame,Series,pre", lambda: run(pd.DataFrame(tf(X)), pd.Series(y), pd.DataFrame(tf(Xv)), pd.Series(yv))),
        ("DataFrame-shuffled-index,Series-same-index,pre",
         lambda: run(pd.DataFrame(tf(X), index=perm_labels), pd.Series(y, index=perm_labels), pd.DataFrame(tf(Xv)), pd.Series(yv))),
        ("ndarray,int,pipeline", lambda: run(X, y, Xv, yv, Pipeline([("f", FunctionTransformer(tf))]))),
        ("DataFrame,Series,pipeline", lambda: run(df, pd.Series(y), dfv, pd.Series(yv), Pipeline([("f", FunctionTransformer(tf))]))),
        ("DataFrame,Series-shuffled-index,pipeline",
         lambda: run(df, pd.Series(y, index=perm_labels), dfv, pd.Series(yv), Pipeline([("f", FunctionTransformer(tf))]))),
        ("DataFrame-shuffled,Series-default,pipeline",
         lambda: run(df_shuf, pd.Series(y), dfv, pd.Series(yv), Pipeline([("f", FunctionTransformer(tf))]))),
        ("ndarray,float-labels,pipeline", lambda: run(X, labels("float", y), Xv, labels("float", yv), Pipeline([("f", FunctionTransformer(tf))]))),
        ("ndarray,int,sparse-pipeline", lambda: run(X, y, Xv, yv, Pipeline([("f", FunctionTransformer(tf_sparse))]))),
    ]
    for name, f in variants:
        try:
            s = f()
            ok = s.shape == base.shape and bool(np.all(np.abs(s - base) <= 1e-12 * (1 + np.abs(base))))
            reps.append([name, "ok" if ok else "DIFFERS", [float(x) for x in s.tolist()]])
        except AssertionError:
            reps.append([name, "not-accepted", []])
        except BaseException as e:  # noqa
            if isinstance(e, (KeyboardInterrupt, SystemExit)):
                raise
            reps.append([name, "raised:" + type(e).__name__, []])
    return {"base": [float(x) for x in base.tolist()], "reps": reps}


def emit(c, o):
    checks = [r[1] in ("ok", "not-accepted") for r in o["reps"]]
    import math
    checks.append(all(math.isfinite(x) for x in o["base"]))
    return "(mkCase %s [] (q 0 1))" % cf.bools(checks)


def nontrivial(c, o):
    return isinstance(o, dict) and "base" in o and len(set(o["base"])) > 1


def distribution(cases, outs):
    from collections import Counter
    st = Counter((r[0], r[1]) for o in outs if isinstance(o, dict) and "reps" in o for r in o["reps"])
    return {"methods": dict(Counter(c["method"] for c in cases)), "gap_labels": sum(1 for c in cases if c["gap"]), "timestamp_magnitude_features": sum(1 for c in cases if c.get("big")),
            "representation_outcomes": {"%s: %s" % k: v for k, v in sorted(st.items())},
            "exceptions": dict(Counter(o["exc"] for o in outs if isinstance(o, dict) and "exc" in o))}


# functions of the implementation this property is anchored in: their line coverage under the correspondence cases is
# measured on the staged copy and reported in the evidence (implementation_line_coverage)
ANCHORS = [
    "datascope/importance/importance.py:Importance.fit",
    "datascope/importance/importance.py:Importance.score",
    "datascope/importance/shapley.py:ShapleyImportance._shapley_neighbor",
    "datascope/importance/shapley.py:ShapleyImportance._shapley_bruteforce",
    "datascope/importance/shapley.py:ShapleyImportance._shapley_montecarlo",
    "datascope/importance/common.py:expand_series_based_on_index",
    "datascope/importance/utility.py:SklearnModelUtility._align_labels",
    "datascope/importance/utility.py:SklearnModelUtility._process_metric_score_inputs",
]

MANIFEST = {
    "text": "PARTIAL BY NATURE. Proof: C18_same_decode_same_score (scores are a function of the decoded canonical data) and "
            "C18_label_classes (the label encoder depends only on the sorted distinct labels). That the CODE decodes "
            "every representation to the same canonical data is observed: each dataset is scored by every method in up "
            "to 14 representations (ndarray/DataFrame incl. shuffled index labels, ndarray/Series labels as "
            "int/float/str incl. integer labels with gaps, a stateless pipeline instead of pre-transformed features, "
            "dense and sparse) and all vectors must agree with the baseline; rejections by assertion are recorded as "
            "'not accepted'.",
    "note": "Trusted: Coq kernel; harness; pandas/scipy container semantics are observed, not modelled.",
    "technique": "Coq statement about an abstract decode function + differential runs across data representations",
}
