"""C14 -- element-wise utilities decompose the metric they stand for (unit level)."""
import itertools
from fractions import Fraction

import coqfmt as cf

RULE = ("cases = exhaustive (<=4 validation points x <=3 classes: every training class set, validation label vector and "
        "prediction vector for accuracy; every binary validation vector containing both classes x every prediction "
        "vector for ROC-AUC; label sets with holes such as {0, 2}) + random larger cases (<=12 points, <=5 classes, non-contiguous / negative labels, training "
        "classes absent from validation, validation labels given as ndarray or Series), the SAME utility object reused "
        "across cases and label arrays edited in place between calls; non-trivial = the prediction is neither all "
        "right nor all wrong; distinct = JSON")
EXHAUSTIVE = {"quick": True, "thorough": True}
SHARD = 400
JOBS = 8
TRUSTED = ["scikit-learn accuracy_score / roc_auc_score (the metric side of every comparison); the identity "
           "ROC-AUC(hard prediction) = (TPR+TNR)/2 is cross-checked against roc_auc_score on every AUC case"]
ASSUMPTIONS = ["ROC-AUC: binary labels, validation contains both classes (the metric is undefined otherwise)"]


def gen(rng, tier):
    cases = []
    # exhaustive small universe, accuracy
    for T in (1, 2, 3, 4) if tier != "search" else ():
        for classes in ([0], [0, 1], [0, 1, 2], [0, 2], [1, 3]):       # incl. label sets with a hole / not starting at 0
            if T == 4 and len(classes) == 3 and tier == "quick":
                continue
            for yt in itertools.product(classes, repeat=T):
                for yp in itertools.product(classes, repeat=T):
                    cases.append({"auc": False, "train": classes, "yt": list(yt), "yp": list(yp), "series": False})
    for T in (2, 3, 4) if tier != "search" else ():
        for yt in itertools.product([0, 1], repeat=T):
            if len(set(yt)) < 2:
                continue
            for yp in itertools.product([0, 1], repeat=T):
                cases.append({"auc": True, "train": [0, 1, 1], "yt": list(yt), "yp": list(yp), "series": False})
    for _ in range({"quick": 400, "search": 3000, "thorough": 5000}[tier]):
        auc = rng.random() < 0.4
        T = rng.randint(2, 12)
        if auc:
            a, b = rng.choice([(0, 1), (-1, 1), (3, 7), (1, 2)])
            train = [a, b] + [rng.choice([a, b]) for _ in range(rng.randint(0, 4))]
            yt = [a, b] + [rng.choice([a, b]) for _ in range(T - 2)]
            rng.shuffle(yt)
            yp = [rng.choice([a, b]) for _ in range(T)]
        else:
            pool = rng.choice([[0, 1, 2, 3, 4], [3, 7, 8, 20, 21], [-5, -1, 0, 4, 9], [0, 2, 3, 7, 9], [0, 5, 6, 8, 10], [1, 2, 4, 5, 7]])[:rng.randint(1, 5)]
            train = list(pool) + [rng.choice(pool) for _ in range(rng.randint(0, 4))]
            vis = pool[:rng.randint(1, len(pool))]            # some training classes may be absent from validation
            yt = [rng.choice(vis) for _ in range(T)]
            yp = [rng.choice(pool) for _ in range(T)]
        cases.append({"auc": auc, "train": train, "yt": yt, "yp": yp, "series": rng.random() < 0.3})
    return cases


_UTILS = {}
_BUF = {}


def run_impl(c):
    import numpy as np
    import pandas as pd
    from sklearn.metrics import accuracy_score, roc_auc_score
    from sklearn.neighbors import KNeighborsClassifier
    from datascope.importance.utility import SklearnModelAccuracy, SklearnModelRocAuc
    key = "auc" if c["auc"] else "acc"
    if key not in _UTILS:       # one utility object for all cases: results must not depend on earlier calls
        _UTILS[key] = (SklearnModelRocAuc if c["auc"] else SklearnModelAccuracy)(KNeighborsClassifier(n_neighbors=1))
    u = _UTILS[key]
    T = len(c["yt"])
    # the training labels, too, live in one buffer per length that is rewritten in place between calls (label repair): every
    # answer must refer to the CURRENT contents
    y_train = _BUF.setdefault((key, "train", len(c["train"])), np.zeros(len(c["train"]), dtype=int))
    y_train[:] = c["train"]
    # reuse one label buffer per length, edited in place between calls
    buf = _BUF.setdefault((key, T), np.zeros(T, dtype=int))
    buf[:] = c["yt"]
    y_test = pd.Series(buf.copy()) if c["series"] else buf
    X_train = np.zeros((len(y_train), 1))
    X_test = np.zeros((T, 1))
    table = np.asarray(u.elementwise_score(X_train, y_train, X_test, y_test if not c["series"] else y_test.to_numpy()), dtype=float)
    nullv = np.asarray(u.elementwise_null_score(X_train, y_train, X_test, y_test), dtype=float)
    nulls = float(u.null_score(X_train, y_train, X_test, y_test))
    yp = np.array(c["yp"])
    yt = np.array(c["yt"])
    metric = float(roc_auc_score(yt, yp)) if c["auc"] else float(accuracy_score(yt, yp))
    assert table.shape == (len(set(c["train"])), T), table.shape
    assert nullv.shape == (T,), nullv.shape
    return {"table": table.tolist(), "nullv": nullv.tolist(), "nulls": nulls, "metric": metric}


def emit(c, o):
    return "(mkCase %s %s %s %s %s %s %s %s %s)" % (
        cf.b(c["auc"]), cf.zs(c["train"]), cf.zs(c["yt"]), cf.zs(c["yp"]), cf.qq(Fraction(1, 2 ** 36)),
        cf.lst([cf.qs(r) for r in o["table"]]), cf.qs(o["nullv"]), cf.qq(o["nulls"]), cf.qq(o["metric"]))


def nontrivial(c, o):
    right = sum(1 for a, b in zip(c["yt"], c["yp"]) if a == b)
    return 0 < right < len(c["yt"])


def distribution(cases, outs):
    from collections import Counter
    return {"metric": dict(Counter("auc" if c["auc"] else "accuracy" for c in cases)),
            "points": dict(sorted(Counter(len(c["yt"]) for c in cases).items())),
            "training_classes": dict(sorted(Counter(len(set(c["train"])) for c in cases).items())),
            "training_class_absent_from_validation": sum(1 for c in cases if set(c["train"]) - set(c["yt"])),
            "series_labels": sum(1 for c in cases if c["series"]),
            "exceptions": dict(Counter(o["exc"] for o in outs if isinstance(o, dict) and "exc" in o))}


def shrink(c):
    T = len(c["yt"])
    for j in range(T):
        if T > (2 if c["auc"] else 1):
            d = dict(c, yt=c["yt"][:j] + c["yt"][j + 1:], yp=c["yp"][:j] + c["yp"][j + 1:])
            if not c["auc"] or len(set(d["yt"])) == 2:
                yield d
    for i in range(len(c["train"])):
        t = c["train"][:i] + c["train"][i + 1:]
        if set(t) == set(c["train"]):
            yield dict(c, train=t)


# functions of the implementation this property is anchored in: their line coverage under the correspondence cases is
# measured on the staged copy and reported in the evidence (implementation_line_coverage)
ANCHORS = [
    "datascope/importance/utility.py:SklearnModelAccuracy.elementwise_score",
    "datascope/importance/utility.py:SklearnModelAccuracy.elementwise_null_score",
    "datascope/importance/utility.py:SklearnModelRocAuc.elementwise_score",
    "datascope/importance/utility.py:SklearnModelRocAuc.elementwise_null_score",
    "datascope/importance/utility.py:SklearnModelUtility.null_score",
]

MANIFEST = {
    "text": "Proof: C14_accuracy_mean (any number of classes: mean of the picked element-wise entries = accuracy), "
            "C14_accuracy_null (mean element-wise null = null score = the attained minimum over constant training-class "
            "predictions), C14_auc_sum (binary: picked entries sum to (TPR+TNR)/2), C14_auc_null (= 1/2), C14_auc_entry. "
            "Tied to the code at unit level: the four utility methods vs the model tables and vs scikit-learn's "
            "accuracy_score / roc_auc_score, inside Coq; exhaustive for <=4 points x <=3 classes; one utility object "
            "reused and label buffers edited in place across cases.",
    "note": "Trusted: Coq kernel + vm_compute; harness; scikit-learn metrics; ROC-AUC(hard) = (TPR+TNR)/2 cross-checked.",
    "technique": "Coq proof (sums of indicators, first-minimum search) about an executable model + unit-level "
                 "correspondence against scikit-learn metrics evaluated by vm_compute",
}
