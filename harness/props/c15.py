"""C15 -- utilities are total over coalitions: degenerate subsets score the null value (partial by nature)."""
import itertools
import math
from fractions import Fraction

import coqfmt as cf

RULE = ("cases = (training set, model, utility) triples; for EVERY subset of the 6-7 training rows (exhaustive, 2^n) the "
        "utility is called with a supplied null score (incl. exactly 0.0) and, independently, the same fit/predict/metric "
        "steps are run without any handler to classify the evaluation (score / ValueError / RuntimeWarning / other); the "
        "exception-flow model evaluated inside Coq predicts the score of every subset; plus bruteforce and montecarlo "
        "score() on the same data must be finite. Models: KNN(1), KNN(3), logistic regression, decision tree, "
        "GaussianNB, SVC, three MLP(lbfgs) configurations (probability outputs wider than the subset's class set), scaler+LR pipeline [thorough: + random forest, SVC(probability), SGD]; utilities: "
        "accuracy with 2-3 classes, binary ROC-AUC; non-trivial = at least one subset fails AND at least one succeeds")
EXHAUSTIVE = {"quick": True, "thorough": True}
SHARD = 8
JOBS = 14
COQ_IMPORTS = "From DS Require Import Model.Runtime."
TRUSTED = ["which exceptions / warnings scikit-learn raises on degenerate subsets cannot be modelled in Gallina: observed "
           "exhaustively over all subsets; the independent classification re-runs fit/predict/metric without handler"]
ASSUMPTIONS = ["PARTIAL: totality reduces, by C15_fallback_partial, to 'scikit-learn raises only handled kinds', which is "
               "an observation over the enumerated subsets and models, not a theorem"]
WORKER_TIMEOUT = 3300

MODELS_QUICK = ["knn1", "knn3", "logreg", "tree", "gnb", "svc", "mlp", "mlp4", "mlp_short", "pipe_lr"]
MODELS_MORE = ["forest", "svc_proba", "sgd", "knn5", "pipe_knn"]


def gen(rng, tier):
    cases = []
    models = MODELS_QUICK + (MODELS_MORE if tier == "thorough" else [])
    nsets = {"quick": 2, "search": 2, "thorough": 5}[tier]
    for s in range(nsets):
        for m in models:
            for metric in ("accuracy", "auc"):
                n = 6 if tier != "thorough" else rng.choice([6, 7])
                classes = 2 if metric == "auc" else rng.choice([2, 3])
                cases.append({"seed": rng.randrange(1 << 30), "n": n, "classes": classes, "model": m, "metric": metric,
                              "null": rng.choice([0.0, 0.0, 0.25, 0.5, -1.0]), "absent_class": rng.random() < 0.5})
    return cases


def make_model(name):
    from sklearn.neighbors import KNeighborsClassifier
    from sklearn.linear_model import LogisticRegression, SGDClassifier
    from sklearn.tree import DecisionTreeClassifier
    from sklearn.naive_bayes import GaussianNB
    from sklearn.svm import SVC
    from sklearn.neural_network import MLPClassifier
    from sklearn.ensemble import RandomForestClassifier
    from sklearn.pipeline import Pipeline
    from sklearn.preprocessing import StandardScaler
    return {"knn1": lambda: KNeighborsClassifier(n_neighbors=1), "knn3": lambda: KNeighborsClassifier(n_neighbors=3),
            "knn5": lambda: KNeighborsClassifier(n_neighbors=5),
            "logreg": lambda: LogisticRegression(), "tree": lambda: DecisionTreeClassifier(random_state=0),
            "gnb": lambda: GaussianNB(), "svc": lambda: SVC(), "svc_proba": lambda: SVC(probability=True, random_state=0),
            "mlp": lambda: MLPClassifier(hidden_layer_sizes=(3,), solver="lbfgs", max_iter=30, random_state=0),
            "mlp4": lambda: MLPClassifier(hidden_layer_sizes=(4,), solver="lbfgs", max_iter=200, random_state=0),
            "mlp_short": lambda: MLPClassifier(hidden_layer_sizes=(5,), solver="lbfgs", max_iter=2, random_state=3),
            "forest": lambda: RandomForestClassifier(n_estimators=5, random_state=0),
            "sgd": lambda: SGDClassifier(random_state=0, max_iter=20, tol=None),
            "pipe_lr": lambda: Pipeline([("s", StandardScaler()), ("m", LogisticRegression())]),
            "pipe_knn": lambda: Pipeline([("s", StandardScaler()), ("m", KNeighborsClassifier(n_neighbors=2))])}[name]()


def dataset(c):
    import numpy as np
    r = np.random.RandomState(c["seed"])
    n, k = c["n"], c["classes"]
    y = np.array([i % k for i in range(n)])
    r.shuffle(y)
    X = r.randn(n, 3) + y.reshape(-1, 1) * 0.7
    nv = 8
    yv = np.array([i % k for i in range(nv)])
    if c["metric"] != "auc" and c["absent_class"] and k == 3:
        yv = np.array([i % 2 for i in range(nv)])     # a training class never appears among the validation labels
    Xv = r.randn(nv, 3) * 1.5 + yv.reshape(-1, 1) * 0.7
    return X, y, Xv, yv


def classify(model, metric, Xs, ys, Xv, yv):
    """re-run the evaluation steps without any handler and classify what happens"""
    import warnings
    import numpy as np
    from sklearn.base import clone
    from sklearn.metrics import accuracy_score, roc_auc_score
    from sklearn.preprocessing import LabelEncoder
    with warnings.catch_warnings():
        warnings.simplefilter("error", category=RuntimeWarning)
        warnings.simplefilter("ignore", category=FutureWarning)
        try:
            np.random.seed(7)
            m = clone(model)
            m.fit(Xs, ys)
            if metric == "accuracy":
                pred = m.predict(Xv)
                return ["ok", float(accuracy_score(yv, pred))]
            classes = np.unique(ys)
            if hasattr(m, "predict_proba"):
                proba = m.predict_proba(Xv)
            else:
                p = m.predict(Xv)
                proba = (p[:, None] == np.array(classes)).astype(int)
            LabelEncoder().fit(ys).inverse_transform(np.argmax(proba, axis=1))
            if proba.shape[1] == 2:
                proba = proba[:, 1]
            return ["ok", float(roc_auc_score(yv, proba, multi_class="ovr"))]
        except ValueError:
            return ["ValueError"]
        except RuntimeWarning:
            return ["RuntimeWarning"]
        except Exception as e:  # noqa
            return ["other", type(e).__name__]


def run_impl(c):
    import warnings
    import numpy as np
    from datascope.importance.utility import SklearnModelAccuracy, SklearnModelRocAuc
    from datascope.importance.shapley import ShapleyImportance
    X, y, Xv, yv = dataset(c)
    model = make_model(c["model"])
    util = (SklearnModelRocAuc if c["metric"] == "auc" else SklearnModelAccuracy)(model)
    ns = float(c["null"])
    evals = []
    n = c["n"]
    for mask in itertools.product([0, 1], repeat=n):
        S = np.array(mask, dtype=bool)
        Xs, ys = X[S], y[S]
        kind = classify(model, c["metric"], Xs, ys, Xv, yv)
        try:
            with warnings.catch_warnings():
                warnings.simplefilter("ignore")
                got = float(util(Xs, ys, Xv, yv, null_score=ns).score)
            got = got if math.isfinite(got) else None
        except BaseException as e:  # noqa
            if isinstance(e, (KeyboardInterrupt, SystemExit)):
                raise
            got = None
        evals.append([kind, got, ns])
    # second pass on the SAME utility object with ANOTHER supplied null score: every degenerate subset (and every fifth of the
    # others) is evaluated again -- the fallback is the null score supplied with THIS call, whatever was answered before
    ns2 = ns + 1.75
    first = list(evals)
    for k, mask in enumerate(itertools.product([0, 1], repeat=n)):
        if first[k][0][0] == "ok" and k % 5:
            continue
        S = np.array(mask, dtype=bool)
        try:
            with warnings.catch_warnings():
                warnings.simplefilter("ignore")
                got = float(util(X[S], y[S], Xv, yv, null_score=ns2).score)
            got = got if math.isfinite(got) else None
        except BaseException as e:  # noqa
            if isinstance(e, (KeyboardInterrupt, SystemExit)):
                raise
            got = None
        evals.append([first[k][0], got, ns2])
    checks = {}
    # the importance methods on the same data: finite scores for every unit
    for method, kw in (("bruteforce", {}), ("montecarlo", {"mc_iterations": 4, "seed": 3})):
        try:
            with warnings.catch_warnings():
                warnings.simplefilter("ignore")
                imp = ShapleyImportance(method=method, utility=util, **kw)
                imp.fit(X, y)
                s = np.asarray(imp.score(Xv, yv), dtype=float)
            checks[method + "_finite"] = bool(s.shape == (n,) and np.all(np.isfinite(s)))
        except BaseException as e:  # noqa
            if isinstance(e, (KeyboardInterrupt, SystemExit)):
                raise
            checks[method + "_finite"] = False
    # the model held by the utility is never fitted (cloned per evaluation)
    checks["model_not_fitted"] = not any(k.endswith("_") and not k.startswith("_") for k in vars(model))
    return {"evals": evals, "checks": checks}


def emit(c, o):
    ev = []
    for kind, got, null in o["evals"]:
        e = {"ok": None, "ValueError": "EValueError", "RuntimeWarning": "ERuntimeWarning", "other": "EOther"}[kind[0]]
        e = "(EOk %s)" % cf.qq(kind[1]) if kind[0] == "ok" else e
        ev.append("(%s, %s, %s)" % (e, cf.qq(null), "None" if got is None else "(Some %s)" % cf.qq(got)))
    return "(mkCase %s %s %s)" % (cf.bools(list(o["checks"].values())), cf.lst(ev), cf.qq(Fraction(1, 10 ** 9)))


def nontrivial(c, o):
    if not isinstance(o, dict) or "evals" not in o:
        return False
    kinds = set(e[0][0] for e in o["evals"])
    return "ok" in kinds and len(kinds) > 1


def distribution(cases, outs):
    from collections import Counter
    kinds = Counter(k[0] if k[0] != "other" else "other:" + k[1] for o in outs if isinstance(o, dict) and "evals" in o for k, _, _ in o["evals"])
    return {"models": dict(Counter(c["model"] for c in cases)), "metrics": dict(Counter(c["metric"] for c in cases)),
            "subset_evaluations": sum(len(o["evals"]) for o in outs if isinstance(o, dict) and "evals" in o),
            "second_pass_evaluations_with_another_null": sum(1 for o in outs if isinstance(o, dict) and "evals" in o
                                                             for e in o["evals"] if e[2] != o["evals"][0][2]),
            "evaluation_kinds": dict(kinds), "supplied_null_scores": dict(Counter(str(c["null"]) for c in cases)),
            "exceptions": dict(Counter(o["exc"] for o in outs if isinstance(o, dict) and "exc" in o))}


# functions of the implementation this property is anchored in: their line coverage under the correspondence cases is
# measured on the staged copy and reported in the evidence (implementation_line_coverage)
ANCHORS = [
    "datascope/importance/utility.py:SklearnModelUtility.__call__",
    "datascope/importance/utility.py:SklearnModelUtility.null_score",
    "datascope/importance/shapley.py:ShapleyImportance._shapley_bruteforce",
    "datascope/importance/shapley.py:ShapleyImportance._shapley_montecarlo",
]

MANIFEST = {
    "text": "PARTIAL BY NATURE. Proof: C15_fallback_partial / C15_utility_fallback -- in the exception-flow model of the two "
            "fallback layers every handled outcome (ValueError, RuntimeWarning, and UserWarning at the method layer) "
            "yields the supplied null score and nothing propagates; any other exception propagates. Totality therefore "
            "reduces to 'scikit-learn raises only handled kinds on degenerate subsets', which no Gallina model can "
            "exhibit: it is observed by enumerating EVERY subset of the training rows for a range of models and both "
            "utilities; each subset's evaluation is classified independently and the model's predicted score is "
            "compared with the implementation inside Coq; bruteforce / montecarlo vectors must be finite.",
    "note": "Trusted: Coq kernel + vm_compute; harness; scikit-learn's exception behaviour is observed, not modelled.",
    "technique": "Coq proof of the exception-flow model + exhaustive subset enumeration against scikit-learn models with "
                 "independent outcome classification, evaluated by vm_compute",
}
