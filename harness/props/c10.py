"""C10 -- decision-diagram algebra agrees with pointwise semantics (unit level at ADD / AValue / ATally)."""
import itertools
import numpy as np

import coqfmt as cf

RULE = ("cases = (a) random nestings of chain / tree / stack / concatenate (depth <= 3, <= 8 variables, elements of "
        "DIFFERENT diameters stacked together) with random edge values incl. invalid ones, over plain AValue[m..] and "
        "ATally[n,K,C] types: value at every assignment and modelcount; (b) random OPERATION SEQUENCES (length <= 4) of "
        "sum with a partner of any shape and WIDTH over the same variables (re-randomised copy, chain, tree, concatenations of 2-3 parts, header trees, 'zig' diagrams whose two nodes per level are told apart by a middle variable; half of them with whole levels of zero edge values; in both operand orders; half over a roomier value type) and restrict of any variable to any value (40% with inplace=True; the copying mode must leave its operand unchanged), applied to the diagram "
        "dumped from the implementation: value table and modelcount after EVERY step; (c) value types: the whole domain, "
        "operator.index of every element, x+y and x-y for all pairs with valid x (out-of-place and in-place), equality, "
        "hashing after in-place updates, dictionary lookups. Compared are semantics, never array layouts. "
        "non-trivial = the value table is not constant; distinct = JSON of the case")
EXHAUSTIVE = {"quick": False, "thorough": False}
SHARD = 40
JOBS = 12
COQ_IMPORTS = "From DS Require Import Model.ADD."
TRUSTED = ["the diagram a test starts from is DUMPED from the implementation (root, nodes, child, adder arrays) and "
           "re-read by the model: only semantics (value tables, model counts) are compared afterwards"]
ASSUMPTIONS = ["two candidates per variable (the constructors hard-code 2)",
               "restrict of the only variable of a one-variable diagram raises IndexError: known finding F12"]
WORKER_TIMEOUT = 3000


def rand_type(rng):
    if rng.random() < 0.5:
        return {"kind": "plain", "max": [rng.randint(1, 3) for _ in range(rng.randint(1, 2))]}
    return {"kind": "tally", "n": rng.randint(1, 3), "k": rng.choice([1, 2, 2]), "c": rng.choice([1, 2, 2])}


def gen(rng, tier):
    cases = []
    N = {"quick": 60, "search": 300, "thorough": 600}[tier]
    for _ in range(N):
        cases.append({"kind": "cons", "type": rand_type(rng), "seed": rng.randrange(1 << 30), "depth": rng.randint(1, 3)})
    for _ in range(N):
        nv = rng.randint(1, 5) if rng.random() < 0.9 else 1
        ops = []
        cur = nv
        for _ in range(rng.randint(1, 4)):
            if cur >= 1 and rng.random() < 0.55:
                ops.append(["restrict", rng.randrange(cur), rng.randint(0, 1), rng.random() < 0.4])   # 40% in place
                cur -= 1
                if cur == 0:
                    break
            else:
                # partners of every shape and WIDTH over the same variables (narrower and wider than the current diagram), half of
                # them with whole levels of zero edge values
                ops.append(["sum", rng.choice(["copy", "chain", "tree", "mixed", "mixed", "stackp", "tree0", "mixed0"]),
                            rng.randrange(1 << 30)])
        cases.append({"kind": "ops", "type": rand_type(rng), "seed": rng.randrange(1 << 30), "nv": nv,
                      "shape": rng.choice(["chain", "tree", "nested"]), "ops": ops})
    # in-place restricts of inner variables of trees (several nodes per level with different edge values)
    for _ in range(N // 3):
        nv = rng.randint(3, 5)
        ops = [["restrict", rng.randrange(1, nv), rng.randint(0, 1), True]]
        if rng.random() < 0.5:
            ops.append(["restrict", rng.randrange(1, nv - 1), rng.randint(0, 1), rng.random() < 0.5])
        cases.append({"kind": "ops", "type": rand_type(rng), "seed": rng.randrange(1 << 30), "nv": nv,
                      "shape": rng.choice(["tree", "tree", "nested"]), "ops": ops})
    # sums of diagrams of DIFFERENT widths over the same 3-4 variables, in both orders (narrow.sum(wide) and wide.sum(narrow)),
    # some levels carrying zero values only, followed by restricts of the sum: the product construction over node pairs that are
    # not aligned, and edge values shared between product nodes
    shapes = ["chain", "tree", "mixed", "stackp", "mixed0", "stackp0", "tree0", "chain0", "zig", "zig0", "nested"]
    for k in range(N):
        nv = rng.choice([3, 4, 4])
        start = rng.choice(shapes)
        partner = rng.choice(shapes[:10])
        if k % 6 == 0:        # two nodes per level told apart by a middle variable, summed with a full tree (unaligned node pairs)
            nv, start, partner = 4, "zig", "tree"
        elif k % 6 == 3:
            start, partner = rng.choice(["zig", "mixed"]), rng.choice(["tree", "stackp", "mixed"])
        elif k % 4 == 1:      # a chain with values on every edge summed with a wide diagram having whole levels of zeros: edge
            start, partner = "chain", rng.choice(["tree0", "zig0", "stackp0", "mixed0"])   # values shared between product nodes
        ops = [["sum", partner, rng.randrange(1 << 30)]]
        cur = nv
        for _ in range(2 if k % 4 == 1 else rng.randint(1, 2)):
            ops.append(["restrict", rng.randrange(cur), rng.randint(0, 1), rng.random() < 0.3])
            cur -= 1
        if rng.random() < 0.3:
            ops.append(["sum", rng.choice(["chain", "tree", "mixed"]), rng.randrange(1 << 30)])
        # half of them over a roomier value type, so that path sums seldom saturate to the invalid value (which hides differences)
        ty = rand_type(rng) if k % 2 else {"kind": "plain", "max": [rng.choice([12, 20])]}
        cases.append({"kind": "ops", "type": ty, "seed": rng.randrange(1 << 30), "nv": nv, "shape": start, "ops": ops})
    for _ in range({"quick": 8, "search": 20, "thorough": 40}[tier]):
        cases.append({"kind": "val", "type": rand_type(rng), "seed": rng.randrange(1 << 30)})
    return cases


def corpus():
    # F12 (open): restricting the only variable
    return [{"kind": "ops", "type": {"kind": "plain", "max": [2]}, "seed": 1, "nv": 1, "shape": "chain", "ops": [["restrict", 0, 1]]},
            # F17 (fixed): in-place restrict of the first variable of a tree
            {"kind": "ops", "type": {"kind": "tally", "n": 3, "k": 1, "c": 1}, "seed": 103369674, "nv": 2, "shape": "tree",
             "ops": [["restrict", 0, 1, True]]}]


# ----------------------------------------------------------------------------- implementation side
def make_type(t):
    from datascope.utility.add import AValue
    from datascope.importance.oracle import ATally
    if t["kind"] == "plain":
        return AValue[tuple(t["max"])]
    return ATally[t["n"], t["k"], t["c"]]


def rand_value(r, atype, t, invalid=0.12):
    if r.rand() < invalid:
        return atype(None)
    dom = [v for v in atype.domain() if not v.is_inf]
    # prefer small values so that sums stay valid reasonably often
    v = dom[int(r.randint(0, len(dom)))]
    if r.rand() < 0.5:
        v = dom[0]
    return v


def randomise(r, d, atype, t):
    import copy
    # half of the diagrams get SMALL edge values (mostly zero, otherwise a domain element whose components sum to at most 2, the
    # kind of increment the oracle uses): path sums then stay valid and land on many different values, so that value arithmetic
    # (x + y, x - y, indices of sums and differences) is exercised instead of disappearing in the invalid bucket
    small = None
    if r.rand() < 0.6:
        small = [v for v in atype.domain() if not v.is_inf and 0 < int(np.sum(v.value)) <= 2]
    for i in range(d.nodes.shape[0]):
        for j in range(d.nodes.shape[1]):
            if d.nodes[i, j]:
                for c in range(2):
                    if small:
                        v = atype(0) if r.rand() < 0.3 else small[int(r.randint(0, len(small)))]
                        d.adder[i, j, c] = copy.deepcopy(v if r.rand() > 0.04 else atype(None))
                    else:
                        d.adder[i, j, c] = copy.deepcopy(rand_value(r, atype, t))
    return d


def build_leaf(r, atype, t, units, shape):
    from datascope.utility.add import ADD
    if shape == "tree" and len(units) <= 4:
        d = ADD.construct_tree(list(units), atype=atype)
    else:
        d = ADD.construct_chain(list(units), atype=atype)
    return randomise(r, d, atype, t)


def zero_levels(r, d, atype, p=0.5):
    """set ALL edge values of some levels to zero (the situation in which a 'zero is the identity' shortcut applies everywhere)"""
    import copy
    for i in range(d.nodes.shape[0]):
        if r.rand() < p:
            for j in range(d.nodes.shape[1]):
                for c in range(2):
                    d.adder[i, j, c] = copy.deepcopy(atype(0))
    return d


def build_partner(r, atype, t, units, kind):
    """a diagram over exactly `units`, of the requested shape; widths range from 1 (chain) to 2^(n-1) (tree)"""
    from datascope.utility.add import ADD
    n = len(units)
    base = kind.rstrip("0")
    if base in ("chain", "tree") or n < 2:
        d = build_leaf(r, atype, t, units, base if base in ("chain", "tree") else "chain")
    elif base == "zig" and n >= 3:
        # one or two plain variables, then a switch on a MIDDLE variable between two chains over the remaining ones: two nodes per
        # level over several levels, told apart by that middle variable only
        a = 1 if n == 3 or r.rand() < 0.6 else 2
        rest = list(units[a:])
        els = {(v,): build_leaf(r, atype, t, rest[1:], "chain") for v in range(2)}
        d = ADD.concatenate([build_leaf(r, atype, t, list(units[:a]), "chain"), randomise(r, ADD.stack([rest[0]], els), atype, t)])
    elif base in ("mixed", "zig"):
        # a concatenation of 2-3 consecutive parts, each a chain, a tree or a header tree over sub-diagrams: the nodes of a level
        # may then depend on a MIDDLE variable only (not on the first ones), unlike those of a tree over all variables
        cuts = sorted(set(int(x) for x in r.randint(1, n, size=int(r.randint(1, 3)))))
        bounds = [0] + cuts + [n]
        parts = []
        for lo, hi in zip(bounds, bounds[1:]):
            sub = list(units[lo:hi])
            parts.append(build_partner(r, atype, t, sub, str(r.choice(["chain", "tree", "stackp"])) if len(sub) >= 2 else "chain"))
        d = ADD.concatenate(parts)
    else:       # a header tree over the first f variables selecting one of 2^f diagrams over the others
        f = 1 if n < 4 or r.rand() < 0.6 else 2
        els = {}
        for val in itertools.product(range(2), repeat=f):
            els[val] = build_leaf(r, atype, t, units[f:], r.choice(["chain", "tree"]))
        d = ADD.stack(list(units[:f]), els)
        d = randomise(r, d, atype, t)
    if kind.endswith("0"):
        d = zero_levels(r, d, atype)
    return d


def build_nested(r, atype, t, depth, counter):
    """returns (ADD, term) where term mirrors the construction for the model"""
    from datascope.utility.add import ADD
    kind = "leaf" if depth == 0 else r.choice(["leaf", "stack", "concat", "stack", "concat"])
    if kind == "leaf":
        n = int(r.randint(1, 4))
        units = list(range(counter[0], counter[0] + n))
        counter[0] += n
        shape = r.choice(["chain", "tree"])
        d = build_leaf(r, atype, t, units, shape)
        return d, ["leaf", dump(d, t)]
    if kind == "concat":
        parts = [build_nested(r, atype, t, depth - 1, counter) for _ in range(int(r.randint(2, 4)))]
        d = ADD.concatenate([p[0] for p in parts])
        return d, ["concat", [p[1] for p in parts]]
    nf = int(r.randint(1, 3))
    # elements over the SAME units but possibly of different shapes / diameters
    n = int(r.randint(1, 3))
    units = list(range(counter[0], counter[0] + n))
    counter[0] += n
    els, terms = {}, []
    for val in itertools.product(range(2), repeat=nf):
        e = build_leaf(r, atype, t, units, r.choice(["chain", "tree"]))
        els[val] = e
        terms.append(["leaf", dump(e, t)])
    factors = list(range(1000 + counter[0], 1000 + counter[0] + nf))
    d = ADD.stack(factors, els)
    return d, ["stack", nf, terms]


def val_out(v):
    return None if v.value is None else [int(x) for x in v.value]


def dump(d, t):
    levels = []
    for i in range(d.nodes.shape[0]):
        lvl = []
        for j in range(d.nodes.shape[1]):
            lvl.append([bool(d.nodes[i, j]), int(d.child[i, j, 0]), int(d.child[i, j, 1]),
                        val_out(d.adder[i, j, 0]), val_out(d.adder[i, j, 1])])
        levels.append(lvl)
    return {"units": [int(u) for u in d.units], "root": int(d.root), "levels": levels}


def table_of(d):
    n = len(d.units)
    return [val_out(d(*x)) for x in itertools.product([0, 1], repeat=n)]


def run_impl(c):
    import copy
    import numpy as np
    from operator import index
    from datascope.utility.add import ADD
    r = np.random.RandomState(c["seed"])
    t = c["type"]
    atype = make_type(t)
    if c["kind"] == "cons":
        d, term = build_nested(r, atype, t, c["depth"], [0])
        if len(d.units) > 9:
            d, term = build_nested(r, atype, t, 1, [0])
        return {"term": term, "table": table_of(d), "count": [int(x) for x in d.modelcount()]}
    if c["kind"] == "ops":
        units = list(range(c["nv"]))
        if c["shape"] == "nested" and c["nv"] >= 2:
            k = c["nv"] // 2
            d = ADD.concatenate([build_leaf(r, atype, t, units[:k], "tree"), build_leaf(r, atype, t, units[k:], "chain")])
        elif c["shape"] in ("mixed", "stackp", "mixed0", "stackp0", "tree0", "chain0", "zig", "zig0"):
            d = build_partner(r, atype, t, units, c["shape"])
        else:
            d = build_leaf(r, atype, t, units, c["shape"])
        start = dump(d, t)
        tables, counts, others = [table_of(d)], [[int(x) for x in d.modelcount()]], []
        for op in c["ops"]:
            if op[0] == "restrict":
                if len(op) > 3 and op[3]:
                    d = d.restrict(d.units[op[1]], op[2], inplace=True)      # the non-default in-place mode
                else:
                    keep = copy.deepcopy(d)
                    d2 = d.restrict(d.units[op[1]], op[2])
                    assert table_of(d) == table_of(keep), "restrict() without inplace changed its operand"
                    d = d2
                others.append(None)
            else:
                rr = np.random.RandomState(op[2])
                if op[1] == "copy":
                    o = randomise(rr, copy.deepcopy(d), atype, t)
                else:
                    o = build_partner(rr, atype, t, list(d.units), op[1])
                    assert list(o.units) == list(d.units), (o.units, d.units)
                others.append(dump(o, t))
                d = d.sum(o)
            tables.append(table_of(d))
            counts.append([int(x) for x in d.modelcount()])
        return {"start": start, "others": others, "tables": tables, "counts": counts}
    # values
    dom = list(atype.domain())
    idx = [int(index(v)) for v in dom]
    ops, ok = [], True
    for x in dom:
        if x.is_inf:
            continue
        for y in dom:
            s, dd = x + y, x - y
            xi = copy.deepcopy(x); xi += y
            xd = copy.deepcopy(x); xd -= y
            if xi.value != s.value or xd.value != dd.value:
                ok = False
            if (s == xi) != (s.value == xi.value) or hash(s) != hash(xi) or hash(dd) != hash(xd):
                ok = False
            if index(s) != idx[[v.value for v in dom].index(s.value)]:
                ok = False
            ops.append([val_out(x), val_out(y), val_out(s), val_out(dd)])
    # hashing after in-place updates, dictionary lookups, equality with tuples / None
    table = {}
    for v in dom:
        table[copy.deepcopy(v)] = v.value
    for v in dom:
        w = atype(0)
        h0 = hash(w)
        w += v
        if w.value != v.value or table.get(w, "missing") != v.value or (hash(w) != hash(copy.deepcopy(v))):
            ok = False
        if not (w == v) or (v.value is not None and not (w == tuple(v.value))) or (v.value is None and not (w == None)):  # noqa: E711
            ok = False
    if len(set(idx)) != len(idx) or len(set(v.value for v in dom)) != len(dom):
        ok = False
    if len(ops) > 600:
        step = len(ops) // 600 + 1
        ops = ops[::step]
    return {"domain": [val_out(v) for v in dom], "index": idx, "ops": ops, "hash_ok": ok}


# ----------------------------------------------------------------------------- Coq side
def atype_term(t):
    if t["kind"] == "plain":
        return "(plain %s)" % cf.nats(t["max"])
    return "(tally %s %s %s)" % (cf.nat(t["n"]), cf.nat(t["k"]), cf.nat(t["c"]))


def av(v):
    return "None" if v is None else "(Some %s)" % cf.nats(v)


def add_term(dm, t):
    lv = cf.lst([cf.lst(["(mkNode %s %s %s %s %s)" % (cf.b(n[0]), cf.nat(n[1]), cf.nat(n[2]), av(n[3]), av(n[4])) for n in lvl])
                 for lvl in dm["levels"]])
    return "(mkADD %s %s %s %s)" % (atype_term(t), cf.nats(dm["units"]), cf.nat(dm["root"]), lv)


def cterm(term, t):
    if term[0] == "leaf":
        return "(CLeaf %s)" % add_term(term[1], t)
    if term[0] == "concat":
        return "(CConcat %s)" % cf.lst([cterm(x, t) for x in term[1]])
    return "(CStack %s %s)" % (cf.nat(term[1]), cf.lst([cterm(x, t) for x in term[2]]))


def emit(c, o):
    t = c["type"]
    if c["kind"] == "cons":
        return "(CCons (mkCons %s %s %s))" % (cterm(o["term"], t), cf.lst([av(v) for v in o["table"]]), cf.nats(o["count"]))
    if c["kind"] == "ops":
        ops = []
        for op, other in zip(c["ops"], o["others"]):
            if op[0] == "restrict":
                ops.append("(ORestrict %s %s)" % (cf.nat(op[1]), cf.b(op[2])))
            else:
                ops.append("(OSum %s)" % add_term(other, t))
        return "(COps (mkOps %s %s %s %s))" % (add_term(o["start"], t), cf.lst(ops),
                                               cf.lst([cf.lst([av(v) for v in tb]) for tb in o["tables"]]),
                                               cf.lst([cf.nats(x) for x in o["counts"]]))
    return "(CVal (mkVal %s %s %s %s %s))" % (
        atype_term(t), cf.lst([av(v) for v in o["domain"]]), cf.nats(o["index"]),
        cf.lst(["(%s, %s, %s, %s)" % tuple(av(v) for v in q) for q in o["ops"]]), cf.b(o["hash_ok"]))


def finding_tag(c, o):
    if c["kind"] == "ops":
        cur = c["nv"]
        for op in c["ops"]:
            if op[0] == "restrict":
                if cur == 1:
                    return "add:restrict-only-variable"
                cur -= 1
    return None


def nontrivial(c, o):
    if not isinstance(o, dict) or "exc" in o:
        return False
    if c["kind"] == "cons":
        return len(set(map(str, o["table"]))) > 1
    if c["kind"] == "ops":
        return len(set(map(str, o["tables"][-1]))) > 1 or len(set(map(str, o["tables"][0]))) > 1
    return True


def distribution(cases, outs):
    from collections import Counter
    return {"kinds": dict(Counter(c["kind"] for c in cases)), "value_types": dict(Counter(c["type"]["kind"] for c in cases)),
            "operations": dict(Counter(op[0] for c in cases if c["kind"] == "ops" for op in c["ops"])),
            "variables_of_constructed": dict(sorted(Counter(len(o["table"]).bit_length() - 1 for c, o in zip(cases, outs)
                                                            if c["kind"] == "cons" and isinstance(o, dict) and "table" in o).items())),
            "exceptions": dict(Counter(o["exc"] for o in outs if isinstance(o, dict) and "exc" in o))}


def shrink(c):
    if c["kind"] == "ops":
        for i in range(len(c["ops"]) - 1, -1, -1):
            ops = c["ops"][:i] + c["ops"][i + 1:]
            cur, okk = c["nv"], True
            for op in ops:
                if op[0] == "restrict":
                    if op[1] >= cur:
                        okk = False
                    cur -= 1
            if okk and ops:
                yield dict(c, ops=ops)
        cur, okk = c["nv"] - 1, c["nv"] > 2
        for op in c["ops"]:
            if op[0] == "restrict":
                if op[1] >= cur:
                    okk = False
                cur -= 1
        if okk:
            yield dict(c, nv=c["nv"] - 1)
    if c["kind"] == "cons" and c["depth"] > 0:
        yield dict(c, depth=c["depth"] - 1)


# functions of the implementation this property is anchored in: their line coverage under the correspondence cases is
# measured on the staged copy and reported in the evidence (implementation_line_coverage)
ANCHORS = [
    "datascope/utility/add.py:AValue.__init__",
    "datascope/utility/add.py:AValue._clip",
    "datascope/utility/add.py:AValue.__index__",
    "datascope/utility/add.py:AValue.__add__",
    "datascope/utility/add.py:AValue.__sub__",
    "datascope/utility/add.py:ADD.__call__",
    "datascope/utility/add.py:ADD.restrict",
    "datascope/utility/add.py:ADD.sum",
    "datascope/utility/add.py:ADD.modelcount",
    "datascope/utility/add.py:ADD.construct_tree",
    "datascope/utility/add.py:ADD.construct_chain",
    "datascope/utility/add.py:ADD.concatenate",
    "datascope/utility/add.py:ADD.stack",
    "datascope/importance/oracle.py:ATally._clip",
    "datascope/importance/oracle.py:ATally.__index__",
    "datascope/importance/oracle.py:ATally.domain",
]

MANIFEST = {
    "text": "Proof: C10_avalue_add/_sub (component-wise, invalid exactly when a bound is left or an addend is invalid), "
            "C10_add_comm/_assoc, C10_bounds_downward_closed, C10_index_bijective (mixed-radix and tally-rank indices "
            "enumerate domain() bijectively), C10_eval_sum (product construction = pointwise saturating sum), "
            "C10_eval_restrict / C10_eval_restrict_first (the original with one variable fixed, both branches), "
            "C10_modelcount (backward DP = histogram of the evaluated value over all assignments, any shape and size), "
            "C10_eval_is_saturating_path_sum, C10_refuted_F12; ANY SEQUENCE of operations: C10_chain_wellformed / "
            "C10_tree_wellformed (the constructors produce well-formed diagrams), C10_sum_wellformed / "
            "C10_restrict_wellformed / C10_update_wellformed (sum, restrict and edge updates keep them well formed), "
            "C10_wellformed_suffices (well-formedness gives every side condition of the theorems above), "
            "C10_update_semantics; the constructors: C10_eval_concatenate (value at x1++x2++.. = saturating sum of the "
            "elements' values) + C10_concatenate_wellformed, C10_eval_stack (the factor values select one of the 2^f "
            "elements, of any diameters, in product order) + C10_stack_wellformed -- over an executable Gallina model "
            "of AValue / ATally / ADD. Tied to the "
            "code at unit level: diagrams built through the API are dumped and every operation sequence is replayed in "
            "the model; value tables and model counts compared after every step, and against pointwise semantics, in Coq.",
    "note": "Trusted: Coq kernel + vm_compute; harness (dump of nodes/child/adder arrays). Binary candidates only. "
            "F12 (restrict of the only variable) is an open known finding; F15 was found here and fixed.",
    "technique": "Coq proofs (saturating-sum algebra, product-construction simulation, DP invariant by induction over "
                 "levels, index bijection) about an executable model + stepwise correspondence on operation sequences",
}
