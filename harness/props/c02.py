"""C02 -- KNN (K>1) and join-provenance neighbor scores are exact Shapley values (API level, ADD path)."""
import math
from fractions import Fraction

import coqfmt as cf
from props import c09, c10, nncommon as nn

RULE = ("cases = random conjunctive provenance hypergraphs (2-5 units, 1-5 rows: shared units, rows needing several "
        "units, units owning several rows, units owning no row; also one-unit-per-row and map/fork shapes routed "
        "through the ADD path by K>1), K in 1..3 incl. K larger than the number of rows, 1-3 classes, 1-2 validation "
        "points; HISTORIES on one Provenance object held by one fitted importance object (score, swap two rows in place, score again); DISTINCT distances per point (a quarter of the cases at magnitude 2^27 with unit gaps: distinct in double precision only), generated utility tables and null vectors: "
        "ShapleyImportance('neighbor', nn_k=K) vs the loop model over the counting specification and vs the Shapley "
        "value by definition of the KNN game, inside Coq; plus, for the real accuracy utility, equality with "
        "'bruteforce' over KNeighborsClassifier(K); the diagram and row locations compile() returns for the instance are "
        "dumped and must satisfy valid_compiled inside Coq (hypothesis of C02_add_validated_is_shapley); instances with equal K / class count and growing unit counts run "
        "back to back in one process; one-unit instances are the known finding F12; non-trivial = two units differ")
EXHAUSTIVE = {"quick": False, "thorough": False}
SHARD = 6
JOBS = 14
COQ_IMPORTS = "From DS Require Import Model.ADD Spec.Count Model.Oracle."
TRUSTED = ["for rows needing several units the theorem is about the loop model over the counting SPECIFICATION of C09; the "
           "ADD-based oracle equals that specification by C09_oracle_exact given a valid compiled diagram; compile()'s "
           "leaf/factor case is validated per instance, not proved (chain case: proved end to end)",
           "scipy.special.comb exact at these sizes"]
ASSUMPTIONS = ["pairwise distinct distances per validation point (the property specifies ties only for C01)",
               "positive conjunctive provenance, binary candidates"]
WORKER_TIMEOUT = 3300


def rand_case(rng, n=None, K=None, C=None, shape=None, big=False):
    n = n or (rng.randint(2, 5) if big else rng.choice([2, 3, 3, 4]))
    shape = shape or rng.choice(["hyper", "hyper", "hyper", "onerow", "fork"])
    if shape == "onerow":
        rows = [[u] for u in range(n)]
    elif shape == "fork":
        rows = [[rng.randrange(n)] for _ in range(rng.randint(n, n + 2))]
    else:
        rows = [sorted(rng.sample(range(n), rng.randint(1, min(3, n)))) for _ in range(rng.randint(1, 5 if big else 4))]
    C = C or rng.choice([1, 2, 2, 3, 3] if big else [1, 2, 2, 2])
    labels = [rng.randrange(C) for _ in range(len(rows))]
    for cl in range(min(C, len(rows))):
        labels[cl] = cl
    C = len(set(labels))
    labels = [sorted(set(labels)).index(l) for l in labels]
    T = rng.randint(1, 2)
    dists = [rng.sample(range(1, 30), len(rows)) for _ in range(T)]
    if rng.random() < 0.25:
        # large magnitudes: distinct as binary64 values, closer together than binary32 spacing (2^27 + small integers)
        dists = [[134217728 + x for x in d] for d in dists]
    den = rng.choice([1, 2, 4])
    U = [[rng.randint(-4, 4) / den for _ in range(C)] for _ in range(T)]
    for col in U:                      # class utilities within a validation point are not all equal
        if C >= 2 and len(set(col)) == 1:
            col[0] += 1.0
    nulls = [rng.randint(-4, 4) / den for _ in range(T)]
    K = K or min(rng.choice([1, 2, 2, 3] if big else [1, 2, 2]), len(rows))
    if rng.random() < 0.12:
        K = len(rows) + 1                    # more neighbours than rows: every coalition is worth the null value
    return {"n": n, "rows": rows, "labels": labels, "dists": dists, "U": U, "nulls": nulls, "K": K, "C": C,
            "utility": "table"}


def gen(rng, tier):
    cases = []
    for k in range({"quick": 24, "search": 60, "thorough": 120}[tier]):
        # the implementation's ADD path costs up to minutes per instance at 5 units x 5 rows x K=3 x 3 classes: a third of the
        # thorough / search cases are of that size, none of the quick ones (the quick tier has to stay within minutes whatever
        # the generator seed)
        cases.append(rand_case(rng, big=(k % 3 == 2 and tier != "quick")))
    for k in range({"quick": 6, "search": 10, "thorough": 40}[tier]):
        c = rand_case(rng, n=rng.randint(2, 4), C=2, shape="onerow")
        c["utility"] = "accuracy"
        c["K"] = rng.randint(1, min(3, len(c["rows"])))
        c["features"] = [[rng.randint(-8, 8) / 2.0, rng.randint(-8, 8) / 2.0 + 0.001 * i] for i in range(len(c["rows"]))]
        c["features_test"] = [[rng.randint(-8, 8) / 2.0 + 0.1231, rng.randint(-8, 8) / 4.0 + 0.0617] for _ in range(len(c["dists"]))]
        c["y_test"] = [rng.randrange(2) for _ in range(len(c["dists"]))]
        cases.append(c)
    # growing unit counts, same K and class count, back to back in one process
    def multi_inst(n):
        while True:          # same K and class count in both instances, enough rows for large coalitions to matter
            c = rand_case(rng, n=n, K=2, C=2, shape="hyper")
            if c["C"] == 2 and c["K"] == 2 and len(c["rows"]) >= 3 and set(u for r in c["rows"] for u in r) == set(range(n)):
                return c
    cases.append({"multi": [multi_inst(n) for n in ((3, 4) if tier == "quick" else (3, 5))]})
    # HISTORIES on one Provenance object held by one fitted importance object: score, swap two different rows IN PLACE (the array
    # keeps its shape), score again -- the second result is the Shapley value of the EDITED provenance
    for _ in range({"quick": 3, "search": 6, "thorough": 20}[tier]):
        while True:
            c1 = rand_case(rng, n=(3 if tier == "quick" else rng.choice([3, 3, 4])), shape="hyper")
            pairs = [(i, j) for i in range(len(c1["rows"])) for j in range(i) if c1["rows"][i] != c1["rows"][j]]
            if pairs and c1["n"] >= 2:
                break
        i, j = rng.choice(pairs)
        rows2 = list(c1["rows"])
        rows2[i], rows2[j] = rows2[j], rows2[i]
        cases.append({"multi": [c1, dict(c1, rows=rows2)], "history": True})
    cases.append(rand_case(rng, n=1, K=2, C=1, shape="onerow"))
    return cases


def corpus():
    return [
        # F1 (fixed): 2 one-row units, labels [0,1], distances [1,2], utility [[1],[0]], null 0, K=1 -> [1, 0]
        {"n": 2, "rows": [[0], [1]], "labels": [0, 1], "dists": [[1, 2]], "U": [[1.0, 0.0]], "nulls": [0.0], "K": 1, "C": 2,
         "utility": "table", "force_add": True},
        # F2 (fixed): rows {0},{1} over 3 units, K=2
        {"n": 3, "rows": [[0], [1]], "labels": [0, 0], "dists": [[1, 2]], "U": [[1.0]], "nulls": [0.0], "K": 2, "C": 1,
         "utility": "table"},
        # F3 (fixed): a row needing units {1,2,3} over 4 units
        {"n": 4, "rows": [[1, 2, 3], [0]], "labels": [0, 1], "dists": [[1, 2]], "U": [[1.0, 0.5]], "nulls": [0.25], "K": 1,
         "C": 2, "utility": "table"},
    ]


# ----------------------------------------------------------------------------- implementation side
def run_one(c, ctx=None):
    import numpy as np
    from datascope.importance.shapley import ShapleyImportance
    if ctx is not None and "prov" in ctx:
        # second step of a history: the SAME provenance object (held by the same fitted importance object) is edited in place
        from datascope.utility.provenance import Conjunction
        prov, units = ctx["prov"], ctx["prov"]._units
        for r, row in enumerate(c["rows"]):
            if row != ctx["rows"][r]:
                prov[r] = Conjunction(*[units[u] == 1 for u in row])
    else:
        prov = c09.make_prov({"n": c["n"], "rows": c["rows"]})
    nrows = len(c["rows"])
    X = np.arange(nrows, dtype=float).reshape(-1, 1)
    if c["utility"] == "accuracy":
        from datascope.importance.shapley import DEFAULT_NN_DISTANCE
        from datascope.importance.utility import SklearnModelAccuracy
        from sklearn.neighbors import KNeighborsClassifier
        Xf, Xv = np.array(c["features"], dtype=float), np.array(c["features_test"], dtype=float)
        y, yv = np.array(c["labels"]), np.array(c["y_test"])
        util = SklearnModelAccuracy(KNeighborsClassifier(n_neighbors=c["K"]))
        imp = ShapleyImportance(method="neighbor", utility=util, nn_k=c["K"])
        imp.fit(Xf, y, provenance=prov)
        s = np.asarray(imp.score(Xv, yv), dtype=float)
        bf = ShapleyImportance(method="bruteforce", utility=util)
        bf.fit(Xf, y, provenance=prov)
        b = np.asarray(bf.score(Xv, yv), dtype=float)
        D = DEFAULT_NN_DISTANCE(Xf, Xv)
        return {"scores": [v.hex() for v in s.tolist()], "bruteforce": [v.hex() for v in b.tolist()],
                "D": [[float(D[r, j]).hex() for r in range(D.shape[0])] for j in range(D.shape[1])]}
    ds = {"n_train": nrows, "n_test": len(c["dists"]), "labels": c["labels"], "D": [[float(x) for x in d] for d in c["dists"]],
          "U": c["U"], "nulls": c["nulls"], "y_test": [c["labels"][0]] * len(c["dists"])}
    k = c["K"]
    if ctx is not None and "imp" in ctx:
        imp = ctx["imp"]
    else:
        imp = ShapleyImportance(method="neighbor", utility=nn.make_utility(ds), nn_k=k, nn_distance=nn.make_distance(ds))
        imp.fit(X, np.array(c["labels"]), provenance=prov)
    if ctx is not None:
        ctx.update({"prov": prov, "imp": imp, "rows": [list(r) for r in c["rows"]]})
    s = np.asarray(imp.score(np.arange(ds["n_test"], dtype=float).reshape(-1, 1), np.array(ds["y_test"])), dtype=float)
    assert s.shape == (c["n"],), s.shape
    out = {"scores": [v.hex() for v in s.tolist()]}
    if c["n"] >= 2:
        # the diagram and row locations compile() produces for this provenance and tally type (deterministic; the same
        # call ShapleyOracle.__init__ makes), validated inside Coq by valid_compiled
        from datascope.importance.oracle import ATally, compile as compile_prov
        atype = ATally[c["n"] - 1, k, c["C"]]
        add, locations = compile_prov(prov, atype)
        out["add"] = c10.dump(add, {"kind": "tally", "n": c["n"] - 1, "k": k, "c": c["C"]})
        out["locs"] = [[[int(a), int(b), bool(cc)] for (a, b, cc) in row] for row in locations]
    return out


def run_impl(c):
    if "multi" in c:
        ctx = {} if c.get("history") else None
        return {"multi": [run_one(i, ctx) for i in c["multi"]]}
    return run_one(c)


# ----------------------------------------------------------------------------- Coq side
def emit_one(c, o):
    scores = [float.fromhex(h) for h in o["scores"]]
    if any(math.isnan(s) or math.isinf(s) for s in scores):
        return None
    if c["utility"] == "accuracy":
        dists = [[float.fromhex(h) for h in col] for col in o["D"]]
        classes = sorted(set(c["labels"]))
        U = [[1.0 if cl == yt else 0.0 for cl in classes] for yt in c["y_test"]]
        accs = [sum(1 for yt in c["y_test"] if yt == cl) for cl in classes]
        best = classes[accs.index(min(accs))]
        nulls = [1.0 if yt == best else 0.0 for yt in c["y_test"]]
        bf = "(Some %s)" % cf.qs([float.fromhex(h) for h in o["bruteforce"]])
    else:
        dists, U, nulls, bf = c["dists"], c["U"], c["nulls"], "None"
    scale = 1 + max([abs(v) for col in U for v in col] + [abs(v) for v in nulls])
    if "add" in o:
        t = {"kind": "tally", "n": c["n"] - 1, "k": c["K"], "c": c["C"]}
        locs = cf.lst([cf.lst(["(%s, %s, %s)" % (cf.nat(a), cf.nat(b), cf.b(cc)) for a, b, cc in row]) for row in o["locs"]])
        compiled = "(Some (%s, %s))" % (c10.add_term(o["add"], t), locs)
    else:
        compiled = "None"
    return "(mkCase %s %s %s %s %s %s %s %s %s %s %s %s)" % (
        cf.nat(c["n"]), cf.nat(c["K"]), cf.nat(c["C"]), cf.lst([cf.nats(r) for r in c["rows"]]), cf.nats(c["labels"]),
        cf.lst([cf.qs(d) for d in dists]), cf.lst([cf.qs(u) for u in U]), cf.qs(nulls), cf.qq(Fraction(scale) / 2 ** 36),
        cf.qs(scores), bf, compiled)


def emit(c, o):
    if "multi" in c:
        return None
    return emit_one(c, o)


def expand(c, o):
    if "multi" in c and isinstance(o, dict) and "multi" in o:
        return list(zip(c["multi"], o["multi"]))
    return [(c, o)]


def finding_tag(c, o):
    if "multi" not in c and c["n"] == 1:
        return "add:restrict-only-variable"
    return None


def nontrivial(c, o):
    if not isinstance(o, dict) or "exc" in o:
        return False
    outs = o["multi"] if "multi" in o else [o]
    return any(len(set(oo["scores"])) > 1 for oo in outs)


def distribution(cases, outs):
    from collections import Counter
    flat = [i for c in cases for i in (c["multi"] if "multi" in c else [c])]
    return {"units": dict(sorted(Counter(i["n"] for i in flat).items())), "rows": dict(sorted(Counter(len(i["rows"]) for i in flat).items())),
            "K": dict(sorted(Counter(i["K"] for i in flat).items())), "classes": dict(Counter(i["C"] for i in flat)),
            "K_exceeds_rows": sum(1 for i in flat if i["K"] > len(i["rows"])),
            "multi_unit_rows": sum(1 for i in flat if any(len(r) > 1 for r in i["rows"])),
            "units_owning_no_row": sum(1 for i in flat if set(range(i["n"])) - set(u for r in i["rows"] for u in r)),
            "utility": dict(Counter(i["utility"] for i in flat)),
            "exceptions": dict(Counter(o["exc"] for o in outs if isinstance(o, dict) and "exc" in o))}


def shrink(c):
    if "multi" in c:
        for i in c["multi"]:
            yield i
        return
    if c["utility"] != "table":
        return
    if len(c["dists"]) > 1:
        for j in range(len(c["dists"])):
            yield dict(c, dists=c["dists"][:j] + c["dists"][j + 1:], U=c["U"][:j] + c["U"][j + 1:], nulls=c["nulls"][:j] + c["nulls"][j + 1:])
    if len(c["rows"]) > 1:
        for r in range(len(c["rows"])):
            labels = c["labels"][:r] + c["labels"][r + 1:]
            if sorted(set(labels)) != list(range(c["C"])):
                continue
            yield dict(c, rows=c["rows"][:r] + c["rows"][r + 1:], labels=labels, dists=[d[:r] + d[r + 1:] for d in c["dists"]])


# functions of the implementation this property is anchored in: their line coverage under the correspondence cases is
# measured on the staged copy and reported in the evidence (implementation_line_coverage)
ANCHORS = [
    "datascope/importance/shapley.py:get_unit_labels_and_distances",
    "datascope/importance/shapley.py:compute_shapley_1nn_mapfork",
    "datascope/importance/shapley.py:compute_shapley_add",
    "datascope/importance/oracle.py:compile",
    "datascope/importance/oracle.py:ShapleyOracle.__init__",
    "datascope/importance/oracle.py:ShapleyOracle.query",
    "datascope/importance/shapley.py:ShapleyImportance._shapley_neighbor",
]

MANIFEST = {
    "text": "Proof: C02_add_is_shapley -- for EVERY K >= 1, number of units, conjunctive hypergraph (shared units, rows "
            "needing several units, units owning several or no rows), encoded labels, utility table, null vector and "
            "pairwise distinct distances per validation point, the executable model of compute_shapley_add's loop "
            "(boundary pairs, filters, argmax, weight count/C(n-1,size), division by units x points) over the exact "
            "coalition counts of C09's counting specification equals the Shapley value BY DEFINITION of the game v_knn "
            "(mean over validation points of the utility of the majority label, lowest class on ties, among the K "
            "nearest present rows; null when fewer than K rows are present); C02_add_point_is_shapley per validation "
            "point, C02_rank_count (exactly one row of rank K), C02_max_cardinality; C02_add_chain_is_shapley -- END TO "
            "END for chain-compiled provenance (every row needs one unit: one-unit-per-row and map/fork pipelines, >= 2 "
            "units): the loop over the MODEL of the ADD-based oracle (compile, boundary diagrams, restrict, sum, "
            "modelcount) is the Shapley value; C02_add_validated_is_shapley -- the same for ANY conjunctive provenance "
            "(rows needing several units, any unit order) whenever the boolean valid_compiled accepts the compiled "
            "diagram and row locations; C02_add_compile_is_shapley -- END TO END through the MODEL of compile() for every "
            "admissible component structure; C02_sorted_definition_agrees. Left to correspondence: that compile()'s "
            "graph step delivers an admissible structure and that the implementation builds the modelled diagram "
            "(C09's check evaluates both inside Coq on every instance; here the dumped diagram must pass valid_compiled). Tied to the code at API level on every run: "
            "ShapleyImportance('neighbor', nn_k=K) on conjunctive provenance hypergraphs vs the loop model and vs the "
            "Shapley value by definition of the KNN game (rank-based and sort-based definitions), inside Coq; and vs "
            "'bruteforce' over KNeighborsClassifier(K).",
    "note": "Trusted: Coq kernel + vm_compute; harness; the count function is C09's specification. Distinct distances. "
            "F12 (one-unit instances) is an open known finding.",
    "technique": "Coq proof (histogram exchange, rank/pigeonhole argument under distinct distances, coalition "
                 "re-indexing, binomial weights) + executable loop model evaluated against the implementation and "
                 "against the Shapley value by definition (vm_compute); cross-method check against bruteforce",
}
