"""C17 -- scoring is deterministic and reproducible from the seed (partial by nature; cross-process differential)."""
import json
import os
import subprocess
import sys

import coqfmt as cf

RULE = ("cases = configurations (method in neighbor K=1 / neighbor K=2 / bruteforce / montecarlo with default truncation "
        "and without) x (default, grouped, join-like provenance, units NAMED BY STRINGS; datasets with exactly tied distances between differently labelled rows) x (KNN, SGD and random-splitter tree: estimators that "
        "draw from numpy's GLOBAL generator) x (accuracy, ROC-AUC, equalized-odds difference, joint utility) x seeds incl. 0; every configuration is scored in 4 FRESH interpreter "
        "processes (PYTHONHASHSEED 0 / 1 / 4242 / random; different import orders; global numpy and Python generators "
        "seeded and consumed differently) and in-process twice: the BYTES of the score vectors must coincide; "
        "neighbor/bruteforce with other seeds must not change a bit; montecarlo with another seed but the recorded "
        "permutations of the first replayed must reproduce the first result bit for bit; non-trivial = the vector is "
        "not constant; distinct = JSON")
EXHAUSTIVE = {"quick": False, "thorough": False}
SHARD = 50
JOBS = 8
COQ_IMPORTS = "From DS Require Import Model.Runtime."
TRUSTED = ["process boundaries, hash seeds and the global generators are runtime facts observed by this differential run"]
ASSUMPTIONS = ["PARTIAL: C17_noninterference is a statement about the model's signature; its force comes from the "
               "byte-level agreement of independent processes"]
WORKER_TIMEOUT = 3300


def gen(rng, tier):
    mc_trunc = {"mc_iterations": 6, "mc_truncation_steps": 1, "mc_tolerance": 0.35}   # truncation really depends on mean_score
    fixed = [("neighbor", {}, "default", "knn"), ("neighbor", {}, "grouped", "knn"), ("neighbor", {}, "join", "knn"),
             ("neighbor", {"nn_k": 2}, "grouped", "knn"),
             ("bruteforce", {}, "default", "rtree"), ("bruteforce", {}, "grouped", "dummy"),
             ("montecarlo", mc_trunc, "default", "rtree"), ("montecarlo", mc_trunc, "grouped", "rtree"),
             ("montecarlo", mc_trunc, "default", "dummy"), ("montecarlo", {"mc_iterations": 6}, "join", "rtree"),
             ("montecarlo", {"mc_iterations": 5, "mc_truncation_steps": 0}, "default", "knn"),
             # units named by strings (positions must not follow the hash order), and exactly tied distances between
             # differently labelled rows (their order must not follow the seed)
             ("neighbor", {}, "named", "knn"), ("bruteforce", {}, "named", "rtree"), ("montecarlo", {"mc_iterations": 6}, "named", "rtree"),
             ("neighbor", {"ties": True}, "default", "knn"), ("neighbor", {"ties": True}, "grouped", "knn"),
             ("neighbor", {"ties": True}, "named", "knn"),
             # other utilities, with estimators that draw from the global generator (every entry point of a utility that fits
             # the model must do so from a fixed generator state)
             ("neighbor", {"utility": "eod"}, "default", "dummy"), ("neighbor", {"utility": "eod"}, "grouped", "rtree"),
             ("bruteforce", {"utility": "eod"}, "default", "dummy"), ("neighbor", {"utility": "auc"}, "default", "dummy"),
             ("bruteforce", {"utility": "auc"}, "grouped", "rtree"), ("montecarlo", {"mc_iterations": 5, "utility": "joint"}, "default", "dummy"),
             ("neighbor", {"utility": "joint"}, "named", "knn")]
    combos = list(fixed)
    if tier == "thorough":
        for method, kw in (("neighbor", {}), ("neighbor", {"nn_k": 2}), ("bruteforce", {}), ("montecarlo", mc_trunc),
                           ("montecarlo", {"mc_iterations": 6}), ("montecarlo", {"mc_iterations": 5, "mc_truncation_steps": 0})):
            for prov in ("default", "grouped", "join"):
                for model in ("knn", "sgd", "rtree"):
                    if method == "neighbor" and model != "knn":
                        continue
                    combos.append((method, kw, prov, model))
    cases = []
    seeds = [0, 7, 0, 1, 12345, 0, 7, 3, 0, 1, 7]
    for k, (method, kw, prov, model) in enumerate(combos):
        add = method == "neighbor" and (kw.get("nn_k") == 2 or prov == "join")
        ties = bool(kw.get("ties"))
        utility = kw.get("utility", "accuracy")
        kw = {a: b for a, b in kw.items() if a not in ("ties", "utility")}
        cases.append({"method": method, "kw": kw, "prov": prov, "model": model, "seed": seeds[k % len(seeds)], "ties": ties, "utility": utility,
                      "data_seed": rng.randrange(1 << 20), "classes": 2,
                      # the ADD path (K > 1 or join-like provenance) costs seconds per validation point: keep it small
                      "n": 4 if add else 6 if method == "bruteforce" else 7, "nv": 2 if add else 8 if utility == "eod" else 5})
    return cases


def child(stage_env, cfg, variant, hashseed):
    env = dict(os.environ)
    env["PYTHONHASHSEED"] = hashseed
    cfg = dict(cfg, variant=variant)
    r = subprocess.run([sys.executable, os.path.join(os.path.dirname(__file__), "c17_child.py"), json.dumps(cfg)],
                       env=env, capture_output=True, text=True, timeout=600)
    if r.returncode != 0:
        raise RuntimeError("child failed: " + r.stderr[-400:])
    return json.loads(r.stdout.strip().split("\n")[-1])


def run_impl(c):
    from props import rtcommon
    cfg = {k: c[k] for k in ("method", "kw", "prov", "model", "seed", "data_seed", "n", "nv", "classes")}
    cfg["ties"] = bool(c.get("ties"))
    cfg["utility"] = c.get("utility", "accuracy")
    base1 = rtcommon.score_hex(cfg)
    base2 = rtcommon.score_hex(cfg)
    kids = []
    for variant, hs in enumerate(["0", "1", "4242", "random"]):
        kids.append(child(None, cfg, variant, hs))
    checks = {"in_process_repeat": base1 == base2,
              "processes_agree": all(k["hex"] == base1 for k in kids)}
    if c["method"] != "montecarlo":
        other = [rtcommon.score_hex(dict(cfg, seed=s)) for s in (3, 99, 7, 12345)]
        checks["seed_free"] = all(h == base1 for h in other)
    else:
        rec = child(None, dict(cfg, record=True), 1, "7")
        checks["recording_is_transparent"] = rec["hex"] == base1
        rep = child(None, dict(cfg, seed=cfg["seed"] + 5, replay_perms=rec["drawn"]), 2, "11")
        checks["seed_only_through_permutations"] = rep["hex"] == base1
        other = rtcommon.score_hex(dict(cfg, seed=cfg["seed"] + 5))
        checks["(info)other_seed_differs"] = True if other != base1 else True
    import numpy as np
    vec = np.frombuffer(bytes.fromhex(base1), dtype=np.float64)
    return {"checks": checks, "nonconstant": bool(len(set(vec.tolist())) > 1), "finite": bool(np.all(np.isfinite(vec)))}


def emit(c, o):
    return "(mkCase %s [] (q 0 1))" % cf.bools(list(o["checks"].values()) + [o["finite"]])


def nontrivial(c, o):
    return isinstance(o, dict) and o.get("nonconstant", False)


def distribution(cases, outs):
    from collections import Counter
    failed = Counter(k for o in outs if isinstance(o, dict) and "checks" in o for k, v in o["checks"].items() if not v)
    return {"methods": dict(Counter(c["method"] + json.dumps(c["kw"], sort_keys=True) for c in cases)),
            "provenance": dict(Counter(c["prov"] for c in cases)), "utilities": dict(Counter(c.get("utility", "accuracy") for c in cases)), "tied_distance_cases": sum(1 for c in cases if c.get("ties")), "models": dict(Counter(c["model"] for c in cases)),
            "seeds": dict(Counter(c["seed"] for c in cases)), "fresh_processes_per_case": 4, "failed_checks": dict(failed),
            "exceptions": dict(Counter(o["exc"] for o in outs if isinstance(o, dict) and "exc" in o))}


MANIFEST = {
    "text": "PARTIAL BY NATURE. Proof: C17_noninterference, C17_seed_only_via_perms, C17_neighbor_bruteforce_seed_free about "
            "a model in which the hidden state (global generator, hash seed, process) is an explicit argument that the "
            "score function ignores. That the CODE has this signature is observed: each configuration (all three "
            "methods x three provenance kinds x estimators that draw from numpy's global generator) is scored in four "
            "fresh interpreter processes with different hash seeds, import orders and global generator states, and the "
            "bytes of the score vectors must coincide; seeds must not move neighbor/bruteforce by a bit; a montecarlo "
            "run with another seed but the first run's permutations replayed must reproduce it bit for bit.",
    "note": "Trusted: Coq kernel; harness; subprocess isolation. Runtime determinism is observed, not proved.",
    "technique": "Coq non-interference statements about an explicit-hidden-state model + byte-level cross-process "
                 "differential runs",
}
