"""C08 -- scores are linear in the utility; JointUtility is the weighted sum of its parts (API level)."""
import math
import random
from fractions import Fraction

import coqfmt as cf
from props import nncommon as nn

RULE = ("cases = random datasets (as C01) with 1-3 component table utilities (retained arrays, a component may be listed "
        "twice) and weights in {-3..3}/{1,2} (negative, zero, non-normalised): JointUtility accessors "
        "(elementwise_score, elementwise_null_score, null_score, mean_score, __call__ incl. a failing component) and "
        "neighbor K=1 scores under the joint utility vs the weighted sum of the scores under each component, vs the "
        "model, inside Coq; plus relation-only cases for the ADD path (K=2, conjunctive provenance) and bruteforce; "
        "non-trivial = at least two components with non-zero weights and non-constant joint scores; distinct = JSON")
EXHAUSTIVE = {"quick": False, "thorough": False}
SHARD = 100
JOBS = 12
COQ_IMPORTS = "From DS Require Import Check.C01."
TRUSTED = ["argsort hints validated in Coq (as C01)"]
ASSUMPTIONS = ["bruteforce linearity is claimed only when no coalition evaluation fails (as the property states)"]
WORKER_TIMEOUT = 3000


def gen(rng, tier):
    cases = []
    for _ in range({"quick": 160, "search": 600, "thorough": 1500}[tier]):
        ds = nn.rand_dataset(rng, max_rows=6, max_points=3)
        while rng.random() < 0.85 and len(set(ds["labels"])) < 2:    # mostly datasets on which the scores of the units differ
            ds = nn.rand_dataset(rng, max_rows=6, max_points=3)
        k = rng.choice([1, 2, 2, 2, 3, 3, 3, 3])
        ncls = len(set(ds["labels"]))
        comps = []
        for _ in range(k):
            den = rng.choice([1, 2, 4])
            comps.append({"U": [[rng.randint(-4, 4) / den for _ in range(ncls)] for _ in range(ds["n_test"])],
                          "nulls": [rng.randint(-4, 4) / den for _ in range(ds["n_test"])],
                          "null_score": rng.randint(-4, 4) / den, "mean_score": rng.randint(-4, 4) / den,
                          "call": rng.randint(-4, 4) / den, "fail": False})
        dup = k >= 2 and rng.random() < 0.2
        ws = [rng.choice([-3, -2, -1, 1, 2, 3] * 3 + [0]) / rng.choice([1, 2]) for _ in range(k)]
        cases.append({"kind": "k1", "ds": ds, "comps": comps, "dup": dup, "ws": ws, "default_w": rng.random() < 0.15,
                      "seed": rng.randrange(1 << 30)})
    for _ in range({"quick": 24, "search": 40, "thorough": 150}[tier]):
        n = rng.randint(2, 4)
        k = rng.randint(2, 3)
        comps = [[[rng.randint(-6, 6), rng.choice([1, 2, 4])] for _ in range(2 ** n)] for _ in range(k)]
        cases.append({"kind": "bf", "n": n, "comps": comps, "ws": [rng.randint(-3, 3) / rng.choice([1, 2]) for _ in range(k)],
                      "nulls": [rng.randint(-2, 2) for _ in range(k)]})
    for _ in range({"quick": 12, "search": 12, "thorough": 60}[tier]):
        n_units = rng.randint(2, 3)
        rows = rng.randint(2, 4)
        cases.append({"kind": "add", "n_units": n_units,
                      "rows": [sorted(rng.sample(range(n_units), rng.randint(1, min(2, n_units)))) for _ in range(rows)],
                      "labels": [rng.randint(0, 1) for _ in range(rows)], "D": rng.sample(range(1, 20), rows),
                      "comps": [{"U": [[rng.randint(-4, 4) / 2.0, rng.randint(-4, 4) / 2.0]], "nulls": [rng.randint(-2, 2) / 2.0]}
                                for _ in range(2)],
                      "ws": [rng.randint(-3, 3) / 2.0, rng.randint(1, 3) / 1.0], "K": 2})
    return cases


# ----------------------------------------------------------------------------- implementation side
def table_utility(comp):
    import numpy as np
    from datascope.importance.utility import Utility, UtilityResult

    class TU(Utility):
        def __init__(self):
            self.U = np.array(comp["U"], dtype=float).T.copy()
            self.nulls = np.array(comp["nulls"], dtype=float)

        def __call__(self, *a, null_score=None, **k):
            r = UtilityResult()
            r.score = null_score if comp.get("fail") else comp.get("call", 0.0)
            return r

        # like the real utilities, null and mean scores depend on the TRAINING labels too (on the set of classes present)
        def null_score(self, *a, **k):
            return comp.get("null_score", 0.0) + (0.25 * len(set(np.asarray(a[1]).tolist())) if len(a) > 1 else 0.0)

        def mean_score(self, *a, **k):
            return comp.get("mean_score", 0.0) - (0.5 * len(set(np.asarray(a[1]).tolist())) if len(a) > 1 else 0.0)

        def elementwise_score(self, X_train, y_train, X_test, y_test, metadata_train=None, metadata_test=None):
            if comp.get("data_dependent") and len(X_train) and float(np.asarray(X_train)[0, 0]) != 0.0:
                # like a model-based utility, the table depends on the training DATA, not only on the label sets
                return self.U + 0.125 * float(np.asarray(X_train)[0, 0])
            return self.U            # the retained array itself, on purpose

        def elementwise_null_score(self, X_train, y_train, X_test, y_test, metadata_train=None, metadata_test=None):
            return self.nulls

    return TU()


def run_impl(c):
    import numpy as np
    from datascope.importance.utility import JointUtility
    if c["kind"] == "k1":
        ds = c["ds"]
        us = [table_utility(cp) for cp in c["comps"]]
        if c["dup"]:
            us[1] = us[0]
        joint = JointUtility(*us) if c["default_w"] else JointUtility(*us, weights=list(c["ws"]))
        X = np.arange(ds["n_train"], dtype=float).reshape(-1, 1)
        Xv = np.arange(ds["n_test"], dtype=float).reshape(-1, 1)
        y, yv = np.array(ds["labels"]), np.array(ds["y_test"])
        comp_scores = [nn.run_neighbor(ds, utility=u) for u in us]
        joint_scores = nn.run_neighbor(ds, utility=joint)
        jt = np.asarray(joint.elementwise_score(X, y, Xv, yv), dtype=float)
        jn = np.asarray(joint.elementwise_null_score(X, y, Xv, yv), dtype=float)
        ws = [1.0 / len(us)] * len(us) if c["default_w"] else c["ws"]
        scal = []
        # a HISTORY on the one joint object: first a one-row training subset, then the full data, then the subset again -- same
        # validation labels throughout; every answer must be the weighted sum of what the components answer to the same call
        for Xs, ys in ((X[:1], y[:1]), (X, y), (X[:1], y[:1]), (X, y)):
            for name in ("null_score", "mean_score"):
                comps = [float(getattr(u, name)(Xs, ys, Xv, yv)) for u in us]
                scal.append([float(getattr(joint, name)(Xs, ys, Xv, yv)), float(sum(w * v for w, v in zip(ws, comps))), comps])
        calls = []
        r = joint(X, y, Xv, yv, null_score=-7.5)
        comps = [float(u(X, y, Xv, yv).score) for u in us]
        calls.append([comps, -7.5, float(r.score)])
        if len(us) >= 1 and not c["dup"]:
            c["comps"][-1]["fail"] = True
            r = joint(X, y, Xv, yv, null_score=-7.5)
            calls.append([comps[:-1] + [None], -7.5, float(r.score)])
            c["comps"][-1]["fail"] = False
        # a table HISTORY on the one joint object: the same label sets and validation labels, other training data (rows reversed):
        # the joint table must be the weighted sum of what the components answer to THIS call
        for cp in c["comps"]:
            cp["data_dependent"] = True
        for Xh, yh in ((X[::-1].copy(), y[::-1].copy()), (X, y)):
            jt_h = np.asarray(joint.elementwise_score(Xh, yh, Xv, yv), dtype=float)
            exp_h = sum(w * np.asarray(u.elementwise_score(Xh, yh, Xv, yv), dtype=float) for w, u in zip(ws, us))
            assert np.allclose(jt_h, exp_h, rtol=0, atol=1e-9), "joint element-wise table is not the weighted sum of the components' (history)"
        for cp in c["comps"]:
            cp["data_dependent"] = False
        tabs = [np.asarray(u.elementwise_score(X, y, Xv, yv), dtype=float).tolist() for u in us]
        nvs = [np.asarray(u.elementwise_null_score(X, y, Xv, yv), dtype=float).tolist() for u in us]
        return {"ws": ws, "tables": tabs, "nullvs": nvs, "joint_table": jt.tolist(), "joint_null": jn.tolist(),
                "scalars": scal, "calls": calls, "joint": joint_scores, "comps": comp_scores}
    if c["kind"] == "bf":
        from props.gamecommon import run_game
        outs = []
        for vals, null in zip(c["comps"], c["nulls"]):
            outs.append(run_game({"n": c["n"], "values": vals, "null": null, "method": "bruteforce"})[0])
        # joint utility over table utilities
        from datascope.importance.shapley import ShapleyImportance
        from props.gamecommon import make_table_utility, masks
        us = []
        for vals, null in zip(c["comps"], c["nulls"]):
            tab = {frozenset(i for i in range(c["n"]) if m[i]): float(Fraction(*v)) for m, v in zip(masks(c["n"]), vals)}
            us.append(make_table_utility(tab, float(null)))
        imp = ShapleyImportance(method="bruteforce", utility=JointUtility(*us, weights=list(c["ws"])))
        X = np.arange(c["n"], dtype=float).reshape(-1, 1)
        imp.fit(X, np.zeros(c["n"], dtype=int))
        s = np.asarray(imp.score(np.zeros((1, 1)), np.zeros(1, dtype=int)), dtype=float).tolist()
        return {"rel": True, "ws": c["ws"], "joint": s, "comps": outs}
    # ADD path, K = 2, conjunctive provenance
    from datascope.importance.shapley import ShapleyImportance
    from datascope.utility.provenance import Units, Provenance, Conjunction
    units = Units(units=c["n_units"], candidates=2)
    prov = Provenance([Conjunction(*[units[u] == 1 for u in row]) for row in c["rows"]])
    ds = {"n_train": len(c["rows"]), "n_test": 1, "labels": c["labels"], "y_test": [c["labels"][0]],
          "D": [[float(d) for d in c["D"]]], "n_units": c["n_units"], "grouping": {"kind": "default"}}

    def run(u):
        imp = ShapleyImportance(method="neighbor", utility=u, nn_k=c["K"], nn_distance=nn.make_distance(ds))
        X = np.arange(ds["n_train"], dtype=float).reshape(-1, 1)
        imp.fit(X, np.array(ds["labels"]), provenance=prov)
        return np.asarray(imp.score(np.zeros((1, 1)), np.array(ds["y_test"])), dtype=float).tolist()

    ncls = len(set(c["labels"]))
    us = [table_utility({"U": [cp["U"][0][:ncls]], "nulls": cp["nulls"]}) for cp in c["comps"]]
    return {"rel": True, "ws": c["ws"], "joint": run(JointUtility(*us, weights=list(c["ws"]))), "comps": [run(u) for u in us]}


# ----------------------------------------------------------------------------- Coq side
def qo(v):
    return "None" if v is None else "(Some %s)" % cf.qq(v)


def emit(c, o):
    def bad(l):
        return any(math.isnan(x) or math.isinf(x) for x in l)
    if o.get("rel"):
        if bad(o["joint"]) or any(bad(x) for x in o["comps"]):
            return None
        scale = 1 + max(abs(x) for l in o["comps"] + [o["joint"]] for x in l)
        return "(CRel (mkRel %s %s %s %s))" % (cf.qs(o["ws"]), cf.qq(Fraction(scale) / 2 ** 36), cf.qs(o["joint"]),
                                               cf.lst([cf.qs(x) for x in o["comps"]]))
    ds = c["ds"]
    joint = [float.fromhex(h) for h in o["joint"]]
    comps = [[float.fromhex(h) for h in l] for l in o["comps"]]
    if bad(joint) or any(bad(x) for x in comps):
        return None
    alts, _ = nn.order_alternatives(ds, random.Random(c["seed"]), limit=1)
    scale = 1 + max([abs(v) for t in o["tables"] for row in t for v in row] + [abs(v) for nv in o["nullvs"] for v in nv] + [8])
    tol = Fraction(scale) * (1 + sum(abs(Fraction(w)) for w in o["ws"])) / 2 ** 38
    tbl = lambda t: cf.lst([cf.qs(row) for row in t])  # noqa: E731
    return "(CK1 (mkK1 %s %s %s %s %s %s %s %s %s %s %s %s %s %s %s))" % (
        cf.nat(ds["n_units"]), cf.zs(ds["labels"]), cf.nats(ds["owner"]), cf.lst([cf.qs(col) for col in ds["D"]]),
        cf.lst([cf.lst([cf.nats(x) for x in alt]) for alt in alts]), cf.qq(tol), cf.qs(o["ws"]),
        cf.lst([tbl(t) for t in o["tables"]]), cf.lst([cf.qs(v) for v in o["nullvs"]]), tbl(o["joint_table"]),
        cf.qs(o["joint_null"]),
        cf.lst(["(%s, %s, %s)" % (cf.qq(j), cf.qq(w), cf.qs(cs)) for j, w, cs in o["scalars"]]),
        cf.lst(["(%s, %s, %s)" % (cf.lst([qo(v) for v in rs]), cf.qq(nl), cf.qq(j)) for rs, nl, j in o["calls"]]),
        cf.qs(joint), cf.lst([cf.qs(x) for x in comps]))


def nontrivial(c, o):
    if not isinstance(o, dict) or "joint" not in o:
        return False
    return sum(1 for w in o["ws"] if w != 0) >= 2 and len(set(map(str, o["joint"]))) > 1


def distribution(cases, outs):
    from collections import Counter
    return {"kinds": dict(Counter(c["kind"] for c in cases)),
            "components": dict(Counter(len(c["comps"]) for c in cases)),
            "negative_weight_cases": sum(1 for c in cases if any(w < 0 for w in c["ws"])),
            "repeated_component_cases": sum(1 for c in cases if c.get("dup")),
            "exceptions": dict(Counter(o["exc"] for o in outs if isinstance(o, dict) and "exc" in o))}


# functions of the implementation this property is anchored in: their line coverage under the correspondence cases is
# measured on the staged copy and reported in the evidence (implementation_line_coverage)
ANCHORS = [
    "datascope/importance/utility.py:JointUtility.__init__",
    "datascope/importance/utility.py:JointUtility.__call__",
    "datascope/importance/utility.py:JointUtility.null_score",
    "datascope/importance/utility.py:JointUtility.mean_score",
    "datascope/importance/utility.py:JointUtility.elementwise_score",
    "datascope/importance/utility.py:JointUtility.elementwise_null_score",
    "datascope/importance/shapley.py:compute_shapley_add",
]

MANIFEST = {
    "text": "Proof: C08_joint_components / C08_joint_score (the JointUtility accessors are the weighted sums, any weights; "
            "NaN-sentinel rule), C08_kernel_linear (K=1 neighbor scores under the joint tables = weighted sum of the "
            "scores under each component, same rank orders), C08_shift, C08_shapley_linear/_scale/_shift (any game: "
            "bruteforce without failing coalitions, the ADD path through C02), C08_bruteforce_linear (the MODEL of the bruteforce "
            "loop under a joint utility = weighted sum of the component results when no coalition fails) and C08_add_linear (the "
            "MODEL of compute_shapley_add is linear in utility table and null vector for ANY oracle answers, provenance, K and "
            "distances). Tied to the code at API level with real "
            "JointUtility objects over retained-array table utilities (negative / zero / default weights, repeated "
            "components): accessors and scores vs the model and vs the weighted sum of the component runs, inside Coq; "
            "K=2 (ADD path) and bruteforce as relations between runs.",
    "note": "Trusted: Coq kernel + vm_compute; harness; argsort hints validated. K>1 linearity is tied to the code "
            "only as a relation between runs (its model is C02's).",
    "technique": "Coq proof (linearity of the kernel recurrence and of the Shapley value) + API-level correspondence "
                 "and run-to-run relations evaluated by vm_compute",
}
