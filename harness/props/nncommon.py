"""Shared helpers for the K=1 neighbor-path properties (C01, C06, C07, C08): dataset generation, the table
utility and scripted distance injected through the public API, and emission of Check.C01 cases."""
import itertools
from fractions import Fraction

import coqfmt as cf


# ----------------------------------------------------------------------------- dataset generation (pure Python)
def rand_dataset(rng, max_rows=7, max_points=4, max_classes=4, ties=None, grouping=None):
    n_train = rng.randint(1, max_rows)
    n_test = rng.randint(1, max_points)
    n_classes = rng.randint(1, min(max_classes, n_train))
    pool = rng.choice([[0, 1, 2, 3], [3, 7, 8, 20], [-5, -1, 0, 4], [10, 11, 12, 13], [0, 2, 5, 9]])[:n_classes]
    labels = [rng.choice(pool) for _ in range(n_train)]
    for cl in pool:  # make sure every class occurs when possible
        if cl not in labels and len(labels) >= len(pool):
            labels[rng.randrange(n_train)] = cl
    classes = sorted(set(labels))
    ties = rng.random() < 0.35 if ties is None else ties
    if ties:
        dvals = [rng.choice([1, 2, 3]) * 0.5 for _ in range(8)]
    else:
        dvals = None
    # one case in thirty: MANY validation points (on both sides of 256) for few rows; one untied case in six: distances of
    # timestamp-like magnitude, distinct as binary64 values but closer together than binary32 spacing
    if rng.random() < 0.033 and max_points >= 3:
        n_test = rng.choice([257, 300])
        n_train = min(n_train, 3)
        labels = labels[:n_train]
        classes = sorted(set(labels))
    big = (not ties) and rng.random() < 0.17
    D = []
    for _ in range(n_test):
        if ties:
            D.append([rng.choice(dvals) for _ in range(n_train)])
        else:
            col = rng.sample(range(1, 64), n_train)
            D.append([134217728.0 + c if big else c / 8.0 for c in col])
    uden = rng.choice([1, 2, 4])
    U = [[rng.randint(-4, 4) / uden for _ in range(len(classes))] for _ in range(n_test)]   # per point, per class
    nulls = [rng.randint(-4, 4) / uden for _ in range(n_test)]
    for j in range(n_test):
        if rng.random() < 0.12:      # a validation point where every class utility is exactly 0 (null usually is not)
            U[j] = [0.0] * len(classes)
    grouping = grouping or rng.choice(["default", "default", "grouped", "grouped", "fork", "ndarray", "permuted", "cand3"])
    if grouping == "default":
        owner = list(range(n_train))
        gspec = {"kind": "default"}
    elif grouping == "permuted":      # one row per unit, but rows not in unit order
        ids = rng.sample([-3, 0, 1, 2, 5, 9, 14, 100, 7, 8, 21, 33, -40, 64, 1000, 12345], n_train)
        units = sorted(ids)
        owner = [units.index(i) for i in ids]
        gspec = {"kind": rng.choice(["grouped", "ndarray", "edited", "edited"]), "ids": ids}
    elif grouping == "cand3":
        # units with THREE candidate values: a row is tied to (unit == 1) -- present in the default world -- or to (unit == 2) -- a
        # "repaired" variant that is absent from it; every unit keeps at least one present row; absent rows belong to no unit
        k = rng.randint(1, n_train)
        first = rng.sample(range(n_train), k)                  # one present row per unit
        cand_owner, owner = [], []
        for r in range(n_train):
            if r in first:
                u, cnd = first.index(r), 1
            else:
                u, cnd = rng.randrange(k), rng.choice([1, 2, 2])
            cand_owner.append([u, cnd])
            owner.append(u if cnd == 1 else k)
        gspec = {"kind": "cand3", "k": k, "cand_owner": cand_owner}
    elif grouping in ("grouped", "ndarray"):
        k = rng.randint(1, n_train)
        ids_pool = rng.sample([-3, 0, 1, 2, 5, 9, 14, 100, 7, 8, 21, 33, -40, 64, 1000, 12345], k)
        ids = [rng.choice(ids_pool) for _ in range(n_train)]
        units = sorted(set(ids))
        owner = [units.index(i) for i in ids]
        gspec = {"kind": grouping, "ids": ids}
    else:  # fork of a default provenance
        reps = []
        while sum(reps) < n_train:
            reps.append(rng.randint(1, 3))
        over = sum(reps) - n_train
        reps[-1] -= over
        if reps[-1] == 0:
            reps.pop()
        owner = [u for u, r in enumerate(reps) for _ in range(r)]
        gspec = {"kind": "fork", "reps": reps}
    return {"n_train": n_train, "n_test": n_test, "labels": labels, "D": D, "U": U, "nulls": nulls,
            "owner": owner, "n_units": gspec["k"] if gspec["kind"] == "cand3" else max(owner) + 1, "grouping": gspec, "utility": "table",
            "refit_history": rng.random() < 0.3,
            "y_test": [rng.choice(classes) for _ in range(n_test)]}


def reduced(ds):
    """per validation point: (unit -> min distance), first-min row"""
    out = []
    for j in range(ds["n_test"]):
        ud = []
        for p in range(ds["n_units"]):
            rows = [r for r in range(ds["n_train"]) if ds["owner"][r] == p]
            best = min(rows, key=lambda r: (ds["D"][j][r], r))
            ud.append(ds["D"][j][best])
        out.append(ud)
    return out


def order_alternatives(ds, rng, limit=24):
    """hint = numpy argsort of the reduced distances per point; alternatives permute tie groups (validated in Coq)"""
    import numpy as np
    ud = reduced(ds)
    hint = [np.argsort(np.array(col, dtype=float)).tolist() for col in ud]
    alts = [hint]
    per_point = []
    for col, h in zip(ud, hint):
        groups = []
        for q in h:
            if groups and col[groups[-1][0]] == col[q]:
                groups[-1].append(q)
            else:
                groups.append([q])
        options = [list(itertools.permutations(g)) if len(g) <= 3 else [tuple(g), tuple(reversed(g))] for g in groups]
        per_point.append(options)
    total = 1
    for opts in per_point:
        for o in opts:
            total *= len(o)
    seen = {str(hint)}
    tries = 0
    while len(alts) < min(limit, total) and tries < 200:
        tries += 1
        cand = [[q for g in [rng.choice(o) for o in opts] for q in g] for opts in per_point]
        if str(cand) not in seen:
            seen.add(str(cand))
            alts.append(cand)
    return alts, total


def n_ties(ds):
    ud = reduced(ds)
    return sum(len(col) - len(set(col)) for col in ud)


# ----------------------------------------------------------------------------- implementation side
def make_utility(ds):
    import numpy as np
    from datascope.importance.utility import Utility, UtilityResult

    class TableUtility(Utility):
        """additive utility given by generated tables: U[class][point] and a per-point null score"""

        def __init__(self, U, nulls):
            self.U = np.array(U, dtype=float).T.copy()      # classes x points
            self.nulls = np.array(nulls, dtype=float)

        def __call__(self, *a, **k):
            raise ValueError("table utility has no model")

        def null_score(self, *a, **k):
            return float(np.mean(self.nulls))

        def mean_score(self, *a, **k):
            return 0.0

        def elementwise_score(self, X_train, y_train, X_test, y_test, metadata_train=None, metadata_test=None):
            assert self.U.shape[0] == len(np.unique(y_train)), (self.U.shape, np.unique(y_train))
            idx = X_test[:, 0].astype(int)
            return self.U[:, idx].copy()

        def elementwise_null_score(self, X_train, y_train, X_test, y_test, metadata_train=None, metadata_test=None):
            idx = X_test[:, 0].astype(int)
            return self.nulls[idx].copy()

    return TableUtility(ds["U"], ds["nulls"])


def make_distance(ds):
    import numpy as np
    Dm = np.array(ds["D"], dtype=float).T.copy()   # rows x points

    def distance(A, B):
        return Dm[np.ix_(A[:, 0].astype(int), B[:, 0].astype(int))].copy()

    return distance


def make_provenance(ds):
    import numpy as np
    from datascope.utility.provenance import Provenance
    g = ds["grouping"]
    if g["kind"] == "default":
        return None
    if g["kind"] == "grouped":
        return Provenance(data=np.array(g["ids"], dtype=int))
    if g["kind"] == "ndarray":
        return np.array(g["ids"], dtype=int)
    if g["kind"] == "cand3":
        from datascope.utility.provenance import Units
        units = Units(units=g["k"], candidates=3)
        return Provenance([units[u] == cnd for u, cnd in g["cand_owner"]])
    if g["kind"] == "edited":
        # the DEFAULT provenance (one unit per row, in row order) whose rows are then reassigned IN PLACE so that row r belongs to
        # unit owner[r] (a non-identity permutation): a container that started out "simple" and no longer is
        n = ds["n_train"]
        p = Provenance(units=n)
        exprs = [p[i] for i in range(n)]
        for r in range(n):
            if ds["owner"][r] != r:
                p[r] = exprs[ds["owner"][r]]
        return p
    return Provenance(units=len(g["reps"])).fork(np.array(g["reps"], dtype=int))


def run_neighbor(ds, utility=None, distance=None, **kw):
    import numpy as np
    from datascope.importance.shapley import ShapleyImportance
    X = np.arange(ds["n_train"], dtype=float).reshape(-1, 1)
    Xv = np.arange(ds["n_test"], dtype=float).reshape(-1, 1)
    y = np.array(ds["labels"])
    yv = np.array(ds["y_test"])
    imp = ShapleyImportance(method="neighbor", utility=utility if utility is not None else make_utility(ds),
                            nn_distance=distance if distance is not None else make_distance(ds), **kw)
    prov = make_provenance(ds)
    if ds.get("refit_history") and len(y) > 1:
        # a HISTORY on the one object: it is first fitted on the SAME feature array object with other labels (a rotation: the same
        # class set) and scored, then fitted on the real labels -- the result is the Shapley value of the LAST fit's game
        y_other = np.roll(y, 1)
        imp.fit(X, y_other, provenance=prov)
        imp.score(Xv, yv)
        y[:] = np.array(ds["labels"])
    imp.fit(X, y, provenance=prov)
    s = imp.score(Xv, yv)
    s = np.asarray(s, dtype=float)
    assert s.shape == (ds["n_units"],), s.shape
    return [x.hex() for x in s.tolist()]


# ----------------------------------------------------------------------------- Coq side
def tol_of(ds):
    scale = 1 + max([abs(v) for col in ds["U"] for v in col] + [abs(v) for v in ds["nulls"]])
    return Fraction(scale) / (2 ** 40)


def emit_c01(ds, alts, scores_hex, do_spec=None):
    scores = [float.fromhex(h) for h in scores_hex]
    if do_spec is None:
        do_spec = ds["n_units"] <= 7
    return "(C01.mkCase %s %s %s %s %s %s %s %s %s %s)" % (
        cf.nat(ds["n_units"]), cf.zs(ds["labels"]), cf.nats(ds["owner"]),
        cf.lst([cf.qs(col) for col in ds["D"]]), cf.lst([cf.qs(col) for col in ds["U"]]), cf.qs(ds["nulls"]),
        cf.lst([cf.lst([cf.nats(o) for o in alt]) for alt in alts]), cf.qq(tol_of(ds)), cf.b(do_spec), cf.qs(scores))
