"""C09 -- the Shapley oracle counts coalitions exactly (unit level at ShapleyOracle.query)."""
import coqfmt as cf
from props import c10

RULE = ("cases = random conjunctive provenance hypergraphs (2-5 units, 1-4 rows of 1-3 units each: shared units, rows "
        "needing several units, units owning several rows, units owning no row, isolated units), labels over 1-3 "
        "classes, K in 1..3, ~30% tied distances, ~20% distinct but nearly equal distances (2^27 + k, 1 + k/2^30); HISTORIES (an oracle, two rows swapped in place on the same Provenance object, another oracle with the same tally type object); for every instance ALL targets x boundary_with x boundary_without "
        "(incl. None) are queried: the result dictionaries (counts in domain order) are compared inside Coq with the "
        "oracle model run on the compiled diagram dumped from the implementation (accepted by valid_compiled, and EQUAL node by node to the model of compile() over the component structure its graph step derives), and with "
        "the counting specification (histogram over all 2^(units-1) assignments); several instances with the same K "
        "and class count but growing unit counts run in one process; one-unit instances are the known finding F12; "
        "non-trivial = some query has at least 3 non-empty tally buckets; distinct = JSON")
EXHAUSTIVE = {"quick": False, "thorough": False}
SHARD = 4
JOBS = 12
COQ_IMPORTS = "From DS Require Import Model.ADD Spec.Count Model.Oracle."
TRUSTED = ["compile(): the construction is modelled and proved correct for every admissible component structure "
           "(C09_compile_exact); per instance, Coq evaluates hints_ok on the structure recomputed with the same numpy / "
           "scipy calls, compares the modelled diagram and row locations node by node with the implementation's, and "
           "evaluates valid_compiled on the dump; scipy connected_components / np.argsort only through that"]
ASSUMPTIONS = ["positive conjunctive provenance (a row is present iff all its units are), binary candidates"]
WORKER_TIMEOUT = 3000


def rand_instance(rng, n_units=None, K=None, C=None, chain=False, big=False):
    n = n_units or (rng.randint(2, 5) if big else rng.choice([2, 3, 3, 4, 4]))
    rows = rng.randint(1, 4 if big else 3)
    if chain:
        rs = [[rng.randrange(n)] for _ in range(rows)]
    else:
        rs = [sorted(rng.sample(range(n), rng.randint(1, min(3, n)))) for _ in range(rows)]
    C = C or (rng.randint(1, 3) if big else rng.randint(1, 2))
    labels = [rng.randrange(C) for _ in range(rows)]
    if rng.random() < 0.3:
        dist = [rng.choice([1, 2, 3]) for _ in range(rows)]
    else:
        dist = rng.sample(range(1, 20), rows)
        if rng.random() < 0.3:
            # distinct distances closer together than any relative tolerance a comparison might use (and than binary32 spacing)
            dist = [134217728 + d for d in dist] if rng.random() < 0.5 else [1 + d / 2 ** 30 for d in dist]
    return {"n": n, "rows": rs, "labels": labels, "dist": dist, "K": K or (rng.randint(1, 3) if big else rng.randint(1, 2)), "C": C}


def gen(rng, tier):
    cases = []
    N = {"quick": 22, "search": 60, "thorough": 220}[tier]
    for k in range(N):
        cases.append(rand_instance(rng, chain=(k % 5 == 0), big=(tier == "thorough" or k % 7 == 3)))
    # growing unit counts with the same K and class count, back to back in one process
    for K, C in ((2, 2), (1, 2)):
        seq = [rand_instance(rng, n_units=n, K=K, C=C) for n in (3, 5, 4)]
        cases.append({"multi": seq})
    # HISTORIES on one Provenance object: an oracle is built, two different rows are swapped IN PLACE (the array keeps its shape),
    # another oracle is built from the same object with the same tally type object -- it must count for the EDITED provenance
    for _ in range({"quick": 3, "search": 5, "thorough": 20}[tier]):
        while True:
            i1 = rand_instance(rng, n_units=rng.choice([3, 4]), K=rng.randint(1, 2), C=2)
            pairs = [(a, b) for a in range(len(i1["rows"])) for b in range(a) if i1["rows"][a] != i1["rows"][b]]
            if pairs:
                break
        a, b = rng.choice(pairs)
        rows2 = list(i1["rows"])
        rows2[a], rows2[b] = rows2[b], rows2[a]
        cases.append({"multi": [i1, dict(i1, rows=rows2)], "history": True})
    # WIDE conjunctions: a row needing five (or all six) units, next to narrower rows -- the pairings of its units must all be known
    # to the leaf selection
    for _ in range({"quick": 2, "search": 3, "thorough": 8}[tier]):
        n = rng.choice([5, 6])
        wide = sorted(rng.sample(range(n), 5))
        rows = [wide] + [sorted(rng.sample(range(n), rng.randint(1, 2))) for _ in range(rng.randint(0, 2))]
        rng.shuffle(rows)
        cases.append({"n": n, "rows": rows, "labels": [rng.randrange(2) for _ in rows], "dist": rng.sample(range(1, 20), len(rows)),
                      "K": 1, "C": 2})
    cases.append(rand_instance(rng, n_units=1, K=1, C=1, chain=True))
    return cases


def corpus():
    # F3 (fixed): a component made of leaf units only (row {1,2,3} over 4 units) -> stack with no factors
    return [{"n": 4, "rows": [[1, 2, 3], [0]], "labels": [0, 1], "dist": [1, 2], "K": 1, "C": 2}]


# ----------------------------------------------------------------------------- implementation side
def make_prov(inst):
    from datascope.utility.provenance import Units, Provenance, Conjunction
    units = Units(units=inst["n"], candidates=2)
    return Provenance([Conjunction(*[units[u] == 1 for u in row]) for row in inst["rows"]])


def compile_hints(prov):
    """the inputs of compile()'s graph step recomputed with the same numpy / scipy calls -- the visiting order
    np.argsort(degrees) and scipy's connected components -- and the component structure derived from them the way the code
    does (per component, in order, the sorted factor units and the sorted leaf units); None in the chain case"""
    import numpy as np
    from functools import partial
    from itertools import combinations, chain
    from scipy.sparse import csr_matrix
    from scipy.sparse.csgraph import connected_components
    if prov.max_conjunctions == 1:
        return None
    tuple_units = [np.sort(np.delete(a, np.asarray(a == -1).nonzero())) for a in prov.data[:, 0, :, 0]]
    pairings = np.array(list(set(chain.from_iterable(map(partial(combinations, r=2), tuple_units)))))
    unique, unique_counts = np.unique(pairings, return_counts=True)
    degrees = np.zeros((prov.num_units,), dtype=int)
    degrees[unique] = unique_counts
    neighbors = csr_matrix((np.repeat(1, repeats=pairings.shape[0]), (pairings[:, 0], pairings[:, 1])),
                           shape=[prov.num_units, prov.num_units])
    neighbors += neighbors.transpose()
    num_components, index = connected_components(neighbors, directed=False, return_labels=True)
    components = [set() for _ in range(num_components)]
    for unit, comp in enumerate(index):
        components[comp].add(unit)
    leaf, available = set(), set(range(prov.num_units))
    order = [int(u) for u in np.argsort(degrees)]
    for unit in order:
        if unit in available:
            leaf.add(int(unit))
            available.difference_update(neighbors.getrow(unit).indices)
    return {"hints": [[sorted(int(u) for u in c - leaf), sorted(int(u) for u in c & leaf)] for c in components],
            "order": order, "components": [sorted(int(u) for u in c) for c in components],
            "degrees": [int(x) for x in degrees]}


def run_one(inst, ctx=None):
    import numpy as np
    from datascope.importance.oracle import ShapleyOracle, ATally, compile as compile_prov
    if ctx is not None and "prov" in ctx:
        # second step of a history: the SAME provenance object is edited in place and a new oracle is built from it with the SAME
        # tally type object
        from datascope.utility.provenance import Conjunction
        prov, atype = ctx["prov"], ctx["atype"]
        for r, row in enumerate(inst["rows"]):
            if row != ctx["rows"][r]:
                prov[r] = Conjunction(*[prov._units[u] == 1 for u in row])
    else:
        prov = make_prov(inst)
        atype = ATally[inst["n"] - 1, inst["K"], inst["C"]]
    if ctx is not None:
        ctx.update({"prov": prov, "atype": atype, "rows": [list(r) for r in inst["rows"]]})
    t = {"kind": "tally", "n": inst["n"] - 1, "k": inst["K"], "c": inst["C"]}
    add, locations = compile_prov(prov, atype)
    dumped = c10.dump(add, t)
    locs = [[[int(a), int(b), bool(c)] for (a, b, c) in row] for row in locations]
    oracle = ShapleyOracle(provenance=prov, labels=np.array(inst["labels"]), distances=np.array(inst["dist"], dtype=float), atype=atype)
    dom = [v.value for v in atype.domain()]
    queries = []
    n_rows = len(inst["rows"])
    for target in range(inst["n"]):
        for t1 in range(n_rows):
            for t2 in list(range(n_rows)) + [None]:
                res = oracle.query(target=prov.units[target], boundary_with=t1, boundary_without=t2)
                assert [k.value for k in res.keys()] == dom
                queries.append([target, t1, t2, [int(x) for x in res.values()]])
    return {"add": dumped, "locs": locs, "queries": queries, "chain": prov.max_conjunctions == 1, "graph": compile_hints(prov)}


def run_impl(c):
    if "multi" in c:
        ctx = {} if c.get("history") else None
        return {"multi": [run_one(i, ctx) for i in c["multi"]]}
    return run_one(c)


# ----------------------------------------------------------------------------- Coq side
def prob_term(inst, numtuples=None):
    return "(mkProb %s %s %s %s %s %s %s)" % (
        cf.nat(inst["n"]), cf.lst([cf.nats(r) for r in inst["rows"]]), cf.nats(inst["labels"]), cf.qs(inst["dist"]),
        cf.nat(inst["n"] - 1 if numtuples is None else numtuples), cf.nat(inst["K"]), cf.nat(inst["C"]))


def emit_one(inst, o):
    t = {"kind": "tally", "n": inst["n"] - 1, "k": inst["K"], "c": inst["C"]}
    locs = cf.lst([cf.lst(["(%s, %s, %s)" % (cf.nat(a), cf.nat(b), cf.b(c)) for a, b, c in row]) for row in o["locs"]])
    qs = cf.lst(["(%s, %s, %s, %s)" % (cf.nat(tg), cf.nat(t1), "None" if t2 is None else "(Some %s)" % cf.nat(t2), cf.nats(cn))
                 for tg, t1, t2, cn in o["queries"]])
    g = o.get("graph") or {"hints": [], "order": [], "components": [], "degrees": []}
    hints = cf.lst(["(%s, %s)" % (cf.nats(f), cf.nats(l)) for f, l in g["hints"]])
    return "(mkCase %s %s %s %s %s %s %s %s %s)" % (prob_term(inst), c10.add_term(o["add"], t), locs, cf.b(o["chain"]), hints,
                                                 cf.nats(g["order"]), cf.lst([cf.nats(c) for c in g["components"]]), cf.nats(g["degrees"]), qs)


def emit(c, o):
    if "multi" in c:
        return None
    return emit_one(c, o)


def expand(c, o):
    """a multi case is evaluated as several Coq cases"""
    if "multi" in c and isinstance(o, dict) and "multi" in o:
        return [(i, oo) for i, oo in zip(c["multi"], o["multi"])]
    return [(c, o)]


def finding_tag(c, o):
    if "multi" not in c and c["n"] == 1:
        return "add:restrict-only-variable"
    return None


def nontrivial(c, o):
    if not isinstance(o, dict) or "exc" in o:
        return False
    outs = o["multi"] if "multi" in o else [o]
    return any(sum(1 for x in q[3] if x) >= 3 for oo in outs for q in oo["queries"])


def distribution(cases, outs):
    from collections import Counter
    flat = [i for c in cases for i in (c["multi"] if "multi" in c else [c])]
    return {"units": dict(sorted(Counter(i["n"] for i in flat).items())), "rows": dict(sorted(Counter(len(i["rows"]) for i in flat).items())),
            "K": dict(Counter(i["K"] for i in flat)), "classes": dict(Counter(i["C"] for i in flat)),
            "tied_distances": sum(1 for i in flat if len(set(i["dist"])) < len(i["dist"])),
            "nearly_equal_distinct_distances": sum(1 for i in flat if len(set(i["dist"])) == len(i["dist"]) and (max(i["dist"]) > 1e6 or max(i["dist"]) < 1.1)),
            "histories_on_one_provenance_object": sum(1 for c in cases if c.get("history")),
            "multi_unit_rows": sum(1 for i in flat if any(len(r) > 1 for r in i["rows"])),
            "units_owning_no_row": sum(1 for i in flat if set(range(i["n"])) - set(u for r in i["rows"] for u in r)),
            "compile_model_compared_structurally": sum(1 for o in outs if isinstance(o, dict) and "exc" not in o
                                                        for oo in (o["multi"] if "multi" in o else [o]) if oo.get("graph")),
            "queries": sum(len(oo["queries"]) for o in outs if isinstance(o, dict) and "exc" not in o
                           for oo in (o["multi"] if "multi" in o else [o])),
            "exceptions": dict(Counter(o["exc"] for o in outs if isinstance(o, dict) and "exc" in o))}


def shrink(c):
    if "multi" in c:
        for i in c["multi"]:
            yield i
        return
    if len(c["rows"]) > 1:
        for r in range(len(c["rows"])):
            yield dict(c, rows=c["rows"][:r] + c["rows"][r + 1:], labels=c["labels"][:r] + c["labels"][r + 1:],
                       dist=c["dist"][:r] + c["dist"][r + 1:])
    if c["K"] > 1:
        yield dict(c, K=c["K"] - 1)


# functions of the implementation this property is anchored in: their line coverage under the correspondence cases is
# measured on the staged copy and reported in the evidence (implementation_line_coverage)
ANCHORS = [
    "datascope/importance/oracle.py:compile",
    "datascope/importance/oracle.py:ShapleyOracle.__init__",
    "datascope/importance/oracle.py:ShapleyOracle.query",
    "datascope/utility/add.py:ADD.get_update_location",
    "datascope/utility/add.py:ADD.update",
    "datascope/importance/oracle.py:ATally._clip",
    "datascope/importance/oracle.py:ATally.__index__",
]

MANIFEST = {
    "text": "Proof: C09_oracle_exact -- the executable model of ShapleyOracle.__init__/query on the ADD model (increments at "
            "the compiled row locations of every row no farther than the boundary, invalidating value 0 of the boundary "
            "row's units, restrict of the target to 1/0, sum, +1 per present unit, modelcount) returns EXACTLY the counting "
            "specification (Spec/Count.v: the histogram over all assignments of the other units of the bounded tally, "
            "invalid when a boundary row is absent or a bound is exceeded), for every hypergraph, labels, distances, K, "
            "class count, target and boundary pair and every well-formed compiled diagram in unit order whose row "
            "locations are valid (>= 2 units; the one-unit case is F12); C09_oracle_chain_exact -- compile() in the chain "
            "case (one unit per row) produces such a diagram, no further hypothesis; C09_oracle_exact_any_order -- the same "
            "for ANY order of the units over the levels (compile()'s leaf/factor case); C09_oracle_exact_validated -- "
            "whenever the boolean valid_compiled (Model/Oracle.v: type, edge-value lengths, rectangular levels, reachable "
            "nodes live and in range, zero edge values, unit order a permutation, one level per unit, row locations hit "
            "exactly the assignments under which the row is present) is true, the oracle model is exact; C09_spec_total "
            "(counts add up to 2^(units-1)); C09_compile_exact -- compile()'s leaf/factor case is MODELLED (compile_model: per "
            "component a header tree over the factor units with 2^f copies of the chain over the leaf units, components "
            "concatenated; row locations) and for EVERY admissible component structure (hints_ok: components partition "
            "the units, each has a leaf, each row lies in one component with at most one leaf) the oracle over the "
            "modelled diagram is exact; C09_compile_graph_exact -- the GRAPH STEP of compile() is modelled too (select_leaves: greedy "
            "maximal independent set of the 'appear together in a row' graph in any visiting order; build_hints) and for EVERY "
            "visiting order that is a permutation of the units and EVERY row-closed partition of the units (graph_ok) the "
            "derived structure is admissible (C09_graph_hints_ok: independence gives at most one leaf per row, maximality a "
            "leaf in every part) and the oracle is exact. What is left to correspondence: that numpy's argsort returns a "
            "permutation and scipy's connected components a row-closed partition (graph_ok, evaluated inside Coq on every "
            "instance together with: order sorted by the modelled degrees, build_hints = the structure the code derives) and "
            "that the implementation builds the modelled diagram (node-by-node equality). Tied to the code at unit level: every target x boundary pair of every instance is queried; "
            "result dictionaries vs the oracle model on the dumped compiled diagram and vs the counting specification.",
    "note": "Trusted: Coq kernel + vm_compute; harness; of compile() only numpy's argsort / scipy's connected components are "
            "outside the model (their results are inputs, checked by graph_ok per instance). F12 (one-unit instances) is an open known finding.",
    "technique": "Coq proof (edge-update semantics by associativity/commutativity of saturating addition, structural "
                 "invariants of restrict and of the product construction, the C10 theorems for sum/restrict/modelcount) + "
                 "executable oracle model; exhaustive per-instance query correspondence and translation validation of "
                 "the compiled diagram evaluated by vm_compute",
}
