"""Shared helpers for bruteforce / montecarlo properties (C03, C04, C06, C08, C15, C16): a recording TABLE utility
whose value is looked up by the set of row ids present, default/grouped/DNF provenances, scripted clock."""
from fractions import Fraction


def make_table_utility(values_by_rows, null, mean=0.0, fail=None, record=None):
    """values_by_rows: dict frozenset(row ids) -> float; fail: dict frozenset -> 'ValueError'|'RuntimeWarning'|'UserWarning'"""
    import warnings
    from datascope.importance.utility import Utility, UtilityResult
    fail = fail or {}

    class TableUtility(Utility):
        def __call__(self, X_train, y_train, X_test, y_test, metadata_train=None, metadata_test=None,
                     null_score=None, seed=0):
            rows = frozenset(int(v) for v in X_train[:, 0].tolist()) if len(X_train) else frozenset()
            if record is not None:
                record.append(sorted(rows))
            f = fail.get(rows)
            if f == "ValueError":
                raise ValueError("scripted failure")
            if f == "RuntimeWarning":
                warnings.warn("scripted", RuntimeWarning)
            if f == "UserWarning":
                warnings.warn("scripted", UserWarning)
            # benign arithmetic that UNDERFLOWS (numpy ignores underflow by default; it neither raises nor warns): a utility whose
            # numbers get tiny has not failed
            import numpy as np
            tiny = np.float64(1e-200) * np.float64(1e-200) + np.exp(np.float64(-800.0))
            r = UtilityResult()
            r.score = values_by_rows[rows] + float(tiny)
            return r

        def null_score(self, *a, **k):
            # an integral null score may well be a Python int: the scores of the coalitions stay real numbers
            return int(null) if float(null) == int(null) else null

        def mean_score(self, *a, **k):
            return mean

    return TableUtility()


def masks(n):
    import itertools
    return list(itertools.product([0, 1], repeat=n))


def run_game(c):
    """a game on n one-row units given by its 2^n coalition values (product order): returns (scores, call history)"""
    import numpy as np
    from datascope.importance.shapley import ShapleyImportance
    n = c["n"]
    vals = {}
    for m, v in zip(masks(n), c["values"]):
        vals[frozenset(i for i in range(n) if m[i])] = float(Fraction(*v))
    hist = []
    u = make_table_utility(vals, float(c["null"]), record=hist)
    kw = {}
    if c["method"] == "montecarlo":
        kw = dict(mc_iterations=c["iters"], mc_timeout=0, mc_truncation_steps=0, seed=c["seed"])
    imp = ShapleyImportance(method=c["method"], utility=u, **kw)
    X = np.arange(n, dtype=float).reshape(-1, 1)
    imp.fit(X, np.zeros(n, dtype=int))
    s = np.asarray(imp.score(np.zeros((1, 1)), np.zeros(1, dtype=int)), dtype=float)
    return s.tolist(), hist
