"""C03 -- bruteforce scores are the Shapley value by definition, for any utility (API level, recording table utility)."""
import itertools
import math
from fractions import Fraction

import coqfmt as cf
from props.c05 import rand_formula, build_expr

RULE = ("cases = exhaustive (every 0/1 game on <=3 one-row units; [thorough] also over two more provenance shapes) + "
        "random games given as tables row-set -> value in {-8..8}/{1,2,4} over 1-6 units and 1-6 rows, provenances: "
        "default, Provenance(data=ids), random DNF incl. value-0 literals (so that the empty coalition has rows) and "
        "rows shared by several units; some row sets make the utility raise ValueError / warn RuntimeWarning / "
        "UserWarning; compared inside Coq: the score vector AND the exact sequence of row selections the utility was "
        "called with, against the loop model and against the Shapley formula; non-trivial = two units differ; "
        "distinct = distinct JSON of the case")
EXHAUSTIVE = {"quick": True, "thorough": True}
SHARD = 150
JOBS = 12
COQ_IMPORTS = "From DS Require Import Spec.Dnf."
TRUSTED = ["numpy boolean-mask row selection X_train[indices]; scipy.special.comb exact for n <= 7",
           "CPython warnings-as-errors semantics (simplefilter('error')) for the failure kinds"]
ASSUMPTIONS = ["binary64 scores compared with exact rationals up to 2^-40*scale"]
WORKER_TIMEOUT = 3000


def all_row_sets(rows):
    return list(itertools.product([False, True], repeat=rows))


def rand_case(rng, n=None, forms=None):
    n = n or rng.randint(1, 6)
    kind = forms or rng.choice(["default", "grouped", "forms", "forms"])
    if kind == "default":
        prov = {"kind": "default", "n": n}
        rows = n
    elif kind == "grouped":
        rows = rng.randint(n, min(6, n + 3))
        ids_pool = rng.sample([-3, 0, 2, 5, 9, 14, 100], n)
        ids = ids_pool + [rng.choice(ids_pool) for _ in range(rows - n)]
        rng.shuffle(ids)
        prov = {"kind": "grouped", "ids": ids}
    else:
        rows = rng.randint(1, 6)
        prov = {"kind": "forms", "fs": [rand_formula(rng, n, 2, maxd=2, maxc=2) for _ in range(rows)]}
    den = rng.choice([1, 2, 4])
    table = []
    for rs in all_row_sets(rows):
        r = rng.random()
        if r < 0.08:
            v = rng.choice(["ValueError", "RuntimeWarning", "UserWarning"])
        else:
            v = [rng.randint(-8, 8), den]
        table.append([list(rs), v])
    return {"n": n, "prov": prov, "rows": rows, "table": table, "null": [rng.randint(-4, 4), rng.choice([1, 2])]}


def gen(rng, tier):
    cases = []
    for n in (1, 2, 3):
        for vals in itertools.product([0, 1], repeat=2 ** n):
            cases.append({"n": n, "prov": {"kind": "default", "n": n}, "rows": n,
                          "table": [[list(rs), [v, 1]] for rs, v in zip(all_row_sets(n), vals)], "null": [vals[0], 1]})
    for _ in range({"quick": 150, "search": 800, "thorough": 2000}[tier]):
        cases.append(rand_case(rng))
    return cases


def corpus():
    # value-0 literals: the coalition of no units still has rows (the witness shape of finding F10)
    return [{"n": 2, "prov": {"kind": "forms", "fs": [[[(0, 0)]], [[(1, 1)]]]}, "rows": 2,
             "table": [[[False, False], [0, 1]], [[False, True], [2, 1]], [[True, False], [5, 1]], [[True, True], [7, 1]]],
             "null": [-1, 1]}]


# ----------------------------------------------------------------------------- implementation side
def make_provenance(p):
    import numpy as np
    from datascope.utility.provenance import Units, Provenance
    if p["kind"] == "default":
        return None
    if p["kind"] == "grouped":
        return Provenance(data=np.array(p["ids"], dtype=int))
    n = 1 + max(u for f in p["fs"] for c in f for (u, v) in c)
    units = Units(units=max(n, p.get("n", n)), candidates=2)
    return Provenance([build_expr(units, f, "min") for f in p["fs"]])


def table_utility(c, record):
    from props.gamecommon import make_table_utility
    vals, fail = {}, {}
    for rs, v in c["table"]:
        key = frozenset(i for i, b in enumerate(rs) if b)
        if isinstance(v, str):
            fail[key] = v
            vals[key] = 0.0
        else:
            vals[key] = float(Fraction(v[0], v[1]))
    return make_table_utility(vals, float(Fraction(*c["null"])), fail=fail, record=record)


def run_method(c, method="bruteforce", hook=None, **kw):
    """runs a method of ShapleyImportance on the table game; `hook(imp)` may wrap attributes before score()"""
    import numpy as np
    from datascope.importance.shapley import ShapleyImportance
    from datascope.utility.provenance import Units, Provenance
    hist = []
    u = table_utility(c, hist)
    p = c["prov"]
    if p["kind"] == "forms":
        units = Units(units=c["n"], candidates=2)
        prov = Provenance([build_expr(units, f, "min") for f in p["fs"]])
    else:
        prov = make_provenance(p)
    imp = ShapleyImportance(method=method, utility=u, **kw)
    if hook is not None:
        hook(imp)
    X = np.arange(c["rows"], dtype=float).reshape(-1, 1)
    imp.fit(X, np.zeros(c["rows"], dtype=int), provenance=prov)
    s = np.asarray(imp.score(np.zeros((1, 1)), np.zeros(1, dtype=int)), dtype=float)
    assert s.shape == (c["n"],), s.shape
    return {"scores": [x.hex() for x in s.tolist()], "history": [[i in h for i in range(c["rows"])] for h in hist]}


def run_impl(c):
    return run_method(c)


# ----------------------------------------------------------------------------- Coq side
def provspec(p):
    if p["kind"] == "default":
        return "(PDefault %s)" % cf.nat(p["n"])
    if p["kind"] == "grouped":
        return "(PGrouped %s)" % cf.zs(p["ids"])
    return "(PForms %s)" % cf.dnfs(p["fs"])


def table(c):
    return cf.lst(["(%s, %s)" % (cf.bools(rs), "None" if isinstance(v, str) else "(Some %s)" % cf.qq(Fraction(v[0], v[1])))
                   for rs, v in c["table"]])


def tol_of(c):
    scale = 1 + max([abs(Fraction(v[0], v[1])) for _, v in c["table"] if not isinstance(v, str)] + [abs(Fraction(*c["null"]))])
    return Fraction(scale) / 2 ** 38


def emit(c, o):
    scores = [float.fromhex(h) for h in o["scores"]]
    if any(math.isnan(s) or math.isinf(s) for s in scores):
        return None
    return "(mkCase %s %s %s %s %s %s %s)" % (cf.nat(c["n"]), provspec(c["prov"]), table(c), cf.qq(Fraction(*c["null"])),
                                               cf.qq(tol_of(c)), cf.qs(scores), cf.lst([cf.bools(h) for h in o["history"]]))


def nontrivial(c, o):
    return isinstance(o, dict) and "scores" in o and len(set(o["scores"])) > 1


def distribution(cases, outs):
    from collections import Counter
    return {"units": dict(sorted(Counter(c["n"] for c in cases).items())),
            "rows": dict(sorted(Counter(c["rows"] for c in cases).items())),
            "provenance": dict(Counter(c["prov"]["kind"] for c in cases)),
            "failing_row_sets": dict(Counter(v for c in cases for _, v in c["table"] if isinstance(v, str))),
            "cases_where_empty_coalition_has_rows": sum(1 for c in cases if c["prov"]["kind"] == "forms" and
                                                        any(all(v == 0 for (_, v) in cj) for f in c["prov"]["fs"] for cj in f)),
            "exceptions": dict(Counter(o["exc"] for o in outs if isinstance(o, dict) and "exc" in o))}


def shrink(c):
    for i, (rs, v) in enumerate(c["table"]):
        if isinstance(v, str) or v[0] != 0:
            d = dict(c)
            d["table"] = c["table"][:i] + [[rs, [0, 1]]] + c["table"][i + 1:]
            yield d


# functions of the implementation this property is anchored in: their line coverage under the correspondence cases is
# measured on the staged copy and reported in the evidence (implementation_line_coverage)
ANCHORS = [
    "datascope/importance/shapley.py:ShapleyImportance._shapley_bruteforce",
    "datascope/utility/provenance.py:Provenance.query",
]

MANIFEST = {
    "text": "Proof: C03_bruteforce_is_shapley -- for every n, stored provenance, utility (any function of the selected "
            "rows, possibly failing) and null score the accumulating loop returns for unit i exactly "
            "sum_{S not containing i} |S|!(n-|S|-1)!/n! (v(S+i)-v(S)); C03_game_rows (v(S) is evaluated on precisely the "
            "rows whose DNF formula is true, through C05), C03_failure_is_null, C03_binom_fact, C03_code_coefficient. "
            "Tied to the code at API level with a recording table utility: scores AND the exact call sequence of row "
            "selections are compared with the loop model and with the Shapley formula inside Coq.",
    "note": "Trusted: Coq kernel + vm_compute; harness; numpy mask selection, scipy comb (exact at these sizes), "
            "CPython warnings-as-errors.",
    "technique": "Coq proof (binomial identity, loop-to-sum, Shapley marginal form) about an executable model + "
                 "API-level correspondence incl. call history evaluated by vm_compute",
}
