"""Child process of the C17 check: one fresh interpreter, one importance object, prints the score bytes."""
import json
import os
import random
import sys


def main():
    cfg = json.loads(sys.argv[1])
    variant = cfg["variant"]
    # different import orders / prior use of the global generators / allocation patterns per variant
    if variant % 2:
        import sklearn.tree  # noqa
        import pandas  # noqa
    import numpy as np
    np.random.seed(1000 + 17 * variant)
    random.seed(variant)
    junk = [np.random.rand(variant * 3 + 1) for _ in range(variant + 1)]  # noqa
    _ = {str(i): i for i in range(variant * 50)}
    from props import rtcommon
    hook = None
    if cfg.get("replay_perms") is not None:
        perms = [list(p) for p in cfg["replay_perms"]]

        class Script:
            def permutation(self, n):
                return np.array(perms.pop(0), dtype=int)

        def hook(imp):
            imp.randomstate = Script()
    drawn = []
    if cfg.get("record"):
        def hook(imp):  # noqa: F811
            rs = imp.randomstate

            class Rec:
                def permutation(self, n):
                    p = rs.permutation(n)
                    drawn.append([int(x) for x in p])
                    return p

                def __getattr__(self, k):
                    return getattr(rs, k)
            imp.randomstate = Rec()
    h = rtcommon.score_hex(cfg, hook)
    print(json.dumps({"hex": h, "hashseed": os.environ.get("PYTHONHASHSEED"), "drawn": drawn}))


if __name__ == "__main__":
    main()
