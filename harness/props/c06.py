"""C06 -- scores are efficient: they sum to full-data utility minus null utility (API level, incl. large sizes)."""
import math
import random
from fractions import Fraction

import coqfmt as cf
from props import nncommon as nn

RULE = ("cases = (a) random datasets as for C01 but up to 12 rows / 5 points (all groupings, ~35% ties): sum(score) vs "
        "the model's sum and vs the independently computed row-level full-data utility minus mean null, inside Coq; "
        "(b) LARGE datasets (1k-8k rows quick, up to 65 536 rows x 512 points thorough; default and fork groupings; "
        "random float distances; table and 0/1 utilities of magnitude up to 1e6): sum(score) vs the exact rational "
        "right-hand side computed from the very same float inputs, accepted error 1e-9 * max|utility| at EVERY size; "
        "(c) the REAL accuracy / binary ROC-AUC utilities with the default minkowski distance (training classes absent from validation, fork groupings): sum(score) vs the metric of the full training set's 1-NN prediction minus the worst constant-training-class prediction, computed independently with scikit-learn metrics; (d) bruteforce and untruncated montecarlo with table utilities whose value on no rows is the null score: sum vs v(all) - null exactly; "
        "non-trivial = the two sides of the identity are non-zero; distinct = distinct JSON of the case")
EXHAUSTIVE = {"quick": False, "thorough": False}
SHARD = 120
JOBS = 8
COQ_IMPORTS = "From DS Require Import Check.C01."
TRUSTED = ["large cases are checked in Python with exact Fractions (no Coq evaluation at 65k rows); the theorem "
           "C06_kernel_efficiency covers every size in exact arithmetic"]
ASSUMPTIONS = ["precision clause: C06_rounded_efficiency bounds the rounding error of the kernel for every rounding operator of "
               "relative error eps (standard model of floating-point arithmetic; binary64: eps = 2^-53, no overflow / underflow) "
               "by ((1+eps)^(3n+T+1) - 1) * mean total variation -- linear in n, not uniform; that the hardware operations satisfy "
               "the standard model is assumed (IEEE 754), and the measured error of every large case is compared with the proved "
               "bound and with a tolerance that does not scale with n"]
WORKER_TIMEOUT = 3000


def gen(rng, tier):
    cases = []
    for _ in range({"quick": 200, "search": 800, "thorough": 2000}[tier]):
        ds = nn.rand_dataset(rng, max_rows=12, max_points=5)
        ds["seed"] = rng.randrange(1 << 30)
        ds["kind"] = "small"
        cases.append(ds)
    sizes = {"quick": [(1000, 64), (8000, 128), (4000, 32), (2048, 16), (8192, 64), (1500, 100), (21000, 400)],
             "search": [(1000, 64), (8000, 128)],
             "thorough": [(1000, 64), (8000, 128), (20000, 256), (65536, 512), (65536, 64), (30000, 100), (4096, 512),
                          (12000, 400)] * 3}[tier]
    for k, (n, t) in enumerate(sizes):
        cases.append({"kind": "large", "n_train": n, "n_test": t, "classes": rng.randint(2, 6),
                      "grouping": "fork" if k % 3 == 2 else "default",
                      "utility": "accuracy" if n * t >= 8 * 2 ** 20 or k % 4 == 1 else rng.choice(["table", "01"]),
                      "mag": rng.choice([0, 3, 6]), "seed": rng.randrange(1 << 30)})
    for _ in range({"quick": 60, "search": 200, "thorough": 600}[tier]):
        # the REAL accuracy / ROC-AUC utilities with the default distance; training classes may be absent from validation
        auc = rng.random() < 0.35
        n_train, n_test = rng.randint(2, 9), rng.randint(2, 6)
        pool = [0, 1] if auc else rng.choice([[0, 1, 2, 3], [3, 7, 8, 20], [-5, -1, 0, 4]])[:rng.randint(2, 4)]
        labels = [rng.choice(pool) for _ in range(n_train)]
        for i, cl in enumerate(pool[:n_train]):
            labels[i] = cl
        present = sorted(set(labels))
        y_test = [rng.choice(present[:rng.randint(1, len(present))]) for _ in range(n_test)]
        if auc:
            y_test[0], y_test[1] = 0, 1
        cases.append({"kind": "real", "metric": "auc" if auc else "accuracy", "labels": labels, "y_test": y_test,
                      "features": [[rng.randint(-8, 8) / 2.0, rng.randint(-8, 8) / 2.0] for _ in range(n_train)],
                      "features_test": [[rng.randint(-8, 8) / 2.0 + 0.125, rng.randint(-8, 8) / 4.0 + 0.0625] for _ in range(n_test)],
                      "fork": rng.random() < 0.3})
    for _ in range({"quick": 30, "search": 60, "thorough": 200}[tier]):
        n = rng.randint(1, 6)
        vals = [Fraction(rng.randint(-8, 8), rng.choice([1, 2, 4])) for _ in range(2 ** n)]
        vals[0] = Fraction(rng.randint(-3, 3))       # the utility of no data IS the null utility
        cases.append({"kind": "game", "method": rng.choice(["bruteforce", "montecarlo"]), "n": n,
                      "values": [[v.numerator, v.denominator] for v in vals],
                      "null": int(vals[0]), "iters": rng.randint(1, 6), "seed": rng.randrange(1 << 20)})
    return cases


# ----------------------------------------------------------------------------- implementation side
def run_impl(c):
    import numpy as np
    if c["kind"] == "small":
        return {"scores": nn.run_neighbor(c)}
    if c["kind"] == "real":
        from datascope.importance.shapley import ShapleyImportance, DEFAULT_NN_DISTANCE
        from datascope.importance.utility import SklearnModelAccuracy, SklearnModelRocAuc
        from datascope.utility.provenance import Provenance
        from sklearn.neighbors import KNeighborsClassifier
        from sklearn.metrics import accuracy_score, roc_auc_score
        X, Xv = np.array(c["features"], dtype=float), np.array(c["features_test"], dtype=float)
        y, yv = np.array(c["labels"]), np.array(c["y_test"])
        ucls = SklearnModelRocAuc if c["metric"] == "auc" else SklearnModelAccuracy
        util = ucls(KNeighborsClassifier(n_neighbors=1))
        prov = None
        if c["fork"]:
            reps = [2] * (len(y) // 2) + ([1] if len(y) % 2 else [])
            prov = Provenance(units=len(reps)).fork(np.array(reps))
        imp = ShapleyImportance(method="neighbor", utility=util)
        imp.fit(X, y, provenance=prov)
        s = np.asarray(imp.score(Xv, yv), dtype=float)
        D = DEFAULT_NN_DISTANCE(X, Xv)
        # independent right-hand side: metric of the 1-NN prediction of the full training set minus the null score,
        # the null score being the worst metric value of a constant prediction of a TRAINING class
        pred = [c["labels"][min(range(len(y)), key=lambda r: (D[r, j], r))] for j in range(len(yv))]
        tie = any(sorted(D[:, j].tolist())[0] == sorted(D[:, j].tolist())[1] for j in range(len(yv))) if len(y) > 1 else False
        if c["metric"] == "accuracy":
            full = Fraction(sum(1 for p_, t_ in zip(pred, c["y_test"]) if p_ == t_), len(yv))
            null = min(Fraction(sum(1 for t_ in c["y_test"] if t_ == cl), len(yv)) for cl in sorted(set(c["labels"])))
        else:
            # observation O5: the ROC-AUC element-wise utilities SUM to the metric (C14) while the kernel takes the MEAN over
            # validation points, so in C06's terms ("mean utility of each validation point's nearest-neighbour label")
            # both sides carry a factor 1/n_test
            full = Fraction(float(roc_auc_score(yv, np.array(pred)))) / len(yv)
            null = min(Fraction(float(roc_auc_score(yv, np.full_like(yv, cl)))) for cl in sorted(set(c["labels"]))) / len(yv)
        total = sum(Fraction(float(x)) for x in s.tolist())
        err = abs(total - (full - null))
        return {"game": True, "ok": bool(err <= Fraction(1, 10 ** 9)) or tie, "nonzero": full != null, "err": float(err),
                "sum": float(total), "rhs": float(full - null), "tie": tie}
    if c["kind"] == "game":
        from props.gamecommon import run_game
        scores, hist = run_game(c)
        s = sum(Fraction(x) for x in scores)
        full = Fraction(*c["values"][-1])
        rhs = full - c["null"]
        return {"game": True, "sum": [s.numerator, s.denominator], "rhs": [rhs.numerator, rhs.denominator],
                "ok": abs(s - rhs) <= Fraction(1, 10 ** 9) * (1 + max(abs(Fraction(*v)) for v in c["values"])),
                "nonzero": rhs != 0}
    from datascope.importance.shapley import ShapleyImportance
    from datascope.importance.utility import Utility
    from datascope.utility.provenance import Provenance
    r = np.random.RandomState(c["seed"])
    n, t, k = c["n_train"], c["n_test"], c["classes"]
    labels = r.randint(0, k, size=n)
    labels[:k] = np.arange(k)
    D = r.rand(n, t)
    scale = 10.0 ** c["mag"]
    if c["utility"] == "table":
        U = (r.rand(k, t) - 0.5) * scale
        nulls = (r.rand(t) - 0.5) * scale
    else:
        U = r.randint(0, 2, size=(k, t)).astype(float)
        nulls = r.randint(0, 2, size=t).astype(float)

    class TU(Utility):
        def __call__(self, *a, **kw):
            raise ValueError()

        def null_score(self, *a, **kw):
            return 0.0

        def mean_score(self, *a, **kw):
            return 0.0

        def elementwise_score(self, X_train, y_train, X_test, y_test, metadata_train=None, metadata_test=None):
            return U[:, X_test[:, 0].astype(int)]

        def elementwise_null_score(self, X_train, y_train, X_test, y_test, metadata_train=None, metadata_test=None):
            return nulls[X_test[:, 0].astype(int)]

    def dist(A, B):
        return D[np.ix_(A[:, 0].astype(int), B[:, 0].astype(int))]

    if c["grouping"] == "fork":
        reps = []
        while sum(reps) < n:
            reps.append(int(r.randint(1, 64)))
        reps[-1] -= sum(reps) - n
        if reps[-1] == 0:
            reps.pop()
        prov = Provenance(units=len(reps)).fork(np.array(reps))
    else:
        prov = None
    yv = np.zeros(t, dtype=int) + labels[0]
    util = TU()
    if c["utility"] == "accuracy":     # the real accuracy utility (it reads y_test positionally, as the batch loop passes it)
        from datascope.importance.utility import SklearnModelAccuracy
        from sklearn.neighbors import KNeighborsClassifier
        util = SklearnModelAccuracy(KNeighborsClassifier(n_neighbors=1))
        # imbalanced validation labels, SORTED by class: any partition of the validation set into consecutive batches gives
        # batches that disagree on their rarest class (the efficiency identity refers to the null utility of the WHOLE set)
        yv = np.sort(r.choice(k, size=t, p=np.arange(1, k + 1) / (k * (k + 1) / 2.0)))
        U = (np.arange(k).reshape(-1, 1) == yv.reshape(1, -1)).astype(float)
        counts = [int(np.sum(yv == cl)) for cl in range(k)]
        worst = counts.index(min(counts))
        nulls = (yv == worst).astype(float)
    imp = ShapleyImportance(method="neighbor", utility=util, nn_distance=dist)
    X = np.arange(n, dtype=float).reshape(-1, 1)
    Xv = np.arange(t, dtype=float).reshape(-1, 1)
    imp.fit(X, labels, provenance=prov)
    s = np.asarray(imp.score(Xv, yv), dtype=float)
    total = sum(Fraction(float(x)) for x in s.tolist())
    nearest = np.argmin(D, axis=0)
    full = sum(Fraction(float(U[labels[nearest[j]], j])) for j in range(t)) / t
    null = sum(Fraction(float(x)) for x in nulls.tolist()) / t
    rhs = full - null
    err = abs(total - rhs)
    tol = Fraction(1, 10 ** 9) * Fraction(float(max(np.max(np.abs(U)), np.max(np.abs(nulls)), 1e-300)))
    # the PROVED forward error bound (C06_rounded_efficiency, standard model of binary64 arithmetic, eps = 2^-53):
    #   |sum(scores) - rhs| <= ((1 + eps)^(3 * units + n_test + 1) - 1) * mean_j TV_j,
    # TV_j = total variation of the utility along the rank order of validation point j (down to the null score)
    n_units = int(len(s))
    seg = np.repeat(np.arange(len(reps)), reps) if c["grouping"] == "fork" else np.arange(n)
    tv_sum = 0.0
    for j in range(t):
        o = np.lexsort((np.arange(n), D[:, j], seg))              # rows by (unit, distance, row): first row of a unit = its argmin
        first = o[np.concatenate(([True], seg[o][1:] != seg[o][:-1]))]
        rank = first[np.argsort(D[first, j], kind="stable")]
        useq = np.concatenate((U[labels[rank], j], [nulls[j]]))
        tv_sum += float(np.sum(np.abs(np.diff(useq))))
    mean_tv = tv_sum / t * (1 + 1e-9)
    proved = math.expm1((3 * n_units + t + 1) * math.log1p(2.0 ** -53)) * mean_tv * (1 + 1e-9)
    within_proved = bool(err <= Fraction(proved)) if proved > 0 else bool(err == 0)
    return {"large": True, "units": n_units, "err": float(err), "tol": float(tol), "ok": bool(err <= tol) and within_proved,
            "proved_bound": proved, "err_over_proved_bound": float(err) / proved if proved > 0 else 0.0, "within_proved_bound": within_proved,
            "rel_err": float(err / tol * Fraction(1, 10 ** 9)) if tol else 0.0, "nonzero": rhs != 0,
            "finite": bool(np.all(np.isfinite(s)))}


# ----------------------------------------------------------------------------- Coq side
def emit(c, o):
    if c["kind"] != "small":
        return None
    scores = [float.fromhex(h) for h in o["scores"]]
    if any(math.isnan(s) or math.isinf(s) for s in scores):
        return None
    alts, _ = nn.order_alternatives(c, random.Random(c.get("seed", 0)))
    return nn.emit_c01(c, alts, o["scores"], do_spec=False)


def flags_without_coq(c, o):
    if isinstance(o, dict) and (o.get("large") or o.get("game")):
        return 7 if o["ok"] else 0
    return 0


def nontrivial(c, o):
    if not isinstance(o, dict) or "exc" in o:
        return False
    if c["kind"] == "small":
        return len(set(o["scores"])) > 1
    return bool(o.get("nonzero"))


def distribution(cases, outs):
    from collections import Counter
    large = [(c, o) for c, o in zip(cases, outs) if c["kind"] == "large" and isinstance(o, dict) and "err" in o]
    return {"kinds": dict(Counter(c["kind"] for c in cases)),
            "large_sizes_rows_x_points": ["%dx%d:%s units=%s rel_err=%.2e err/proved_bound=%.2e" % (
                                              c["n_train"], c["n_test"], c["grouping"], o["units"], o["rel_err"], o.get("err_over_proved_bound", -1))
                                          for c, o in large],
            "large_cases_within_proved_rounding_bound": sum(1 for _, o in large if o.get("within_proved_bound")),
            "max_relative_error_large": max([o["rel_err"] for _, o in large] or [0.0]),
            "game_methods": dict(Counter(c["method"] for c in cases if c["kind"] == "game")),
            "real_utility_cases": dict(Counter(c["metric"] for c in cases if c["kind"] == "real")),
            "exceptions": dict(Counter(o["exc"] for o in outs if isinstance(o, dict) and "exc" in o))}


def shrink(c):
    if c["kind"] == "small":
        from props.c01 import shrink as s1
        for d in s1(dict(c, utility="table")):
            d["kind"] = "small"
            yield d
    elif c["kind"] == "large":
        for n, t in ((c["n_train"] // 4, c["n_test"]), (c["n_train"], max(1, c["n_test"] // 4)), (64, 4), (8, 2)):
            if 0 < n < c["n_train"] or t < c["n_test"]:
                yield dict(c, n_train=max(n, c["classes"]), n_test=t)


# functions of the implementation this property is anchored in: their line coverage under the correspondence cases is
# measured on the staged copy and reported in the evidence (implementation_line_coverage)
ANCHORS = [
    "datascope/importance/shapley.py:ShapleyImportance._shapley_neighbor",
    "datascope/importance/shapley.py:compute_shapley_1nn_mapfork",
    "datascope/importance/shapley.py:ShapleyImportance._shapley_bruteforce",
    "datascope/importance/shapley.py:ShapleyImportance._shapley_montecarlo",
]

MANIFEST = {
    "text": "Proof: C06_kernel_efficiency / C06_neighbor_efficiency (the K=1 scores of all units sum to the mean over "
            "validation points of nearest-unit utility minus null, every size, exact arithmetic, through C01 and the "
            "Shapley efficiency axiom) C06_shapley_efficiency (any game), C06_bruteforce_efficiency (the MODEL of the bruteforce loop, every provenance and "
            "utility incl. failing coalitions), C06_add_efficiency (the MODEL of compute_shapley_add, any K, any conjunctive "
            "provenance, distinct distances), C06_mc_efficiency (untruncated montecarlo on every run) and, for the precision clause, "
            "C06_rounded_score / C06_rounded_efficiency: the rounding-aware model of the kernel (Model/KernelRound.v: every "
            "floating-point operation = rnd of the exact result) stays within ((1+eps)^(3n+T+1)-1) * (absolute-value recurrence) of "
            "the exact model for EVERY rounding operator of relative error eps -- hence |sum scores - (full - null)| <= "
            "((1+eps)^(3n+T+1)-1) * mean total variation, about (3n+T) * 1.1e-16 for binary64. Tied to "
            "the code at API level; the precision clause ('does not degrade with the number of rows') is PARTIAL: the "
            "proved bound grows linearly with n (it is what the standard model gives) and rests on the assumption that the hardware's "
            "binary64 operations satisfy the standard model; in addition the error is measured on every run up to 8k (quick) / 65 536 (thorough) rows "
            "against exact rational arithmetic with a size-independent tolerance of 1e-9*max|utility|.",
    "note": "Trusted: Coq kernel + vm_compute; harness; large sizes use exact Python Fractions instead of Coq "
            "evaluation. Floating-point error growth is measured, not proved.",
    "technique": "Coq proof (Shapley efficiency through the kernel theorem) about an executable model + API-level "
                 "correspondence in Coq at small sizes and exact-rational comparison at large sizes",
}
