"""Runs inside the staged interpreter: executes props.<pid>.run_impl(case) for every case."""
import json
import os
import sys
import traceback
import warnings


def main():
    pid, fin, fout = sys.argv[1:4]
    stage = os.environ["DATASCOPE_STAGE"]
    import datascope
    assert os.path.abspath(datascope.__file__).startswith(os.path.abspath(stage)), (datascope.__file__, stage)
    import datascope.importance.shapley_cy as cy
    assert os.path.abspath(cy.__file__).startswith(os.path.abspath(stage)), cy.__file__
    import importlib
    prop = importlib.import_module("props." + pid.lower())
    cases = json.load(open(fin))
    outs = []
    for c in cases:
        try:
            with warnings.catch_warnings():
                warnings.simplefilter("ignore")
                outs.append(prop.run_impl(c))
        except BaseException as e:  # noqa
            if isinstance(e, (KeyboardInterrupt, SystemExit)):
                raise
            outs.append({"exc": type(e).__name__, "msg": str(e)[:300],
                         "tb": traceback.format_exc()[-600:]})
    json.dump(outs, open(fout, "w"))


if __name__ == "__main__":
    main()
