"""Runs inside the staged interpreter: executes props.<pid>.run_impl(case) for every case."""
import json
import os
import sys
import traceback
import warnings


def main():
    pid, fin, fout = sys.argv[1:4]
    stage = os.environ["DATASCOPE_STAGE"]
    cov = None
    if os.environ.get("DSV_COVERAGE") == "1":
        # line coverage of the STAGED implementation (pure-Python part) under the correspondence cases: evidence of how much
        # of the modelled code the generated inputs actually run (reported per anchored function, never a verdict)
        try:
            import coverage
            cov = coverage.Coverage(data_file=None, include=[os.path.join(os.path.abspath(stage), "datascope", "*")])
            cov.start()
        except Exception:  # noqa
            cov = None
    import datascope
    assert os.path.abspath(datascope.__file__).startswith(os.path.abspath(stage)), (datascope.__file__, stage)
    import datascope.importance.shapley_cy as cy
    assert os.path.abspath(cy.__file__).startswith(os.path.abspath(stage)), cy.__file__
    import importlib
    prop = importlib.import_module("props." + pid.lower())
    cases = json.load(open(fin))
    outs = []
    for c in cases:
        try:
            with warnings.catch_warnings():
                warnings.simplefilter("ignore")
                outs.append(prop.run_impl(c))
        except BaseException as e:  # noqa
            if isinstance(e, (KeyboardInterrupt, SystemExit)):
                raise
            outs.append({"exc": type(e).__name__, "msg": str(e)[:300],
                         "tb": traceback.format_exc()[-600:]})
    json.dump(outs, open(fout, "w"))
    if cov is not None:
        try:
            cov.stop()
            data = cov.get_data()
            root = os.path.abspath(stage) + os.sep
            res = {}
            for f in data.measured_files():
                if f.startswith(root):
                    _, stmts, _, missing, _ = cov.analysis2(f)      # coverage.py's own statement normalisation
                    res[f[len(root):]] = {"stmts": sorted(stmts), "executed": sorted(set(stmts) - set(missing))}
            json.dump(res, open(fout + ".cov", "w"))
        except Exception:  # noqa
            pass


if __name__ == "__main__":
    main()
