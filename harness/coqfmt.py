"""Emit Gallina literals from Python values (used by the generated correspondence cases)."""
from fractions import Fraction


def nat(n):
    n = int(n)
    assert n >= 0
    return "%d%%nat" % n


def z(n):
    n = int(n)
    return "(%d)%%Z" % n


def b(v):
    return "true" if v else "false"


def qq(x):
    """exact rational: accepts int, Fraction, or float (every binary64 is a rational)"""
    f = Fraction(x)
    return "(q (%d) %d)" % (f.numerator, f.denominator)


def fl(x):
    """binary64 literal for PrimFloat (hexadecimal, exact)"""
    x = float(x)
    if x != x:
        return "nan"
    if x in (float("inf"), float("-inf")):
        return "infinity" if x > 0 else "neg_infinity"
    h = x.hex()
    return "(%s)%%float" % h


def lst(items, f=None):
    if f is not None:
        items = [f(i) for i in items]
    return "[" + "; ".join(items) + "]"


def pair(a, b_):
    return "(%s, %s)" % (a, b_)


def opt(v, f):
    return "None" if v is None else "(Some %s)" % f(v)


def nats(l):
    return lst(l, nat)


def zs(l):
    return lst(l, z)


def bools(l):
    return lst(l, b)


def qs(l):
    return lst(l, qq)


def natpairs(l):
    return lst(["(%s, %s)" % (nat(a), nat(b_)) for a, b_ in l])


def zpairs(l):
    return lst(["(%s, %s)" % (z(a), z(b_)) for a, b_ in l])


def dnf(f):
    """formula = list of conjunctions = list of (unit, value) literals"""
    return lst([natpairs(c) for c in f])


def dnfs(fs):
    return lst([dnf(f) for f in fs])
