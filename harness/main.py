import os
import sys

sys.path.insert(0, os.path.dirname(os.path.abspath(__file__)))
import core  # noqa: E402


def main():
    args = sys.argv[1:]
    if len(args) >= 2 and args[0] == "--replay":
        sys.exit(core.main_replay(args[1]))
    if not args:
        print("usage: vcheck <Cxx> [quick|thorough] | vcheck --replay <file>")
        sys.exit(2)
    pid = args[0]
    tier = args[1] if len(args) > 1 else os.environ.get("VERIF_TIER", "quick")
    if tier not in ("quick", "thorough"):
        tier = "quick"
    seed = int(os.environ.get("VERIF_SEED", "20261001"))
    sys.exit(core.main_check(pid, tier, seed))


if __name__ == "__main__":
    main()
