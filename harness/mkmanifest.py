"""Regenerates /verif/MANIFEST.json from the per-property metadata in harness/props/*.py (MANIFEST dict)."""
import importlib
import json
import os
import sys

HERE = os.path.dirname(os.path.abspath(__file__))
VERIF = os.path.dirname(HERE)
sys.path.insert(0, HERE)
props = [json.loads(l) for l in open(os.path.join(VERIF, "properties.jsonl"))]
checks, na = [], []
for p in props:
    pid = p["id"]
    try:
        mod = importlib.import_module("props." + pid.lower())
        meta = mod.MANIFEST
    except (ImportError, AttributeError):
        na.append({"property_id": pid, "reason": "check not built yet (work in progress; see DESIGN.md section 4)"})
        continue
    checks.append({
        "property_id": pid,
        "quick_cmd": "bin/vcheck %s quick" % pid,
        "thorough_cmd": "bin/vcheck %s thorough" % pid,
        "evidence_file": "evidence/%s.json" % pid,
        "replay_cmd_template": "bin/vcheck --replay {path}",
        "engine": "coq-model+correspondence",
        "level_claimed": {"category": "proof", "text": meta["text"], "design_ref": "DESIGN.md section 4, %s" % pid},
        "level_note": meta["note"],
        "technique": meta["technique"],
    })
m = {
    "version": 1,
    "setup_cmd": "bin/setup",
    "hooks": {
        "guard": "DATASCOPE_VERIF",
        "enable": "no hooks are needed: every observation point is a public call or an injectable attribute; "
                  "each check stages /repo's working tree under /var/tmp and rebuilds the Cython extension from source",
        "baseline_off_cmd": "cd /repo && /venv/bin/python -m pytest -ra -q -p no:cacheprovider --timeout=900 "
                            "--continue-on-collection-errors",
        "source_commits": [],
        "add_only": True,
    },
    "engines": [{"name": "coq-model+correspondence", "path": "coq/ + harness/",
                 "serves_properties": [c["property_id"] for c in checks],
                 "kind_free_text": "Coq 8.16 theorems about hand-written executable Gallina models; the models are tied "
                                   "to /repo's working tree on every run by evaluating them inside Coq (vm_compute) on "
                                   "the inputs and outputs of the freshly staged implementation"}],
    "checks": checks,
    "notes": "Nine genuine defects were repaired by separate `fix:` commits in /repo and are listed in "
             "known_findings.txt (fixed: lines); open findings are printed as KNOWN-FINDING lines.",
    "not_applicable": na,
}
json.dump(m, open(os.path.join(VERIF, "MANIFEST.json"), "w"), indent=1)
print("checks:", [c["property_id"] for c in checks], "pending:", [x["property_id"] for x in na])
