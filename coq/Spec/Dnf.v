(* SPEC: provenance formulas in disjunctive normal form and their truth value.
   A literal is (unit position, candidate position); an assignment gives the candidate
   position chosen for every unit.  Definitions only. *)
From Coq Require Import List Arith Bool.
Import ListNotations.

Definition lit := (nat * nat)%type.
Definition conj := list lit.
Definition dnf := list conj.
Definition assignment := list nat.

Definition eval_lit (x : assignment) (l : lit) : bool := Nat.eqb (nth (fst l) x 0) (snd l).
Definition eval_conj (x : assignment) (c : conj) : bool := forallb (eval_lit x) c.
Definition eval_dnf (x : assignment) (f : dnf) : bool := existsb (eval_conj x) f.

(* well-formedness: what a Python Expression can be (no empty conjunction, no empty disjunction is
   needed by the theorems; units in range is what Provenance.query checks through the length test) *)
Definition conj_nonempty (f : dnf) : Prop := forall c, In c f -> c <> [].
Definition units_below (n : nat) (f : dnf) : Prop := forall c l, In c f -> In l c -> fst l < n.

Definition conj_nonemptyb (f : dnf) : bool := forallb (fun c => negb (Nat.eqb (length c) 0)) f.
Definition units_belowb (n : nat) (f : dnf) : bool := forallb (forallb (fun l => Nat.ltb (fst l) n)) f.

(* indices of the true entries, ascending: numpy argwhere on a 1-D mask *)
Fixpoint argwhere_from (k : nat) (bs : list bool) : list nat :=
  match bs with [] => [] | b :: t => (if b then [k] else []) ++ argwhere_from (S k) t end.
Definition argwhere := argwhere_from 0.
