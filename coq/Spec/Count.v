(* SPEC of the Shapley oracle (property C09): for a conjunctive provenance (row r is present iff all the units in
   rows[r] are switched on), a target unit and a pair of boundary rows, every assignment x of the OTHER units gets
   the tally
       (number of other units switched on,
        label counts of the rows present under x[target:=1] that are no farther than boundary_with,
        label counts of the rows present under x[target:=0] that are no farther than boundary_without (all rows if None))
   provided boundary_with is present under x[target:=1], boundary_without (if any) is present under x[target:=0], and
   the tally is within bounds (coalition size <= numtuples, each label-count vector sums to <= K); every other
   assignment is invalid.  The oracle's answer is the histogram of that tally over all 2^(units-1) assignments.
   Definitions only. *)
From Coq Require Import List Arith ZArith QArith Bool.
From DS Require Import Model.ADD.
Import ListNotations.
Local Close Scope Q_scope.

Record cprob := mkProb {
  p_units : nat;                    (* number of units *)
  p_rows : list (list nat);         (* units each row needs *)
  p_labels : list nat;              (* encoded label of each row *)
  p_dist : list Q;                  (* distance of each row to the validation point *)
  p_numtuples : nat; p_k : nat; p_classes : nat;     (* ATally[numtuples, K, C] *)
}.
Definition p_type (p : cprob) : atype := tally (p_numtuples p) (p_k p) (p_classes p).

Definition insert_bit (i : nat) (b : bool) (x : list bool) : list bool := firstn i x ++ b :: skipn i x.
Definition row_present (units : list nat) (x : list bool) : bool := forallb (fun u => nth u x false) units.
Definition onehot (c k : nat) : list nat := map (fun i => if Nat.eqb i k then 1 else 0) (seq 0 c).
Definition vsum (c : nat) (vs : list (list nat)) : list nat := fold_right vadd (repeat 0 c) vs.

(* label counts of the rows present under x whose distance is <= the boundary's (all rows when there is no boundary) *)
Definition label_tally (p : cprob) (x : list bool) (boundary : option nat) : list nat :=
  vsum (p_classes p)
       (map (fun r => if row_present (nth r (p_rows p) []) x
                         && match boundary with None => true
                            | Some t => Qle_bool (nth r (p_dist p) 0%Q) (nth t (p_dist p) 0%Q) end
                      then onehot (p_classes p) (nth r (p_labels p) 0%nat) else repeat 0 (p_classes p))
            (seq 0 (length (p_rows p)))).
Definition count_true (x : list bool) : nat := length (filter (fun b : bool => b) x).

Definition tally_of (p : cprob) (target t1 : nat) (t2 : option nat) (x : list bool) : aval :=
  let xw := insert_bit target true x in let xo := insert_bit target false x in
  if row_present (nth t1 (p_rows p) []) xw
     && match t2 with None => true | Some t => row_present (nth t (p_rows p) []) xo end
  then clip (p_type p) (count_true x :: label_tally p xw (Some t1) ++ label_tally p xo t2)
  else None.

Definition count_spec (p : cprob) (target t1 : nat) (t2 : option nat) : list nat :=
  histogram (p_type p) (map (tally_of p target t1 t2) (bmasks (p_units p - 1))).
