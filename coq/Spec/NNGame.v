(* SPEC: the 1-nearest-neighbour utility game of property C01, for one validation point.
   Players are units 0..n-1; `order` lists the units by increasing distance (ties in one fixed order);
   `u q` is the utility of the label unit q contributes (the label of its nearest row), `null` the utility's
   null value.  A coalition (mask m) is worth the utility of the first present unit in that order, i.e. of the
   nearest present training row, and `null` when no unit is present.  Definitions only. *)
From Coq Require Import List Arith QArith Bool.
From DS Require Import Util.SumQ Spec.Shapley.
Import ListNotations.
Local Open Scope Q_scope.

Fixpoint vnn (u : nat -> Q) (null : Q) (order : list nat) (m : list bool) : Q :=
  match order with [] => null | q :: t => if nth q m false then u q else vnn u null t m end.

(* mean over validation points; one triple (utility, null, order) per validation point *)
Definition point := ((nat -> Q) * Q * list nat)%type.
Definition vnn_mean_t (ts : list point) (m : list bool) : Q :=
  sumQ (fun t : point => vnn (fst (fst t)) (snd (fst t)) (snd t) m) ts / qn (length ts).
Definition points (us : list (nat -> Q)) (nulls : list Q) (orders : list (list nat)) : list point :=
  combine (combine us nulls) orders.
Definition vnn_mean (us : list (nat -> Q)) (nulls : list Q) (orders : list (list nat)) (m : list bool) : Q :=
  vnn_mean_t (points us nulls orders) m.
