(* SPEC of the K-nearest-neighbour utility game of property C02, for conjunctive provenance and several validation
   points: a coalition is worth the mean over validation points of the utility of the majority label (lowest class
   on ties) among the K nearest present rows, and the null value when fewer than K rows are present.
   Definitions only. *)
From Coq Require Import List Arith ZArith QArith Bool.
From DS Require Import Util.SumQ Spec.Shapley Model.ADD Spec.Count.
Import ListNotations.
Local Open Scope Q_scope.

(* insertion of a row into a list sorted by (distance, row index) *)
Fixpoint insert_by (d : nat -> Q) (r : nat) (l : list nat) : list nat :=
  match l with
  | [] => [r]
  | h :: t => if Qle_bool (d r) (d h) && negb (Qeq_bool (d r) (d h) && Nat.ltb h r) then r :: l else h :: insert_by d r t
  end.
Definition sort_rows (d : nat -> Q) (rows : list nat) : list nat := fold_right (insert_by d) [] rows.

Fixpoint argmax_first (l : list nat) : nat :=       (* np.argmax: first index of the maximum *)
  match l with
  | [] => 0%nat
  | x :: t => let k := argmax_first t in
              match t with [] => 0%nat | _ => if Nat.leb (nth k t 0%nat) x then 0%nat else S k end
  end.

(* number of rows of P that are no farther than row t *)
Definition nle (d : nat -> Q) (P : list nat) (t : nat) : nat := length (filter (fun r => Qle_bool (d r) (d t)) P).
(* the K nearest rows of P: those having at most K rows of P no farther than themselves (with pairwise distinct
   distances these are exactly K rows as soon as P has K rows) *)
Definition nearest (K : nat) (d : nat -> Q) (P : list nat) : list nat := filter (fun r => Nat.leb (nle d P r) K) P.
Definition present_rows (rows : list (list nat)) (m : list bool) : list nat :=
  filter (fun r => row_present (nth r rows []) m) (seq 0 (length rows)).

Definition knn_point (K C : nat) (rows : list (list nat)) (labels : list nat) (dist : list Q) (ucol : list Q) (null : Q)
           (m : list bool) : Q :=
  let present := present_rows rows m in
  if Nat.ltb (length present) K then null
  else let tallyv := vsum C (map (fun r => onehot C (nth r labels 0%nat)) (nearest K (fun r => nth r dist 0) present)) in
       nth (argmax_first tallyv) ucol 0.

(* the same game written with an explicit sort (insertion sort by distance): evaluated next to the definition above
   on every correspondence case *)
Definition knn_point_sorted (K C : nat) (rows : list (list nat)) (labels : list nat) (dist : list Q) (ucol : list Q) (null : Q)
           (m : list bool) : Q :=
  let present := present_rows rows m in
  if Nat.ltb (length present) K then null
  else let near := firstn K (sort_rows (fun r => nth r dist 0) present) in
       let tallyv := vsum C (map (fun r => onehot C (nth r labels 0%nat)) near) in
       nth (argmax_first tallyv) ucol 0.

Definition v_knn (K C : nat) (rows : list (list nat)) (labels : list nat) (dists ucols : list (list Q)) (nulls : list Q)
           (m : list bool) : Q :=
  sumQ (fun t : list Q * list Q * Q => knn_point K C rows labels (fst (fst t)) (snd (fst t)) (snd t) m)
       (combine (combine dists ucols) nulls) / qn (length nulls).

Definition v_knn_sorted (K C : nat) (rows : list (list nat)) (labels : list nat) (dists ucols : list (list Q)) (nulls : list Q)
           (m : list bool) : Q :=
  sumQ (fun t : list Q * list Q * Q => knn_point_sorted K C rows labels (fst (fst t)) (snd (fst t)) (snd t) m)
       (combine (combine dists ucols) nulls) / qn (length nulls).
