(* SPEC: the Shapley value by definition (the formula of property C03), over coalitions
   represented as boolean masks of length n, enumerated in itertools.product order.
   This file contains definitions only. *)
From Coq Require Import List Arith ZArith QArith Lia Bool Setoid Morphisms Permutation Lqa FinFun.
Import ListNotations.
Local Open Scope Q_scope.
From DS Require Import Util.SumQ.

Fixpoint masks (n : nat) : list (list bool) :=
  match n with O => [[]] | S k => map (cons false) (masks k) ++ map (cons true) (masks k) end.
Fixpoint cnt (m : list bool) : nat := match m with [] => O | b :: t => (if b then 1 else 0) + cnt t end.
Definition qn (n : nat) : Q := inject_Z (Z.of_nat n).
Definition qf (n : nat) : Q := qn (fact n).
Definition f1 (n s : nat) : Q := qf (s - 1) * qf (n - s) / qf n.
Definition f0 (n s : nat) : Q := - (qf s * qf (n - s - 1) / qf n).
Definition coef (n i : nat) (m : list bool) : Q := if nth i m false then f1 n (cnt m) else f0 n (cnt m).
Definition shapley_bf (n : nat) (v : list bool -> Q) (i : nat) : Q := sumQ (fun m => v m * coef n i m) (masks n).


Fixpoint setbit (i : nat) (m : list bool) : list bool :=
  match m, i with [], _ => [] | _ :: t, O => true :: t | a :: t, S k => a :: setbit k t end.

Definition w (n s : nat) : Q := qf s * qf (n - s - 1) / qf n.
Definition shapley (n : nat) (v : list bool -> Q) (i : nat) : Q :=
  sumQ (fun m => if nth i m false then 0 else w n (cnt m) * (v (setbit i m) - v m)) (masks n).

Definition alltrue n := repeat true n.
Definition allfalse n := repeat false n.
