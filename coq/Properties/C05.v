(* C05 -- Provenance query selects exactly the rows whose formula is true.
   This file contains only statements, each closed by `exact`, and their assumption audit. *)
From Coq Require Import List Arith ZArith Bool Sorting.Sorted.
From DS Require Import Spec.Dnf Model.Provenance Proofs.QueryCorrect.
Import ListNotations.

(* all ragged DNF lists, all assignments: the boolean mask is the list of truth values *)
Theorem C05_query_correct : forall (fs : list dnf) (x : assignment),
  (forall f, In f fs -> conj_nonempty f) -> (forall f, In f fs -> units_below (length x) f) ->
  query (encode fs) (zs x) = map (eval_dnf x) fs.
Proof. exact query_encode. Qed.

(* any well-padded stored row, whatever its widths: the answer is the truth value of the formula read back *)
Theorem C05_query_padded : forall (x : assignment) (r : arow),
  clean_row (length x) r -> query_row (zs x ++ [(-1)%Z]) r = eval_dnf x (decode_row r).
Proof. exact query_row_decode. Qed.

Theorem C05_padding_invisible : forall (x : assignment) D C f,
  conj_nonempty f -> units_below (length x) f -> query_row (zs x ++ [(-1)%Z]) (pad_row D C f) = eval_dnf x f.
Proof. exact query_pad_row. Qed.

(* formulas of different sizes stored together do not influence each other *)
Theorem C05_rows_independent : forall (fs1 fs2 : list dnf) (x : assignment) f i j,
  (forall g, In g (f :: fs1 ++ fs2) -> conj_nonempty g /\ units_below (length x) g) ->
  nth_error fs1 i = Some f -> nth_error fs2 j = Some f ->
  nth i (query (encode fs1) (zs x)) false = nth j (query (encode fs2) (zs x)) false.
Proof. exact query_row_independent. Qed.

(* dtype=int: exactly the indices of the true rows, ascending *)
Theorem C05_int_output : forall (fs : list dnf) (x : assignment),
  (forall f, In f fs -> conj_nonempty f) -> (forall f, In f fs -> units_below (length x) f) ->
  (forall i, In i (query_int (encode fs) (zs x)) <-> exists f, nth_error fs i = Some f /\ eval_dnf x f = true)
  /\ StronglySorted lt (query_int (encode fs) (zs x)).
Proof. exact query_int_spec. Qed.

(* mapping encoding: a missing unit takes the first candidate (position 0) *)
Theorem C05_mapping_encoding : forall n m u, u < n ->
  length (from_mapping n m) = n /\
  nth u (from_mapping n m) 0 = match assoc u m with Some c => c | None => 0 end.
Proof. intros n m u H. split; [exact (from_mapping_length n m)|exact (from_mapping_nth n m u H)]. Qed.

(* regression: the pinned (pre-fix F5) query violates the statement on the witness of DESIGN section 1 *)
Theorem C05_refuted_F5 : exists (fs : list dnf) (x : assignment),
  forallb conj_nonemptyb fs = true /\ forallb (units_belowb (length x)) fs = true /\
  query_pinned (encode fs) (zs x) <> map (eval_dnf x) fs.
Proof.
  exists [[[(0, 1)]; [(1, 1)]]; [[(2, 1)]]], [0; 0; 0]. vm_compute. repeat split; discriminate.
Qed.

(* non-vacuity: a ragged list meeting the hypotheses, evaluated *)
Example C05_nonvacuous :
  let fs := [[[(0, 1); (1, 2)]; [(2, 0)]]; [[(3, 1)]]; [[(0, 0)]; [(1, 1)]; [(2, 2); (3, 0)]]] in
  forallb conj_nonemptyb fs = true /\ forallb (units_belowb 4) fs = true /\
  query (encode fs) (zs [1; 2; 1; 0]) = [true; false; false] /\ map (eval_dnf [1; 2; 1; 0]) fs = [true; false; false].
Proof. vm_compute. repeat split. Qed.

Print Assumptions C05_query_correct.
Print Assumptions C05_query_padded.
Print Assumptions C05_padding_invisible.
Print Assumptions C05_rows_independent.
Print Assumptions C05_int_output.
Print Assumptions C05_mapping_encoding.
Print Assumptions C05_refuted_F5.
