(* C15 -- utilities are total over coalitions (PARTIAL BY NATURE: the exception-flow logic is proved; which
   exceptions scikit-learn raises on degenerate subsets is observed by enumeration of all subsets).  Statements only. *)
From Coq Require Import List QArith.
From DS Require Import Model.Runtime Proofs.RuntimeProofs.
Local Open Scope Q_scope.

Theorem C15_fallback_partial : forall (e : evaluation) (null : Q),
  (handled e = true -> exists q, method_score e null = RScore q /\ (match e with EOk s => q = s | _ => q = null end)) /\
  (handled e = false -> method_score e null = RRaise).
Proof. exact fallback. Qed.
Theorem C15_utility_fallback : forall (e : evaluation) (ns : Q) computed b,
  match e with EValueError | ERuntimeWarning => utility_call e (Some ns) computed b = RScore ns | _ => True end.
Proof. exact utility_fallback. Qed.
Print Assumptions C15_fallback_partial.
Print Assumptions C15_utility_fallback.
