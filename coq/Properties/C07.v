(* C07 -- scores depend on the data, not on its presentation (symmetry, invariance).  Statements only. *)
From Coq Require Import List Arith ZArith QArith Bool Permutation.
From DS Require Import Util.SumQ Spec.Shapley Spec.NNGame Model.Kernel Model.Neighbor
     Proofs.ShapleyAxioms Proofs.KernelFull Proofs.KernelInvariance Proofs.LabelRenaming.
Import ListNotations.
Local Open Scope Q_scope.

(* reordering the validation set *)
Theorem C07_validation_permuted : forall n ts ts' p, Permutation ts ts' ->
  nth p (kernel_t n ts) 0 == nth p (kernel_t n ts') 0.
Proof. exact kernel_t_perm. Qed.

(* duplicating the validation set k times *)
Theorem C07_validation_duplicated : forall n ts k p, (0 < k)%nat ->
  nth p (kernel_t n (concat (repeat ts k))) 0 == nth p (kernel_t n ts) 0.
Proof. exact kernel_t_dup. Qed.

(* a strictly increasing transform of all distances: every unit keeps its nearest row, and exactly the same rank
   orders are admissible -- hence the same scores *)
Theorem C07_monotone_rows : forall f owner d p, strictly_increasing f ->
  unit_row owner (fun r => f (d r)) p = unit_row owner d p.
Proof. exact unit_row_mono. Qed.
Theorem C07_monotone_orders : forall f owner d l, strictly_increasing f -> (forall p, In p l -> rows_of owner p <> []) ->
  sorted_by (unit_dist owner (fun r => f (d r))) l = sorted_by (unit_dist owner d) l.
Proof. exact sorted_by_mono. Qed.

(* reordering training rows together with labels and provenance = renaming units by a bijection:
   the score vector is renamed identically and nothing else changes *)
Theorem C07_units_renamed : forall (sigma tau : nat -> nat) u null l p, (forall q, tau (sigma q) = q) ->
  col_value (fun q => u (tau q)) null (map sigma l) (sigma p) == col_value u null l p.
Proof. exact col_value_relabel. Qed.

(* the internal validation batch size: get_test_batch_size returns n_test for EVERY setting of the matrix budget,
   so the batch loop runs exactly once (observation O1) ... *)
Theorem C07_batch_size : forall bsize n_train n_test, get_test_batch_size bsize n_train n_test = n_test.
Proof. exact batch_size_is_n_test. Qed.
(* ... and a loop that does slice everything consistently re-weights to the very same mean *)
Theorem C07_batch_loop_general : forall n a b p, a <> [] -> b <> [] ->
  nth p (kernel_t n (a ++ b)) 0
  == (qn (length a) * nth p (kernel_t n a) 0 + qn (length b) * nth p (kernel_t n b) 0) / qn (length a + length b).
Proof. exact kernel_t_app. Qed.

(* consistently renaming class labels (K=1, accuracy utility): the unit utilities depend on labels only through
   equality, whatever the renaming does to the sort order of the classes *)
Theorem C07_label_renaming_utilities : forall (g : Z -> Z) labels owner dist_j y q,
  (forall a b, g a = g b -> a = b) -> length owner = length labels ->
  unit_utility (map g labels) owner dist_j (acc_col (map g labels) (g y)) q
  = unit_utility labels owner dist_j (acc_col labels y) q.
Proof. exact acc_unit_utility_renaming. Qed.
(* the null vector enters only through the constant it adds to utility and null alike *)
Theorem C07_null_shift : forall n c ts p,
  nth p (kernel_t n (map (fun t : kpoint => (fun q => fst (fst t) q + c, snd (fst t) + c, snd t)) ts)) 0
  == nth p (kernel_t n ts) 0.
Proof. exact kernel_t_shift. Qed.

(* units whose rows are interchangeable receive equal scores (any game, hence every method) *)
Theorem C07_interchangeable_units : forall n v i j, (i < n)%nat -> (j < n)%nat ->
  (forall m, length m = n -> v (swapm i j m) == v m) -> shapley_bf n v i == shapley_bf n v j.
Proof. exact shapley_symmetric. Qed.

(* the scores depend on the null vector only through its sum (any utilities that agree pointwise, any orders that are
   permutations of the units, one entry per validation point in every list) *)
Theorem C07_null_vector_only_through_sum : forall n us us' nulls nulls' orders p,
  Forall2 pointwise_eq us us' -> length us = length nulls -> length nulls' = length nulls -> length orders = length nulls ->
  sumQ (fun x => x) nulls' == sumQ (fun x => x) nulls ->
  (forall l, In l orders -> Permutation l (seq 0 n)) ->
  nth p (kernel n us' nulls' orders) 0 == nth p (kernel n us nulls orders) 0.
Proof. exact kernel_null_sum. Qed.

(* The label-renaming clause in full: the element-wise NULL vector of the accuracy utility is the indicator of the first
   class (in sorted order) of minimal constant-predictor accuracy; a renaming may change which of several tied classes
   that is, which changes the null vector but not its sum.  For every injective renaming g, every ownership, distances,
   validation labels and orders, and any two null vectors of equal sum, the K=1 neighbor scores are equal. *)
Theorem C07_label_renaming : forall (g : Z -> Z) n labels owner dist ys nulls nulls' orders p,
  (forall a b, g a = g b -> a = b) -> length owner = length labels ->
  length dist = length nulls -> length ys = length nulls -> length nulls' = length nulls -> length orders = length nulls ->
  sumQ (fun x => x) nulls' == sumQ (fun x => x) nulls ->
  (forall l, In l orders -> Permutation l (seq 0 n)) ->
  nth p (neighbor1 n (map g labels) owner dist (map (fun y => acc_col (map g labels) (g y)) ys) nulls' orders) 0
  == nth p (neighbor1 n labels owner dist (map (acc_col labels) ys) nulls orders) 0.
Proof. exact label_renaming. Qed.

Print Assumptions C07_validation_permuted.
Print Assumptions C07_validation_duplicated.
Print Assumptions C07_monotone_rows.
Print Assumptions C07_monotone_orders.
Print Assumptions C07_units_renamed.
Print Assumptions C07_batch_size.
Print Assumptions C07_batch_loop_general.
Print Assumptions C07_label_renaming_utilities.
Print Assumptions C07_null_shift.
Print Assumptions C07_interchangeable_units.
Print Assumptions C07_null_vector_only_through_sum.
Print Assumptions C07_label_renaming.
