(* C09 -- the Shapley oracle counts coalitions exactly.  Statements only (see Proofs/OracleProofs.v). *)
From Coq Require Import List Arith Bool.
From DS Require Import Model.ADD Spec.Count Model.Oracle Proofs.OracleProofs.
Import ListNotations.

(* the counts of the specification over all tallies always add up to 2^(units-1) *)
Theorem C09_spec_total : forall p target t1 t2,
  sum_nat (count_spec p target t1 t2) = 2 ^ (p_units p - 1).
Proof. exact count_spec_total. Qed.

Print Assumptions C09_spec_total.
