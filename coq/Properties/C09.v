(* C09 -- the Shapley oracle counts coalitions exactly.  Statements only (proofs in Proofs/OracleProofs.v and
   Proofs/OracleExact.v). *)
From Coq Require Import List Arith Bool.
From Coq Require Import Permutation.
From DS Require Import Model.ADD Spec.Count Model.Oracle Proofs.OracleProofs Proofs.OracleExact Proofs.OracleValid Proofs.CompileValid Proofs.CompileGraph.
Import ListNotations.

(* the counts of the specification over all tallies always add up to 2^(units-1) *)
Theorem C09_spec_total : forall p target t1 t2,
  sum_nat (count_spec p target t1 t2) = 2 ^ (p_units p - 1).
Proof. exact count_spec_total. Qed.

(* The model of ShapleyOracle (per-boundary diagrams built by increments at the compiled row locations and by
   invalidating value 0 of the boundary row's units; query = restrict the target to 1 / 0, sum, +1 per present unit,
   modelcount) returns EXACTLY the histogram of the counting specification, for every problem (any hypergraph,
   labels, distances, K, class count), every target and boundary pair, and every compiled diagram d that
     - is well formed (okd: edge values of the right length; reachable nodes in range and live; last children 0),
     - has zero edge values and the units in provenance order, one level per unit,
     - comes with row locations that are valid: for every assignment exactly one location of a row lies on the
       assignment's path when the row is present, and none otherwise.
   At least two units (the one-unit case is finding F12: the code raises). *)
Theorem C09_oracle_exact : forall p d locs target t1 t2,
  d_type d = p_type p -> okd d -> zero_adders d -> d_units d = seq 0 (p_units p) -> length (d_levels d) = p_units p ->
  (forall x, length x = p_units p -> forall r, r < length (p_rows p) ->
     hits d x (nth r locs []) = if row_present (nth r (p_rows p) []) x then 1 else 0) ->
  (forall r u, In u (nth r (p_rows p) []) -> u < p_units p) ->
  2 <= p_units p -> target < p_units p ->
  oracle_query p d locs target t1 t2 = Some (count_spec p target t1 t2).
Proof. exact oracle_exact. Qed.

(* the same for ANY order of the units over the levels of the diagram (compile()'s leaf/factor case orders the units by
   component, factors first): row presence is read through unit_view, the assignment in unit order *)
Theorem C09_oracle_exact_any_order : forall p d locs target t1 t2,
  d_type d = p_type p -> okd d -> zero_adders d ->
  Permutation (map (level_of d) (seq 0 (p_units p))) (seq 0 (p_units p)) -> length (d_levels d) = p_units p ->
  (forall y, length y = p_units p -> forall r, r < length (p_rows p) ->
     hits d y (nth r locs []) = if row_present (nth r (p_rows p) []) (unit_view d (p_units p) y) then 1 else 0) ->
  (forall r u, In u (nth r (p_rows p) []) -> u < p_units p) ->
  2 <= p_units p -> target < p_units p ->
  oracle_query p d locs target t1 t2 = Some (count_spec p target t1 t2).
Proof. exact oracle_exact_order. Qed.

(* translation validation backed by a theorem: valid_compiled is ONE boolean (Model/Oracle.v) evaluated inside Coq on the
   diagram and row locations dumped from compile() on every instance of every run; whenever it is true the oracle
   model is exact for every target and boundary pair *)
Theorem C09_oracle_exact_validated : forall p d locs target t1 t2,
  valid_compiled p d locs = true -> 2 <= p_units p -> target < p_units p ->
  oracle_query p d locs target t1 t2 = Some (count_spec p target t1 t2).
Proof. exact oracle_exact_validated. Qed.

(* compile() in the leaf/factor case, MODELLED (Model/Oracle.v compile_model: per component a header tree over the factor
   units with 2^f copies of the chain over the leaf units, components concatenated; row locations = the value-1 edges
   at the level of the row's last unit leaving the nodes reached under its earlier units): for EVERY admissible
   component structure (hints_ok: the components partition the units, every component has a leaf unit, every row lies
   in one component and contains at most one leaf) the oracle over the modelled diagram is exact.  What the graph step
   of compile() must deliver is hints_ok; it is evaluated inside Coq on every instance, and the modelled diagram and
   locations are compared node by node with what the implementation built. *)
Theorem C09_compile_exact : forall p comps target t1 t2,
  hints_ok (p_units p) (p_rows p) comps = true -> 2 <= p_units p -> target < p_units p ->
  oracle_query p (compile_add (p_type p) comps) (map (row_locs 0 comps) (p_rows p)) target t1 t2 = Some (count_spec p target t1 t2).
Proof. exact oracle_compile_exact. Qed.

(* compile() INCLUDING its graph step (Model/Oracle.v select_leaves / build_hints): the leaf units are the greedy maximal
   independent set of the "appear together in a row" graph visited in `order`, the components are `components`.  For EVERY
   visiting order that is a permutation of the units (the code: np.argsort(degrees) -- whatever the sort does with ties) and
   EVERY partition of the units into non-empty parts such that each (non-empty, duplicate-free) row lies inside one part (the
   code: scipy's connected components -- connectivity is not even needed) the derived structure is admissible and the oracle
   over the compiled diagram is exact.  graph_ok is that boolean condition; nothing about scipy / numpy is assumed beyond it,
   and it is evaluated inside Coq on every instance. *)
Theorem C09_graph_hints_ok : forall n rows order components,
  graph_ok n rows order components = true -> hints_ok n rows (build_hints n rows order components) = true.
Proof. exact graph_hints_ok. Qed.
Theorem C09_compile_graph_exact : forall p order components target t1 t2,
  graph_ok (p_units p) (p_rows p) order components = true -> 2 <= p_units p -> target < p_units p ->
  let comps := build_hints (p_units p) (p_rows p) order components in
  oracle_query p (compile_add (p_type p) comps) (map (row_locs 0 comps) (p_rows p)) target t1 t2 = Some (count_spec p target t1 t2).
Proof. exact oracle_graph_exact. Qed.

(* compile() in the chain case (every row needs exactly one unit: one-unit-per-row and map/fork pipelines) produces
   such a diagram: the oracle is exact with no further hypothesis *)
Theorem C09_oracle_chain_exact : forall p target t1 t2,
  (forall r, r < length (p_rows p) -> exists u, nth r (p_rows p) [] = [u] /\ u < p_units p) ->
  2 <= p_units p -> target < p_units p ->
  oracle_query p (fst (compile_chain (p_type p) (p_units p) (map (fun r => (hd 0 r, true)) (p_rows p))))
                 (snd (compile_chain (p_type p) (p_units p) (map (fun r => (hd 0 r, true)) (p_rows p)))) target t1 t2
  = Some (count_spec p target t1 t2).
Proof. exact oracle_chain_exact. Qed.

(* non-vacuity: three units, four rows, two classes, K = 2; the answer has at least two non-zero counts *)
Example C09_instance : oracle_chain_instance_statement.
Proof. exact oracle_chain_instance. Qed.

Print Assumptions C09_spec_total.
Print Assumptions C09_oracle_exact.
Print Assumptions C09_oracle_chain_exact.
Print Assumptions C09_oracle_exact_any_order.
Print Assumptions C09_oracle_exact_validated.
Print Assumptions C09_compile_exact.
Print Assumptions C09_graph_hints_ok.
Print Assumptions C09_compile_graph_exact.
