(* C17 -- scoring is deterministic and reproducible from the seed (PARTIAL BY NATURE: non-interference of the model's
   signature is proved; that the code has that signature is observed across processes, hash seeds and global
   generator states).  Statements only. *)
From Coq Require Import List ZArith QArith.
From DS Require Import Model.Runtime Proofs.RuntimeProofs.

Theorem C17_noninterference : forall (data params : Type) stream nb bf mc m (d : data) (p : params) seed h1 h2,
  score_impl data params stream nb bf mc m d p seed h1 = score_impl data params stream nb bf mc m d p seed h2.
Proof. exact noninterference. Qed.
Theorem C17_seed_only_via_perms : forall (data params : Type) stream nb bf mc (d : data) (p : params) s1 s2 h, stream s1 = stream s2 ->
  score_impl data params stream nb bf mc MonteCarlo d p s1 h = score_impl data params stream nb bf mc MonteCarlo d p s2 h.
Proof. exact seed_only_via_perms. Qed.
Theorem C17_neighbor_bruteforce_seed_free : forall (data params : Type) stream nb bf mc m (d : data) (p : params) s1 s2 h, m <> MonteCarlo ->
  score_impl data params stream nb bf mc m d p s1 h = score_impl data params stream nb bf mc m d p s2 h.
Proof. exact neighbor_bruteforce_seed_free. Qed.
Print Assumptions C17_noninterference.
Print Assumptions C17_seed_only_via_perms.
Print Assumptions C17_neighbor_bruteforce_seed_free.
