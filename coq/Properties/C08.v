(* C08 -- scores are linear in the utility; JointUtility is the weighted sum of its parts.  Statements only. *)
From Coq Require Import List Arith ZArith QArith Bool Permutation.
From DS Require Import Util.SumQ Spec.Shapley Spec.NNGame Model.Kernel Model.Neighbor Model.Utility Model.Provenance Model.Bruteforce
     Model.ADD Spec.Count Model.ShapleyAdd
     Proofs.ShapleyAxioms Proofs.KernelFull Proofs.KernelInvariance Proofs.UtilityProofs Proofs.Linearity.
Import ListNotations.
Local Open Scope Q_scope.

(* the five JointUtility accessors are the weighted sums of the components' (any weights, incl. negative) *)
Theorem C08_joint_components : forall (ws : list Q) (tables : list (list (list Q))) (nulls : list (list Q)) c j,
  ((c < fst (tshape tables))%nat -> (j < snd (tshape tables))%nat ->
   nthQ (nthL (joint_table ws tables) c) j == sumQ (fun wt => fst wt * nthQ (nthL (snd wt) c) j) (combine ws tables)) /\
  ((j < length (hd [] nulls))%nat ->
   nthQ (joint_vector ws nulls) j == sumQ (fun wv => fst wv * nthQ (snd wv) j) (combine ws nulls)).
Proof. exact joint_components_in. Qed.
Theorem C08_joint_score : forall (ws : list Q) (rs : list (option Q)) (null : Q),
  (forallb (fun r => match r with Some _ => true | None => false end) rs = true ->
     joint_score ws rs null == sumQ (fun wr => fst wr * match snd wr with Some x => x | None => 0 end) (combine ws rs)) /\
  (forallb (fun r => match r with Some _ => true | None => false end) rs = false -> joint_score ws rs null = null).
Proof. exact joint_score_spec. Qed.

(* K=1 neighbor scores: joint = weighted sum of the scores under each component (same rank orders) *)
Theorem C08_kernel_linear : forall n a b (ts1 ts2 : list kpoint) p, length ts1 = length ts2 ->
  (forall t1 t2, In (t1, t2) (combine ts1 ts2) -> snd t1 = snd t2) ->
  nth p (kernel_t n (map (fun tt => joint_point a b (fst tt) (snd tt)) (combine ts1 ts2))) 0
  == a * nth p (kernel_t n ts1) 0 + b * nth p (kernel_t n ts2) 0.
Proof. exact kernel_t_linear. Qed.

(* adding the same constant to a utility and to its null value changes no score *)
Theorem C08_shift : forall n c ts p,
  nth p (kernel_t n (map (fun t : kpoint => (fun q => fst (fst t) q + c, snd (fst t) + c, snd t)) ts)) 0
  == nth p (kernel_t n ts) 0.
Proof. exact kernel_t_shift. Qed.

(* any game (bruteforce with no failing coalition; the ADD path through C02): linear, scale, shift *)
Theorem C08_shapley_linear : forall n v1 v2 a b i,
  shapley_bf n (fun m => a * v1 m + b * v2 m) i == a * shapley_bf n v1 i + b * shapley_bf n v2 i.
Proof. exact shapley_linear. Qed.
Theorem C08_shapley_scale : forall n v c i, shapley_bf n (fun m => c * v m) i == c * shapley_bf n v i.
Proof. exact shapley_scale. Qed.
Theorem C08_shapley_shift : forall n v c i, (i < n)%nat -> shapley_bf n (fun m => v m + c) i == shapley_bf n v i.
Proof. exact shapley_shift. Qed.

(* the MODEL of the bruteforce loop under a joint utility (weighted sum of the component scores, failing when a component
   fails): when no coalition evaluation fails, the result is the same weighted sum of the results under the components -- for every
   provenance, every pair of utilities and whatever the three null scores are (they are never used) *)
Theorem C08_bruteforce_linear : forall n p u1 u2 a b null1 null2 nullj i, (i < n)%nat ->
  (forall m, length m = n -> u1 (rows_selected p m) <> Failed /\ u2 (rows_selected p m) <> Failed) ->
  nth i (bruteforce n p (joint_utility a b u1 u2) nullj) 0
  == a * nth i (bruteforce n p u1 null1) 0 + b * nth i (bruteforce n p u2 null2) 0.
Proof. exact bruteforce_linear. Qed.

(* the MODEL of compute_shapley_add (neighbor with any K, any conjunctive provenance) is linear in (utility table, null vector):
   one record per validation point carries the problem, the oracle answers and the two component utilities; nothing is assumed
   of the oracle, the distances or K *)
Theorem C08_add_linear : forall (pts : list vpoint) a b n i, (i < n)%nat ->
  (forall t, In t pts -> length (fst (vp_1 t)) = length (fst (vp_2 t))) ->
  nth i (shapley_add (map vp_p pts) (map vp_o pts)
                     (map (fun t => lin_col a b (fst (vp_1 t)) (fst (vp_2 t))) pts)
                     (map (fun t => a * snd (vp_1 t) + b * snd (vp_2 t)) pts) n) 0
  == a * nth i (shapley_add (map vp_p pts) (map vp_o pts) (map (fun t => fst (vp_1 t)) pts) (map (fun t => snd (vp_1 t)) pts) n) 0
   + b * nth i (shapley_add (map vp_p pts) (map vp_o pts) (map (fun t => fst (vp_2 t)) pts) (map (fun t => snd (vp_2 t)) pts) n) 0.
Proof. exact add_linear. Qed.

Print Assumptions C08_joint_components.
Print Assumptions C08_bruteforce_linear.
Print Assumptions C08_add_linear.
Print Assumptions C08_joint_score.
Print Assumptions C08_kernel_linear.
Print Assumptions C08_shift.
Print Assumptions C08_shapley_linear.
Print Assumptions C08_shapley_scale.
Print Assumptions C08_shapley_shift.
