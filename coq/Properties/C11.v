(* C11 -- Provenance expression operators and array encoding preserve logic.
   Statements only, each closed by `exact`; assumption audit below. *)
From Coq Require Import List Arith Bool.
From DS Require Import Spec.Dnf Model.Provenance Model.Expr Proofs.ExprLogic.
Import ListNotations.

(* a & b evaluates to the conjunction, for all nine operand-shape combinations and all assignments *)
Theorem C11_and : forall x a b, eval_expr x (and_e a b) = eval_expr x a && eval_expr x b.
Proof. exact and_e_correct. Qed.

Theorem C11_or : forall x a b, eval_expr x (or_e a b) = eval_expr x a || eval_expr x b.
Proof. exact or_e_correct. Qed.

(* any nesting of the operators *)
Theorem C11_nesting : forall x t, eval_expr x (build t) = eval_tree x t.
Proof. exact build_correct. Qed.

(* the operators never produce something the constructors reject (empty conjunction / disjunction) *)
Theorem C11_and_wf : forall a b, wf_expr a -> wf_expr b -> wf_expr (and_e a b).
Proof. exact and_e_wf. Qed.
Theorem C11_or_wf : forall a b, wf_expr a -> wf_expr b -> wf_expr (or_e a b).
Proof. exact or_e_wf. Qed.

(* storing any (ragged) list of expressions and reading row i back gives the same truth table;
   in fact the very same DNF *)
Theorem C11_roundtrip : forall (es : list expr) i e x,
  nth_error es i = Some e -> wf_expr e -> eval_dnf x (getitem (encode (map to_dnf es)) i) = eval_expr x e.
Proof. exact roundtrip. Qed.

Theorem C11_roundtrip_syntactic : forall (fs : list dnf) i f,
  nth_error fs i = Some f -> conj_nonempty f -> getitem (encode fs) i = f.
Proof. exact getitem_encode. Qed.

Example C11_nonvacuous :
  let a := TOr (TLit (0, 1)) (TAnd (TLit (1, 2)) (TLit (2, 0))) in
  let b := TAnd (TOr (TLit (0, 0)) (TLit (3, 1))) (TOr (TLit (1, 1)) (TLit (2, 2))) in
  wf_exprb (build (TAnd a b)) = true /\
  to_dnf (build (TAnd a b)) =
    [[(0, 1); (0, 0); (1, 1)]; [(0, 1); (0, 0); (2, 2)]; [(0, 1); (3, 1); (1, 1)]; [(0, 1); (3, 1); (2, 2)];
     [(1, 2); (2, 0); (0, 0); (1, 1)]; [(1, 2); (2, 0); (0, 0); (2, 2)]; [(1, 2); (2, 0); (3, 1); (1, 1)];
     [(1, 2); (2, 0); (3, 1); (2, 2)]] /\
  getitem (encode [to_dnf (build a); to_dnf (build (TAnd a b))]) 0 = [[(0, 1)]; [(1, 2); (2, 0)]].
Proof. vm_compute. repeat split. Qed.

Print Assumptions C11_and.
Print Assumptions C11_or.
Print Assumptions C11_nesting.
Print Assumptions C11_and_wf.
Print Assumptions C11_or_wf.
Print Assumptions C11_roundtrip.
Print Assumptions C11_roundtrip_syntactic.
