(* C06 -- scores are efficient: they sum to full-data utility minus null utility.  Statements only.
   (The precision clause "does not degrade with the number of rows" is checked at scale by the correspondence run
   against exact rational arithmetic; no a-priori rounding bound is proved -- see DESIGN.md section 6.) *)
From Coq Require Import List Arith ZArith QArith Bool Permutation.
From DS Require Import Util.SumQ Spec.Shapley Spec.NNGame Model.Kernel Model.Neighbor Model.Provenance Model.Bruteforce
     Model.ADD Spec.Count Spec.Knn Model.ShapleyAdd Model.MonteCarlo
     Proofs.ShapleyAxioms Proofs.KernelFull Proofs.Linearity Proofs.MonteCarloProofs.
Import ListNotations.
Local Open Scope Q_scope.

(* K=1 kernel, any number of validation points: the scores of all units sum to
   mean_j ( utility of the nearest unit's label at j  -  null_j ) *)
Theorem C06_kernel_efficiency : forall n (ts : list kpoint),
  (0 < n)%nat -> ts <> [] -> (forall t, In t ts -> Permutation (snd t) (seq 0 n)) ->
  sumQ (fun x => x) (kernel_t n ts)
  == sumQ (fun t : kpoint => hd_u (fst (fst t)) (snd (fst t)) (snd t) - snd (fst t)) ts / qn (length ts).
Proof. exact kernel_t_efficiency. Qed.

Theorem C06_neighbor_efficiency : forall n labels owner dist ucols nulls orders,
  (0 < n)%nat ->
  points (map (fun t => unit_utility labels owner (fst t) (snd t)) (combine dist ucols)) nulls orders <> [] ->
  (forall l, In l orders -> Permutation l (seq 0 n)) ->
  sumQ (fun x => x) (neighbor1 n labels owner dist ucols nulls orders)
  == sumQ (fun t : kpoint => hd_u (fst (fst t)) (snd (fst t)) (snd t) - snd (fst t))
          (points (map (fun t => unit_utility labels owner (fst t) (snd t)) (combine dist ucols)) nulls orders)
     / qn (length (points (map (fun t => unit_utility labels owner (fst t) (snd t)) (combine dist ucols)) nulls orders)).
Proof. intros n labels owner dist ucols nulls orders. exact (kernel_efficiency n _ nulls orders). Qed.

(* any game on n >= 1 players (bruteforce; montecarlo when every permutation is sampled equally often):
   the Shapley values sum to v(all) - v(none) *)
Theorem C06_shapley_efficiency : forall n v, (0 < n)%nat ->
  sumQ (fun i => shapley_bf n v i) (seq 0 n) == v (alltrue n) - v (allfalse n).
Proof. exact shapley_efficiency. Qed.

(* the MODEL of the bruteforce loop, every provenance and every utility (failing coalitions are worth the null score): the scores
   sum to the utility of the rows present when every unit is present minus the utility of the rows present when none is *)
Theorem C06_bruteforce_efficiency : forall n p u null, (0 < n)%nat ->
  sumQ (fun x => x) (bruteforce n p u null) == bf_game p u null (alltrue n) - bf_game p u null (allfalse n).
Proof. exact bruteforce_efficiency. Qed.

(* the MODEL of compute_shapley_add over exact coalition counts (neighbor with any K >= 1, any conjunctive provenance, distinct
   distances): the scores sum to the KNN utility of the whole training set minus the KNN utility of no unit (the mean null score
   whenever fewer than K rows are present without any unit) *)
Theorem C06_add_efficiency : forall n K C rows labels dists ucols nulls, (0 < n)%nat -> (1 <= K)%nat ->
  (forall r, (r < length rows)%nat -> (nth r labels 0 < C)%nat) ->
  (forall d, In d dists -> length d = length rows /\ NoDup (map Qred d)) ->
  sumQ (fun x => x) (shapley_add (map (fun d => mkProb n rows labels d (n - 1) K C) dists)
                                 (map (fun p => count_spec p) (map (fun d => mkProb n rows labels d (n - 1) K C) dists)) ucols nulls n)
  == v_knn K C rows labels dists ucols nulls (alltrue n) - v_knn K C rows labels dists ucols nulls (allfalse n).
Proof. exact add_efficiency. Qed.

(* untruncated montecarlo, any utility, any sample of permutations: the scores sum to v(all units) - null score on EVERY run
   (the first marginal of every permutation is taken against the null score: finding F10 is the case v(no unit) <> null) *)
Theorem C06_mc_efficiency : forall P n v clock perms,
  mc_steps P = 0%nat -> Qle_bool (mc_timeout P) 0 = true -> perms <> [] -> (0 < n)%nat ->
  (forall pi, In pi perms -> Permutation pi (seq 0 n)) ->
  exists scores, montecarlo P n v clock perms = Some scores /\
    sumQ (fun p => nth p scores 0) (seq 0 n) == v (alltrue n) - mc_null P.
Proof. exact mc_efficiency. Qed.

Example C06_nonvacuous :
  let ts : list kpoint := [((fun q => nth q [3; 1; 2] 0), 1 # 2, [2; 0; 1]%nat); ((fun q => nth q [0; 5; 1] 0), 0, [1; 2; 0]%nat)] in
  Qred (sumQ (fun x => x) (kernel_t 3 ts)) = 13 # 4.
Proof. vm_compute. reflexivity. Qed.

Print Assumptions C06_kernel_efficiency.
Print Assumptions C06_neighbor_efficiency.
Print Assumptions C06_shapley_efficiency.
Print Assumptions C06_bruteforce_efficiency.
Print Assumptions C06_add_efficiency.
Print Assumptions C06_mc_efficiency.
