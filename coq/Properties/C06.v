(* C06 -- scores are efficient: they sum to full-data utility minus null utility.  Statements only.
   (The precision clause "does not degrade with the number of rows" is checked at scale by the correspondence run
   against exact rational arithmetic; no a-priori rounding bound is proved -- see DESIGN.md section 6.) *)
From Coq Require Import List Arith ZArith QArith Bool Permutation.
From DS Require Import Util.SumQ Spec.Shapley Spec.NNGame Model.Kernel Model.Neighbor
     Proofs.ShapleyAxioms Proofs.KernelFull.
Import ListNotations.
Local Open Scope Q_scope.

(* K=1 kernel, any number of validation points: the scores of all units sum to
   mean_j ( utility of the nearest unit's label at j  -  null_j ) *)
Theorem C06_kernel_efficiency : forall n (ts : list kpoint),
  (0 < n)%nat -> ts <> [] -> (forall t, In t ts -> Permutation (snd t) (seq 0 n)) ->
  sumQ (fun x => x) (kernel_t n ts)
  == sumQ (fun t : kpoint => hd_u (fst (fst t)) (snd (fst t)) (snd t) - snd (fst t)) ts / qn (length ts).
Proof. exact kernel_t_efficiency. Qed.

Theorem C06_neighbor_efficiency : forall n labels owner dist ucols nulls orders,
  (0 < n)%nat ->
  points (map (fun t => unit_utility labels owner (fst t) (snd t)) (combine dist ucols)) nulls orders <> [] ->
  (forall l, In l orders -> Permutation l (seq 0 n)) ->
  sumQ (fun x => x) (neighbor1 n labels owner dist ucols nulls orders)
  == sumQ (fun t : kpoint => hd_u (fst (fst t)) (snd (fst t)) (snd t) - snd (fst t))
          (points (map (fun t => unit_utility labels owner (fst t) (snd t)) (combine dist ucols)) nulls orders)
     / qn (length (points (map (fun t => unit_utility labels owner (fst t) (snd t)) (combine dist ucols)) nulls orders)).
Proof. intros n labels owner dist ucols nulls orders. exact (kernel_efficiency n _ nulls orders). Qed.

(* any game on n >= 1 players (bruteforce; montecarlo when every permutation is sampled equally often):
   the Shapley values sum to v(all) - v(none) *)
Theorem C06_shapley_efficiency : forall n v, (0 < n)%nat ->
  sumQ (fun i => shapley_bf n v i) (seq 0 n) == v (alltrue n) - v (allfalse n).
Proof. exact shapley_efficiency. Qed.

Example C06_nonvacuous :
  let ts : list kpoint := [((fun q => nth q [3; 1; 2] 0), 1 # 2, [2; 0; 1]%nat); ((fun q => nth q [0; 5; 1] 0), 0, [1; 2; 0]%nat)] in
  Qred (sumQ (fun x => x) (kernel_t 3 ts)) = 13 # 4.
Proof. vm_compute. reflexivity. Qed.

Print Assumptions C06_kernel_efficiency.
Print Assumptions C06_neighbor_efficiency.
Print Assumptions C06_shapley_efficiency.
