(* C06 -- scores are efficient: they sum to full-data utility minus null utility.  Statements only.
   (Precision clause: C06_rounded_score / C06_rounded_efficiency below bound the rounding error of the kernel under the standard
   model of floating-point arithmetic; the bound is linear in the number of units, not uniform -- see DESIGN.md 9.7.  The
   correspondence run also measures the error at scale against exact rational arithmetic.) *)
From Coq Require Import List Arith ZArith QArith Bool Permutation.
From DS Require Import Util.SumQ Spec.Shapley Spec.NNGame Model.Kernel Model.Neighbor Model.Provenance Model.Bruteforce
     Model.ADD Spec.Count Spec.Knn Model.ShapleyAdd Model.MonteCarlo
     Proofs.ShapleyAxioms Proofs.KernelFull Proofs.Linearity Proofs.MonteCarloProofs Model.KernelRound Proofs.KernelRounding.
From Coq Require Import Qabs.
Import ListNotations.
Local Open Scope Q_scope.

(* K=1 kernel, any number of validation points: the scores of all units sum to
   mean_j ( utility of the nearest unit's label at j  -  null_j ) *)
Theorem C06_kernel_efficiency : forall n (ts : list kpoint),
  (0 < n)%nat -> ts <> [] -> (forall t, In t ts -> Permutation (snd t) (seq 0 n)) ->
  sumQ (fun x => x) (kernel_t n ts)
  == sumQ (fun t : kpoint => hd_u (fst (fst t)) (snd (fst t)) (snd t) - snd (fst t)) ts / qn (length ts).
Proof. exact kernel_t_efficiency. Qed.

Theorem C06_neighbor_efficiency : forall n labels owner dist ucols nulls orders,
  (0 < n)%nat ->
  points (map (fun t => unit_utility labels owner (fst t) (snd t)) (combine dist ucols)) nulls orders <> [] ->
  (forall l, In l orders -> Permutation l (seq 0 n)) ->
  sumQ (fun x => x) (neighbor1 n labels owner dist ucols nulls orders)
  == sumQ (fun t : kpoint => hd_u (fst (fst t)) (snd (fst t)) (snd t) - snd (fst t))
          (points (map (fun t => unit_utility labels owner (fst t) (snd t)) (combine dist ucols)) nulls orders)
     / qn (length (points (map (fun t => unit_utility labels owner (fst t) (snd t)) (combine dist ucols)) nulls orders)).
Proof. intros n labels owner dist ucols nulls orders. exact (kernel_efficiency n _ nulls orders). Qed.

(* any game on n >= 1 players (bruteforce; montecarlo when every permutation is sampled equally often):
   the Shapley values sum to v(all) - v(none) *)
Theorem C06_shapley_efficiency : forall n v, (0 < n)%nat ->
  sumQ (fun i => shapley_bf n v i) (seq 0 n) == v (alltrue n) - v (allfalse n).
Proof. exact shapley_efficiency. Qed.

(* the MODEL of the bruteforce loop, every provenance and every utility (failing coalitions are worth the null score): the scores
   sum to the utility of the rows present when every unit is present minus the utility of the rows present when none is *)
Theorem C06_bruteforce_efficiency : forall n p u null, (0 < n)%nat ->
  sumQ (fun x => x) (bruteforce n p u null) == bf_game p u null (alltrue n) - bf_game p u null (allfalse n).
Proof. exact bruteforce_efficiency. Qed.

(* the MODEL of compute_shapley_add over exact coalition counts (neighbor with any K >= 1, any conjunctive provenance, distinct
   distances): the scores sum to the KNN utility of the whole training set minus the KNN utility of no unit (the mean null score
   whenever fewer than K rows are present without any unit) *)
Theorem C06_add_efficiency : forall n K C rows labels dists ucols nulls, (0 < n)%nat -> (1 <= K)%nat ->
  (forall r, (r < length rows)%nat -> (nth r labels 0 < C)%nat) ->
  (forall d, In d dists -> length d = length rows /\ NoDup (map Qred d)) ->
  sumQ (fun x => x) (shapley_add (map (fun d => mkProb n rows labels d (n - 1) K C) dists)
                                 (map (fun p => count_spec p) (map (fun d => mkProb n rows labels d (n - 1) K C) dists)) ucols nulls n)
  == v_knn K C rows labels dists ucols nulls (alltrue n) - v_knn K C rows labels dists ucols nulls (allfalse n).
Proof. exact add_efficiency. Qed.

(* untruncated montecarlo, any utility, any sample of permutations: the scores sum to v(all units) - null score on EVERY run
   (the first marginal of every permutation is taken against the null score: finding F10 is the case v(no unit) <> null) *)
Theorem C06_mc_efficiency : forall P n v clock perms,
  mc_steps P = 0%nat -> Qle_bool (mc_timeout P) 0 = true -> perms <> [] -> (0 < n)%nat ->
  (forall pi, In pi perms -> Permutation pi (seq 0 n)) ->
  exists scores, montecarlo P n v clock perms = Some scores /\
    sumQ (fun p => nth p scores 0) (seq 0 n) == v (alltrue n) - mc_null P.
Proof. exact mc_efficiency. Qed.

(* PRECISION.  Model/KernelRound.v is the kernel with every floating-point operation written as rnd (exact result):
   current = rnd (current + rnd (rnd (U1 - U2) / (i+1))), out[p] = rnd (out[p] + current) point after point, result = rnd (out / T).
   For EVERY rnd of relative error at most eps (binary64 round-to-nearest without overflow / underflow: eps = 2^-53) each score is
   within ((1+eps)^(3n+T+1) - 1) * (the same recurrence over absolute values) of the exact score ... *)
Theorem C06_rounded_score : forall (rnd : Q -> Q) (eps : Q), 0 <= eps -> (forall x, Qabs (rnd x - x) <= eps * Qabs x) ->
  forall n (ts : list kpoint) p, (p < n)%nat -> (forall t, In t ts -> (length (snd t) <= n)%nat) ->
  Qabs (nth p (rkernel_t rnd n ts) 0 - nth p (kernel_t n ts) 0) <= (pw eps (3 * n + length ts + 1) - 1) * nth p (akernel_t n ts) 0
  /\ 0 <= nth p (akernel_t n ts) 0.
Proof. exact rkernel_err. Qed.
(* ... and the efficiency identity holds up to ((1+eps)^(3n+T+1) - 1) * mean total variation of the utility along the rank orders *)
Theorem C06_rounded_efficiency : forall (rnd : Q -> Q) (eps : Q), 0 <= eps -> (forall x, Qabs (rnd x - x) <= eps * Qabs x) ->
  forall n (ts : list kpoint), (0 < n)%nat -> ts <> [] -> (forall t, In t ts -> Permutation (snd t) (seq 0 n)) ->
  Qabs (sumQ (fun x => x) (rkernel_t rnd n ts)
        - sumQ (fun t : kpoint => hd_u (fst (fst t)) (snd (fst t)) (snd t) - snd (fst t)) ts / qn (length ts))
  <= (pw eps (3 * n + length ts + 1) - 1) * (sumQ (fun t : kpoint => tv (fst (fst t)) (snd (fst t)) (snd t)) ts / qn (length ts)).
Proof. exact rkernel_efficiency. Qed.
(* the same in closed form: (1 + eps)^k - 1 <= gamma_k = k eps / (1 - k eps) whenever k eps < 1 -- the threshold the C06 check
   evaluates with eps = 2^-53 (k = 3n + T + 1: about 2.2e-11 at 65 536 rows x 512 points) *)
Theorem C06_gamma : forall eps k, 0 <= eps -> qn k * eps < 1 -> pw eps k - 1 <= gamma eps k.
Proof. exact pw_le_gamma. Qed.
Theorem C06_rounded_efficiency_gamma : forall (rnd : Q -> Q) (eps : Q), 0 <= eps -> (forall x, Qabs (rnd x - x) <= eps * Qabs x) ->
  forall n (ts : list kpoint), (0 < n)%nat -> ts <> [] -> (forall t, In t ts -> Permutation (snd t) (seq 0 n)) ->
  qn (3 * n + length ts + 1) * eps < 1 ->
  Qabs (sumQ (fun x => x) (rkernel_t rnd n ts)
        - sumQ (fun t : kpoint => hd_u (fst (fst t)) (snd (fst t)) (snd t) - snd (fst t)) ts / qn (length ts))
  <= gamma eps (3 * n + length ts + 1) * (sumQ (fun t : kpoint => tv (fst (fst t)) (snd (fst t)) (snd t)) ts / qn (length ts)).
Proof. exact rkernel_efficiency_gamma. Qed.
(* the rounding-aware recurrence with rnd = identity is the exact one *)
Theorem C06_rounded_model_is_exact_without_rounding : forall u null l pos, Forall2 Qeq (rcurs (fun x => x) u null pos l) (curs u null pos l).
Proof. exact rcurs_id. Qed.
(* non-vacuity: a genuinely perturbing rounding operator of relative error 1/1024 on a concrete two-point case: the sum of the
   rounded scores differs from the exact right-hand side 13/4 and lies within the bound (mean total variation (7/2 + 5)/2) *)
Example C06_rounded_instance :
  let rnd := fun x : Q => x * (1025 # 1024) in
  let ts : list kpoint := [((fun q => nth q [3; 1; 2] 0), 1 # 2, [2; 0; 1]%nat); ((fun q => nth q [0; 5; 1] 0), 0, [1; 2; 0]%nat)] in
  Qle_bool (Qabs (sumQ (fun x => x) (rkernel_t rnd 3 ts) - (13 # 4))) ((pw (1 # 1024) 12 - 1) * (sumQ (fun t : kpoint => tv (fst (fst t)) (snd (fst t)) (snd t)) ts / 2)) = true
  /\ Qeq_bool (sumQ (fun t : kpoint => tv (fst (fst t)) (snd (fst t)) (snd t)) ts / 2) (17 # 4) = true
  /\ negb (Qeq_bool (sumQ (fun x => x) (rkernel_t rnd 3 ts)) (13 # 4)) = true.
Proof. vm_compute. repeat split; reflexivity. Qed.

Example C06_nonvacuous :
  let ts : list kpoint := [((fun q => nth q [3; 1; 2] 0), 1 # 2, [2; 0; 1]%nat); ((fun q => nth q [0; 5; 1] 0), 0, [1; 2; 0]%nat)] in
  Qred (sumQ (fun x => x) (kernel_t 3 ts)) = 13 # 4.
Proof. vm_compute. reflexivity. Qed.

Print Assumptions C06_kernel_efficiency.
Print Assumptions C06_neighbor_efficiency.
Print Assumptions C06_shapley_efficiency.
Print Assumptions C06_bruteforce_efficiency.
Print Assumptions C06_add_efficiency.
Print Assumptions C06_mc_efficiency.
Print Assumptions C06_rounded_score.
Print Assumptions C06_rounded_efficiency.
Print Assumptions C06_gamma.
Print Assumptions C06_rounded_efficiency_gamma.
Print Assumptions C06_rounded_model_is_exact_without_rounding.
