(* C03 -- bruteforce scores are the Shapley value by definition, for any utility.  Statements only. *)
From Coq Require Import List Arith ZArith QArith Bool.
From DS Require Import Util.SumQ Spec.Shapley Spec.Dnf Model.Provenance Model.Bruteforce
     Proofs.ShapleyAxioms Proofs.BruteforceShapley.
Import ListNotations.
Local Open Scope Q_scope.

(* for every number of units, every stored provenance, every utility (any function of the selected rows, possibly
   failing) and every null score: the loop's result for unit i is exactly
   sum over coalitions S not containing i of |S|!(n-|S|-1)!/n! * (v(S+i) - v(S)) *)
Theorem C03_bruteforce_is_shapley : forall n p u null i, (i < n)%nat ->
  nth i (bruteforce n p u null) 0 == shapley n (bf_game p u null) i.
Proof. exact bruteforce_is_shapley. Qed.

(* v(S) is the utility evaluated on precisely the rows whose formula is true under S (arbitrary DNF over binary
   units), and the null score when that evaluation fails *)
Theorem C03_game_rows : forall (fs : list dnf) u null m,
  (forall f, In f fs -> conj_nonempty f) -> (forall f, In f fs -> units_below (length m) f) ->
  bf_game (encode fs) u null m = score_of u null (map (eval_dnf (map (fun b : bool => if b then 1 else 0)%nat m)) fs).
Proof. exact bf_game_rows. Qed.
Theorem C03_failure_is_null : forall u null rows, u rows = Failed -> score_of u null rows = null.
Proof. intros u null rows H. unfold score_of. rewrite H. reflexivity. Qed.

(* the binomial identity behind the two factors, and the factors themselves (the clamps min/max only touch terms
   whose indicator is 0) *)
Theorem C03_binom_fact : forall n k, (k <= n)%nat -> (binom n k * (fact k * fact (n - k)) = fact n)%nat.
Proof. exact binom_fact. Qed.
Theorem C03_code_coefficient : forall n i m, length m = n -> (i < n)%nat ->
  (1 - b2q (nth i m false)) * factor_0 n (cnt m) + b2q (nth i m false) * factor_1 n (cnt m) == coef n i m.
Proof. exact code_coef. Qed.

Example C03_nonvacuous :
  let fs : list dnf := [[[(0, 1)]]; [[(1, 1); (2, 0)]]; [[(2, 1)]; [(0, 0)]]]%nat in
  let u := fun rows => match rows with [true; false; false] => Failed | _ => Ok (qn (cnt rows) * qn (cnt rows)) end in
  map Qred (bruteforce 3 (encode fs) u (1 # 2)) = map (fun i => Qred (shapley 3 (bf_game (encode fs) u (1 # 2)) i)) [0; 1; 2]%nat
  /\ negb (Qeq_bool (nth 1 (bruteforce 3 (encode fs) u (1 # 2)) 0) (nth 2 (bruteforce 3 (encode fs) u (1 # 2)) 0)) = true.
Proof. vm_compute. split; reflexivity. Qed.

Print Assumptions C03_bruteforce_is_shapley.
Print Assumptions C03_game_rows.
Print Assumptions C03_failure_is_null.
Print Assumptions C03_binom_fact.
Print Assumptions C03_code_coefficient.
