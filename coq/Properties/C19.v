(* C19 -- a provenance container behaves as a mutable list of formulas.  Statements only. *)
From Coq Require Import List Arith ZArith Bool.
From DS Require Import Spec.Dnf Model.Provenance Model.ProvOps Proofs.QueryCorrect Proofs.ProvRefine Proofs.SimpleFlag.
Import ListNotations.

(* refinement, by induction over the edit history: for every start list, every history of legal edits
   (item assignment to one position or to several at once (slice / index list / mask), insertion, append, deletion, pop, extend/+=,
   slice deletion, reverse; formulas wider or
   narrower than the stored ones) and every assignment, length, every read-back and every query equal those
   of the plain list that underwent the same edits *)
Theorem C19_refines_list : forall n (fs : list dnf) (ops : list op) (x : assignment),
  rows_wf n fs -> legal_run n fs ops -> length x = n ->
  let p := run (encode fs) ops in let l := run_list fs ops in
  plen p = length l /\ (forall i, getitem p i = nth i l []) /\ query p (zs x) = map (eval_dnf x) l.
Proof. exact refines_list. Qed.

(* one step, from any reachable array (not only freshly encoded ones) *)
Theorem C19_step : forall n p o, clean n p -> rows_wf n (view p) -> legal n (view p) o ->
  view (apply_op p o) = apply_list (view p) o /\ clean n (apply_op p o).
Proof. exact step_refines. Qed.

(* the pairwise-swap loop of MutableSequence.reverse is list reversal *)
Theorem C19_reverse_loop : forall (l : list dnf), swap_loop [] (length l / 2) 0 (length l) l = rev l.
Proof. intros l. exact (swap_loop_rev [] l). Qed.

(* re-padding to other widths is invisible to read-back (wider or narrower formulas are accepted) *)
Theorem C19_repad_invisible : forall D C p, view (repad D C p) = view p.
Proof. exact view_repad. Qed.

(* insert follows list.insert for every integer index: negative from the end, clipped *)
Theorem C19_insert_index : forall (n : nat) (i : Z), norm_insert n i <= n /\
  ((0 <= i <= Z.of_nat n)%Z -> norm_insert n i = Z.to_nat i) /\
  ((- Z.of_nat n <= i < 0)%Z -> norm_insert n i = Z.to_nat (Z.of_nat n + i)).
Proof. exact norm_insert_spec. Qed.

(* regressions: the pinned setitem (F7) rejects a narrower formula; the pinned insert (F13) loses a row *)
Theorem C19_refuted_F7 : exists p i f, wf_formulab 3 f = true /\ i < plen p /\ setitem_pinned p i f = None.
Proof. exists (encode [[[(0, 1); (1, 1)]]; [[(0, 1); (1, 1)]]]), 0, [[(2, 1)]]. vm_compute. repeat split; auto. Qed.
Theorem C19_refuted_F13 : exists fs i f, forallb (wf_formulab 3) (f :: fs) = true /\
  view (insert_pinned (encode fs) i f) <> insert_nth (norm_insert (length fs) i) f fs.
Proof. exists [[[(0, 1)]]; [[(1, 1)]]; [[(2, 1)]]], (-1)%Z, [[(0, 0)]]. vm_compute. split; [reflexivity|discriminate]. Qed.

(* the "simple" flag (set by Provenance(units=n), read by the neighbor fast path) is a promise that row i is exactly
   `unit i = candidate 1`: it holds for the default provenance and after ANY history of edits of the repaired container, which
   clears the flag on every edit; the pinned container kept the flag (finding F19) *)
Theorem C19_simple_flag_sound : forall n ops, simple_sound (s_run (s_default n) ops).
Proof. intros n ops. apply simple_sound_run. apply simple_sound_default. Qed.
Theorem C19_refuted_F19 : exists n o, legal n (default_formulas n) o /\ ~ simple_sound (s_apply_pinned (s_default n) o).
Proof. exact simple_refuted_F19. Qed.

Example C19_nonvacuous :
  let fs := [[[(0, 1); (1, 1)]]; [[(2, 1)]; [(0, 0)]]] in
  let ops := [OInsert 1 [[(1, 0)]]; OAppend [[(0, 1)]; [(1, 1)]; [(2, 1); (0, 1); (1, 0)]]; OReverse; ODel 0;
              OSet 0 [[(2, 0)]]; OExtend [[[(0, 0)]]]; OPop; ODelMany [1]] in
  forallb (wf_formulab 3) fs = true /\
  view (run (encode fs) ops) = run_list fs ops /\ run_list fs ops = [[[(2, 0)]]; [[(0, 1); (1, 1)]]].
Proof. vm_compute. repeat split. Qed.

Print Assumptions C19_refines_list.
Print Assumptions C19_step.
Print Assumptions C19_reverse_loop.
Print Assumptions C19_repad_invisible.
Print Assumptions C19_insert_index.
Print Assumptions C19_refuted_F7.
Print Assumptions C19_refuted_F13.
Print Assumptions C19_simple_flag_sound.
Print Assumptions C19_refuted_F19.
