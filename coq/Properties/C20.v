(* C20 -- scoring does not mutate or leak state between calls (PARTIAL BY NATURE: the read/write-set model is proved;
   that Python objects are not mutated or aliased is observed by byte snapshots).  Statements only. *)
From Coq Require Import List QArith.
From DS Require Import Model.Runtime Proofs.RuntimeProofs.

Theorem C20_store_invariant : forall (obj fitted : Type) mkfit mkscore cs (w : world obj fitted),
  w_store (fst (run obj fitted mkfit mkscore w cs)) = w_store w.
Proof. exact store_invariant. Qed.
Theorem C20_score_depends_on_last_fit : forall (obj fitted : Type) mkfit mkscore (w : world obj fitted) who refs refs' other orefs,
  other <> who -> (who < length (w_fitted w))%nat -> (other < length (w_fitted w))%nat ->
  snd (step obj fitted mkfit mkscore
            (fst (step obj fitted mkfit mkscore (fst (step obj fitted mkfit mkscore w (Fit who refs))) (Fit other orefs)))
            (Score who refs'))
  = snd (step obj fitted mkfit mkscore (fst (step obj fitted mkfit mkscore w (Fit who refs))) (Score who refs')).
Proof. exact score_depends_on_last_fit. Qed.
Theorem C20_repeat_equal : forall (obj fitted : Type) mkfit mkscore (w : world obj fitted) who refs,
  snd (step obj fitted mkfit mkscore (fst (step obj fitted mkfit mkscore w (Score who refs))) (Score who refs))
  = snd (step obj fitted mkfit mkscore w (Score who refs)).
Proof. exact repeat_equal. Qed.
Print Assumptions C20_store_invariant.
Print Assumptions C20_score_depends_on_last_fit.
Print Assumptions C20_repeat_equal.
