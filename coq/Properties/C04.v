(* C04 -- Monte-Carlo scores are the permutation-sampling estimator of the Shapley value.  Statements only. *)
From Coq Require Import List Arith ZArith QArith Bool Permutation.
From DS Require Import Util.SumQ Spec.Shapley Spec.Dnf Model.Provenance Model.Bruteforce Model.MonteCarlo
     Proofs.ShapleyAxioms Proofs.MonteCarloProofs.
Import ListNotations.
Local Open Scope Q_scope.

(* truncation and timeout disabled: for every utility, provenance (through v), iteration count and EVERY sequence of
   sampled permutations, each unit's score is the average over the sampled permutations of its marginal
   contribution to the units preceding it (the first one against the null score -- see C04_refuted_F10) *)
Theorem C04_mc_is_marginal_average : forall P n v clock perms p,
  mc_steps P = 0%nat -> Qle_bool (mc_timeout P) 0 = true -> perms <> [] ->
  (forall pi, In pi perms -> Permutation pi (seq 0 n)) -> (p < n)%nat ->
  exists scores, montecarlo P n v clock perms = Some scores /\
    nth p scores 0 == sumQ (fun pi => marginal n v (mc_null P) pi p) perms / qn (length perms).
Proof. exact mc_is_marginal_average. Qed.

Theorem C04_one_permutation : forall P n v perm p, mc_steps P = 0%nat -> Permutation perm (seq 0 n) -> (p < n)%nat ->
  nth p (fst (one_perm P n v perm)) 0 == marginal n v (mc_null P) perm p.
Proof. exact one_perm_marginals. Qed.

(* consequently the scores sum exactly to v(all units) - null on every run *)
Theorem C04_mc_efficiency : forall P n v clock perms,
  mc_steps P = 0%nat -> Qle_bool (mc_timeout P) 0 = true -> perms <> [] -> (0 < n)%nat ->
  (forall pi, In pi perms -> Permutation pi (seq 0 n)) ->
  exists scores, montecarlo P n v clock perms = Some scores /\
    sumQ (fun p => nth p scores 0) (seq 0 n) == v (alltrue n) - mc_null P.
Proof. exact mc_efficiency. Qed.

(* the hypothesis the proofs force: the first marginal is taken against the NULL score, not against v(no unit).
   Where the coalition of no units still has rows (value-0 literals) the two differ and the property's
   "sums to v(all units) - v(no unit)" fails for the faithful model: known finding F10. *)
Theorem C04_refuted_F10 : exists P n (v : list bool -> Q) clock perms scores,
  mc_steps P = 0%nat /\ Qle_bool (mc_timeout P) 0 = true /\ (forall pi, In pi perms -> Permutation pi (seq 0 n)) /\
  montecarlo P n v clock perms = Some scores /\
  ~ sumQ (fun p => nth p scores 0) (seq 0 n) == v (alltrue n) - v (allfalse n).
Proof.
  exists (mkMC (-1) 0 0 0 0), 2%nat,
         (fun m => match m with [false; false] => 5 | [false; true] => 7 | [true; false] => 0 | _ => 2 end),
         (fun _ => 0), [[0; 1]%nat], [1; 2].
  repeat split; try reflexivity.
  - intros pi [<-|[]]. apply Permutation_refl.
  - vm_compute. discriminate.
Qed.

(* Full statement of the last clause, kept visible (not asserted here): when every permutation is sampled equally
   often the estimator is the exact Shapley value of the game whose empty coalition is worth the null score.
   It needs the counting lemma sum_{pi in perms} g(before_pi(i)) = sum_S |S|!(n-1-|S|)! g(S); until that is proved
   the clause is tied to the code by the correspondence run only (scripted generator yielding all permutations). *)
Definition C04_exact_when_uniform_full_statement : Prop :=
  forall P n v clock c p, mc_steps P = 0%nat -> Qle_bool (mc_timeout P) 0 = true -> (0 < c)%nat -> (p < n)%nat ->
    v (allfalse n) == mc_null P ->
    exists scores, montecarlo P n v clock (concat (repeat (perms (seq 0 n)) c)) = Some scores /\
                   nth p scores 0 == shapley n v p.

Print Assumptions C04_mc_is_marginal_average.
Print Assumptions C04_one_permutation.
Print Assumptions C04_mc_efficiency.
Print Assumptions C04_refuted_F10.
