(* C04 -- Monte-Carlo scores are the permutation-sampling estimator of the Shapley value.  Statements only. *)
From Coq Require Import List Arith ZArith QArith Bool Permutation.
From DS Require Import Util.SumQ Spec.Shapley Spec.Dnf Model.Provenance Model.Bruteforce Model.MonteCarlo
     Proofs.ShapleyAxioms Proofs.MonteCarloProofs Proofs.PermCount.
Import ListNotations.
Local Open Scope Q_scope.

(* truncation and timeout disabled: for every utility, provenance (through v), iteration count and EVERY sequence of
   sampled permutations, each unit's score is the average over the sampled permutations of its marginal
   contribution to the units preceding it (the first one against the null score -- see C04_refuted_F10) *)
Theorem C04_mc_is_marginal_average : forall P n v clock perms p,
  mc_steps P = 0%nat -> Qle_bool (mc_timeout P) 0 = true -> perms <> [] ->
  (forall pi, In pi perms -> Permutation pi (seq 0 n)) -> (p < n)%nat ->
  exists scores, montecarlo P n v clock perms = Some scores /\
    nth p scores 0 == sumQ (fun pi => marginal n v (mc_null P) pi p) perms / qn (length perms).
Proof. exact mc_is_marginal_average. Qed.

Theorem C04_one_permutation : forall P n v perm p, mc_steps P = 0%nat -> Permutation perm (seq 0 n) -> (p < n)%nat ->
  nth p (fst (one_perm P n v perm)) 0 == marginal n v (mc_null P) perm p.
Proof. exact one_perm_marginals. Qed.

(* consequently the scores sum exactly to v(all units) - null on every run *)
Theorem C04_mc_efficiency : forall P n v clock perms,
  mc_steps P = 0%nat -> Qle_bool (mc_timeout P) 0 = true -> perms <> [] -> (0 < n)%nat ->
  (forall pi, In pi perms -> Permutation pi (seq 0 n)) ->
  exists scores, montecarlo P n v clock perms = Some scores /\
    sumQ (fun p => nth p scores 0) (seq 0 n) == v (alltrue n) - mc_null P.
Proof. exact mc_efficiency. Qed.

(* the hypothesis the proofs force: the first marginal is taken against the NULL score, not against v(no unit).
   Where the coalition of no units still has rows (value-0 literals) the two differ and the property's
   "sums to v(all units) - v(no unit)" fails for the faithful model: known finding F10. *)
Theorem C04_refuted_F10 : exists P n (v : list bool -> Q) clock perms scores,
  mc_steps P = 0%nat /\ Qle_bool (mc_timeout P) 0 = true /\ (forall pi, In pi perms -> Permutation pi (seq 0 n)) /\
  montecarlo P n v clock perms = Some scores /\
  ~ sumQ (fun p => nth p scores 0) (seq 0 n) == v (alltrue n) - v (allfalse n).
Proof.
  exists (mkMC (-1) 0 0 0 0), 2%nat,
         (fun m => match m with [false; false] => 5 | [false; true] => 7 | [true; false] => 0 | _ => 2 end),
         (fun _ => 0), [[0; 1]%nat], [1; 2].
  repeat split; try reflexivity.
  - intros pi [<-|[]]. apply Permutation_refl.
  - vm_compute. discriminate.
Qed.

(* the counting lemma: over all permutations of a duplicate-free list l containing p, the players before p form
   the set S (not containing p) exactly |S|! (|l|-1-|S|)! times -- for every permutation-invariant g *)
Theorem C04_before_count : forall (l : list nat) (p : nat) (g : list nat -> Q), inv g -> NoDup l -> In p l ->
  sumQ (fun pi => g (before pi p)) (perms l)
  == sumQ (fun sb => qf (length sb) * qf (length l - 1 - length sb) * g sb) (sublists (remove Nat.eq_dec p l)).
Proof. exact before_count. Qed.

(* whenever every permutation is sampled equally often (c copies of all n! permutations, drawn in any order), with
   truncation and timeout disabled and the coalition of no units worth the null score (see F10), the estimator IS
   the exact Shapley value *)
Theorem C04_mc_exact_when_uniform : forall P n v clock c p sample,
  mc_steps P = 0%nat -> Qle_bool (mc_timeout P) 0 = true -> (0 < c)%nat -> (p < n)%nat -> v (allfalse n) == mc_null P ->
  Permutation sample (concat (repeat (perms (seq 0 n)) c)) ->
  exists scores, montecarlo P n v clock sample = Some scores /\ nth p scores 0 == shapley n v p.
Proof. exact mc_exact_when_uniform. Qed.

Theorem C04_number_of_permutations : forall l, length (perms l) = fact (length l).
Proof. exact perms_count. Qed.

Print Assumptions C04_mc_is_marginal_average.
Print Assumptions C04_one_permutation.
Print Assumptions C04_mc_efficiency.
Print Assumptions C04_refuted_F10.
Print Assumptions C04_before_count.
Print Assumptions C04_mc_exact_when_uniform.
Print Assumptions C04_number_of_permutations.
