(* C18 -- results do not depend on how data and labels are represented (PARTIAL BY NATURE).  Statements only. *)
From Coq Require Import List ZArith QArith Sorting.Sorted.
From DS Require Import Model.Provenance Model.Neighbor Model.Runtime Proofs.RuntimeProofs Proofs.ProvRowwise.

Theorem C18_same_decode_same_score : forall (repr raw canonical : Type) (decode : repr -> raw -> canonical)
  (score : canonical -> list Q) r1 r2 x1 x2, decode r1 x1 = decode r2 x2 ->
  score_r repr raw canonical decode score r1 x1 = score_r repr raw canonical decode score r2 x2.
Proof. exact same_decode_same_score. Qed.
(* the label encoder only depends on the sorted distinct labels: label dtypes whose sort orders agree encode alike *)
Theorem C18_label_classes : forall (labels : list Z),
  StronglySorted Z.lt (classes labels) /\ (forall z, In z (classes labels) <-> In z labels).
Proof. intros labels. split; [apply sorted_distinct_sorted|intros z; apply in_sorted_distinct]. Qed.
Print Assumptions C18_same_decode_same_score.
Print Assumptions C18_label_classes.
