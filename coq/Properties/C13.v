(* C13 -- the compiled scoring kernel equals its reference kernel in double precision.  Statements only. *)
From Coq Require Import PrimFloat List Arith.
From DS Require Import Model.KernelFloat Proofs.KernelFloatEq.
Import ListNotations.

(* for all argument arrays (any sizes, ties, magnitudes, NaN/-0 included): the binary64 model of the compiled
   kernel (accumulator declared double) and the binary64 model of the reference kernel return the SAME list of
   floats (Leibniz equality, i.e. bit-identical) *)
Theorem C13_kernels_equal : forall a : kargs,
  (forall j, j < k_test a -> length (nthl (k_orders a) j) = k_units a) -> kernel_cy_f a = kernel_ref_f a.
Proof. exact kernels_equal. Qed.

(* regression: with the accumulator rounded to binary32 after every addition (the pinned `cdef float current`,
   finding F6) the compiled kernel differs from the reference kernel already on three units *)
Theorem C13_refuted_F6 : exists a : kargs,
  (forall j, j < k_test a -> length (nthl (k_orders a) j) = k_units a) /\
  eqb (fnth (kernel_cy_f32acc a) 0) (fnth (kernel_ref_f a) 0) = false.
Proof.
  exists (mkArgs 3 1 2 [[0]; [1]; [0]] [[1%float]; [0%float]] [0%float] [[0; 1; 2]]). split.
  - intros j Hj. destruct j as [|j]; [reflexivity|inversion Hj as [|? H]; inversion H].
  - vm_compute. reflexivity.
Qed.

Example C13_nonvacuous :
  let a := mkArgs 3 2 2 [[0; 1]; [1; 1]; [0; 0]] [[1; 0.5]; [0.25; 3]]%float [0.125; 7]%float [[2; 0; 1]; [1; 0; 2]] in
  kernel_cy_f a = kernel_ref_f a /\ eqb (fnth (kernel_ref_f a) 1) 0 = false.
Proof. vm_compute. split; reflexivity. Qed.

Print Assumptions C13_kernels_equal.
Print Assumptions C13_refuted_F6.
