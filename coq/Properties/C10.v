(* C10 -- decision-diagram algebra agrees with pointwise semantics.  Statements only (see Proofs/ADDProofs.v). *)
From Coq Require Import List Arith Bool.
From DS Require Import Model.ADD Proofs.ADDProofs.
Import ListNotations.

Theorem C10_avalue_add : forall t x y, a_add t x y =
  match x, y with Some a, Some b => if inb t (vadd a b) then Some (vadd a b) else None | _, _ => None end.
Proof. exact a_add_spec. Qed.

Print Assumptions C10_avalue_add.
