(* C10 -- decision-diagram algebra agrees with pointwise semantics.  Statements only. *)
From Coq Require Import List Arith Bool.
From DS Require Import Model.ADD Model.Oracle Proofs.ADDProofs Proofs.ModelCount Proofs.OracleExact Proofs.ADDClosure Proofs.ADDConcat Proofs.ADDStack.
Import ListNotations.

(* ---- values: adding tallies, and subtracting one from a valid tally, is component-wise and yields the single
   invalid value exactly when a component leaves its bounds or an addend is invalid ---- *)
Theorem C10_avalue_add : forall t x y, a_add t x y =
  match x, y with Some a, Some b => if inb t (vadd a b) then Some (vadd a b) else None | _, _ => None end.
Proof. exact a_add_spec. Qed.
Theorem C10_avalue_sub : forall t x y, a_sub t x y =
  match x, y with Some a, Some b => if vle b a then (if inb t (vsub a b) then Some (vsub a b) else None) else None | _, _ => None end.
Proof. exact a_sub_spec. Qed.
Theorem C10_add_comm : forall t x y, a_add t x y = a_add t y x.
Proof. exact a_add_comm. Qed.
Theorem C10_add_assoc : forall t x y z, wt t x -> wt t y -> wt t z -> a_add t (a_add t x y) z = a_add t x (a_add t y z).
Proof. exact a_add_assoc. Qed.
Theorem C10_bounds_downward_closed : forall t a b, length a = length b -> (forall i, nth i a 0 <= nth i b 0) ->
  inb t b = true -> inb t a = true.
Proof. exact inb_down. Qed.

(* value indices enumerate the domain bijectively (plain AValue: mixed radix; ATally: rank in the filtered product
   enumeration), hence agree with equality *)
Theorem C10_index_bijective : forall t, wf_type t ->
  NoDup (domain t) /\
  (forall x, In x (domain t) -> a_index t x < length (domain t) /\ nth (a_index t x) (domain t) None = x) /\
  (forall v, inb t v = true <-> In (Some v) (domain t)).
Proof. exact index_bijective. Qed.

(* ---- diagrams ---- *)
(* sum() evaluates to the pointwise (saturating) sum of its operands: every pair of well-typed diagrams over the same
   variables, every assignment *)
Theorem C10_eval_sum : forall d1 d2 x, d_type d2 = d_type d1 -> length (d_levels d1) = length (d_levels d2) ->
  wt_levels (d_type d1) (d_levels d1) -> wt_levels (d_type d1) (d_levels d2) ->
  inb (d_type d1) (repeat 0 (length (a_max (d_type d1)))) = true ->
  eval (add_sum d1 d2) x = a_add (d_type d1) (eval d1 x) (eval d2 x).
Proof. exact eval_sum. Qed.

(* restrict() evaluates to the original with one variable fixed: any variable but the first ... *)
Theorem C10_eval_restrict : forall d k v x,
  wt_levels (d_type d) (d_levels d) -> live_from (d_type d) (d_levels d) (d_root d) ->
  S k < length (d_levels d) -> S (length x) = length (d_levels d) ->
  exists r, add_restrict d (S k) v = Some r /\ eval r x = eval d (firstn (S k) x ++ v :: skipn (S k) x).
Proof. exact eval_restrict. Qed.
(* ... and the first one, when there are at least two variables *)
Theorem C10_eval_restrict_first : forall d v x l0 l1 rest,
  d_levels d = l0 :: l1 :: rest -> wt_levels (d_type d) (d_levels d) ->
  child (getnode (d_type d) l0 (d_root d)) v < length l1 -> x <> [] ->
  exists r, add_restrict d 0 v = Some r /\ eval r x = eval d (v :: x).
Proof. exact eval_restrict_first. Qed.
(* finding F12: with a single variable the code raises; the model has no result *)
Theorem C10_refuted_F12 : forall d l0 v, d_levels d = [l0] -> add_restrict d 0 v = None.
Proof. exact restrict_only_variable. Qed.

(* modelcount() is the histogram over all assignments of the evaluated value: every well-typed diagram whose
   reachable nodes are live and in range, of any shape and size *)
Theorem C10_modelcount : forall d,
  wf_type (d_type d) -> wt_levels (d_type d) (d_levels d) -> live_w (d_type d) (diameter d) (d_levels d) (d_root d) ->
  add_modelcount d = histogram (d_type d) (map (eval d) (bmasks (length (d_levels d)))).
Proof. exact modelcount_histogram. Qed.

(* evaluation is the saturating sum of the edge values along the path: clip of the plain total *)
Theorem C10_eval_is_saturating_path_sum : forall d x, wf_type (d_type d) -> wt_levels (d_type d) (d_levels d) ->
  length x = length (d_levels d) ->
  eval d x = match path_sum (d_type d) (d_levels d) (d_root d) x with Some s => clip (d_type d) s | None => None end.
Proof. exact eval_as_path. Qed.

(* ---- any sequence of operations: the constructors produce well-formed diagrams (okd: edge values of the right
   length; reachable nodes in range and live; children of the last level 0), sum / restrict / edge updates keep
   them well formed, and well-formedness gives every side condition of the theorems above ---- *)
Theorem C10_wellformed_suffices : forall d, okd d ->
  wt_levels (d_type d) (d_levels d) /\ live_from (d_type d) (d_levels d) (d_root d)
  /\ live_w (d_type d) (diameter d) (d_levels d) (d_root d).
Proof. exact okd_conditions. Qed.
Theorem C10_chain_wellformed : forall t units, okd (chain t units).
Proof. exact chain_okd. Qed.
Theorem C10_tree_wellformed : forall t units, okd (tree t units).
Proof. exact tree_okd. Qed.
Theorem C10_sum_wellformed : forall d1 d2, okd d1 -> okd d2 -> d_type d2 = d_type d1 ->
  length (d_levels d1) = length (d_levels d2) -> okd (add_sum d1 d2).
Proof. exact sum_okd. Qed.
Theorem C10_restrict_wellformed : forall d lvl v, okd d -> 2 <= length (d_levels d) -> lvl < length (d_levels d) ->
  exists r, add_restrict d lvl v = Some r /\ okd r.
Proof. exact restrict_okd. Qed.
Theorem C10_update_wellformed : forall d locs f v, okd d -> (forall a, f a = a_add (d_type d) a v) -> wt (d_type d) v ->
  okd (update d locs f).
Proof. exact update_okd. Qed.
(* an edge update adds v to the value of exactly the assignments whose path uses one of the updated edges (once per
   listed edge on the path) and leaves every other value unchanged *)
Theorem C10_update_semantics : forall d locs f v, okd d -> (forall a, f a = a_add (d_type d) a v) -> wt (d_type d) v ->
  forall x, eval (update d locs f) x = Nat.iter (hits d x locs) (fun e => a_add (d_type d) e v) (eval d x).
Proof. exact update_semantics. Qed.

(* ---- concatenate(): the value at x1 ++ x2 ++ ... is the saturating sum of the elements' values at x1, x2, ...
   (elements well formed, of one type, each with at least one variable), and the result is well formed ---- *)
Theorem C10_eval_concatenate : forall t els xs, els <> [] -> wf_type t -> Forall2 (piece_ok t) els xs ->
  eval (add_concatenate els) (concat xs)
  = fold_left (fun a ex => a_add t a (eval (fst ex) (snd ex))) (combine els xs) (a_zero t).
Proof. exact eval_concatenate. Qed.
Theorem C10_concatenate_wellformed : forall t els, els <> [] -> (forall e, In e els -> elem_ok t e) -> okd (add_concatenate els).
Proof. exact concatenate_okd. Qed.

(* ---- stack(factors, elements): the 2^f elements (well formed, of one type and depth, any diameters) sit under a
   header tree over the factor variables; the value at xf ++ xe is the value at xe of the element selected by the factor
   values xf (product order, first factor most significant), and the result is well formed ---- *)
Theorem C10_eval_stack : forall t factors els depth, factors <> [] -> length els = 2 ^ length factors ->
  (forall e, In e els -> okd e /\ d_type e = t /\ length (d_levels e) = depth) ->
  forall xf xe, wf_type t -> length xf = length factors ->
  eval (add_stack factors els) (xf ++ xe) = eval (nth (sel xf) els (mkADD (plain []) [] 0 [])) xe.
Proof. exact eval_stack. Qed.
Theorem C10_stack_wellformed : forall t factors els depth, factors <> [] -> length els = 2 ^ length factors ->
  (forall e, In e els -> okd e /\ d_type e = t /\ length (d_levels e) = depth) -> okd (add_stack factors els).
Proof. exact stack_okd. Qed.

Example C10_nonvacuous :
  let t := tally 2 1 2 in
  let d := mkADD t [0; 1] 0 [[mkNode true 0 0 (Some [0; 1; 0; 0; 0]) (Some [1; 0; 0; 0; 1])];
                             [mkNode true 0 0 (Some [0; 0; 0; 0; 0]) (Some [1; 0; 1; 0; 0])]] in
  add_modelcount d = histogram t (map (eval d) (bmasks 2)) /\ sum_nat (add_modelcount d) = 4 /\
  nth (a_index t (Some [1; 0; 1; 0; 0])) (add_modelcount d) 0 = 0 /\ eval d [true; true] = Some [2; 0; 1; 0; 1].
Proof. vm_compute. repeat split. Qed.

Print Assumptions C10_avalue_add.
Print Assumptions C10_avalue_sub.
Print Assumptions C10_add_comm.
Print Assumptions C10_add_assoc.
Print Assumptions C10_bounds_downward_closed.
Print Assumptions C10_index_bijective.
Print Assumptions C10_eval_sum.
Print Assumptions C10_eval_restrict.
Print Assumptions C10_eval_restrict_first.
Print Assumptions C10_refuted_F12.
Print Assumptions C10_modelcount.
Print Assumptions C10_eval_is_saturating_path_sum.
Print Assumptions C10_wellformed_suffices.
Print Assumptions C10_chain_wellformed.
Print Assumptions C10_tree_wellformed.
Print Assumptions C10_sum_wellformed.
Print Assumptions C10_restrict_wellformed.
Print Assumptions C10_update_wellformed.
Print Assumptions C10_update_semantics.
Print Assumptions C10_eval_concatenate.
Print Assumptions C10_concatenate_wellformed.
Print Assumptions C10_eval_stack.
Print Assumptions C10_stack_wellformed.
