(* C14 -- element-wise utilities decompose the metric they stand for.  Statements only. *)
From Coq Require Import List Arith ZArith QArith Bool.
From DS Require Import Util.SumQ Spec.Shapley Model.Provenance Model.Neighbor Model.Utility Proofs.UtilityProofs.
Import ListNotations.
Local Open Scope Q_scope.

(* accuracy, any number of classes: the mean over validation points of the element-wise score of any predicted-label
   vector (labels among the training classes) is the accuracy of those predictions *)
Theorem C14_accuracy_mean : forall train yt yp, length yp = length yt -> (forall p, In p yp -> In p train) ->
  sumQ (fun x => x) (picked (acc_table train yt) train yp) / qn (length yt) == accuracy yt yp.
Proof. exact accuracy_mean. Qed.

(* the mean element-wise null score is the null score, which is the lowest accuracy achievable by predicting a single
   training class everywhere (a lower bound that is attained) *)
Theorem C14_accuracy_null : forall train yt, train <> [] -> yt <> [] ->
  sumQ (fun x => x) (acc_null_vector train yt) / qn (length yt) == acc_null_score train yt /\
  (forall c, In c train -> acc_null_score train yt <= acc_of_const c yt) /\
  (exists c, In c train /\ acc_null_score train yt == acc_of_const c yt).
Proof. exact accuracy_null. Qed.

(* ROC-AUC on binary labels (validation containing both classes): the element-wise scores of any hard prediction
   vector SUM to (TPR + TNR) / 2, which is the ROC-AUC of a hard 0/1 prediction (that identity with scikit-learn's
   roc_auc_score is part of the trusted base and cross-checked on every case) *)
Theorem C14_auc_sum : forall train yt yp a b, classes train = [a; b] -> binary a b yt ->
  (0 < count_eq a yt)%nat -> (0 < count_eq b yt)%nat -> length yp = length yt -> (forall p, In p yp -> p = a \/ p = b) ->
  sumQ (fun x => x) (picked (auc_table train yt) train yp) == balanced_acc2 yt yp a b.
Proof. exact auc_sum. Qed.

(* and the element-wise null scores sum to 1/2, the ROC-AUC of every constant prediction = the null score *)
Theorem C14_auc_null : forall yt a b, classes yt = [a; b] -> binary a b yt -> (0 < count_eq a yt)%nat -> (0 < count_eq b yt)%nat ->
  sumQ (fun x => x) (auc_null_vector yt) == 1 # 2.
Proof. exact auc_null_sum. Qed.

Theorem C14_auc_entry : forall a b ys k y, binary a b ys -> (0 < count_eq a ys)%nat -> (0 < count_eq b ys)%nat -> (y = a \/ y = b) ->
  auc_entry [a; b] ys k y == (if Z.eqb k y then 1 else 0) / (2 * qn (count_eq y ys)).
Proof. exact auc_entry_binary. Qed.

Example C14_nonvacuous :
  let train := [2; 0; 1; 1; 0]%Z in let yt := [0; 1; 1; 0; 1]%Z in let yp := [0; 1; 2; 2; 1]%Z in
  Qred (sumQ (fun x => x) (picked (acc_table train yt) train yp) / qn (length yt)) = 3 # 5 /\
  Qred (accuracy yt yp) = 3 # 5 /\ Qred (acc_null_score train yt) = 0 /\
  Qred (sumQ (fun x => x) (picked (auc_table [0; 1; 1]%Z yt) [0; 1; 1]%Z [0; 0; 1; 1; 1]%Z)) = 7 # 12.
Proof. vm_compute. repeat split. Qed.

Print Assumptions C14_accuracy_mean.
Print Assumptions C14_accuracy_null.
Print Assumptions C14_auc_sum.
Print Assumptions C14_auc_null.
Print Assumptions C14_auc_entry.
