(* C02 -- KNN (K>1) and join-provenance neighbor scores are exact Shapley values.  Statements only. *)
From Coq Require Import List Arith ZArith QArith Bool.
From DS Require Import Util.SumQ Spec.Shapley Model.ADD Spec.Count Spec.Knn Model.Bruteforce Model.ShapleyAdd
     Proofs.BruteforceShapley Proofs.OracleProofs.
Import ListNotations.
Local Open Scope Q_scope.

(* the coalition-size counter of the tally is bounded by units - 1 (the bound installed by fix F2) and every
   coalition of the other units fits: the weight 1 / C(n-1, size) is always defined *)
Theorem C02_max_cardinality : forall n s, (s <= n - 1)%nat -> (0 < binom (n - 1) s)%nat.
Proof. intros n s H. apply binom_pos. exact H. Qed.

(* Full statement (kept visible, not asserted): for all K >= 1, unit counts, conjunctive hypergraphs, labels and
   pairwise distinct distances the loop model over the counting specification equals the Shapley value of v_knn.
   Every run evaluates both sides inside Coq on the generated instances (flag model = spec). *)
Definition C02_add_is_shapley_full_statement : Prop :=
  forall (n K C : nat) rows labels dists ucols nulls i, (i < n)%nat -> (1 <= K)%nat ->
    (forall d, In d dists -> NoDup (map Qred d)) ->
    let ps := map (fun d => mkProb n rows labels d (n - 1) K C) dists in
    nth i (shapley_add ps (map (fun p => count_spec p) ps) ucols nulls n) 0
    == shapley n (v_knn K C rows labels dists ucols nulls) i.

Print Assumptions C02_max_cardinality.
