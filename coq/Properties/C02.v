(* C02 -- KNN (K>1) and join-provenance neighbor scores are exact Shapley values.  Statements only. *)
From Coq Require Import List Arith ZArith QArith Bool.
From DS Require Import Util.SumQ Spec.Shapley Model.ADD Spec.Count Spec.Knn Model.Bruteforce Model.ShapleyAdd
     Proofs.BruteforceShapley Proofs.OracleProofs Proofs.KnnShapley Proofs.KnnSorted Model.Oracle Proofs.NeighborAdd.
Import ListNotations.
Local Open Scope Q_scope.

(* the coalition-size counter of the tally is bounded by units - 1 (the bound installed by fix F2) and every
   coalition of the other units fits: the weight 1 / C(n-1, size) is always defined *)
Theorem C02_max_cardinality : forall n s, (s <= n - 1)%nat -> (0 < binom (n - 1) s)%nat.
Proof. intros n s H. apply binom_pos. exact H. Qed.

(* one validation point: the loop of compute_shapley_add (boundary pairs, filters, argmax, weight count / C(n-1, size))
   over the exact coalition counts returns n times the Shapley value of the K-nearest-neighbour game *)
Theorem C02_add_point_is_shapley : forall n K C rows labels dist ucol null i,
  (i < n)%nat -> (1 <= K)%nat ->
  (forall r, (r < length rows)%nat -> (nth r labels 0 < C)%nat) ->
  (forall r r', (r < length rows)%nat -> (r' < length rows)%nat -> nth r dist 0 == nth r' dist 0 -> r = r') ->
  nth i (shapley_add_point (mkProb n rows labels dist (n - 1) K C) (count_spec (mkProb n rows labels dist (n - 1) K C)) ucol null) 0
  == qn n * shapley n (knn_point K C rows labels dist ucol null) i.
Proof. exact add_point_is_shapley. Qed.

(* all validation points: for every K >= 1, number of units, conjunctive hypergraph (rows : the units each row needs --
   shared units, rows needing several units, units owning several or no rows), encoded labels (below the class count)
   and pairwise distinct distances per validation point, the model of compute_shapley_add over the exact coalition
   counts IS the Shapley value (by definition, Spec/Shapley.v) of the game v_knn of the property *)
Theorem C02_add_is_shapley : forall n K C rows labels dists ucols nulls i,
  (i < n)%nat -> (1 <= K)%nat ->
  (forall r, (r < length rows)%nat -> (nth r labels 0 < C)%nat) ->
  (forall d, In d dists -> length d = length rows /\ NoDup (map Qred d)) ->
  nth i (shapley_add (map (fun d => mkProb n rows labels d (n - 1) K C) dists)
                     (map (fun p => count_spec p) (map (fun d => mkProb n rows labels d (n - 1) K C) dists)) ucols nulls n) 0
  == shapley n (v_knn K C rows labels dists ucols nulls) i.
Proof. exact add_is_shapley. Qed.

(* end to end for chain-compiled provenance (every row needs exactly one unit: one-unit-per-row and map/fork
   pipelines, at least two units): the loop over the MODEL of the ADD-based oracle (compile, boundary diagrams,
   restrict, sum, +1 per present unit, modelcount) is the Shapley value of the KNN game *)
Theorem C02_add_chain_is_shapley : forall n K C rows labels dists ucols nulls i,
  (2 <= n)%nat -> (i < n)%nat -> (1 <= K)%nat ->
  (forall r, (r < length rows)%nat -> exists u, nth r rows [] = [u] /\ (u < n)%nat) ->
  (forall r, (r < length rows)%nat -> (nth r labels 0 < C)%nat) ->
  (forall d, In d dists -> length d = length rows /\ NoDup (map Qred d)) ->
  nth i (shapley_add (map (fun d => mkProb n rows labels d (n - 1) K C) dists)
                     (map chain_oracle (map (fun d => mkProb n rows labels d (n - 1) K C) dists)) ucols nulls n) 0
  == shapley n (v_knn K C rows labels dists ucols nulls) i.
Proof. exact add_chain_is_shapley. Qed.

(* any conjunctive provenance, incl. rows needing several units (compile()'s leaf/factor case): whenever the boolean
   validator accepts the compiled diagram and row locations dumped from the implementation (evaluated inside Coq on
   every instance of every run), the loop over the model of the ADD-based oracle is the Shapley value *)
Theorem C02_add_validated_is_shapley : forall n K C rows labels dists ucols nulls d locs i,
  (2 <= n)%nat -> (i < n)%nat -> (1 <= K)%nat ->
  (forall ds, In ds dists -> valid_compiled (mkProb n rows labels ds (n - 1) K C) d locs = true) ->
  (forall r, (r < length rows)%nat -> (nth r labels 0 < C)%nat) ->
  (forall ds, In ds dists -> length ds = length rows /\ NoDup (map Qred ds)) ->
  nth i (shapley_add (map (fun ds => mkProb n rows labels ds (n - 1) K C) dists)
                     (map (fun p => oracle_of p d locs) (map (fun ds => mkProb n rows labels ds (n - 1) K C) dists)) ucols nulls n) 0
  == shapley n (v_knn K C rows labels dists ucols nulls) i.
Proof. exact add_validated_is_shapley. Qed.

(* END TO END for any conjunctive provenance through the model of compile(): for every admissible component structure the
   loop over the oracle built on the modelled diagram and row locations is the Shapley value *)
Theorem C02_add_compile_is_shapley : forall n K C rows labels dists ucols nulls comps i,
  (2 <= n)%nat -> (i < n)%nat -> (1 <= K)%nat ->
  hints_ok n rows comps = true ->
  (forall r, (r < length rows)%nat -> (nth r labels 0 < C)%nat) ->
  (forall ds, In ds dists -> length ds = length rows /\ NoDup (map Qred ds)) ->
  nth i (shapley_add (map (fun ds => mkProb n rows labels ds (n - 1) K C) dists)
                     (map (fun p => oracle_of p (compile_add (p_type p) comps) (map (row_locs 0 comps) (p_rows p)))
                          (map (fun ds => mkProb n rows labels ds (n - 1) K C) dists)) ucols nulls n) 0
  == shapley n (v_knn K C rows labels dists ucols nulls) i.
Proof. exact add_compile_is_shapley. Qed.

(* the same with compile()'s graph step inside the model (greedy leaf selection in any visiting order, any row-closed
   partition of the units into components): nothing is assumed of numpy's argsort or scipy's connected components beyond
   the boolean graph_ok, evaluated inside Coq on every instance *)
Theorem C02_add_graph_is_shapley : forall n K C rows labels dists ucols nulls order components i,
  (2 <= n)%nat -> (i < n)%nat -> (1 <= K)%nat ->
  graph_ok n rows order components = true ->
  (forall r, (r < length rows)%nat -> (nth r labels 0 < C)%nat) ->
  (forall ds, In ds dists -> length ds = length rows /\ NoDup (map Qred ds)) ->
  let comps := build_hints n rows order components in
  nth i (shapley_add (map (fun ds => mkProb n rows labels ds (n - 1) K C) dists)
                     (map (fun p => oracle_of p (compile_add (p_type p) comps) (map (row_locs 0 comps) (p_rows p)))
                          (map (fun ds => mkProb n rows labels ds (n - 1) K C) dists)) ucols nulls n) 0
  == shapley n (v_knn K C rows labels dists ucols nulls) i.
Proof. exact add_graph_is_shapley. Qed.

(* with pairwise distinct distances exactly one row of a K-or-more-element row set has rank K: the rank-based
   definition `nearest` selects exactly the K nearest rows *)
Theorem C02_rank_count : forall (d : nat -> Q) (P : list nat), NoDup P ->
  (forall r r', In r P -> In r' P -> d r == d r' -> r = r') -> forall K, (1 <= K)%nat ->
  length (filter (fun t => Nat.eqb (nle d P t) K) P) = if Nat.leb K (length P) then 1%nat else 0%nat.
Proof. exact rank_count. Qed.

(* the game written with an explicit sort by distance (first K rows of the sorted present rows) is the same game *)
Theorem C02_sorted_definition_agrees : forall K C rows labels dists ucols nulls m,
  (forall d, In d dists -> length d = length rows /\ NoDup (map Qred d)) ->
  v_knn_sorted K C rows labels dists ucols nulls m == v_knn K C rows labels dists ucols nulls m.
Proof. exact v_knn_sorted_eq. Qed.

(* non-vacuity: a three-unit hypergraph with a shared unit and a two-unit row, K = 2, meets the hypotheses, and both
   sides evaluate to the same non-trivial vector *)
Example C02_instance : add_is_shapley_instance_statement.
Proof. exact add_is_shapley_instance. Qed.

Print Assumptions C02_max_cardinality.
Print Assumptions C02_add_point_is_shapley.
Print Assumptions C02_add_is_shapley.
Print Assumptions C02_rank_count.
Print Assumptions C02_add_chain_is_shapley.
Print Assumptions C02_sorted_definition_agrees.
Print Assumptions C02_add_validated_is_shapley.
Print Assumptions C02_add_compile_is_shapley.
Print Assumptions C02_add_graph_is_shapley.
