(* C12 -- fork, indexing and join act row-wise on provenance.  Statements only. *)
From Coq Require Import List Arith ZArith Bool Sorting.Sorted.
From DS Require Import Spec.Dnf Model.Provenance Proofs.QueryCorrect Proofs.ProvRowwise Proofs.JoinSpec.
Import ListNotations.

(* fork: the presence mask with each entry repeated accordingly, for every stored array and every assignment *)
Theorem C12_fork : forall p reps vals, query (fork p reps) vals = repeat_each (query p vals) reps.
Proof. exact query_fork. Qed.
Theorem C12_fork_length : forall p reps, length reps = plen p -> plen (fork p reps) = fold_right Nat.add 0 reps.
Proof. exact fork_length. Qed.

(* selecting rows by slice / index list / boolean mask (all reduce to positions): the corresponding sub-mask *)
Theorem C12_select : forall p idx vals, query (select p idx) vals = map (fun i => nth i (query p vals) false) idx.
Proof. exact query_select. Qed.
Theorem C12_mask_positions : forall m i, In i (mask_positions m) <-> nth i m false = true.
Proof. exact argwhere_spec. Qed.

(* default provenance: row i present exactly when unit i is *)
Theorem C12_default : forall (x : assignment) n, length x = n ->
  query (default_prov n) (zs x) = map (fun i => Nat.eqb (nth i x 0) 1) (seq 0 n).
Proof. exact query_default. Qed.

(* group identifiers (any integers): units are the sorted distinct identifiers and each row is present exactly
   when the unit NAMED by its identifier is *)
Theorem C12_grouped : forall (ids : list Z) (x : assignment), length x = length (grouped_units ids) ->
  query (grouped_prov ids) (zs x) = map (fun z => Nat.eqb (nth (position z (grouped_units ids)) x 0) 1) ids.
Proof. exact query_grouped. Qed.
Theorem C12_grouped_units : forall (ids : list Z),
  StronglySorted Z.lt (grouped_units ids) /\ (forall z, In z (grouped_units ids) <-> In z ids) /\
  (forall z, In z ids -> position z (grouped_units ids) < length (grouped_units ids) /\
                         nth (position z (grouped_units ids)) (grouped_units ids) 0%Z = z).
Proof. exact grouped_units_spec. Qed.

(* regression: the pinned (pre-fix F8) constructor stored identifiers as positions *)
Theorem C12_refuted_F8 : exists (ids : list Z) (x : assignment), length x = length (grouped_units ids) /\
  query (grouped_prov_pinned ids) (zs x) <> map (fun z => Nat.eqb (nth (position z (grouped_units ids)) x 0) 1) ids.
Proof. exists [1; 2; 2]%Z, [1; 1]. vm_compute. split; [reflexivity|discriminate]. Qed.

(* join: what a correct join must satisfy -- one row per pair (self-major order), present iff both members are,
   under the concatenated (prefixed, hence disjoint) unit lists.  The implementation does not meet it: finding F11. *)
Theorem C12_join_spec : forall x1 x2 fs gs, (forall f, In f fs -> units_below (length x1) f) ->
  map (eval_dnf (x1 ++ x2)) (join_spec (length x1) fs gs) = pair_and (map (eval_dnf x1) fs) (map (eval_dnf x2) gs).
Proof. exact join_spec_correct. Qed.

Example C12_nonvacuous :
  let p := encode [[[(0, 1)]; [(1, 1); (2, 0)]]; [[(2, 1)]]; [[(0, 0)]]] in
  query (fork p [2; 0; 1]) (zs [0; 1; 0]) = [true; true; true] /\
  query (select p [2; 0; 0]) (zs [1; 0; 0]) = [false; true; true] /\
  grouped_units [7; -3; 7; 100]%Z = [-3; 7; 100]%Z /\
  query (grouped_prov [7; -3; 7; 100]%Z) (zs [0; 1; 0]) = [true; false; true; false].
Proof. vm_compute. repeat split. Qed.

Print Assumptions C12_fork.
Print Assumptions C12_fork_length.
Print Assumptions C12_select.
Print Assumptions C12_mask_positions.
Print Assumptions C12_default.
Print Assumptions C12_grouped.
Print Assumptions C12_grouped_units.
Print Assumptions C12_refuted_F8.
Print Assumptions C12_join_spec.
