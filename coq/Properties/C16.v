(* C16 -- Monte-Carlo timeout and truncation budgets keep the estimate well defined.  Statements only. *)
From Coq Require Import List Arith ZArith QArith Bool Permutation.
From DS Require Import Util.SumQ Spec.Shapley Model.Provenance Model.Bruteforce Model.MonteCarlo Proofs.MonteCarloProofs.
Import ListNotations.
Local Open Scope Q_scope.

(* whatever the clock does: once an iteration has run the result is defined (never the empty average that is NaN) and
   is the average of the columns of exactly the first k permutations, k >= 1 (k = all of them, or the first
   iteration at whose end the budget had expired) *)
Theorem C16_timeout_average : forall P n v clock perms, perms <> [] ->
  exists k scores, (1 <= k <= length perms)%nat /\ montecarlo P n v clock perms = Some scores /\
    forall p, (p < n)%nat ->
      nth p scores 0 == sumQ (fun pi => nth p (fst (one_perm P n v pi)) 0) (firstn k perms) / qn k.
Proof. exact timeout_average. Qed.

(* a permutation is cut only after MORE than `steps` consecutive in-band scores (counter invariant, by induction
   over the steps); `seen` is the loop instrumented with the scores seen so far *)
Theorem C16_truncation_sound : forall P v perm query counter acc,
  (counter <= length acc)%nat -> forallb (in_band P) (firstn counter acc) = true ->
  snd (seen P v perm query counter acc) = true ->
  (0 < mc_steps P)%nat /\ (mc_steps P < length (fst (seen P v perm query counter acc)))%nat /\
  forallb (in_band P) (firstn (S (mc_steps P)) (fst (seen P v perm query counter acc))) = true.
Proof. exact truncation_sound. Qed.

(* the remaining units of a cut permutation keep their initial value (zero) for it *)
Theorem C16_cut_units_get_zero : forall P v perm query new counter imp evals p,
  (forall r, In r perm -> (r < length imp)%nat) ->
  ~ In p (firstn (snd (perm_loop P v perm query new counter imp evals) - evals) perm) ->
  nth p (fst (perm_loop P v perm query new counter imp evals)) 0 = nth p imp 0.
Proof. exact cut_units_get_zero. Qed.

(* disabling truncation (0 steps) never cuts *)
Theorem C16_no_cut : forall P v, mc_steps P = 0%nat -> forall perm query new counter imp evals,
  perm_loop P v perm query new counter imp evals = (plain_loop v perm query new imp, (evals + length perm)%nat).
Proof. exact no_cut. Qed.

(* regression: the pinned slice [:, :i] (finding F4) averaged zero columns when the budget expired during the
   first permutation; the model of the repaired code never does *)
Theorem C16_first_iteration_timeout : forall P n v clock pi rest,
  exists scores, montecarlo P n v clock (pi :: rest) = Some scores.
Proof.
  intros P n v clock pi rest. destruct (timeout_average P n v clock (pi :: rest)) as [k [s [_ [H _]]]]; [discriminate|].
  exists s. exact H.
Qed.

Print Assumptions C16_timeout_average.
Print Assumptions C16_truncation_sound.
Print Assumptions C16_cut_units_get_zero.
Print Assumptions C16_no_cut.
Print Assumptions C16_first_iteration_timeout.
