(* C01 -- 1-NN neighbor scores are the exact Shapley values of the 1-NN utility game.  Statements only. *)
From Coq Require Import List Arith ZArith QArith Bool Permutation.
From DS Require Import Util.SumQ Spec.Shapley Spec.NNGame Model.Kernel Model.Neighbor
     Proofs.ShapleyAxioms Proofs.KernelShapley Proofs.KernelFull Proofs.NearestRow Proofs.SimpleFlag.
Import ListNotations.
Local Open Scope Q_scope.

(* one validation point: the value the kernel's recurrence holds at rank i is the Shapley value (by definition,
   bruteforce form) of the unit at rank i, for EVERY duplicate-free rank order of units < n, every utility u
   and null value -- which covers every tie-breaking order numpy's argsort may produce *)
Theorem C01_kernel_is_shapley : forall (u : nat -> Q) (null : Q) n idxs i p,
  NoDup idxs -> (forall r, In r idxs -> (r < n)%nat) -> nth_error idxs i = Some p ->
  nth i (curs u null 0 idxs) 0 == shapley_bf n (vnn u null idxs) p.
Proof. exact kernel_is_shapley. Qed.

(* the bruteforce form used above IS the formula of C03: sum over S not containing i of |S|!(n-|S|-1)!/n! (v(S+i)-v(S)) *)
Theorem C01_bruteforce_form_is_definition : forall n v i, (i < n)%nat -> shapley_bf n v i == shapley n v i.
Proof. exact shapley_bf_marginal. Qed.

(* the whole kernel (scatter into out[], all validation points, division by n_test): unit by unit the Shapley
   value of the mean-over-validation-points game *)
Theorem C01_kernel_full : forall n us nulls orders p,
  (p < n)%nat -> points us nulls orders <> [] -> (forall l, In l orders -> Permutation l (seq 0 n)) ->
  nth p (kernel n us nulls orders) 0 == shapley n (vnn_mean us nulls orders) p.
Proof. exact kernel_is_shapley_mean. Qed.

(* the neighbor pipeline (label encoding, per-unit argmin reduction, utility table lookup, kernel) *)
Theorem C01_neighbor_is_shapley : forall n labels owner dist ucols nulls orders p,
  (p < n)%nat ->
  points (map (fun t => unit_utility labels owner (fst t) (snd t)) (combine dist ucols)) nulls orders <> [] ->
  (forall l, In l orders -> Permutation l (seq 0 n)) ->
  nth p (neighbor1 n labels owner dist ucols nulls orders) 0
  == shapley n (vnn_mean (map (fun t => unit_utility labels owner (fst t) (snd t)) (combine dist ucols)) nulls orders) p.
Proof. intros n labels owner dist ucols nulls orders. exact (kernel_is_shapley_mean n _ nulls orders). Qed.

(* what the game is: under an order that sorts the reduced distances, a coalition is worth the utility of the label
   of a nearest present training row (ties: one fixed order), and the null value when no unit is present *)
Theorem C01_game_is_nearest_present_row : forall (n : nat) (owner : list nat) (d : nat -> Q) (rowu : nat -> Q) (null : Q)
        (order : list nat) (m : list bool),
  Permutation order (seq 0 n) ->
  (forall r, (r < length owner)%nat -> (nth r owner 0%nat < n)%nat) ->
  (forall p, (p < n)%nat -> rows_of owner p <> []) ->
  sorted_by (unit_dist owner d) order = true ->
  let u := fun q => match unit_row owner d q with Some r => rowu r | None => 0 end in
  ((exists p, (p < n)%nat /\ nth p m false = true) ->
     exists r, (r < length owner)%nat /\ nth (nth r owner 0%nat) m false = true /\
               (forall r', (r' < length owner)%nat -> nth (nth r' owner 0%nat) m false = true -> d r <= d r') /\
               vnn u null order m = rowu r) /\
  ((forall p, (p < n)%nat -> nth p m false = false) -> vnn u null order m = null).
Proof. exact vnn_is_nearest_present_row. Qed.

Theorem C01_order_check_sound : forall n l, is_perm_of_units n l = true -> Permutation l (seq 0 n).
Proof. exact is_perm_of_units_sound. Qed.

(* non-vacuity: 4 rows in 2 units, a tie, 3 classes *)
Example C01_nonvacuous :
  let labels := [0; 1; 1; 2]%Z in let owner := [0; 0; 1; 1]%nat in
  let dist := [[1; 1; 2; 1 # 2]] in let ucols := [[1; 0; 3]] in let nulls := [1 # 2] in
  let order := [[1; 0]%nat] in
  valid_order 2 owner (hd [] dist) (hd [] order) = true /\
  map Qred (neighbor1 2 labels owner dist ucols nulls order) = [1 # 4; 9 # 4] /\
  map (fun p => Qred (shapley 2 (vnn_mean (map (fun t => unit_utility labels owner (fst t) (snd t)) (combine dist ucols))
                                         nulls order) p)) [0; 1]%nat = [1 # 4; 9 # 4].
Proof. vm_compute. repeat split. Qed.

(* the fast path of get_unit_labels_and_distances (taken when the provenance is flagged "simple"): when row r is owned by unit r
   the per-unit reduction is the identity -- unit p's nearest row is row p, its distance distances[p], its utility that of
   labels[p] -- so skipping the reduction is the same computation.  That the flag implies this ownership after any history of
   edits is C19_simple_flag_sound; the pinned container broke it (finding F19). *)
Theorem C01_simple_fast_path : forall n labels dist_j Ucol p, (p < n)%nat ->
  unit_row (seq 0 n) (nthQ dist_j) p = Some p /\ unit_dist (seq 0 n) (nthQ dist_j) p = nthQ dist_j p
  /\ unit_utility labels (seq 0 n) dist_j Ucol p = nthQ Ucol (encode_label labels (nth p labels 0%Z)).
Proof. exact simple_fast_path. Qed.

Print Assumptions C01_kernel_is_shapley.
Print Assumptions C01_bruteforce_form_is_definition.
Print Assumptions C01_kernel_full.
Print Assumptions C01_neighbor_is_shapley.
Print Assumptions C01_game_is_nearest_present_row.
Print Assumptions C01_order_check_sound.
Print Assumptions C01_simple_fast_path.
