(* Executable correspondence checker for C19 cases (edit histories on a Provenance vs a plain list). *)
From Coq Require Import List Arith ZArith Bool.
From DS Require Import Spec.Dnf Model.Provenance Model.ProvOps Check.Harness.
Import ListNotations.

Record obs := mkObs { o_len : nat; o_view : list dnf; o_queries : list (list bool); o_shape : nat * nat }.

Record case := mkCase {
  c_units : nat;
  c_fs : list dnf;                 (* initial formulas *)
  c_ops : list rop;                (* the edit history, raw Python indices *)
  c_xs : list assignment;          (* assignments queried after every step *)
  i_obs : list obs;                (* impl: observation after the construction and after every edit *)
  i_list_ok : bool;                (* impl: a Python list of the same expressions under the same edits agreed on
                                      len, every read-back truth table and every query, after every step *)
}.

Definition eqb_lit := eqb_pair Nat.eqb Nat.eqb.
Definition eqb_dnf := eqb_list (eqb_list eqb_lit).
Definition eqb_obs_model (a b : obs) : bool :=
  Nat.eqb (o_len a) (o_len b) && eqb_list eqb_dnf (o_view a) (o_view b)
  && eqb_list eqb_bools (o_queries a) (o_queries b) && eqb_pair Nat.eqb Nat.eqb (o_shape a) (o_shape b).
Definition eqb_obs_spec (a b : obs) : bool :=
  Nat.eqb (o_len a) (o_len b) && eqb_list eqb_dnf (o_view a) (o_view b)
  && eqb_list eqb_bools (o_queries a) (o_queries b).

Definition observe_p (xs : list assignment) (p : prov) : obs :=
  mkObs (plen p) (view p) (map (fun x => query p (zs x)) xs) (pD p, pC p).
Definition observe_l (xs : list assignment) (l : list dnf) : obs :=
  mkObs (length l) l (map (fun x => map (eval_dnf x) l) xs) (0, 0).

Fixpoint trace_p (xs : list assignment) (p : prov) (ops : list rop) : list obs :=
  observe_p xs p :: match ops with [] => [] | r :: t => trace_p xs (apply_op p (resolve (plen p) r)) t end.
Fixpoint trace_l (xs : list assignment) (l : list dnf) (ops : list rop) : list obs :=
  observe_l xs l :: match ops with [] => [] | r :: t => trace_l xs (apply_list l (resolve (length l) r)) t end.

Definition check (c : case) : bool * bool * bool :=
  let tp := trace_p (c_xs c) (encode (c_fs c)) (c_ops c) in
  let tl := trace_l (c_xs c) (c_fs c) (c_ops c) in
  ( eqb_list eqb_obs_model (i_obs c) tp && i_list_ok c,
    eqb_list eqb_obs_spec (i_obs c) tl && i_list_ok c,
    eqb_list eqb_obs_spec tp tl ).

Definition explain (c : case) :=
  (trace_p (c_xs c) (encode (c_fs c)) (c_ops c), trace_l (c_xs c) (c_fs c) (c_ops c)).
