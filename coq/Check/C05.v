(* Executable correspondence checker for C05 cases (Provenance.query). *)
From Coq Require Import List Arith ZArith Bool.
From DS Require Import Spec.Dnf Model.Provenance Check.Harness.
Import ListNotations.

Record case := mkCase {
  c_units : nat;                         (* number of units *)
  c_fs : list dnf;                       (* the formulas stored *)
  c_x : assignment;                      (* assignment given as array and as list *)
  c_m : list (nat * nat);                (* assignment given as mapping (partial) *)
  i_data : list (list (list (Z * Z)));   (* impl: Provenance(expressions).data *)
  i_q_arr : list bool;                   (* impl: query(np.array(x)) *)
  i_q_list : list bool;                  (* impl: query(list(x)) *)
  i_q_map : list bool;                   (* impl: query(dict) *)
  i_q_int : list nat;                    (* impl: query(x, dtype=int) flattened *)
  c_edited : bool;                       (* the container was edited in place before these observations: its array may be
                                            padded wider than encode (c_fs) pads, and is compared up to padding *)
}.

Definition eqb_cell := eqb_pair Z.eqb Z.eqb.
Definition eqb_data := eqb_list (eqb_list (eqb_list eqb_cell)).

(* the stored array with the padding removed: cells (-1, -1) and conjunctions made of padding only *)
Definition strip (d : list (list (list (Z * Z)))) : list (list (list (Z * Z))) :=
  map (fun row => filter (fun cj => negb (Nat.eqb (length cj) 0))
                         (map (filter (fun cell : Z * Z => negb (Z.eqb (fst cell) (-1)))) row)) d.
Definition same_data (c : case) (m : list (list (list (Z * Z)))) : bool :=
  if c_edited c then eqb_data (strip (i_data c)) (strip m) else eqb_data (i_data c) m.

Definition check (c : case) : bool * bool * bool :=
  let p := encode (c_fs c) in
  let xm := from_mapping (c_units c) (c_m c) in
  let m_arr := query p (zs (c_x c)) in
  let m_map := query p (zs xm) in
  let m_int := query_int p (zs (c_x c)) in
  let s_arr := map (eval_dnf (c_x c)) (c_fs c) in
  let s_map := map (eval_dnf xm) (c_fs c) in
  let s_int := argwhere s_arr in
  ( same_data c (prow p) && eqb_bools (i_q_arr c) m_arr && eqb_bools (i_q_list c) m_arr
      && eqb_bools (i_q_map c) m_map && eqb_nats (i_q_int c) m_int,
    eqb_bools (i_q_arr c) s_arr && eqb_bools (i_q_list c) s_arr && eqb_bools (i_q_map c) s_map
      && eqb_nats (i_q_int c) s_int,
    eqb_bools m_arr s_arr && eqb_bools m_map s_map && eqb_nats m_int s_int ).

(* model-side outputs, printed into replay files for failing cases *)
Definition explain (c : case) :=
  let p := encode (c_fs c) in
  (prow p, query p (zs (c_x c)), map (eval_dnf (c_x c)) (c_fs c), query p (zs (from_mapping (c_units c) (c_m c)))).
