(* Executable correspondence checker for C06 (efficiency), on Check.C01 cases. *)
From Coq Require Import List Arith ZArith QArith Qabs Bool.
From DS Require Import Util.SumQ Spec.Shapley Spec.NNGame Model.Provenance Model.Kernel Model.KernelRound Model.Neighbor Check.Harness Check.C01.
Import ListNotations.
Local Open Scope Q_scope.

Definition case := C01.case.

(* full-data utility minus null utility, computed at ROW level independently of the kernel *)
Definition rhs (c : C01.case) (orders : list (list nat)) : Q :=
  row_game (c_labels c) (c_owner c) (c_dist c) (c_ucols c) (c_nulls c) orders (alltrue (c_n c))
  - sumQ (fun x => x) (c_nulls c) / qn (length (c_nulls c)).
Definition total (l : list Q) : Q := sumQ (fun x => x) l.

(* precision: every score returned by the implementation (binary64, converted exactly) lies within the PROVED forward error bound
   (C06_rounded_score, eps = 2^-53) of the exact score, for some admissible rank order *)
Definition eps64 : Q := 1 # (2 ^ 53).
Definition within_proved (c : C01.case) (orders : list (list nat)) : bool :=
  let n := c_n c in
  let ts := combine (combine (map (fun t => unit_utility (c_labels c) (c_owner c) (fst t) (snd t)) (combine (c_dist c) (c_ucols c)))
                             (c_nulls c)) orders in
  (* gamma_k = k eps / (1 - k eps) >= (1 + eps)^k - 1 (C06_gamma, k eps < 1): the closed form of the proved factor, cheap to
     evaluate (the exact power has 53 k-bit numerators) *)
  let k := Z.of_nat (3 * n + length ts + 1) in
  let G := (inject_Z k * eps64) / (1 - inject_Z k * eps64) in
  let exact := kernel_t n ts in let scale := akernel_t n ts in
  forallb (fun p => Qle_bool (Qabs (nth p (i_scores c) 0 - nth p exact 0)) (G * nth p scale 0)) (seq 0 n).

Definition check (c : case) : bool * bool * bool :=
  let hint := hd [] (c_alts c) in
  let valid := forallb (valid_orders c) (c_alts c) && negb (Nat.eqb (length (c_alts c)) 0) in
  let tol := c_tol c * qn (S (c_n c)) in
  let m := total (model_scores c hint) in
  ( valid && close tol (total (i_scores c)) m && existsb (within_proved c) (c_alts c),
    valid && existsb (fun o => close tol (total (i_scores c)) (rhs c o)) (c_alts c) && existsb (within_proved c) (c_alts c),
    Qeq_bool m (rhs c hint) ).

Definition explain (c : case) :=
  let hint := hd [] (c_alts c) in (Qred (total (i_scores c)), Qred (total (model_scores c hint)), Qred (rhs c hint), map (within_proved c) (c_alts c)).
