(* Executable correspondence checker for the Monte-Carlo method (C04 and C16 share it). *)
From Coq Require Import List Arith ZArith QArith Qabs Bool.
From DS Require Import Util.SumQ Spec.Shapley Spec.Dnf Model.Provenance Model.Bruteforce Model.MonteCarlo
     Check.Harness Check.C03.
Import ListNotations.
Local Open Scope Q_scope.

Record case := mkCase {
  c_n : nat; c_prov : C03.provspec; c_table : list (list bool * option Q);
  c_P : mcparams;                         (* null_score, mean_score, tolerance, truncation steps, timeout *)
  c_dt : Q;                               (* scripted clock: time() = dt * (number of utility evaluations so far) *)
  c_jump : Q;                             (* ... + jump at every reading but the first (a stall right after the start) *)
  c_stream : list (list nat);             (* `iterations` permutations from an INDEPENDENT RandomState(seed) (or the script) *)
  c_tol : Q;
  c_uniform : nat;                        (* > 0: the stream is that many copies of ALL permutations of the units *)
  i_perms : list (list nat);              (* impl: permutations drawn through the wrapped importance.randomstate *)
  i_scores : option (list Q);             (* impl: score(); None when some entry is NaN / infinite *)
  i_history : list (list bool);           (* impl: row selections the utility was called with, in order *)
  i_counts : list nat;                    (* impl: number of utility evaluations made for each drawn permutation *)
}.

Definition eqb_perms := eqb_list eqb_nats.
Definition v_model (c : case) (m : list bool) : Q :=
  score_of (C03.lookup (c_table c)) (mc_null (c_P c)) (rows_selected (C03.prov_of (c_prov c)) m).
Definition v_spec (c : case) (m : list bool) : Q :=
  score_of (C03.lookup (c_table c)) (mc_null (c_P c)) (C03.rows_spec (c_prov c) m).
Definition clock_of (c : case) (k : nat) : Q := if Nat.eqb k 0 then 0 else c_dt c * qn k + c_jump c.

Definition close_opt (tol : Q) (a b : option (list Q)) : bool :=
  match a, b with Some x, Some y => C03.close_list tol x y | None, None => true | _, _ => false end.

(* ---- model side: run the loop model on the independent stream ---- *)
Definition model_run (c : case) :=
  let r := mc_iter (c_P c) (c_n c) (v_model c) (clock_of c) (c_stream c) 0%nat [] in
  (average_cols (c_n c) (fst r), length (fst r),
   map (rows_selected (C03.prov_of (c_prov c))) (mc_history (c_P c) (c_n c) (v_model c) (clock_of c) (c_stream c) 0%nat)).

(* ---- C04 specification: average over the sampled permutations of each unit's marginal contribution to the units
   preceding it, evaluated on exactly the rows present for that prefix (the first one against v(no unit)) ---- *)
Definition spec_c04 (c : case) : list Q :=
  let v := v_spec c in let n := c_n c in
  map (fun p => sumQ (fun pi => marginal n v (v (allfalse n)) pi p) (c_stream c) / qn (length (c_stream c))) (seq 0 n).
Definition spec_shapley (c : case) : list Q := map (shapley (c_n c) (v_spec c)) (seq 0 (c_n c)).

(* ---- C16 specification, checked on what the implementation itself did ---- *)
Fixpoint split_counts {A} (l : list A) (counts : list nat) : list (list A) :=
  match counts with [] => [] | k :: t => firstn k l :: split_counts (skipn k l) t end.
(* marginal vector of one permutation of which only the first k units were evaluated *)
Definition truncated_vector (c : case) (pi : list nat) (k : nat) : list Q :=
  let v := v_spec c in let n := c_n c in
  map (fun p => if existsb (Nat.eqb p) (firstn k pi) then marginal n v (mc_null (c_P c)) pi p else 0) (seq 0 n).
Definition prefix_scores (c : case) (pi : list nat) (k : nat) : list Q :=    (* scores seen, most recent first *)
  rev (map (fun j => v_spec c (mask_of (c_n c) (firstn (S j) pi))) (seq 0 k)).
Definition cut_ok (c : case) (pi : list nat) (k : nat) : bool :=
  let P := c_P c in
  if Nat.ltb k (length pi)
  then Nat.ltb 0 (mc_steps P) && Nat.ltb (mc_steps P) k
       && forallb (in_band P) (firstn (S (mc_steps P)) (prefix_scores c pi k))
  else Nat.eqb k (length pi).
Fixpoint cumulative (l : list nat) (acc : nat) : list nat :=
  match l with [] => [] | k :: t => (acc + k)%nat :: cumulative t (acc + k)%nat end.
Definition timeout_ok (c : case) : bool :=
  let P := c_P c in
  let ends := cumulative (i_counts c) 0%nat in          (* evaluations made when each permutation completes *)
  let expired := fun e => negb (Qle_bool (mc_timeout P) 0) && negb (Qle_bool (clock_of c e - clock_of c 0%nat) (mc_timeout P)) in
  negb (Nat.eqb (length (i_perms c)) 0)
  && forallb (fun e => negb (expired e)) (removelast ends)
  && (Nat.eqb (length (i_perms c)) (length (c_stream c)) || expired (last ends 0%nat)).
Definition spec_c16 (c : case) : option (list Q) :=
  let n := c_n c in
  let vecs := map (fun pk => truncated_vector c (fst pk) (snd pk)) (combine (i_perms c) (i_counts c)) in
  match vecs with [] => None
  | _ => Some (map (fun p => sumQ (fun vec => nth p vec 0) vecs / qn (length vecs)) (seq 0 n)) end.

Definition is_c04 (c : case) : bool := Nat.eqb (mc_steps (c_P c)) 0 && Qle_bool (mc_timeout (c_P c)) 0.

Definition check (c : case) : bool * bool * bool :=
  let '(m_scores, m_used, m_hist) := model_run c in
  let stream_ok := eqb_perms (i_perms c) (firstn (length (i_perms c)) (c_stream c)) in
  let im := close_opt (c_tol c) (i_scores c) m_scores && Nat.eqb (length (i_perms c)) m_used
            && eqb_list eqb_bools (i_history c) m_hist && stream_ok in
  if is_c04 c
  then ( im,
         stream_ok && Nat.eqb (length (i_perms c)) (length (c_stream c))
           && close_opt (c_tol c) (i_scores c) (Some (spec_c04 c))
           && (if Nat.ltb 0 (c_uniform c) then close_opt (c_tol c) (i_scores c) (Some (spec_shapley c)) else true),
         match m_scores with Some s => eqb_qs s (spec_c04 c) | None => false end )
  else ( im,
         stream_ok && timeout_ok c && Nat.eqb (length (i_counts c)) (length (i_perms c))
           && forallb (fun pk => cut_ok c (fst pk) (snd pk)) (combine (i_perms c) (i_counts c))
           && close_opt (c_tol c) (i_scores c) (spec_c16 c),
         true ).

Definition explain (c : case) :=
  let '(m_scores, m_used, m_hist) := model_run c in
  (match m_scores with Some s => map Qred s | None => [] end, m_used, m_hist,
   if is_c04 c then map Qred (spec_c04 c) else match spec_c16 c with Some s => map Qred s | None => [] end).
