(* Executable correspondence checker for C07 (presentation invariance), built on Check.C01 cases. *)
From Coq Require Import List Arith ZArith QArith Qabs Bool.
From DS Require Import Util.SumQ Spec.Shapley Spec.NNGame Model.Provenance Model.Kernel Model.Neighbor Check.Harness Check.C01.
Import ListNotations.
Local Open Scope Q_scope.

Record case := mkCase {
  c_base : C01.case;                              (* the dataset as first presented, with the impl's scores *)
  c_variants : list (C01.case * list nat);        (* each other presentation with the impl's scores, and for every
                                                     unit k of the variant the unit of the base it corresponds to *)
  c_equal : list (nat * nat);                     (* pairs of interchangeable units of the base *)
  i_batch : list (N * N * N * N);             (* impl: (BATCH_DISTANCE_MATRIX_SIZE, n_train, n_test, get_test_batch_size) *)
}.

Definition one_ok (c : C01.case) : bool * bool * bool := C01.check c.
Definition mapped (base : list Q) (um : list nat) : list Q := map (fun k => nth k base 0) um.

Definition check (c : case) : bool * bool * bool :=
  let b := c_base c in
  let tol := c_tol b in
  let hint_b := hd [] (c_alts b) in
  let mb := model_scores b hint_b in
  let all := b :: map fst (c_variants c) in
  let batch_model := forallb (fun t => let '(bs, ntr, nte, r) := t in N.eqb r (get_test_batch_size bs ntr nte)) (i_batch c) in
  let batch_spec := forallb (fun t => let '(bs, ntr, nte, r) := t in N.eqb r nte) (i_batch c) in
  ( forallb (fun x => fst (fst (C01.check x))) all && batch_model,
    forallb (fun v => close_list tol (i_scores (fst v)) (mapped (i_scores b) (snd v))) (c_variants c)
      && forallb (fun pq => close tol (nth (fst pq) (i_scores b) 0) (nth (snd pq) (i_scores b) 0)) (c_equal c)
      && forallb (fun x => snd (fst (C01.check x))) all && batch_spec,
    forallb (fun v => eqb_qs (model_scores (fst v) (hd [] (c_alts (fst v)))) (mapped mb (snd v))) (c_variants c)
      && forallb (fun pq => Qeq_bool (nth (fst pq) mb 0) (nth (snd pq) mb 0)) (c_equal c)
      && forallb (fun t => let '(bs, ntr, nte, r) := t in N.eqb (get_test_batch_size bs ntr nte) nte) (i_batch c) ).

Definition explain (c : case) :=
  let b := c_base c in
  (map Qred (model_scores b (hd [] (c_alts b))),
   map (fun v => map Qred (model_scores (fst v) (hd [] (c_alts (fst v))))) (c_variants c),
   map (fun v => C01.check (fst v)) (c_variants c)).
