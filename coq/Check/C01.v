(* Executable correspondence checker for the K=1 neighbor path (C01; reused by C06, C07, C08). *)
From Coq Require Import List Arith ZArith QArith Qabs Bool.
From DS Require Import Util.SumQ Spec.Shapley Spec.NNGame Model.Provenance Model.Kernel Model.Neighbor Check.Harness.
Import ListNotations.
Local Open Scope Q_scope.

Record case := mkCase {
  c_n : nat;                          (* number of units *)
  c_labels : list Z;                  (* training labels (raw) *)
  c_owner : list nat;                 (* unit owning each training row *)
  c_dist : list (list Q);             (* per validation point: distance of every training row *)
  c_ucols : list (list Q);            (* per validation point: utility of every (encoded) class *)
  c_nulls : list Q;                   (* per validation point: null score *)
  c_alts : list (list (list nat));    (* candidate rank orders per validation point; the first is the hint
                                         (numpy argsort of the reduced distances); others permute tie groups.
                                         Every candidate is VALIDATED here, none is trusted. *)
  c_tol : Q;                          (* 2^-40 * scale, for comparing binary64 results with exact rationals *)
  c_do_spec : bool;                   (* evaluate the Shapley value by definition (exponential; small n only) *)
  i_scores : list Q;                  (* impl: score() result, every float converted exactly *)
}.

Definition close (tol a b : Q) : bool := Qle_bool (Qabs (a - b)) tol.
Definition close_list (tol : Q) (a b : list Q) : bool := eqb_list (close tol) a b.

(* ---- the game of C01 written at ROW level, independently of the per-unit reduction of the code ----
   a coalition is worth the mean over validation points of the utility of the label of the nearest present
   row (null when no row is present); ties are broken by (rank of the owning unit in the given order, row index) *)
Definition rank_of (order : list nat) (q : nat) : nat :=
  (fix go (l : list nat) (k : nat) := match l with [] => k | a :: t => if Nat.eqb a q then k else go t (S k) end) order 0%nat.
Definition better (d : nat -> Q) (rk : nat -> nat) (owner : list nat) (r s : nat) : bool :=
  (* is r strictly better than s *)
  match Qcompare (d r) (d s) with
  | Lt => true | Gt => false
  | Eq => let a := rk (nth r owner 0%nat) in let b := rk (nth s owner 0%nat) in
          if Nat.ltb a b then true else if Nat.ltb b a then false else Nat.ltb r s
  end.
Definition best_present_row (owner : list nat) (d : nat -> Q) (order : list nat) (m : list bool) : option nat :=
  fold_left (fun best r => if nth (nth r owner 0%nat) m false
                           then match best with None => Some r
                                | Some s => if better d (rank_of order) owner r s then Some r else Some s end
                           else best) (seq 0 (length owner)) None.
Definition row_game (labels : list Z) (owner : list nat) (dist ucols : list (list Q)) (nulls : list Q)
           (orders : list (list nat)) (m : list bool) : Q :=
  sumQ (fun t : list Q * list Q * Q * list nat =>
          let '(dj, uj, nullj, oj) := t in
          match best_present_row owner (nthQ dj) oj m with
          | Some r => nthQ uj (encode_label labels (nth r labels 0%Z))
          | None => nullj end)
       (combine (combine (combine dist ucols) nulls) orders)
  / qn (length (combine (combine (combine dist ucols) nulls) orders)).

Definition spec_scores (c : case) (orders : list (list nat)) : list Q :=
  map (shapley (c_n c) (row_game (c_labels c) (c_owner c) (c_dist c) (c_ucols c) (c_nulls c) orders)) (seq 0 (c_n c)).
Definition model_scores (c : case) (orders : list (list nat)) : list Q :=
  neighbor1 (c_n c) (c_labels c) (c_owner c) (c_dist c) (c_ucols c) (c_nulls c) orders.

Definition valid_orders (c : case) (orders : list (list nat)) : bool :=
  Nat.eqb (length orders) (length (c_dist c))
  && forallb (fun t => valid_order (c_n c) (c_owner c) (fst t) (snd t)) (combine (c_dist c) orders).

Definition check (c : case) : bool * bool * bool :=
  let hint := hd [] (c_alts c) in
  let valid := forallb (valid_orders c) (c_alts c) && negb (Nat.eqb (length (c_alts c)) 0) in
  let m := model_scores c hint in
  let im := valid && close_list (c_tol c) (i_scores c) m in
  let is_ := if c_do_spec c
             then valid && existsb (fun o => close_list (c_tol c) (i_scores c) (spec_scores c o)) (c_alts c)
             else valid && existsb (fun o => close_list (c_tol c) (i_scores c) (model_scores c o)) (c_alts c) in
  let ms := if c_do_spec c then eqb_qs m (spec_scores c hint) else true in
  (im, is_, ms).

Definition explain (c : case) :=
  let hint := hd [] (c_alts c) in
  (forallb (valid_orders c) (c_alts c), map Qred (model_scores c hint),
   if c_do_spec c then map Qred (spec_scores c hint) else []).
