(* Helpers for the generated correspondence cases: boolean equalities and result rendering.
   Each case yields three booleans (impl = model, impl = spec, model = spec) printed as one digit 0..7. *)
From Coq Require Import List Arith ZArith QArith Bool String Ascii.
Import ListNotations.

Fixpoint eqb_list {A} (eqb : A -> A -> bool) (l1 l2 : list A) : bool :=
  match l1, l2 with
  | [], [] => true
  | a :: t1, b :: t2 => eqb a b && eqb_list eqb t1 t2
  | _, _ => false
  end.
Definition eqb_pair {A B} (ea : A -> A -> bool) (eb : B -> B -> bool) (p q : A * B) : bool :=
  ea (fst p) (fst q) && eb (snd p) (snd q).
Definition eqb_option {A} (ea : A -> A -> bool) (p q : option A) : bool :=
  match p, q with Some a, Some b => ea a b | None, None => true | _, _ => false end.
Definition eqb_bool := Bool.eqb.
Definition eqb_nats := eqb_list Nat.eqb.
Definition eqb_bools := eqb_list Bool.eqb.
Definition eqb_zs := eqb_list Z.eqb.
Definition eqb_qs := eqb_list Qeq_bool.

Definition q (n : Z) (d : positive) : Q := Qmake n d.

Definition flag (r : bool * bool * bool) : ascii :=
  match r with
  | (false, false, false) => "0" | (false, false, true) => "1" | (false, true, false) => "2" | (false, true, true) => "3"
  | (true, false, false) => "4" | (true, false, true) => "5" | (true, true, false) => "6" | (true, true, true) => "7"
  end%char.
Fixpoint render (l : list (bool * bool * bool)) : string :=
  match l with [] => EmptyString | r :: t => String (flag r) (render t) end.
