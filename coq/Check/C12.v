(* Executable correspondence checker for C12 cases (fork / selection / default / grouped / join). *)
From Coq Require Import List Arith ZArith Bool.
From DS Require Import Spec.Dnf Model.Provenance Proofs.ProvRowwise Proofs.JoinSpec Check.Harness.
Import ListNotations.

Inductive base := BForms (fs : list dnf) | BDefault (n : nat) | BGrouped (ids : list Z).
Inductive trans := TNone | TFork (reps : list nat) | TSelect (idx : list nat) | TMask (m : list bool).

Record rowcase := mkRow {
  c_base : base; c_trans : trans; c_x : assignment;
  i_units : list Z;          (* impl: p.units for a grouped provenance (empty otherwise) *)
  i_q_orig : list bool;      (* impl: query of the original provenance *)
  i_q_trans : list bool;     (* impl: query of the transformed provenance *)
  i_len : nat;               (* impl: len(transformed) *)
}.
Record joincase := mkJoin {
  j_fs : list dnf; j_gs : list dnf; j_x1 : assignment; j_x2 : assignment;
  j_mask : list bool;        (* impl: query of self.join(other, 'a', 'b') under the combined assignment *)
}.
Inductive case := CRow (r : rowcase) | CJoin (j : joincase).

Definition base_prov (b : base) : prov :=
  match b with BForms fs => encode fs | BDefault n => default_prov n | BGrouped ids => grouped_prov ids end.
Definition base_spec (b : base) (x : assignment) : list bool :=
  match b with
  | BForms fs => map (eval_dnf x) fs
  | BDefault n => map (fun i => Nat.eqb (nth i x 0) 1) (seq 0 n)
  | BGrouped ids => map (fun z => Nat.eqb (nth (position z (grouped_units ids)) x 0) 1) ids
  end.
Definition trans_prov (t : trans) (p : prov) : prov :=
  match t with TNone => p | TFork reps => fork p reps | TSelect idx => select p idx
          | TMask m => select p (mask_positions m) end.
Definition trans_list (t : trans) (l : list bool) : list bool :=
  match t with TNone => l | TFork reps => repeat_each l reps | TSelect idx => map (fun i => nth i l false) idx
          | TMask m => map (fun i => nth i l false) (mask_positions m) end.

Definition check_row (c : rowcase) : bool * bool * bool :=
  let p := base_prov (c_base c) in
  let vals := zs (c_x c) in
  let m_orig := query p vals in
  let m_trans := query (trans_prov (c_trans c) p) vals in
  let s_orig := base_spec (c_base c) (c_x c) in
  let s_trans := trans_list (c_trans c) s_orig in
  let units_ok := match c_base c with BGrouped ids => eqb_zs (i_units c) (grouped_units ids) | _ => true end in
  ( units_ok && eqb_bools (i_q_orig c) m_orig && eqb_bools (i_q_trans c) m_trans
      && Nat.eqb (i_len c) (plen (trans_prov (c_trans c) p)),
    (* metamorphic, implementation against itself, plus the stated presence rule *)
    units_ok && eqb_bools (i_q_trans c) (trans_list (c_trans c) (i_q_orig c)) && eqb_bools (i_q_orig c) s_orig
      && Nat.eqb (i_len c) (length s_trans),
    eqb_bools m_orig s_orig && eqb_bools m_trans s_trans ).

Definition check_join (j : joincase) : bool * bool * bool :=
  let s := pair_and (map (eval_dnf (j_x1 j)) (j_fs j)) (map (eval_dnf (j_x2 j)) (j_gs j)) in
  let m := map (eval_dnf (j_x1 j ++ j_x2 j)) (join_spec (length (j_x1 j)) (j_fs j) (j_gs j)) in
  (eqb_bools (j_mask j) m, eqb_bools (j_mask j) s, eqb_bools m s).

Definition check (c : case) := match c with CRow r => check_row r | CJoin j => check_join j end.

Definition explain (c : case) :=
  match c with
  | CRow r => let p := base_prov (c_base r) in
              (query p (zs (c_x r)), query (trans_prov (c_trans r) p) (zs (c_x r)), base_spec (c_base r) (c_x r))
  | CJoin j => ([], [], pair_and (map (eval_dnf (j_x1 j)) (j_fs j)) (map (eval_dnf (j_x2 j)) (j_gs j)))
  end.
