(* C18: runtime observations made by the differential run; each entry is one named check that held or not.
   For C15 the exception-flow model predicts the score of every evaluated subset. *)
From Coq Require Import List Arith ZArith QArith Qabs Bool.
From DS Require Import Model.Runtime Check.Harness.
Import ListNotations.
Local Open Scope Q_scope.

Record case := mkCase {
  c_checks : list bool;                               (* impl: runtime observations (all must hold) *)
  c_evals : list (evaluation * Q * option Q);         (* (independently classified evaluation, supplied null, impl score or None = raised/non-finite) *)
  c_tol : Q;
}.
Definition close (tol a b : Q) : bool := Qle_bool (Qabs (a - b)) tol.
Definition check (c : case) : bool * bool * bool :=
  let evals_ok := forallb (fun t => let '(e, null, got) := t in
                     match method_score e null, got with
                     | RScore q, Some g => close (c_tol c) q g
                     | RRaise, None => true
                     | _, _ => false end) (c_evals c) in
  let total := forallb (fun t => let '(e, null, got) := t in
                     match got with Some g => if handled e then true else false | None => negb (handled e) end) (c_evals c) in
  (forallb (fun b => b) (c_checks c) && evals_ok, forallb (fun b => b) (c_checks c) && evals_ok && total, true).
Definition explain (c : case) := (c_checks c, map (fun t => let '(e, null, got) := t in (method_score e null, got)) (c_evals c)).
