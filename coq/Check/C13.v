(* Executable correspondence checker for C13 cases (compiled kernel vs reference kernel, bit level). *)
From Coq Require Import PrimFloat Uint63 List Arith Bool.
From DS Require Import Model.KernelFloat Check.Harness.
Import ListNotations.

Record case := mkCase {
  c_ref : kargs;                 (* arguments with orders as np.argsort(unit_distances[:, j]) gives them *)
  c_cy_orders : list (list nat); (* orders as np.argsort(unit_distances, axis=0)[:, j] gives them *)
  c_tol : float;                 (* 2^-40 * (1 + max |utility|): "to within double-precision rounding" *)
  i_cy : list float;             (* impl: freshly compiled compute_all_importances_cy(...) *)
  i_ref : list float;            (* impl: compute_all_importances(...) *)
}.

Definition bits_eq_list := eqb_list fbits_eq.
Definition close_f (tol x y : float) : bool :=
  match PrimFloat.compare (abs (x - y)) tol with FLt => true | FEq => true | _ => fbits_eq x y end.

Definition check (c : case) : bool * bool * bool :=
  let a := c_ref c in
  let acy := mkArgs (k_units a) (k_test a) (k_classes a) (k_labels a) (k_utils a) (k_nulls a) (c_cy_orders c) in
  let m_ref := kernel_ref_f a in
  let m_cy := kernel_cy_f acy in
  ( bits_eq_list (i_cy c) m_cy && bits_eq_list (i_ref c) m_ref,
    eqb_list (close_f (c_tol c)) (i_cy c) (i_ref c),
    eqb_list (close_f (c_tol c)) m_cy m_ref ).

Definition explain (c : case) :=
  let a := c_ref c in
  (kernel_ref_f a, kernel_cy_f (mkArgs (k_units a) (k_test a) (k_classes a) (k_labels a) (k_utils a) (k_nulls a) (c_cy_orders c))).
