(* Executable correspondence checker for C03 (bruteforce with a recording table utility). *)
From Coq Require Import List Arith ZArith QArith Qabs Bool.
From DS Require Import Util.SumQ Spec.Shapley Spec.Dnf Model.Provenance Model.Bruteforce Check.Harness.
Import ListNotations.
Local Open Scope Q_scope.

Inductive provspec := PForms (fs : list dnf) | PDefault (n : nat) | PGrouped (ids : list Z).

Record case := mkCase {
  c_n : nat;                                   (* number of units *)
  c_prov : provspec;
  c_table : list (list bool * option Q);       (* utility: selected rows -> value, None = the evaluation fails *)
  c_null : Q;
  c_tol : Q;
  i_scores : list Q;                           (* impl: score() *)
  i_history : list (list bool);                (* impl: the row selections the utility was called with, in order *)
}.

Definition prov_of (s : provspec) : prov :=
  match s with PForms fs => encode fs | PDefault n => default_prov n | PGrouped ids => grouped_prov ids end.
(* row presence by definition (independent of the array model) *)
Definition rows_spec (s : provspec) (m : list bool) : list bool :=
  let x := map (fun b : bool => if b then 1 else 0)%nat m in
  match s with
  | PForms fs => map (eval_dnf x) fs
  | PDefault n => map (fun i => Nat.eqb (nth i x 0%nat) 1) (seq 0 n)
  | PGrouped ids => map (fun z => Nat.eqb (nth (position z (grouped_units ids)) x 0%nat) 1) ids
  end.

Fixpoint lookup (t : list (list bool * option Q)) (rows : list bool) : outcome :=
  match t with
  | [] => Failed
  | (k, v) :: r => if eqb_bools k rows then match v with Some q => Ok q | None => Failed end else lookup r rows
  end.

Definition close (tol a b : Q) : bool := Qle_bool (Qabs (a - b)) tol.
Definition close_list (tol : Q) := eqb_list (close tol).

Definition check (c : case) : bool * bool * bool :=
  let p := prov_of (c_prov c) in
  let u := lookup (c_table c) in
  let m := bruteforce (c_n c) p u (c_null c) in
  let v := fun msk => score_of u (c_null c) (rows_spec (c_prov c) msk) in
  let s := map (shapley (c_n c) v) (seq 0 (c_n c)) in
  ( close_list (c_tol c) (i_scores c) m && eqb_list eqb_bools (i_history c) (bf_history (c_n c) p),
    close_list (c_tol c) (i_scores c) s && eqb_list eqb_bools (i_history c) (map (rows_spec (c_prov c)) (masks (c_n c))),
    eqb_qs m s ).

Definition explain (c : case) :=
  let p := prov_of (c_prov c) in
  (map Qred (bruteforce (c_n c) p (lookup (c_table c)) (c_null c)), bf_history (c_n c) p,
   map (fun i => Qred (shapley (c_n c) (fun msk => score_of (lookup (c_table c)) (c_null c) (rows_spec (c_prov c) msk)) i)) (seq 0 (c_n c))).
