(* C16 cases use the Monte-Carlo checker of Check/C04.v (its C16 branch: truncation or timeout enabled). *)
From DS Require Import Check.C04.
Definition case := C04.case.
Definition check := C04.check.
Definition explain := C04.explain.
