(* Executable correspondence checker for C09 (the Shapley oracle). *)
From Coq Require Import List Arith ZArith QArith Bool.
From DS Require Import Model.ADD Spec.Count Model.Oracle Check.Harness.
Import ListNotations.
Local Close Scope Q_scope.

Record case := mkCase {
  c_prob : cprob;
  c_add : add;                                         (* impl: the compiled diagram, dumped *)
  c_locs : list (list loc);                            (* impl: the compiled update locations of every row *)
  c_chain : bool;                                      (* one literal per row: compile itself is modelled *)
  c_hints : list comp;                                 (* otherwise: the component structure (factors, leaves) compile() derives *)
  c_order : list nat;                                  (* np.argsort(degrees): the visiting order of the greedy leaf selection *)
  c_comps : list (list nat);                           (* scipy's connected components *)
  c_degrees : list nat;                                (* the degrees the code computes *)
  c_queries : list (nat * nat * option nat * list nat) (* (target, boundary_with, boundary_without, impl counts in domain order) *)
}.

Definition eqb_locs := eqb_list (eqb_list eqb_loc).

(* the graph step: the recomputed inputs are admissible (graph_ok), the degrees are the modelled ones, the order is sorted by
   degree, and the modelled derivation yields the structure the code derives *)
Definition eqb_comp (a b : comp) : bool := eqb_nats (fst a) (fst b) && eqb_nats (snd a) (snd b).
Fixpoint sorted_by (f : nat -> nat) (l : list nat) : bool :=
  match l with a :: ((b :: _) as r) => Nat.leb (f a) (f b) && sorted_by f r | _ => true end.
Definition graph_step_ok (c : case) : bool :=
  let p := c_prob c in let n := p_units p in
  graph_ok n (p_rows p) (c_order c) (c_comps c)
  && eqb_nats (c_degrees c) (map (degree (p_rows p) n) (seq 0 n))
  && sorted_by (degree (p_rows p) n) (c_order c)
  && eqb_lists eqb_comp (build_hints n (p_rows p) (c_order c) (c_comps c)) (c_hints c).

Definition check (c : case) : bool * bool * bool :=
  let p := c_prob c in let d := c_add c in let locs := c_locs c in
  let ok := (if Nat.leb 2 (p_units p) then valid_compiled p d locs else compiled_ok p d locs)
            && (if c_chain c
                then let '(d', l') := compile_chain (p_type p) (p_units p) (map (fun r => (hd 0 r, true)) (p_rows p)) in
                     eqb_locs locs l' && eqb_nats (d_units d) (d_units d') && Nat.eqb (length (d_levels d)) (length (d_levels d'))
                else let '(dm, lm) := compile_model (p_type p) (c_hints c) (p_rows p) in
                     hints_ok (p_units p) (p_rows p) (c_hints c) && eqb_add dm d && eqb_lists same_locs lm locs
                     && graph_step_ok c) in
  let total := 2 ^ (p_units p - 1) in
  ( ok && forallb (fun q => let '(tg, t1, t2, cnts) := q in
                            match oracle_query p d locs tg t1 t2 with Some m => eqb_nats cnts m | None => false end) (c_queries c),
    forallb (fun q => let '(tg, t1, t2, cnts) := q in
                      eqb_nats cnts (count_spec p tg t1 t2) && Nat.eqb (sum_nat cnts) total) (c_queries c),
    ok && forallb (fun q => let '(tg, t1, t2, _) := q in
                            match oracle_query p d locs tg t1 t2 with Some m => eqb_nats m (count_spec p tg t1 t2) | None => false end)
                  (c_queries c) ).

Definition explain (c : case) :=
  let p := c_prob c in
  (compiled_ok p (c_add c) (c_locs c), valid_compiled p (c_add c) (c_locs c),
   map (fun q => let '(tg, t1, t2, _) := q in (oracle_query p (c_add c) (c_locs c) tg t1 t2, count_spec p tg t1 t2)) (firstn 3 (c_queries c))).
