(* Executable correspondence checker for C10 (AValue / ATally algebra and decision-diagram operations). *)
From Coq Require Import List Arith ZArith Bool.
From DS Require Import Model.ADD Check.Harness.
Import ListNotations.

Definition eqb_avals := eqb_list a_eqb.
Definition table (d : add) : list aval := map (eval d) (bmasks (length (d_levels d))).

(* ---- operation sequences on dumped diagrams ---- *)
Inductive dop := OSum (other : add) | ORestrict (idx : nat) (v : bool).
Record opcase := mkOps {
  o_start : add;                       (* the diagram as dumped from the implementation (root, nodes, child, adder) *)
  o_ops : list dop;
  i_tables : list (list aval);         (* impl: value at every assignment, for the start diagram and after every operation *)
  i_counts : list (list nat);          (* impl: modelcount() of the start diagram and after every operation *)
}.
Definition apply_dop (d : add) (o : dop) : add :=
  match o with OSum other => add_sum d other
             | ORestrict idx v => match add_restrict d idx v with Some r => r | None => d end end.
Fixpoint trace (d : add) (ops : list dop) : list add :=
  d :: match ops with [] => [] | o :: t => trace (apply_dop d o) t end.

Definition insert_at {A} (i : nat) (v : A) (l : list A) : list A := firstn i l ++ v :: skipn i l.
(* pointwise semantics, stated on the implementation's own outputs *)
Fixpoint spec_steps (tbl : list aval) (nvars : nat) (t : atype) (ops : list dop) (rest : list (list aval)) : bool :=
  match ops, rest with
  | [], [] => true
  | o :: ops', tbl' :: rest' =>
      (match o with
       | OSum other => eqb_avals tbl' (map (fun p => a_add t (fst p) (snd p)) (combine tbl (table other)))
                       && spec_steps tbl' nvars t ops' rest'
       | ORestrict idx v =>
           eqb_avals tbl' (map (fun x => nth (pos_of (Some (map (fun b : bool => if b then 1 else 0) (insert_at idx v x)))
                                                     (map (fun m => Some (map (fun b : bool => if b then 1 else 0) m)) (bmasks nvars)))
                                             tbl None) (bmasks (nvars - 1)))
           && spec_steps tbl' (nvars - 1) t ops' rest'
       end)
  | _, _ => false
  end.

Definition check_ops (c : opcase) : bool * bool * bool :=
  let ds := trace (o_start c) (o_ops c) in
  let t := d_type (o_start c) in
  let m_tables := map table ds in
  let m_counts := map add_modelcount ds in
  ( eqb_list eqb_avals (i_tables c) m_tables && eqb_list eqb_nats (i_counts c) m_counts,
    match i_tables c with
    | [] => false
    | t0 :: rest => eqb_avals t0 (table (o_start c))     (* evaluation itself: the walk along the dumped arrays *)
                    && spec_steps t0 (length (d_levels (o_start c))) t (o_ops c) rest
    end && eqb_list eqb_nats (i_counts c) (map (histogram t) (i_tables c)),
    eqb_list eqb_nats m_counts (map (histogram t) m_tables) ).

(* ---- constructors ---- *)
Inductive cterm := CLeaf (d : add) | CStack (nf : nat) (els : list cterm) | CConcat (els : list cterm).
Fixpoint build (c : cterm) : add :=
  match c with
  | CLeaf d => d
  | CStack nf els => add_stack (seq 1000 nf) (map build els)
  | CConcat els => add_concatenate (map build els)
  end.
Fixpoint nvars (c : cterm) : nat :=
  match c with
  | CLeaf d => length (d_levels d)
  | CStack nf els => nf + match els with e :: _ => nvars e | [] => 0 end
  | CConcat els => fold_right Nat.add 0 (map nvars els)
  end.
Fixpoint bits_to_nat (l : list bool) (acc : nat) : nat :=
  match l with [] => acc | b :: t => bits_to_nat t (2 * acc + (if b then 1 else 0)) end.
Definition ctype (c : cterm) : atype :=
  (fix go (c : cterm) := match c with CLeaf d => d_type d | CStack _ (e :: _) => go e | CConcat (e :: _) => go e
                                       | _ => plain [] end) c.
(* semantics by structure: a stack selects the element named by the factor bits; a concatenation adds up *)
Fixpoint sem (fuel : nat) (t : atype) (c : cterm) (x : list bool) : aval :=
  match fuel with O => None | S f =>
    match c with
    | CLeaf d => eval d x
    | CStack nf els => match nth_error els (bits_to_nat (firstn nf x) 0) with
                       | Some e => sem f t e (skipn nf x) | None => None end
    | CConcat els =>
        (fix go (els : list cterm) (x : list bool) (acc : aval) :=
           match els with [] => acc
           | e :: r => go r (skipn (nvars e) x) (a_add t acc (sem f t e (firstn (nvars e) x))) end) els x (a_zero t)
    end
  end.
Record conscase := mkCons { k_term : cterm; k_table : list aval; k_count : list nat }.
Definition check_cons (c : conscase) : bool * bool * bool :=
  let d := build (k_term c) in let t := ctype (k_term c) in
  let n := nvars (k_term c) in
  let m_tbl := map (eval d) (bmasks n) in
  let s_tbl := map (sem 20 t (k_term c)) (bmasks n) in
  ( eqb_avals (k_table c) m_tbl && eqb_nats (k_count c) (add_modelcount d),
    eqb_avals (k_table c) s_tbl && eqb_nats (k_count c) (histogram t (k_table c)),
    eqb_avals m_tbl s_tbl ).

(* ---- values ---- *)
Record valcase := mkVal {
  v_type : atype;
  v_domain : list aval;                              (* impl: list(atype.domain()) *)
  v_index : list nat;                                (* impl: operator.index of every domain element *)
  v_ops : list (aval * aval * aval * aval);          (* impl: (x, y, x + y, x - y) for valid x *)
  v_hash_ok : bool;                                  (* impl: equal values hash equally, == agrees with the value tuples,
                                                        in-place and out-of-place results agree, dict lookups work *)
}.
Definition spec_add (t : atype) (x y : aval) : aval :=
  match x, y with Some a, Some b => let s := vadd a b in if inb t s then Some s else None | _, _ => None end.
Definition spec_sub (t : atype) (x y : aval) : aval :=
  match x, y with Some a, Some b => if vle b a then Some (vsub a b) else None | _, _ => None end.
Definition check_val (c : valcase) : bool * bool * bool :=
  let t := v_type c in
  ( eqb_avals (v_domain c) (domain t) && eqb_nats (v_index c) (map (a_index t) (domain t)) && v_hash_ok c
      && forallb (fun q => let '(x, y, s, d) := q in a_eqb s (a_add t x y) && a_eqb d (a_sub t x y)) (v_ops c),
    eqb_nats (v_index c) (seq 0 (length (v_domain c))) && v_hash_ok c
      && forallb (fun q => let '(x, y, s, d) := q in a_eqb s (spec_add t x y) && a_eqb d (spec_sub t x y)) (v_ops c),
    eqb_nats (map (a_index t) (domain t)) (seq 0 (length (domain t))) ).

Inductive case := COps (c : opcase) | CCons (c : conscase) | CVal (c : valcase).
Definition check (c : case) := match c with COps o => check_ops o | CCons k => check_cons k | CVal v => check_val v end.
Definition explain (c : case) :=
  match c with
  | COps o => (map table (trace (o_start o) (o_ops o)), map add_modelcount (trace (o_start o) (o_ops o)))
  | CCons k => ([map (eval (build (k_term k))) (bmasks (nvars (k_term k)))], [add_modelcount (build (k_term k))])
  | CVal v => ([domain (v_type v)], [map (a_index (v_type v)) (domain (v_type v))])
  end.
