(* Executable correspondence checker for C11 cases (expression operators and read-back). *)
From Coq Require Import List Arith ZArith Bool.
From DS Require Import Spec.Dnf Model.Provenance Model.Expr Check.Harness.
Import ListNotations.

Record case := mkCase {
  c_units : nat; c_cands : nat;
  c_ts : list tree;                       (* expressions as written with & and | *)
  i_kind : list nat;                      (* impl: class of each result (0 Equality, 1 Conjunction, 2 Disjunction) *)
  i_dnf : list dnf;                       (* impl: literals of each result *)
  i_tt_list : list (list bool);           (* impl: truth table of each result, values given as list *)
  i_tt_arr : list (list bool);            (*       ... as ndarray *)
  i_tt_map : list (list bool);            (*       ... as dict *)
  i_unchanged : bool;                     (* impl: every operand (structure and data) unchanged by every operator
                                             application and by later mutation of the result *)
  i_back_dnf : list dnf;                  (* impl: literals of Provenance(es)[i] for every i *)
  i_back_tt : list (list bool);           (* impl: truth table of Provenance(es)[i] *)
}.

Definition kind_of (e : expr) : nat := match e with Eq _ => 0 | Conj _ => 1 | Disj _ => 2 end.
Definition eqb_lit := eqb_pair Nat.eqb Nat.eqb.
Definition eqb_dnf := eqb_list (eqb_list eqb_lit).
Definition eqb_tts := eqb_list eqb_bools.

Definition check (c : case) : bool * bool * bool :=
  let es := map build (c_ts c) in
  let xs := assigns (c_units c) (c_cands c) in
  let s_tt := map (fun t => map (fun x => eval_tree x t) xs) (c_ts c) in
  let m_tt := map (fun e => map (fun x => eval_expr x e) xs) es in
  let p := encode (map to_dnf es) in
  let m_back := map (getitem p) (seq 0 (length es)) in
  let m_back_tt := map (fun f => map (fun x => eval_dnf x f) xs) m_back in
  ( eqb_nats (i_kind c) (map kind_of es) && eqb_list eqb_dnf (i_dnf c) (map to_dnf es)
      && eqb_tts (i_tt_list c) m_tt && eqb_tts (i_tt_arr c) m_tt && eqb_tts (i_tt_map c) m_tt
      && i_unchanged c && eqb_list eqb_dnf (i_back_dnf c) m_back && eqb_tts (i_back_tt c) m_back_tt,
    eqb_tts (i_tt_list c) s_tt && eqb_tts (i_tt_arr c) s_tt && eqb_tts (i_tt_map c) s_tt
      && i_unchanged c && eqb_tts (i_back_tt c) s_tt,
    eqb_tts m_tt s_tt && eqb_tts m_back_tt s_tt ).

Definition explain (c : case) :=
  let es := map build (c_ts c) in
  (map kind_of es, map to_dnf es, map (getitem (encode (map to_dnf es))) (seq 0 (length es))).
