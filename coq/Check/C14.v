(* Executable correspondence checker for C14 (element-wise utilities). *)
From Coq Require Import List Arith ZArith QArith Qabs Bool.
From DS Require Import Util.SumQ Spec.Shapley Model.Provenance Model.Neighbor Model.Utility Check.Harness.
Import ListNotations.
Local Open Scope Q_scope.

Record case := mkCase {
  c_auc : bool;                       (* false: accuracy utility; true: ROC-AUC utility (binary labels) *)
  c_train : list Z; c_yt : list Z; c_yp : list Z;
  c_tol : Q;
  i_table : list (list Q);            (* impl: elementwise_score(...) *)
  i_null_vec : list Q;                (* impl: elementwise_null_score(...) *)
  i_null_score : Q;                   (* impl: null_score(...) *)
  i_metric : Q;                       (* scikit-learn: accuracy_score / roc_auc_score of the prediction vector *)
}.

Definition close (tol a b : Q) : bool := Qle_bool (Qabs (a - b)) tol.
Definition close_list (tol : Q) := eqb_list (close tol).
Definition total (l : list Q) : Q := sumQ (fun x => x) l.

Definition check (c : case) : bool * bool * bool :=
  let tol := c_tol c in let n := qn (length (c_yt c)) in
  if c_auc c
  then let mt := auc_table (c_train c) (c_yt c) in let mn := auc_null_vector (c_yt c) in
       ( eqb_list (close_list tol) (i_table c) mt && close_list tol (i_null_vec c) mn && close tol (i_null_score c) (1 # 2),
         close tol (total (picked (i_table c) (c_train c) (c_yp c))) (i_metric c)
           && close tol (total (i_null_vec c)) (i_null_score c),
         match classes (c_train c) with
         | [a; b] => Qeq_bool (total (picked mt (c_train c) (c_yp c))) (balanced_acc2 (c_yt c) (c_yp c) a b) && Qeq_bool (total mn) (1 # 2)
         | _ => false end )
  else let mt := acc_table (c_train c) (c_yt c) in let mn := acc_null_vector (c_train c) (c_yt c) in
       ( eqb_list (close_list tol) (i_table c) mt && close_list tol (i_null_vec c) mn
           && close tol (i_null_score c) (acc_null_score (c_train c) (c_yt c)),
         close tol (total (picked (i_table c) (c_train c) (c_yp c)) / n) (i_metric c)
           && close tol (total (i_null_vec c) / n) (i_null_score c),
         Qeq_bool (total (picked mt (c_train c) (c_yp c)) / n) (accuracy (c_yt c) (c_yp c))
           && Qeq_bool (total mn / n) (acc_null_score (c_train c) (c_yt c)) ).

Definition explain (c : case) :=
  if c_auc c then (map (map Qred) (auc_table (c_train c) (c_yt c)), map Qred (auc_null_vector (c_yt c)), 1 # 2)
  else (map (map Qred) (acc_table (c_train c) (c_yt c)), map Qred (acc_null_vector (c_train c) (c_yt c)),
        Qred (acc_null_score (c_train c) (c_yt c))).
