(* Executable correspondence checker for C02 (KNN / join-provenance neighbor scores through the ADD path). *)
From Coq Require Import List Arith ZArith QArith Qabs Bool.
From DS Require Import Util.SumQ Spec.Shapley Model.ADD Spec.Count Spec.Knn Model.Oracle Model.ShapleyAdd Check.Harness.
Import ListNotations.
Local Open Scope Q_scope.

Record case := mkCase {
  c_units : nat; c_k : nat; c_classes : nat;
  c_rows : list (list nat); c_labels : list nat;
  c_dists : list (list Q);              (* per validation point *)
  c_ucols : list (list Q); c_nulls : list Q;
  c_tol : Q;
  i_scores : list Q;                    (* impl: neighbor with nn_k = K *)
  i_bruteforce : option (list Q);       (* impl: bruteforce over a K-nearest-neighbour classifier utility (same data) *)
  i_compiled : option (add * list (list loc));   (* impl: what compile() returns for this provenance and tally type *)
}.

Definition close (tol a b : Q) : bool := Qle_bool (Qabs (a - b)) tol.
Definition close_list (tol : Q) := eqb_list (close tol).

Definition prob_of (c : case) (dist : list Q) : cprob :=
  mkProb (c_units c) (c_rows c) (c_labels c) dist (c_units c - 1) (c_k c) (c_classes c).

Definition model_scores (c : case) : list Q :=
  let ps := map (prob_of c) (c_dists c) in
  shapley_add ps (map (fun p => count_spec p) ps) (c_ucols c) (c_nulls c) (c_units c).
Definition spec_scores (c : case) : list Q :=
  map (shapley (c_units c) (v_knn (c_k c) (c_classes c) (c_rows c) (c_labels c) (c_dists c) (c_ucols c) (c_nulls c)))
      (seq 0 (c_units c)).

Definition spec_scores_sorted (c : case) : list Q :=
  map (shapley (c_units c) (v_knn_sorted (c_k c) (c_classes c) (c_rows c) (c_labels c) (c_dists c) (c_ucols c) (c_nulls c)))
      (seq 0 (c_units c)).

Definition check (c : case) : bool * bool * bool :=
  let m := model_scores c in let s := spec_scores c in
  ( close_list (c_tol c) (i_scores c) m
      && match i_compiled c with Some (d, locs) => valid_compiled (prob_of c []) d locs | None => true end,
    close_list (c_tol c) (i_scores c) s && close_list (c_tol c) (i_scores c) (spec_scores_sorted c)
      && match i_bruteforce c with Some b => close_list (c_tol c) (i_scores c) b | None => true end,
    eqb_qs m s ).

Definition explain (c : case) := (map Qred (model_scores c), map Qred (spec_scores c)).
