(* Executable correspondence checker for C08 (linearity; JointUtility). *)
From Coq Require Import List Arith ZArith QArith Qabs Bool.
From DS Require Import Util.SumQ Spec.Shapley Spec.NNGame Model.Provenance Model.Kernel Model.Neighbor Model.Utility
     Check.Harness Check.C01.
Import ListNotations.
Local Open Scope Q_scope.

Record k1case := mkK1 {
  c_n : nat; c_labels : list Z; c_owner : list nat; c_dist : list (list Q);
  c_alts : list (list (list nat)); c_tol : Q;
  c_ws : list Q;                               (* weights (any sign, not normalised) *)
  c_tables : list (list (list Q));             (* component element-wise score tables, classes x points *)
  c_nullvs : list (list Q);                    (* component element-wise null vectors *)
  i_joint_table : list (list Q);               (* impl: JointUtility.elementwise_score(...) *)
  i_joint_null : list Q;                       (* impl: JointUtility.elementwise_null_score(...) *)
  i_scalars : list (Q * Q * list Q);           (* impl: (joint value, joint value via weighted sum of impl component
                                                  values, component values) for null_score, mean_score, score *)
  i_calls : list (list (option Q) * Q * Q);    (* impl: JointUtility.__call__: (component scores, None = NaN i.e. failed;
                                                  the null score passed in; the joint score returned) *)
  i_joint : list Q;                            (* impl: neighbor scores under the joint utility *)
  i_comps : list (list Q);                     (* impl: neighbor scores under each component *)
}.
(* relation between runs only (K>1 / ADD path, bruteforce): joint scores vs weighted sum of component scores *)
Record relcase := mkRel { r_ws : list Q; r_tol : Q; r_joint : list Q; r_comps : list (list Q) }.
Inductive case := CK1 (c : k1case) | CRel (r : relcase).

Definition transpose_tbl (T : nat) (tbl : list (list Q)) : list (list Q) :=
  map (fun j => map (fun row => nthQ row j) tbl) (seq 0 T).
Definition wsum (ws : list Q) (vs : list (list Q)) (n : nat) : list Q :=
  map (fun p => sumQ (fun wv => fst wv * nthQ (snd wv) p) (combine ws vs)) (seq 0 n).

Definition scores_of (c : k1case) (tbl : list (list Q)) (nulls : list Q) : list Q :=
  neighbor1 (c_n c) (c_labels c) (c_owner c) (c_dist c) (transpose_tbl (length (c_dist c)) tbl) nulls (hd [] (c_alts c)).

Definition check_k1 (c : k1case) : bool * bool * bool :=
  let jt := joint_table (c_ws c) (c_tables c) in
  let jn := joint_vector (c_ws c) (c_nullvs c) in
  let tol := c_tol c in
  let valid := forallb (fun o => Nat.eqb (length o) (length (c_dist c))
                 && forallb (fun t => valid_order (c_n c) (c_owner c) (fst t) (snd t)) (combine (c_dist c) o)) (c_alts c) in
  let m_joint := scores_of c jt jn in
  let m_comps := map (fun tn => scores_of c (fst tn) (snd tn)) (combine (c_tables c) (c_nullvs c)) in
  let acc_model := eqb_list (close_list tol) (i_joint_table c) jt && close_list tol (i_joint_null c) jn in
  let scal := forallb (fun t => let '(j, w, comps) := t in
                         close tol j w && close tol j (joint_scalar (c_ws c) comps)) (i_scalars c) in
  let calls := forallb (fun t => let '(rs, null, j) := t in close tol j (joint_score (c_ws c) rs null)) (i_calls c) in
  ( valid && acc_model && scal && calls && close_list tol (i_joint c) m_joint
      && eqb_list (close_list tol) (i_comps c) m_comps,
    valid && scal && calls && close_list tol (i_joint c) (wsum (c_ws c) (i_comps c) (c_n c))
      && eqb_list (close_list tol) (i_joint_table c) (joint_table (c_ws c) (c_tables c)),
    eqb_qs m_joint (wsum (c_ws c) m_comps (c_n c)) ).

Definition check_rel (r : relcase) : bool * bool * bool :=
  let ok := close_list (r_tol r) (r_joint r) (wsum (r_ws r) (r_comps r) (length (r_joint r))) in (ok, ok, true).

Definition check (c : case) := match c with CK1 k => check_k1 k | CRel r => check_rel r end.
Definition explain (c : case) :=
  match c with
  | CK1 k => (map Qred (scores_of k (joint_table (c_ws k) (c_tables k)) (joint_vector (c_ws k) (c_nullvs k))),
              map Qred (wsum (c_ws k) (i_comps k) (c_n k)))
  | CRel r => (map Qred (r_joint r), map Qred (wsum (r_ws r) (r_comps r) (length (r_joint r))))
  end.
