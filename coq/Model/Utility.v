(* MODEL of datascope/importance/utility.py: JointUtility (weighted sums, NaN-sentinel rule) and the element-wise
   accuracy / ROC-AUC utilities.  Tables are classes x points.  Executable definitions only. *)
From Coq Require Import List Arith ZArith QArith Bool.
From DS Require Import Util.SumQ Spec.Shapley Model.Provenance Model.Neighbor.
Import ListNotations.
Local Open Scope Q_scope.

(* ---------------- JointUtility ---------------- *)
Definition tshape (tables : list (list (list Q))) : nat * nat :=
  match tables with [] => (0%nat, 0%nat) | t :: _ => (length t, length (hd [] t)) end.

(* elementwise_score: np.sum(np.stack([w * u.elementwise_score(...) for w, u in zip(weights, utilities)]), axis=0) *)
Definition joint_table (ws : list Q) (tables : list (list (list Q))) : list (list Q) :=
  map (fun c => map (fun j => sumQ (fun wt => fst wt * nthQ (nthL (snd wt) c) j) (combine ws tables))
                    (seq 0 (snd (tshape tables))))
      (seq 0 (fst (tshape tables))).
(* elementwise_null_score: the same with vectors *)
Definition joint_vector (ws : list Q) (vs : list (list Q)) : list Q :=
  map (fun j => sumQ (fun wv => fst wv * nthQ (snd wv) j) (combine ws vs)) (seq 0 (length (hd [] vs))).
(* null_score / mean_score: sum(w * u.null_score(...)) *)
Definition joint_scalar (ws : list Q) (xs : list Q) : Q := sumQ (fun wx => fst wx * snd wx) (combine ws xs).
(* __call__: each component is called with null_score=NaN; a component that failed reports NaN (None here);
   any NaN => the joint null score, else the weighted sum *)
Definition joint_score (ws : list Q) (rs : list (option Q)) (null : Q) : Q :=
  if forallb (fun r => match r with Some _ => true | None => false end) rs
  then sumQ (fun wr => fst wr * match snd wr with Some x => x | None => 0 end) (combine ws rs)
  else null.

(* ---------------- accuracy, element-wise ---------------- *)
(* elementwise_score: np.equal.outer(classes, y_test) -- classes = sorted distinct training labels *)
Definition acc_table (train_labels : list Z) (y_test : list Z) : list (list Q) :=
  map (fun c => map (fun y => if Z.eqb c y then 1 else 0) y_test) (classes train_labels).
Definition count_eq (c : Z) (ys : list Z) : nat := length (filter (Z.eqb c) ys).
(* elementwise_null_score: the indicator vector of the FIRST class (sorted order) whose constant prediction has
   strictly smaller accuracy than everything before it; zeros when there is no training class *)
Fixpoint acc_null_class (cs : list Z) (ys : list Z) (best : option Z) : option Z :=
  match cs with
  | [] => best
  | c :: t => match best with
              | None => acc_null_class t ys (Some c)
              | Some b => if Nat.ltb (count_eq c ys) (count_eq b ys) then acc_null_class t ys (Some c)
                          else acc_null_class t ys best
              end
  end.
Definition acc_null_vector (train_labels y_test : list Z) : list Q :=
  match acc_null_class (classes train_labels) y_test None with
  | Some c => map (fun y => if Z.eqb c y then 1 else 0) y_test
  | None => map (fun _ => 0) y_test
  end.
(* null_score: min over training classes of accuracy_score(y_test, constant c) *)
Definition acc_of_const (c : Z) (ys : list Z) : Q := qn (count_eq c ys) / qn (length ys).
Fixpoint qmin_list (l : list Q) (d : Q) : Q :=
  match l with [] => d | x :: t => let m := qmin_list t x in if Qle_bool x m then x else m end.
Definition acc_null_score (train_labels y_test : list Z) : Q :=
  match classes train_labels with [] => 0 | c :: t => qmin_list (map (fun c => acc_of_const c y_test) (c :: t)) 0 end.
(* the metric itself, on a prediction vector *)
Definition accuracy (y_test y_pred : list Z) : Q :=
  qn (length (filter (fun yp => Z.eqb (fst yp) (snd yp)) (combine y_test y_pred))) / qn (length y_test).
(* picking the entries of a table along a prediction vector: table[class index of pred_j][j] *)
Definition picked (table : list (list Q)) (train_labels : list Z) (y_pred : list Z) : list Q :=
  map (fun jp => nthQ (nthL table (encode_label train_labels (snd jp))) (fst jp)) (combine (seq 0 (length y_pred)) y_pred).

(* ---------------- binary ROC-AUC, element-wise ---------------- *)
(* for c in classes: tp = eq * (c == y_test); tn = eq * (c != y_test); p = #(y_test == c); n = #(y_test != c);
   result += (tp / p + tn / n) * 0.5;   result / len(classes) *)
Definition auc_entry (cs : list Z) (ys : list Z) (k : Z) (y : Z) : Q :=
  (* entry for table row of class k at a validation point with label y *)
  sumQ (fun c => let eq := if Z.eqb k y then 1 else 0 in
                 let p := qn (count_eq c ys) in let n := qn (length ys - count_eq c ys) in
                 ((eq * (if Z.eqb c y then 1 else 0)) / p + (eq * (if Z.eqb c y then 0 else 1)) / n) * (1 # 2)) cs
  / qn (length cs).
Definition auc_table (train_labels y_test : list Z) : list (list Q) :=
  map (fun k => map (auc_entry (classes train_labels) y_test k) y_test) (classes train_labels).
(* elementwise_null_score: classes and counts of y_test; spoof = least frequent class (first on ties) *)
Fixpoint least_frequent (cs : list Z) (ys : list Z) (best : option Z) : option Z :=
  match cs with
  | [] => best
  | c :: t => match best with
              | None => least_frequent t ys (Some c)
              | Some b => if Nat.ltb (count_eq c ys) (count_eq b ys) then least_frequent t ys (Some c)
                          else least_frequent t ys best
              end
  end.
Definition auc_null_vector (y_test : list Z) : list Q :=
  let cs := classes y_test in
  match least_frequent cs y_test None with
  | Some s => map (auc_entry cs y_test s) y_test
  | None => []
  end.
(* the metric on hard 0/1 predictions: (TPR + TNR) / 2 with class `pos` positive *)
Definition rate (ys ps : list Z) (c : Z) : Q :=
  qn (length (filter (fun yp => Z.eqb (fst yp) c && Z.eqb (snd yp) c) (combine ys ps))) / qn (count_eq c ys).
Definition balanced_acc2 (ys ps : list Z) (neg pos : Z) : Q := (rate ys ps pos + rate ys ps neg) / 2.
