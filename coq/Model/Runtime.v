(* MODELS of the runtime-facing behaviour (properties C15, C17, C18, C20).  What Gallina can carry is the LOGIC:
   exception / warning flow of the two fallback layers (C15), the signature of scoring as a function of data,
   parameters and seed only (C17), decoding of representations to a canonical form (C18), and the read/write sets of
   fit and score over a store of caller-owned objects (C20).  The runtime behaviour itself (which exceptions
   scikit-learn raises, process boundaries and hash seeds, pandas containers, Python aliasing) is observed by the
   differential runs of the harness.  Executable definitions only. *)
From Coq Require Import List Arith ZArith QArith Bool.
Import ListNotations.
Local Open Scope Q_scope.

(* ---------------- C15: exception flow ---------------- *)
Inductive evaluation :=            (* what fitting + scoring a model on a subset does *)
| EOk (q : Q)                      (* a score *)
| EValueError | ERuntimeWarning    (* handled by SklearnModelUtility.__call__ *)
| EUserWarning                     (* an error only under the filter installed by bruteforce / montecarlo *)
| EOther.                          (* any other exception *)
Inductive result := RScore (q : Q) | RRaise.

(* SklearnModelUtility.__call__(..., null_score=ns): except (ValueError, RuntimeWarning) -> ns if supplied, else the
   computed null score, else (that failed too) the default 0.0 *)
Definition utility_call (e : evaluation) (supplied : option Q) (computed : option Q) (user_warning_is_error : bool) : result :=
  match e with
  | EOk q => RScore q
  | EValueError | ERuntimeWarning =>
      RScore (match supplied with Some ns => ns | None => match computed with Some c => c | None => 0 end end)
  | EUserWarning => if user_warning_is_error then RRaise else RScore 0   (* not reached: a plain warning does not stop evaluation *)
  | EOther => RRaise
  end.
(* the loop body of _shapley_bruteforce / _shapley_montecarlo: score = null_score; try: score = utility(...).score
   except (ValueError, RuntimeWarning, UserWarning): pass     (UserWarning is turned into an error by the loop) *)
Definition method_score (e : evaluation) (null : Q) : result :=
  match e with
  | EOk q => RScore q
  | EValueError | ERuntimeWarning | EUserWarning => RScore null
  | EOther => RRaise
  end.
Definition handled (e : evaluation) : bool := match e with EOther => false | _ => true end.

(* ---------------- C17: what a score may depend on ---------------- *)
Record hidden := mkHidden { h_global_rng : Z; h_hash_seed : Z; h_process : Z }.
Section Determinism.
  Variable data params : Type.
  Variable stream : Z -> list (list nat).                       (* permutations drawn from RandomState(seed) *)
  Variable neighbor_core bruteforce_core : data -> params -> list Q.
  Variable mc_core : data -> params -> list (list nat) -> list Q.
  Inductive method := Neighbor | Bruteforce | MonteCarlo.
  Definition score_impl (m : method) (d : data) (p : params) (seed : Z) (h : hidden) : list Q :=
    match m with
    | Neighbor => neighbor_core d p
    | Bruteforce => bruteforce_core d p
    | MonteCarlo => mc_core d p (stream seed)
    end.
End Determinism.

(* ---------------- C18: representations ---------------- *)
Section Representation.
  Variable repr raw canonical : Type.
  Variable decode : repr -> raw -> canonical.
  Variable score : canonical -> list Q.
  Definition score_r (r : repr) (x : raw) : list Q := score (decode r x).
End Representation.

(* ---------------- C20: read / write sets ---------------- *)
Record world (obj fitted : Type) := mkWorld { w_store : list obj; w_fitted : list (option fitted) }.
Arguments mkWorld {obj fitted}. Arguments w_store {obj fitted}. Arguments w_fitted {obj fitted}.
Section State.
  Variable obj fitted : Type.
  Variable mkfit : list obj -> list nat -> fitted.              (* fit reads the referenced store objects *)
  Variable mkscore : fitted -> list obj -> list nat -> list Q.  (* score reads fitted state + referenced objects *)
  Inductive call := Fit (who : nat) (refs : list nat) | Score (who : nat) (refs : list nat).
  Definition set_nth' {A} (i : nat) (v : A) (l : list A) : list A := firstn i l ++ v :: skipn (S i) l.
  Definition step (w : world obj fitted) (c : call) : world obj fitted * option (list Q) :=
    match c with
    | Fit who refs => (mkWorld (w_store w) (set_nth' who (Some (mkfit (w_store w) refs)) (w_fitted w)), None)
    | Score who refs => (w, match nth who (w_fitted w) None with
                            | Some f => Some (mkscore f (w_store w) refs) | None => None end)
    end.
  Fixpoint run (w : world obj fitted) (cs : list call) : world obj fitted * list (option (list Q)) :=
    match cs with
    | [] => (w, [])
    | c :: t => let '(w1, o) := step w c in let '(w2, os) := run w1 t in (w2, o :: os)
    end.
End State.
