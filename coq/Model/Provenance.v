(* MODEL of datascope/utility/provenance.py (Provenance and Expression.data / from_data).
   The 4-D integer array `Provenance._data` (rows x disjuncts x conjuncts x 2, padded with -1) is a
   list of rows, each a list of conjunctions, each a list of (unit, value) cells in Z, together with
   the two padded widths (numpy keeps them in the shape even when there are no rows).
   Executable definitions only -- no proofs in this file. *)
From Coq Require Import List Arith ZArith Bool.
From DS Require Import Spec.Dnf.
Import ListNotations.
Local Open Scope Z_scope.

Definition cell := (Z * Z)%type.
Definition aconj := list cell.
Definition arow := list aconj.
Record prov := mkProv { pD : nat; pC : nat; prow : list arow }.

Definition padcell : cell := (-1, -1).
Definition cell_of_lit (l : lit) : cell := (Z.of_nat (fst l), Z.of_nat (snd l)).

Definition maxl (l : list nat) : nat := fold_right Nat.max 0%nat l.

(* ---- Expression.data: Equality -> [u,v]; Conjunction -> k x 2; Disjunction -> d x maxc x 2 (padded) ---- *)
Definition pad_conj (C : nat) (c : conj) : aconj := map cell_of_lit c ++ repeat padcell (C - length c).
Definition pad_row (D C : nat) (f : dnf) : arow := map (pad_conj C) f ++ repeat (repeat padcell C) (D - length f).

Definition width_d (fs : list dnf) : nat := maxl (map (@length conj) fs).
Definition width_c (fs : list dnf) : nat := maxl (map (fun f => maxl (map (@length lit) f)) fs).

(* Provenance.__init__(expressions): reshape to 3-D, pad to the maximal widths, stack *)
Definition encode (fs : list dnf) : prov :=
  let D := width_d fs in let C := width_c fs in mkProv D C (map (pad_row D C) fs).

(* ---- Expression.from_data (read back row i): drop all-padding conjunctions, drop cells containing -1 ---- *)
Definition cell_is_pad (c : cell) : bool := (fst c =? -1) && (snd c =? -1).
Definition cell_has_pad (c : cell) : bool := (fst c =? -1) || (snd c =? -1).
Definition lit_of_cell (c : cell) : lit := (Z.to_nat (fst c), Z.to_nat (snd c)).
Definition decode_conj (c : aconj) : conj := map lit_of_cell (filter (fun x => negb (cell_has_pad x)) c).
Definition decode_row (r : arow) : dnf := map decode_conj (filter (fun c => negb (forallb cell_is_pad c)) r).

(* ---- Provenance.query ---- *)
(* numpy indexing of a 1-D array with a (possibly negative) integer *)
Definition npget (vals : list Z) (i : Z) : Z :=
  if i <? 0 then nth (Z.to_nat (Z.of_nat (length vals) + i)) vals 0 else nth (Z.to_nat i) vals 0.

Definition query_cell (vals' : list Z) (c : cell) : bool := npget vals' (fst c) =? snd c.
Definition query_conj (vals' : list Z) (c : aconj) : bool :=
  forallb (query_cell vals') c && existsb (fun x => negb (fst x =? -1)) c.
Definition query_row (vals' : list Z) (r : arow) : bool := existsb (query_conj vals') r.
(* values = np.append(values, -1); equal; all over conjuncts masked by "has a real unit"; any over disjuncts *)
Definition query (p : prov) (vals : list Z) : list bool := map (query_row (vals ++ [-1])) (prow p).
Definition query_int (p : prov) (vals : list Z) : list nat := argwhere (query p vals).

(* the pinned (pre-fix F5) query: no masking, squeeze when a width is 1 (equivalent to all/any over 1 element) *)
Definition query_conj_pinned (vals' : list Z) (c : aconj) : bool := forallb (query_cell vals') c.
Definition query_pinned (p : prov) (vals : list Z) : list bool :=
  map (fun r => existsb (query_conj_pinned (vals ++ [-1])) r) (prow p).

(* assignment given as a mapping unit -> candidate (positions); missing units take candidate 0 *)
Fixpoint assoc (k : nat) (m : list (nat * nat)) : option nat :=
  match m with [] => None | (a, b) :: t => if Nat.eqb a k then Some b else assoc k t end.
Definition from_mapping (n : nat) (m : list (nat * nat)) : list nat :=
  map (fun u => match assoc u m with Some c => c | None => 0%nat end) (seq 0 n).
Definition zs (x : list nat) : list Z := map Z.of_nat x.

(* ---- widths and padding of a stored array (_pad_array) ---- *)
Definition repad_conj (C : nat) (c : aconj) : aconj := c ++ repeat padcell (C - length c).
Definition repad_row (D C : nat) (r : arow) : arow :=
  map (repad_conj C) r ++ repeat (repeat padcell C) (D - length r).
Definition repad (D C : nat) (p : prov) : prov := mkProv D C (map (repad_row D C) (prow p)).

(* shape of one expression's data after the reshape to 3-D *)
Definition expr_d (f : dnf) : nat := length f.
Definition expr_c (f : dnf) : nat := maxl (map (@length lit) f).

Definition set_nth {A} (i : nat) (v : A) (l : list A) : list A := firstn i l ++ v :: skipn (S i) l.
Definition insert_nth {A} (i : nat) (v : A) (l : list A) : list A := firstn i l ++ v :: skipn i l.
Definition del_nth {A} (i : nat) (l : list A) : list A := firstn i l ++ skipn (S i) l.

(* Provenance.__setitem__(int, expr) after fix F7: widths = max(stored, new); pad both *)
Definition setitem (p : prov) (i : nat) (f : dnf) : prov :=
  let D := Nat.max (pD p) (expr_d f) in let C := Nat.max (pC p) (expr_c f) in
  let p' := repad D C p in mkProv D C (set_nth i (pad_row D C f) (prow p')).
(* Provenance.insert: np.insert(data, i, -1, axis=0); self[i] = value *)
Definition insert (p : prov) (i : nat) (f : dnf) : prov :=
  setitem (mkProv (pD p) (pC p) (insert_nth i (repeat (repeat padcell (pC p)) (pD p)) (prow p))) i f.
Definition delitem (p : prov) (i : nat) : prov := mkProv (pD p) (pC p) (del_nth i (prow p)).
Definition getitem (p : prov) (i : nat) : dnf := decode_row (nth i (prow p) []).
Definition plen (p : prov) : nat := length (prow p).

(* the pinned (pre-fix F7) setitem pads the store to the NEW widths only; numpy raises when they are smaller *)
Definition setitem_pinned (p : prov) (i : nat) (f : dnf) : option prov :=
  let D := expr_d f in let C := expr_c f in
  if (Nat.ltb D (pD p) || Nat.ltb C (pC p))%bool then None
  else Some (mkProv D C (set_nth i (pad_row D C f) (prow (repad D C p)))).

(* row selection: slice / index list / boolean mask all reduce to a list of row positions *)
Definition select (p : prov) (idx : list nat) : prov :=
  mkProv (pD p) (pC p) (map (fun i => nth i (prow p) []) idx).
Definition mask_positions (m : list bool) : list nat := argwhere m.
(* Provenance.fork(size): np.repeat along axis 0 *)
Definition fork (p : prov) (reps : list nat) : prov :=
  mkProv (pD p) (pC p) (flat_map (fun '(r, k) => repeat r k) (combine (prow p) reps)).
Definition fork_const (p : prov) (k : nat) : prov := fork p (repeat k (length (prow p))).

(* Provenance(units=n): data = arange(n) -> [(i, 1)] per row (2 candidates) *)
Definition default_prov (n : nat) : prov :=
  mkProv 1 1 (map (fun i => [[(Z.of_nat i, 1)]]) (seq 0 n)).
(* Provenance(data=ids) (1-D identifiers, units inferred) after fix F8:
   units = sorted distinct identifiers; row i -> [(position of ids[i], 1)] *)
Fixpoint insert_sorted (z : Z) (l : list Z) : list Z :=
  match l with [] => [z] | h :: t => if z <? h then z :: l else if z =? h then l else h :: insert_sorted z t end.
Definition sorted_distinct (l : list Z) : list Z := fold_right insert_sorted [] l.
Fixpoint position (z : Z) (l : list Z) : nat :=
  match l with [] => 0%nat | h :: t => if z =? h then 0%nat else S (position z t) end.
Definition grouped_units (ids : list Z) : list Z := sorted_distinct ids.
Definition grouped_prov (ids : list Z) : prov :=
  let us := grouped_units ids in
  mkProv 1 1 (map (fun z => [[(Z.of_nat (position z us), 1)]]) ids).
(* the pinned (pre-fix F8) constructor stores the identifier itself *)
Definition grouped_prov_pinned (ids : list Z) : prov := mkProv 1 1 (map (fun z => [[(z, 1)]]) ids).
