(* MODEL of the scoring kernel compute_all_importances / compute_all_importances_cy (exact arithmetic in Q).
   For one validation point j the code walks the ranks i = n-1 .. 0 of idxs = argsort(distances[:, j]) ++ [n]:
       current += (U[label[idxs[i]]] - U[label[idxs[i+1]]]) / (i + 1);   out[idxs[i]] += current
   (idxs[n] = n is the sentinel row carrying the null score).  `curs` is that recurrence written front to
   back: curs pos l = [current at rank pos; current at rank pos+1; ...].  `argsort` is NOT modelled: every
   theorem is for any order that is a permutation of the units.  Executable definitions only. *)
From Coq Require Import List Arith QArith Bool.
From DS Require Import Util.SumQ Spec.Shapley.
Import ListNotations.
Local Open Scope Q_scope.

Definition hd_u (u : nat -> Q) (null : Q) (l : list nat) : Q := match l with [] => null | q :: _ => u q end.
Definition hd0 (l : list Q) : Q := match l with [] => 0 | c :: _ => c end.
Fixpoint curs (u : nat -> Q) (null : Q) (pos : nat) (l : list nat) : list Q :=
  match l with
  | [] => []
  | q :: t => let tl := curs u null (S pos) t in (hd0 tl + (u q - hd_u u null t) / qn (S pos)) :: tl
  end.

(* out[idxs[i]] += current, for one validation point: contribution received by unit p *)
Definition col_value (u : nat -> Q) (null : Q) (idxs : list nat) (p : nat) : Q :=
  sumQ (fun qc => if Nat.eqb (fst qc) p then snd qc else 0) (combine idxs (curs u null 0 idxs)).

(* all validation points, then the division by n_test; one triple (utility, null, order) per validation point *)
Definition kpoint := ((nat -> Q) * Q * list nat)%type.
Definition kernel_t (n : nat) (ts : list kpoint) : list Q :=
  map (fun p => sumQ (fun t : kpoint => col_value (fst (fst t)) (snd (fst t)) (snd t) p) ts / qn (length ts)) (seq 0 n).
Definition kernel (n : nat) (us : list (nat -> Q)) (nulls : list Q) (orders : list (list nat)) : list Q :=
  kernel_t n (combine (combine us nulls) orders).
