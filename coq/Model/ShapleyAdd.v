(* MODEL of compute_shapley_add (shapley.py, after fixes F1 and F2): the loop over boundary pairs (t1, t2), units and
   oracle tallies, with its filters, argmax of the two label tallies and the weight count / C(n-1, coalition size),
   over an abstract count function (the oracle of C09).  Executable definitions only. *)
From Coq Require Import List Arith ZArith QArith Bool.
From DS Require Import Util.SumQ Spec.Shapley Model.ADD Model.Bruteforce Spec.Count Spec.Knn.
Import ListNotations.
Local Open Scope Q_scope.

Definition oracle_fn := nat -> nat -> option nat -> list nat.      (* target, t1, t2 -> counts in domain order *)

(* contribution of one oracle answer to all_importances[i] *)
Definition entry_term (p : cprob) (n_units : nat) (ucol : list Q) (null : Q) (t2 : option nat) (e : aval) (cnt : nat) : Q :=
  match e with
  | None => 0
  | Some v =>
      let c := p_classes p in
      let s := hd 0%nat v in
      let lw := firstn c (skipn 1 v) in let lwo := firstn c (skipn (S c) v) in
      if Nat.eqb cnt 0
         || negb (Nat.eqb (sum_nat lw) (p_k p))                                        (* t1 is never None *)
         || match t2 with Some _ => negb (Nat.eqb (sum_nat lwo) (p_k p)) | None => Nat.leb (p_k p) (sum_nat lwo) end
      then 0
      else let diff := match t2 with
                       | Some _ => nth (argmax_first lw) ucol 0 - nth (argmax_first lwo) ucol 0
                       | None => nth (argmax_first lw) ucol 0 - null
                       end in
           (1 / qn (binom (n_units - 1) s)) * qn cnt * diff
  end.

Definition shapley_add_point (p : cprob) (oracle : oracle_fn) (ucol : list Q) (null : Q) : list Q :=
  let n := p_units p in let rows := length (p_rows p) in
  let dom := domain (p_type p) in
  map (fun i =>
         sumQ (fun t1 =>
                 sumQ (fun t2 => sumQ (fun ec => entry_term p n ucol null t2 (fst ec) (snd ec)) (combine dom (oracle i t1 t2)))
                      (map Some (seq 0 rows) ++ [None]))
              (seq 0 rows))
      (seq 0 n).

(* all validation points: one problem (distances) per point; final division by n_units * n_test *)
Definition shapley_add (ps : list cprob) (oracles : list oracle_fn) (ucols : list (list Q)) (nulls : list Q) (n : nat) : list Q :=
  map (fun i => sumQ (fun t : cprob * oracle_fn * list Q * Q =>
                        let '(p, o, uc, nl) := t in nth i (shapley_add_point p o uc nl) 0)
                     (combine (combine (combine ps oracles) ucols) nulls)
                / (qn n * qn (length nulls)))
      (seq 0 n).
