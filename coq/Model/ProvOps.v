(* MODEL of the MutableSequence behaviour of Provenance: the primitive edits (Model/Provenance.v) and the
   collections.abc.MutableSequence mix-ins expressed through them, next to the same edits on a plain list.
   Executable definitions only. *)
From Coq Require Import List Arith Bool.
From DS Require Import Spec.Dnf Model.Provenance.
Import ListNotations.

Inductive op :=
| OSet (i : nat) (f : dnf)        (* p[i] = e                      (index already normalised to 0 <= i < len) *)
| OInsert (i : nat) (f : dnf)     (* p.insert(i, e)                (0 <= i <= len) *)
| OAppend (f : dnf)               (* p.append(e) = insert(len, e) *)
| ODel (i : nat)                  (* del p[i] *)
| OPop                            (* p.pop()  = read p[-1]; del p[-1] *)
| OExtend (fs : list dnf)         (* p.extend(es) / p += es : append one by one *)
| ODelMany (idx : list nat)       (* del p[slice] : np.delete with the positions of the slice *)
| OSetMany (idx : list nat) (fs : list dnf)  (* p[slice / index list / mask] = es, as many expressions as positions: the store and all
                                     new rows are padded to the common maximum, then the rows are assigned *)
| OReverse.                       (* p.reverse(): pairwise swap through __getitem__/__setitem__ *)

(* swap loop of MutableSequence.reverse on the array: RHS is read first (two read-backs), then two assignments *)
Fixpoint reverse_loop (k : nat) (i : nat) (n : nat) (p : prov) : prov :=
  match k with
  | O => p
  | S k' => let a := getitem p i in let b := getitem p (n - i - 1) in
            reverse_loop k' (S i) n (setitem (setitem p i b) (n - i - 1) a)
  end.
Definition reverse_p (p : prov) : prov := reverse_loop (plen p / 2) 0 (plen p) p.

Definition del_many {A} (idx : list nat) (l : list A) : list A :=
  map snd (filter (fun ia => negb (existsb (Nat.eqb (fst ia)) idx)) (combine (seq 0 (length l)) l)).

Definition apply_op (p : prov) (o : op) : prov :=
  match o with
  | OSet i f => setitem p i f
  | OInsert i f => insert p i f
  | OAppend f => insert p (plen p) f
  | ODel i => delitem p i
  | OPop => delitem p (plen p - 1)
  | OExtend fs => fold_left (fun q f => insert q (plen q) f) fs p
  | ODelMany idx => mkProv (pD p) (pC p) (del_many idx (prow p))
  | OSetMany idx fs => fold_left (fun q (t : nat * dnf) => setitem q (fst t) (snd t)) (combine idx fs) p
  | OReverse => reverse_p p
  end.

(* the same edits on an ordinary list of formulas *)
Fixpoint swap_loop {A} (d : A) (k i n : nat) (l : list A) : list A :=
  match k with
  | O => l
  | S k' => let a := nth i l d in let b := nth (n - i - 1) l d in
            swap_loop d k' (S i) n (set_nth (n - i - 1) a (set_nth i b l))
  end.
Definition apply_list (l : list dnf) (o : op) : list dnf :=
  match o with
  | OSet i f => set_nth i f l
  | OInsert i f => insert_nth i f l
  | OAppend f => l ++ [f]
  | ODel i => del_nth i l
  | OPop => removelast l
  | OExtend fs => l ++ fs
  | ODelMany idx => del_many idx l
  | OSetMany idx fs => fold_left (fun m (t : nat * dnf) => set_nth (fst t) (snd t) m) (combine idx fs) l
  | OReverse => rev l
  end.

Definition run (p : prov) (ops : list op) : prov := fold_left apply_op ops p.
Definition run_list (l : list dnf) (ops : list op) : list dnf := fold_left apply_list ops l.

(* legality of an edit on a list of the current length, over n units *)
Definition wf_formula (n : nat) (f : dnf) : Prop := f <> [] /\ conj_nonempty f /\ units_below n f.
Definition wf_formulab (n : nat) (f : dnf) : bool :=
  negb (Nat.eqb (length f) 0) && conj_nonemptyb f && units_belowb n f.
Definition legal (n : nat) (l : list dnf) (o : op) : Prop :=
  match o with
  | OSet i f => i < length l /\ wf_formula n f
  | OInsert i f => i <= length l /\ wf_formula n f
  | OAppend f => wf_formula n f
  | ODel i => i < length l
  | OPop => l <> []
  | OExtend fs => forall f, In f fs -> wf_formula n f
  | ODelMany idx => True
  | OSetMany idx fs => length idx = length fs /\ (forall i, In i idx -> i < length l) /\ (forall f, In f fs -> wf_formula n f)
  | OReverse => True
  end.
Fixpoint legal_run (n : nat) (l : list dnf) (ops : list op) : Prop :=
  match ops with [] => True | o :: t => legal n l o /\ legal_run n (apply_list l o) t end.

(* what one can observe: the list of formulas read back from the rows *)
Definition view (p : prov) : list dnf := map decode_row (prow p).

(* ---- raw (Python-level) edits with possibly negative indices, normalised as the code does ---- *)
From Coq Require Import ZArith.
Inductive rop :=
| RSet (i : Z) (f : dnf) | RInsert (i : Z) (f : dnf) | RAppend (f : dnf) | RDel (i : Z) | RPop
| RPopAt (i : Z) | RExtend (fs : list dnf) | RDelMany (idx : list nat) | RSetMany (idx : list nat) (fs : list dnf) | RReverse.

(* numpy / list convention for item access: a negative index counts from the end *)
Definition norm_index (n : nat) (i : Z) : nat := Z.to_nat (if (i <? 0)%Z then (Z.of_nat n + i)%Z else i).
(* Provenance.insert after fix F13 = list.insert: negative from the end, clipped to [0, len] *)
Definition norm_insert (n : nat) (i : Z) : nat :=
  Z.to_nat (Z.min (if (i <? 0)%Z then Z.max (i + Z.of_nat n) 0 else i) (Z.of_nat n)).
(* the pinned (pre-fix F13) insert opens row norm_index(n, i) of the old array but assigns row i of the new one *)
Definition insert_pinned (p : prov) (i : Z) (f : dnf) : prov :=
  let blank := repeat (repeat padcell (pC p)) (pD p) in
  let p' := mkProv (pD p) (pC p) (insert_nth (norm_index (plen p) i) blank (prow p)) in
  setitem p' (norm_index (plen p') i) f.

Definition resolve (n : nat) (r : rop) : op :=
  match r with
  | RSet i f => OSet (norm_index n i) f
  | RInsert i f => OInsert (norm_insert n i) f
  | RAppend f => OAppend f
  | RDel i => ODel (norm_index n i)
  | RPop => OPop
  | RPopAt i => ODel (norm_index n i)
  | RExtend fs => OExtend fs
  | RDelMany idx => ODelMany idx
  | RSetMany idx fs => OSetMany idx fs
  | RReverse => OReverse
  end.
