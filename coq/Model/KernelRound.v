(* MODEL of the scoring kernel with ROUNDING made explicit (C06's precision clause).  The recurrence, the accumulation over
   validation points and the final division are those of Model/Kernel.v / Model/KernelFloat.v (and of the two sources), with
   every floating-point operation written as `rnd (exact result)` for an arbitrary rounding operator rnd : Q -> Q:
       current = rnd (current + rnd (rnd (U[i_1] - U[i_2]) / (i + 1)));   out[i_1] = rnd (out[i_1] + current);
       result[p] = rnd (out[p] / n_test)
   (the conversion float(i + 1) is exact below 2^53).  With rnd = identity this is Model/Kernel.v.  `acurs` / `akernel_t` are the
   same recurrences over absolute values: the scale the error bound of Proofs/KernelRounding.v is relative to.
   Executable definitions only. *)
From Coq Require Import List Arith QArith Qabs Bool.
From DS Require Import Util.SumQ Spec.Shapley Model.Kernel.
Import ListNotations.
Local Open Scope Q_scope.

Section Rounded.
  Variable rnd : Q -> Q.
  Fixpoint rcurs (u : nat -> Q) (null : Q) (pos : nat) (l : list nat) : list Q :=
    match l with
    | [] => []
    | q :: t => let tl := rcurs u null (S pos) t in rnd (hd0 tl + rnd (rnd (u q - hd_u u null t) / qn (S pos))) :: tl
    end.
  (* the value added to out[p] for one validation point (p occurs once in a rank order) *)
  Definition sel (idxs : list nat) (xs : list Q) (p : nat) : Q :=
    sumQ (fun qc => if Nat.eqb (fst qc) p then snd qc else 0) (combine idxs xs).
  (* out[p] += current, validation point after validation point, starting from 0.0 *)
  Definition racc (cs : list Q) : Q := fold_left (fun acc c => rnd (acc + c)) cs 0.
  Definition rkernel_t (n : nat) (ts : list kpoint) : list Q :=
    map (fun p => rnd (racc (map (fun t : kpoint => sel (snd t) (rcurs (fst (fst t)) (snd (fst t)) 0 (snd t)) p) ts) / qn (length ts)))
        (seq 0 n).
End Rounded.

Fixpoint acurs (u : nat -> Q) (null : Q) (pos : nat) (l : list nat) : list Q :=
  match l with
  | [] => []
  | q :: t => let tl := acurs u null (S pos) t in (hd0 tl + Qabs (u q - hd_u u null t) / qn (S pos)) :: tl
  end.
Definition akernel_t (n : nat) (ts : list kpoint) : list Q :=
  map (fun p => sumQ (fun t : kpoint => sel (snd t) (acurs (fst (fst t)) (snd (fst t)) 0 (snd t)) p) ts / qn (length ts)) (seq 0 n).
(* total variation of the utility along a rank order (down to the null score) *)
Fixpoint tv (u : nat -> Q) (null : Q) (l : list nat) : Q :=
  match l with [] => 0 | q :: t => Qabs (u q - hd_u u null t) + tv u null t end.
(* (1 + eps)^k *)
Fixpoint pw (eps : Q) (k : nat) : Q := match k with O => 1 | S k' => (1 + eps) * pw eps k' end.
