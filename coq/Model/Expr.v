(* MODEL of the Expression classes of datascope/utility/provenance.py: Equality, Conjunction, Disjunction,
   the operators `&` and `|` (nine-way case analysis, distribution of & over |) and conversion to the DNF
   stored by a Provenance.  Executable definitions only. *)
From Coq Require Import List Arith Bool.
From DS Require Import Spec.Dnf.
Import ListNotations.

Inductive expr := Eq (l : lit) | Conj (c : conj) | Disj (f : dnf).

Definition eval_expr (x : assignment) (e : expr) : bool :=
  match e with Eq l => eval_lit x l | Conj c => eval_conj x c | Disj f => eval_dnf x f end.

(* Equality.__and__ / Conjunction.__and__ / Disjunction.__and__ *)
Definition and_e (a b : expr) : expr :=
  match a, b with
  | Eq l, Eq m => Conj [l; m]
  | Eq l, Conj c => Conj (l :: c)
  | Eq l, Disj f => Disj (map (fun c => l :: c) f)
  | Conj c, Eq m => Conj (c ++ [m])
  | Conj c, Conj d => Conj (c ++ d)
  | Conj c, Disj f => Disj (map (fun d => c ++ d) f)
  | Disj f, Eq m => Disj (map (fun c => c ++ [m]) f)
  | Disj f, Conj d => Disj (map (fun c => c ++ d) f)
  | Disj f, Disj g => Disj (flat_map (fun c => map (fun d => c ++ d) g) f)
  end.

(* Equality.__or__ / Conjunction.__or__ / Disjunction.__or__ *)
Definition or_e (a b : expr) : expr :=
  match a, b with
  | Eq l, Eq m => Disj [[l]; [m]]
  | Eq l, Conj c => Disj [[l]; c]
  | Eq l, Disj f => Disj ([l] :: f)
  | Conj c, Eq m => Disj [c; [m]]
  | Conj c, Conj d => Disj [c; d]
  | Conj c, Disj f => Disj (c :: f)
  | Disj f, Eq m => Disj (f ++ [[m]])
  | Disj f, Conj d => Disj (f ++ [d])
  | Disj f, Disj g => Disj (f ++ g)
  end.

(* Expression.data reshaped to 3-D by Provenance: the DNF a stored row represents *)
Definition to_dnf (e : expr) : dnf := match e with Eq l => [[l]] | Conj c => [c] | Disj f => f end.

(* what the Python constructors accept: Conjunction and Disjunction constructors need >= 1 element *)
Definition wf_expr (e : expr) : Prop :=
  match e with Eq _ => True | Conj c => c <> [] | Disj f => f <> [] /\ conj_nonempty f end.
Definition wf_exprb (e : expr) : bool :=
  match e with Eq _ => true | Conj c => negb (Nat.eqb (length c) 0)
          | Disj f => negb (Nat.eqb (length f) 0) && conj_nonemptyb f end.

(* expression trees as written by a user with the overloaded operators *)
Inductive tree := TLit (l : lit) | TAnd (a b : tree) | TOr (a b : tree).
Fixpoint build (t : tree) : expr :=
  match t with TLit l => Eq l | TAnd a b => and_e (build a) (build b) | TOr a b => or_e (build a) (build b) end.
Fixpoint eval_tree (x : assignment) (t : tree) : bool :=
  match t with TLit l => eval_lit x l | TAnd a b => eval_tree x a && eval_tree x b
          | TOr a b => eval_tree x a || eval_tree x b end.

(* all assignments of n units over k candidates in itertools.product order *)
Fixpoint assigns (n k : nat) : list assignment :=
  match n with O => [[]] | S n' => flat_map (fun v => map (cons v) (assigns n' k)) (seq 0 k) end.
