(* MODEL of ShapleyImportance._shapley_bruteforce.
   The loop runs over itertools.product([0, 1], ...) = `masks n` in order; for each iteration:
     indices = provenance.query(iter); score = utility on exactly those rows, or null_score when the evaluation
     raises ValueError / RuntimeWarning / UserWarning; factor_0 = -1/(comb(n-1, min(s, n-1)) * n);
     factor_1 = 1/(comb(n-1, max(s-1, 0)) * n); importance += score * ((1 - iter) * factor_0 + iter * factor_1).
   The utility is an arbitrary function of the selected rows (a row mask).  Executable definitions only. *)
From Coq Require Import List Arith ZArith QArith Bool.
From DS Require Import Util.SumQ Spec.Shapley Spec.Dnf Model.Provenance.
Import ListNotations.
Local Open Scope Q_scope.

Inductive outcome := Ok (q : Q) | Failed.     (* Failed: ValueError, RuntimeWarning or UserWarning during evaluation *)
Definition utility := list bool -> outcome.   (* argument: which training rows are selected *)

Fixpoint binom (n k : nat) : nat :=
  match n, k with
  | _, O => 1%nat
  | O, S _ => 0%nat
  | S n', S k' => (binom n' k' + binom n' (S k'))%nat
  end.

Definition b2z (b : bool) : Z := if b then 1%Z else 0%Z.
Definition b2q (b : bool) : Q := if b then 1 else 0.
Definition rows_selected (p : prov) (iter : list bool) : list bool := query p (map b2z iter).
Definition score_of (u : utility) (null : Q) (rows : list bool) : Q :=
  match u rows with Ok q => q | Failed => null end.

Definition factor_0 (n s : nat) : Q := - (1 / (qn (binom (n - 1) (Nat.min s (n - 1))) * qn n)).
Definition factor_1 (n s : nat) : Q := 1 / (qn (binom (n - 1) (Nat.max (s - 1) 0)) * qn n).

Definition bf_step (n : nat) (p : prov) (u : utility) (null : Q) (importance : list Q) (iter : list bool) : list Q :=
  let s := cnt iter in
  let score := score_of u null (rows_selected p iter) in
  map (fun ib => fst ib + score * ((1 - b2q (snd ib)) * factor_0 n s + b2q (snd ib) * factor_1 n s))
      (combine importance iter).

Definition bruteforce (n : nat) (p : prov) (u : utility) (null : Q) : list Q :=
  fold_left (bf_step n p u null) (masks n) (repeat 0 n).

(* the sequence of row selections the utility is evaluated on, in call order *)
Definition bf_history (n : nat) (p : prov) : list (list bool) := map (rows_selected p) (masks n).

(* the game bruteforce plays: coalition m is worth the utility of exactly the rows whose formula is true under m *)
Definition bf_game (p : prov) (u : utility) (null : Q) (m : list bool) : Q := score_of u null (rows_selected p m).
