(* MODEL of datascope/importance/oracle.py: ShapleyOracle.__init__ (per boundary row: increment the edges at the
   compiled locations of every row no farther than the boundary; make value 0 of the boundary row's units invalid)
   and ShapleyOracle.query (restrict the target to 1 / 0, sum, +1 on every value-1 edge, modelcount), on the ADD
   model of Model/ADD.v.  `compile` is modelled for the chain case (one literal per row); in the factor/leaf case
   the compiled diagram and locations are read from the implementation and validated per instance by `compiled_ok`.
   Executable definitions only. *)
From Coq Require Import List Arith ZArith QArith Bool.
From DS Require Import Model.ADD Spec.Count.
Import ListNotations.
Local Close Scope Q_scope.

Definition loc := (nat * nat * bool)%type.      (* (level, node, candidate value) *)

Definition upd_adder (f : aval -> aval) (b : bool) (n : node) : node :=
  if b then mkNode (n_live n) (n_c0 n) (n_c1 n) (n_a0 n) (f (n_a1 n))
  else mkNode (n_live n) (n_c0 n) (n_c1 n) (f (n_a0 n)) (n_a1 n).
Definition upd_loc (t : atype) (f : aval -> aval) (lvls : list (list node)) (l : loc) : list (list node) :=
  let '(i, j, b) := l in
  firstn i lvls ++ match skipn i lvls with
                   | [] => []
                   | lvl :: rest => (firstn j lvl ++ match skipn j lvl with [] => [] | n :: r => upd_adder f b n :: r end) :: rest
                   end.
Definition update (d : add) (locs : list loc) (f : aval -> aval) : add :=
  mkADD (d_type d) (d_units d) (d_root d) (fold_left (upd_loc (d_type d) f) locs (d_levels d)).

(* get_update_location(units=[unit], values=[0]): value 0 of every live node of the unit's level *)
Definition level_of (d : add) (unit : nat) : nat :=
  (fix go (l : list nat) (k : nat) := match l with [] => k | u :: t => if Nat.eqb u unit then k else go t (S k) end) (d_units d) 0.
Definition live_locs (d : add) (lvl : nat) (b : bool) : list loc :=
  map (fun j => (lvl, j, b)) (filter (fun j => n_live (nth j (nth lvl (d_levels d) []) (dead (d_type d))))
                                     (seq 0 (length (nth lvl (d_levels d) [])))).

Definition boundary_add (p : cprob) (d : add) (locs : list (list loc)) (t : option nat) (with_side : bool) : add :=
  let ty := p_type p in
  let zeros := repeat 0 (p_classes p) in
  let d1 := fold_left (fun acc tt =>
                         if match t with None => true | Some b => Qle_bool (nth tt (p_dist p) 0%Q) (nth b (p_dist p) 0%Q) end
                         then let oh := onehot (p_classes p) (nth tt (p_labels p) 0) in
                              let v := Some (0 :: (if with_side then oh ++ zeros else zeros ++ oh)) in
                              update acc (nth tt locs []) (fun a => a_add ty a v)
                         else acc) (seq 0 (length (p_rows p))) d in
  match t with
  | None => d1
  | Some b => fold_left (fun acc u => update acc (live_locs d (level_of d u) false) (fun _ => None)) (nth b (p_rows p) []) d1
  end.

(* add.adder[:, :, 1] += ATally(1, zeros, zeros) *)
Definition bump_ones (p : cprob) (d : add) : add :=
  let one := Some (1 :: repeat 0 (2 * p_classes p)) in
  mkADD (d_type d) (d_units d) (d_root d)
        (map (map (fun n => mkNode (n_live n) (n_c0 n) (n_c1 n) (n_a0 n) (a_add (d_type d) (n_a1 n) one))) (d_levels d)).

Definition oracle_query (p : cprob) (d : add) (locs : list (list loc)) (target t1 : nat) (t2 : option nat) : option (list nat) :=
  let lvl := level_of d target in
  match add_restrict (boundary_add p d locs (Some t1) true) lvl true,
        add_restrict (boundary_add p d locs t2 false) lvl false with
  | Some dw, Some dwo => Some (add_modelcount (bump_ones p (add_sum dw dwo)))
  | _, _ => None
  end.

(* compile, chain case: every row has exactly one literal (unit, value) *)
Definition compile_chain (t : atype) (n_units : nat) (lits : list (nat * bool)) : add * list (list loc) :=
  (chain t (seq 0 n_units), map (fun uv => [(fst uv, 0, snd uv)]) lits).

(* per-instance validation of a compiled diagram: for every row and every assignment (in the diagram's variable
   order), exactly one location of the row lies on the assignment's path iff the row is present, none otherwise *)
Fixpoint path_nodes (t : atype) (lvls : list (list node)) (j : nat) (x : list bool) (lvl : nat) : list loc :=
  match lvls, x with
  | l :: rest, b :: x' => (lvl, j, b) :: path_nodes t rest (child (getnode t l j) b) x' (S lvl)
  | _, _ => []
  end.
Definition eqb_loc (a b : loc) : bool :=
  Nat.eqb (fst (fst a)) (fst (fst b)) && Nat.eqb (snd (fst a)) (snd (fst b)) && Bool.eqb (snd a) (snd b).
Definition compiled_ok (p : cprob) (d : add) (locs : list (list loc)) : bool :=
  Nat.eqb (length (d_units d)) (p_units p) && Nat.eqb (length locs) (length (p_rows p))
  && forallb (fun x =>
       let path := path_nodes (d_type d) (d_levels d) (d_root d) x 0 in
       (* assignment in provenance unit order *)
       let xp := map (fun u => nth (level_of d u) x false) (seq 0 (p_units p)) in
       forallb (fun r => Nat.eqb (length (filter (fun l => existsb (eqb_loc l) path) (nth r locs [])))
                                 (if row_present (nth r (p_rows p) []) xp then 1 else 0))
               (seq 0 (length (p_rows p))))
     (bmasks (p_units p)).

(* ---- a complete validator of a compiled diagram: everything Proofs/OracleExact.v asks of it, as one boolean ---- *)
Definition eqb_natlist (a b : list nat) : bool := Nat.eqb (length a) (length b) && forallb (fun q => Nat.eqb (fst q) (snd q)) (combine a b).
Definition eqb_atype (a b : atype) : bool :=
  eqb_natlist (a_max a) (a_max b)
  && match a_tally a, a_tally b with
     | Some (k, c), Some (k', c') => Nat.eqb k k' && Nat.eqb c c'
     | None, None => true
     | _, _ => false
     end.
Definition wt_b (t : atype) (x : aval) : bool := match x with Some v => Nat.eqb (length v) (length (a_max t)) | None => true end.
Fixpoint good_b (t : atype) (w : nat) (lvls : list (list node)) (j : nat) : bool :=
  match lvls with
  | [] => Nat.ltb j w
  | l :: rest => Nat.ltb j (length l) && n_live (getnode t l j)
                 && good_b t w rest (n_c0 (getnode t l j)) && good_b t w rest (n_c1 (getnode t l j))
  end.
Fixpoint nodup_b (l : list nat) : bool :=
  match l with [] => true | a :: r => negb (existsb (Nat.eqb a) r) && nodup_b r end.
Definition valid_compiled (p : cprob) (d : add) (locs : list (list loc)) : bool :=
  let t := d_type d in let n := p_units p in
  eqb_atype t (p_type p)
  && forallb (forallb (fun nd => wt_b t (n_a0 nd) && wt_b t (n_a1 nd))) (d_levels d)
  && forallb (fun l => Nat.eqb (length l) (diameter d)) (d_levels d)
  && good_b t (diameter d) (d_levels d) (d_root d)
  && forallb (forallb (fun nd => a_eqb (n_a0 nd) (a_zero t) && a_eqb (n_a1 nd) (a_zero t))) (d_levels d)
  && forallb (fun k => Nat.ltb k n) (map (level_of d) (seq 0 n)) && nodup_b (map (level_of d) (seq 0 n))
  && Nat.eqb (length (d_levels d)) n
  && forallb (forallb (fun u => Nat.ltb u n)) (p_rows p)
  && compiled_ok p d locs.

(* ---- compile(), general case, over the component structure found by its graph algorithms (connected components of the
   "appear together in a row" graph, leaf units = a maximal independent set): per component, in order, the sorted factor
   units and the sorted leaf units.  A component is a header tree over its factors with 2^f copies of the chain over
   its leaves; the components are concatenated. ---- *)
Definition comp := (list nat * list nat)%type.
Definition comp_add (t : atype) (c : comp) : add := add_stack (fst c) (repeat (chain t (snd c)) (2 ^ length (fst c))).
Definition compile_add (t : atype) (comps : list comp) : add := add_concatenate (map (comp_add t) comps).
Definition comp_size (c : comp) : nat := length (fst c) + length (snd c).
Fixpoint index_of (u : nat) (l : list nat) : nat :=
  match l with [] => 0 | a :: r => if Nat.eqb a u then 0 else S (index_of u r) end.
Definition memb (u : nat) (l : list nat) : bool := existsb (Nat.eqb u) l.
(* bit `pos` (0 = most significant) of the nf-bit number q *)
Definition msb (nf q pos : nat) : bool := Nat.testbit q (nf - 1 - pos).
(* get_update_location(units of the row, all values 1): the edges with value 1 at the level of the row's last unit (in
   diagram order: factors, then leaves) leaving the nodes reached under the row's values of its earlier units *)
Definition row_locs_in (start : nat) (c : comp) (row : list nat) : list loc :=
  let F := fst c in let L := snd c in
  let P := map (fun u => index_of u F) (filter (fun u => memb u F) row) in
  match filter (fun u => memb u L) row with
  | l :: _ => map (fun q => (start + length F + index_of l L, q, true))
                  (filter (fun q => forallb (msb (length F) q) P) (seq 0 (2 ^ length F)))
  | [] => let i := fold_right Nat.max 0 P in
          map (fun k => (start + i, k, true))
              (filter (fun k => forallb (fun pos => Nat.eqb pos i || msb i k pos) P) (seq 0 (2 ^ i)))
  end.
Fixpoint row_locs (start : nat) (comps : list comp) (row : list nat) : list loc :=
  match comps with
  | [] => []
  | c :: rest => if memb (hd 0 row) (fst c ++ snd c) then row_locs_in start c row
                 else row_locs (start + comp_size c) rest row
  end.
Definition compile_model (t : atype) (comps : list comp) (rows : list (list nat)) : add * list (list loc) :=
  (compile_add t comps, map (row_locs 0 comps) rows).

(* structural equality of diagrams, and of location lists up to order *)
Definition eqb_node (a b : node) : bool :=
  Bool.eqb (n_live a) (n_live b) && Nat.eqb (n_c0 a) (n_c0 b) && Nat.eqb (n_c1 a) (n_c1 b)
  && a_eqb (n_a0 a) (n_a0 b) && a_eqb (n_a1 a) (n_a1 b).
Fixpoint eqb_lists {A} (e : A -> A -> bool) (a b : list A) : bool :=
  match a, b with [] , [] => true | x :: a', y :: b' => e x y && eqb_lists e a' b' | _, _ => false end.
Definition eqb_add (a b : add) : bool :=
  eqb_atype (d_type a) (d_type b) && eqb_natlist (d_units a) (d_units b) && Nat.eqb (d_root a) (d_root b)
  && eqb_lists (eqb_lists eqb_node) (d_levels a) (d_levels b).
Definition same_locs (a b : list loc) : bool :=
  Nat.eqb (length a) (length b) && forallb (fun l => existsb (eqb_loc l) b) a && forallb (fun l => existsb (eqb_loc l) a) b.

(* the conditions on the component structure under which compile_model is correct (Proofs/CompileValid.v) *)
Definition units_of (comps : list comp) : list nat := flat_map (fun c : comp => fst c ++ snd c) comps.
Fixpoint row_ok (comps : list comp) (row : list nat) : bool :=
  match comps with
  | [] => false
  | c :: rest => if memb (hd 0 row) (fst c ++ snd c)
                 then negb (Nat.eqb (length row) 0) && forallb (fun v => memb v (fst c ++ snd c)) row
                      && Nat.leb (length (filter (fun v => memb v (snd c)) row)) 1
                 else row_ok rest row
  end.
Definition hints_ok (n : nat) (rows : list (list nat)) (comps : list comp) : bool :=
  nodup_b (units_of comps) && forallb (fun u => Nat.ltb u n) (units_of comps) && Nat.eqb (length (units_of comps)) n
  && forallb (fun c : comp => negb (Nat.eqb (length (snd c)) 0)) comps && negb (Nat.eqb (length comps) 0)
  && forallb (row_ok comps) rows.

(* ---- the graph step of compile(): leaf units = greedy independent set in the order np.argsort(degrees) gives; the
   connected components come from scipy and are an input of the model (checked by graph_ok) ---- *)
Definition adj (rows : list (list nat)) (u v : nat) : bool :=
  negb (Nat.eqb u v) && existsb (fun row => memb u row && memb v row) rows.
Definition degree (rows : list (list nat)) (n u : nat) : nat := length (filter (adj rows u) (seq 0 n)).
Fixpoint select_leaves (rows : list (list nat)) (order avail leaves : list nat) : list nat :=
  match order with
  | [] => leaves
  | u :: r => if memb u avail then select_leaves rows r (filter (fun v => negb (adj rows u v)) avail) (u :: leaves)
              else select_leaves rows r avail leaves
  end.
Definition build_hints (n : nat) (rows : list (list nat)) (order : list nat) (components : list (list nat)) : list comp :=
  let leaves := select_leaves rows order (seq 0 n) [] in
  map (fun comp => (filter (fun u => memb u comp && negb (memb u leaves)) (seq 0 n),
                    filter (fun u => memb u comp && memb u leaves) (seq 0 n))) components.
Definition graph_ok (n : nat) (rows : list (list nat)) (order : list nat) (components : list (list nat)) : bool :=
  nodup_b order && Nat.eqb (length order) n && forallb (fun u => Nat.ltb u n) order
  && nodup_b (concat components) && Nat.eqb (length (concat components)) n && forallb (fun u => Nat.ltb u n) (concat components)
  && negb (Nat.eqb (length components) 0) && forallb (fun c => negb (Nat.eqb (length c) 0)) components
  && forallb (fun row => negb (Nat.eqb (length row) 0) && nodup_b row
                         && existsb (fun comp => forallb (fun v => memb v comp) row) components) rows.
