(* MODEL of datascope/utility/add.py (AValue, ADD) and of ATally from datascope/importance/oracle.py.
   Values: a vector of naturals within the bounds of its type, or the single invalid value (None).
   Diagrams: one list of nodes per variable (level); a node has a live flag, two children (the constructors
   hard-code two candidates) and two edge values.  Executable definitions only. *)
From Coq Require Import List Arith ZArith Bool.
Import ListNotations.

(* ---------------- value types ---------------- *)
Record atype := mkAT {
  a_max : list nat;                 (* component-wise maxima: AValue[m0, m1, ...] *)
  a_tally : option (nat * nat);     (* Some (K, C) for ATally[numtuples, K, C]: sum of slots 1..C <= K and of C+1..2C <= K *)
}.
Definition aval := option (list nat).

Definition plain (maxs : list nat) : atype := mkAT maxs None.
Definition tally (numtuples k c : nat) : atype := mkAT (numtuples :: repeat k (2 * c)) (Some (k, c)).

Definition sum_nat (l : list nat) : nat := fold_right Nat.add 0 l.
Definition leb_all (v m : list nat) : bool :=
  Nat.eqb (length v) (length m) && forallb (fun p => Nat.leb (fst p) (snd p)) (combine v m).
Definition inb (t : atype) (v : list nat) : bool :=
  leb_all v (a_max t) &&
  match a_tally t with
  | None => true
  | Some (k, c) => Nat.leb (sum_nat (firstn c (skipn 1 v))) k && Nat.leb (sum_nat (firstn c (skipn (S c) v))) k
  end.

Definition clip (t : atype) (v : list nat) : aval := if inb t v then Some v else None.
Definition vadd (a b : list nat) : list nat := map (fun p => fst p + snd p) (combine a b).
Definition vsub (a b : list nat) : list nat := map (fun p => fst p - snd p) (combine a b).
Definition vle (b a : list nat) : bool := forallb (fun p => Nat.leb (fst p) (snd p)) (combine b a).

Definition a_zero (t : atype) : aval := Some (repeat 0 (length (a_max t))).
Definition a_add (t : atype) (x y : aval) : aval :=
  match x, y with Some a, Some b => clip t (vadd a b) | _, _ => None end.
(* subtraction FROM A VALID value: any negative component, or an invalid subtrahend, gives the invalid value *)
Definition a_sub (t : atype) (x y : aval) : aval :=
  match x, y with Some a, Some b => if vle b a then clip t (vsub a b) else None | _, _ => None end.
Definition a_eqb (x y : aval) : bool :=
  match x, y with
  | Some a, Some b => Nat.eqb (length a) (length b) && forallb (fun p => Nat.eqb (fst p) (snd p)) (combine a b)
  | None, None => true | _, _ => false
  end.

(* domain(): itertools.product over the component ranges (filtered by the tally constraints), then the invalid value *)
Fixpoint product_ranges (maxs : list nat) : list (list nat) :=
  match maxs with
  | [] => [[]]
  | m :: t => flat_map (fun x => map (cons x) (product_ranges t)) (seq 0 (S m))
  end.
Definition domain_valid (t : atype) : list (list nat) :=
  match a_tally t with
  | None => product_ranges (a_max t)
  | Some (k, c) =>
      let single := filter (fun x => Nat.leb (sum_nat x) k) (product_ranges (repeat k c)) in
      flat_map (fun n => flat_map (fun w => map (fun wo => n :: w ++ wo) single) single)
               (seq 0 (S (hd 0 (a_max t))))
  end.
Definition domain (t : atype) : list aval := map Some (domain_valid t) ++ [None].

(* __index__: mixed radix for a plain AValue, position in the enumerated domain for an ATally *)
Fixpoint mixed_radix (v maxs : list nat) : nat :=
  match v, maxs with
  | x :: v', _ :: m' => x * fold_right Nat.mul 1 (map S m') + mixed_radix v' m'
  | _, _ => 0
  end.
Fixpoint pos_of (x : aval) (l : list aval) : nat :=
  match l with [] => 0 | h :: t => if a_eqb x h then 0 else S (pos_of x t) end.
Fixpoint pos_list (x : list nat) (l : list (list nat)) : nat :=
  match l with [] => 0 | h :: t => if a_eqb (Some x) (Some h) then 0 else S (pos_list x t) end.
(* ATally: position in domain() = (coalition size, rank of the first label tally, rank of the second) in mixed radix,
   the ranks taken in the filtered product enumeration of a single label tally *)
Definition tally_index (n k c : nat) : aval -> nat :=
  let sg := filter (fun x => Nat.leb (sum_nat x) k) (product_ranges (repeat k c)) in
  let s := length sg in
  fun x => match x with
           | None => S n * s * s
           | Some v => hd 0 v * s * s + pos_list (firstn c (skipn 1 v)) sg * s + pos_list (firstn c (skipn (S c) v)) sg
           end.
Definition a_index (t : atype) : aval -> nat :=
  match a_tally t with
  | None => fun x => match x with
                     | Some v => mixed_radix v (a_max t)
                     | None => fold_right Nat.mul 1 (map S (a_max t))      (* domainsize - 1 *)
                     end
  | Some (k, c) => tally_index (hd 0 (a_max t)) k c
  end.

(* ---------------- diagrams ---------------- *)
Record node := mkNode { n_live : bool; n_c0 : nat; n_c1 : nat; n_a0 : aval; n_a1 : aval }.
Definition child (n : node) (b : bool) : nat := if b then n_c1 n else n_c0 n.
Definition adder (n : node) (b : bool) : aval := if b then n_a1 n else n_a0 n.
Record add := mkADD { d_type : atype; d_units : list nat; d_root : nat; d_levels : list (list node) }.

Definition dead (t : atype) : node := mkNode false 0 0 (a_zero t) (a_zero t).
Definition getnode (t : atype) (lvl : list node) (j : nat) : node := nth j lvl (dead t).

(* __call__: result = zero; for each variable: result += adder[i, j, arg]; j = child[i, j, arg] *)
Fixpoint eval_from (t : atype) (lvls : list (list node)) (j : nat) (acc : aval) (x : list bool) : aval :=
  match lvls, x with
  | lvl :: rest, b :: x' => let n := getnode t lvl j in eval_from t rest (child n b) (a_add t acc (adder n b)) x'
  | _, _ => acc
  end.
Definition eval (d : add) (x : list bool) : aval := eval_from (d_type d) (d_levels d) (d_root d) (a_zero (d_type d)) x.

Definition diameter (d : add) : nat := match d_levels d with [] => 1 | l :: _ => length l end.

(* construct_chain: one live node per level, children 0, edge values zero *)
Definition chain (t : atype) (units : list nat) : add :=
  mkADD t units 0 (map (fun _ => [mkNode true 0 0 (a_zero t) (a_zero t)]) units).

(* construct_tree: complete binary tree; level i < n-1 has 2^i live nodes (node k -> 2k, 2k+1); the last level has all
   2^(n-1) nodes live with children 0 *)
Definition tree (t : atype) (units : list nat) : add :=
  let n := length units in let w := 2 ^ (n - 1) in
  mkADD t units 0
    (map (fun i => if Nat.eqb (S i) n then repeat (mkNode true 0 0 (a_zero t) (a_zero t)) w
                   else map (fun k => mkNode true (2 * k) (2 * k + 1) (a_zero t) (a_zero t)) (seq 0 (2 ^ i))
                        ++ repeat (dead t) (w - 2 ^ i)) (seq 0 n)).

(* sum: product construction over reachable pairs, in dictionary insertion order *)
Fixpoint plookup (key : nat * nat) (m : list (nat * nat)) : option nat :=
  (* position of key in the insertion-ordered key list *)
  match m with
  | [] => None
  | h :: t => if Nat.eqb (fst h) (fst key) && Nat.eqb (snd h) (snd key) then Some 0
              else match plookup key t with Some k => Some (S k) | None => None end
  end.
Definition setdefault (key : nat * nat) (m : list (nat * nat)) : list (nat * nat) * nat :=
  match plookup key m with Some k => (m, k) | None => (m ++ [key], length m) end.

(* one level: pnodes = list of pairs (index = node number k); returns the nodes of this level and the next pairs *)
Fixpoint sum_level (t : atype) (l1 l2 : list node) (pn : list (nat * nat)) (cn : list (nat * nat))
  : list node * list (nat * nat) :=
  match pn with
  | [] => ([], cn)
  | (i, j) :: rest =>
      let n1 := getnode t l1 i in let n2 := getnode t l2 j in
      let '(cn0, k0) := setdefault (n_c0 n1, n_c0 n2) cn in
      let '(cn1, k1) := setdefault (n_c1 n1, n_c1 n2) cn0 in
      let nd := mkNode true k0 k1 (a_add t (n_a0 n1) (n_a0 n2)) (a_add t (n_a1 n1) (n_a1 n2)) in
      let '(nodes, cn') := sum_level t l1 l2 rest cn1 in
      (nd :: nodes, cn')
  end.
Fixpoint sum_levels (t : atype) (ls1 ls2 : list (list node)) (pn : list (nat * nat)) (width : nat) : list (list node) :=
  match ls1, ls2 with
  | l1 :: r1, l2 :: r2 =>
      let '(nodes, cn) := sum_level t l1 l2 pn [] in
      (nodes ++ repeat (dead t) (width - length nodes)) :: sum_levels t r1 r2 cn width
  | _, _ => []
  end.
Definition add_sum (d1 d2 : add) : add :=
  let t := d_type d1 in
  mkADD t (d_units d1) 0 (sum_levels t (d_levels d1) (d_levels d2) [(d_root d1, d_root d2)] (diameter d1 * diameter d2)).

(* restrict(unit at level idx, value) *)
Definition upd_node (t : atype) (nextlvl : list node) (value : bool) (n : node) : node :=
  if n_live n
  then let t0 := getnode t nextlvl (n_c0 n) in let t1 := getnode t nextlvl (n_c1 n) in
       mkNode true (child t0 value) (child t1 value) (a_add t (n_a0 n) (adder t0 value)) (a_add t (n_a1 n) (adder t1 value))
  else n.
Fixpoint restrict_levels (t : atype) (lvls : list (list node)) (idx : nat) (value : bool) : list (list node) :=
  match lvls, idx with
  | prev :: cur :: rest, 1 => map (upd_node t cur value) prev :: rest
  | l :: rest, S k => l :: restrict_levels t rest k value
  | _, _ => lvls
  end.
Definition set_node (j : nat) (n : node) (lvl : list node) : list node := firstn j lvl ++ n :: skipn (S j) lvl.
(* restricting the FIRST variable: root moves; the removed edge value is added to both edges of the new root node.
   None when there is no next level (the code raises IndexError: finding F12) *)
Definition add_restrict (d : add) (idx : nat) (value : bool) : option add :=
  let t := d_type d in
  let units' := firstn idx (d_units d) ++ skipn (S idx) (d_units d) in
  match idx with
  | S _ => Some (mkADD t units' (d_root d) (restrict_levels t (d_levels d) idx value))
  | O => match d_levels d with
         | l0 :: l1 :: rest =>
             let r := getnode t l0 (d_root d) in
             let root' := child r value in
             let n := getnode t l1 root' in
             let n' := mkNode (n_live n) (n_c0 n) (n_c1 n) (a_add t (n_a0 n) (adder r value)) (a_add t (n_a1 n) (adder r value)) in
             Some (mkADD t units' root' (set_node root' n' l1 :: rest))
         | _ => None
         end
  end.

(* modelcount: backward dynamic programme over the domain; invalid count by complement *)
Definition count_row (t : atype) (idx : aval -> nat) (dom : list aval) (prev : list (list nat)) (n : node) : list nat :=
  if n_live n
  then map (fun e => match e with
                     | None => 0
                     | Some _ =>
                         fold_right Nat.add 0
                           (map (fun c : bool => match a_sub t e (adder n c) with
                                                 | None => 0
                                                 | Some v => nth (idx (Some v)) (nth (child n c) prev []) 0
                                                 end) [false; true])
                     end) dom
  else map (fun _ => 0) dom.
Definition count_level (t : atype) (idx : aval -> nat) (dom : list aval) (prev : list (list nat)) (lvl : list node) : list (list nat) :=
  map (count_row t idx dom prev) lvl.
Definition add_modelcount (d : add) : list nat :=
  let t := d_type d in let dom := domain t in let idx := a_index t in
  let init := repeat (1 :: repeat 0 (length dom - 1)) (diameter d) in
  let final := fold_right (fun lvl prev => count_level t idx dom prev lvl) init (d_levels d) in
  let res := nth (d_root d) final [] in
  firstn (length dom - 1) res ++ [2 ^ length (d_levels d) - sum_nat (firstn (length dom - 1) res)].

(* all assignments of n binary variables, itertools.product order *)
Fixpoint bmasks (n : nat) : list (list bool) :=
  match n with O => [[]] | S k => map (cons false) (bmasks k) ++ map (cons true) (bmasks k) end.
Definition histogram (t : atype) (vals : list aval) : list nat :=
  map (fun e => length (filter (a_eqb e) vals)) (domain t).

(* concatenate: levels one after the other; the last level of each element routes to the next element's root;
   narrower elements are padded with dead nodes *)
Definition pad_level (t : atype) (w : nat) (lvl : list node) : list node := lvl ++ repeat (dead t) (w - length lvl).
Fixpoint reroute_last (lvls : list (list node)) (target : nat) : list (list node) :=
  match lvls with
  | [] => []
  | [l] => [map (fun n => if n_live n then mkNode true target target (n_a0 n) (n_a1 n) else n) l]
  | l :: rest => l :: reroute_last rest target
  end.
Fixpoint concat_levels (t : atype) (w : nat) (els : list add) : list (list node) :=
  match els with
  | [] => []
  | [e] => map (pad_level t w) (d_levels e)
  | e :: ((e' :: _) as rest) => map (pad_level t w) (reroute_last (d_levels e) (d_root e')) ++ concat_levels t w rest
  end.
Definition add_concatenate (els : list add) : add :=
  match els with
  | [] => mkADD (plain []) [] 0 []
  | e :: _ => let w := fold_right Nat.max 0 (map diameter els) in
              mkADD (d_type e) (flat_map d_units els) (d_root e) (concat_levels (d_type e) w els)
  end.

(* stack(factors, elements): a complete binary header tree over the factor variables whose 2^f leaves route to
   the roots of the elements (in product order of the factor values), elements placed side by side *)
Definition shift_node (off : nat) (n : node) : node := mkNode (n_live n) (n_c0 n + off) (n_c1 n + off) (n_a0 n) (n_a1 n).
Fixpoint offsets (els : list add) (acc : nat) : list nat :=
  match els with [] => [] | e :: r => acc :: offsets r (acc + diameter e) end.
Definition zip_levels (t : atype) (els : list add) (offs : list nat) (depth : nat) : list (list node) :=
  (* level i of the result = concatenation over elements of their level i shifted by their offset *)
  map (fun i => flat_map (fun eo => map (shift_node (snd eo)) (nth i (d_levels (fst eo)) [])) (combine els offs)) (seq 0 depth).
Definition header_level (t : atype) (w i : nat) (last : bool) (roots : list nat) : list node :=
  (* level i of the header tree has 2^i live nodes; node k has children 2k and 2k+1 (or the element roots at the leaves) *)
  map (fun k => if last then mkNode true (nth (2 * k) roots 0) (nth (2 * k + 1) roots 0) (a_zero t) (a_zero t)
                else mkNode true (2 * k) (2 * k + 1) (a_zero t) (a_zero t)) (seq 0 (2 ^ i))
  ++ repeat (dead t) (w - 2 ^ i).
Definition add_stack (factors : list nat) (els : list add) : add :=
  match els, factors with
  | [], _ => mkADD (plain []) [] 0 []
  | e :: _, [] => e
  | e :: _, _ =>
      let t := d_type e in
      let w := sum_nat (map diameter els) in
      let offs := offsets els 0 in
      let roots := map (fun eo => d_root (fst eo) + snd eo) (combine els offs) in
      let nf := length factors in
      mkADD t (factors ++ d_units e) 0
            (map (fun i => header_level t w i (Nat.eqb (S i) nf) roots) (seq 0 nf)
             ++ zip_levels t els offs (length (d_levels e)))
  end.
