(* MODEL of ShapleyImportance._shapley_montecarlo as a function of the permutations drawn from the instance's
   generator, the utility, null_score, mean_score, tolerance, truncation_steps, timeout and the clock.
   Per permutation:  query = 0; new_score = null_score; truncation_counter = 0
     for j, idx in enumerate(idxs): old = new; query[idx] = 1; new = utility(rows present) or null on failure;
         importance[idx] = new - old
         if |new - mean| <= |tolerance * mean|: counter += 1; if steps > 0 and counter > steps: break
         else: counter = 0
   all_importances[:, i] = importance; if timeout > 0 and time() - start > timeout: keep columns 0..i; break
   scores = average over the kept columns.
   The clock is scripted by the harness as a function of the number of utility evaluations made so far, so the
   model reads `clock k` where k is that number.  Executable definitions only. *)
From Coq Require Import List Arith ZArith QArith Qabs Bool.
From DS Require Import Util.SumQ Spec.Shapley Spec.Dnf Model.Provenance Model.Bruteforce.
Import ListNotations.
Local Open Scope Q_scope.

Record mcparams := mkMC {
  mc_null : Q; mc_mean : Q; mc_tol : Q; mc_steps : nat; mc_timeout : Q;
}.

Definition in_band (P : mcparams) (s : Q) : bool := Qle_bool (Qabs (s - mc_mean P)) (Qabs (mc_tol P * mc_mean P)).
Definition set_q (i : nat) (v : Q) (l : list Q) : list Q := set_nth i v l.

(* one permutation; v = value of a unit assignment (mask); returns (importance column, number of evaluations) *)
Fixpoint perm_loop (P : mcparams) (v : list bool -> Q) (perm : list nat) (query : list bool) (new_score : Q)
         (counter : nat) (imp : list Q) (evals : nat) : list Q * nat :=
  match perm with
  | [] => (imp, evals)
  | idx :: rest =>
      let old := new_score in
      let query' := setbit idx query in
      let new := v query' in
      let imp' := set_q idx (new - old) imp in
      if in_band P new
      then let counter' := S counter in
           if Nat.ltb 0 (mc_steps P) && Nat.ltb (mc_steps P) counter' then (imp', S evals)
           else perm_loop P v rest query' new counter' imp' (S evals)
      else perm_loop P v rest query' new 0%nat imp' (S evals)
  end.

Definition one_perm (P : mcparams) (n : nat) (v : list bool -> Q) (perm : list nat) : list Q * nat :=
  perm_loop P v perm (allfalse n) (mc_null P) 0%nat (repeat 0 n) 0%nat.

(* the iterations; clock k = the reading of time.time() after k utility evaluations; returns the kept columns *)
Fixpoint mc_iter (P : mcparams) (n : nat) (v : list bool -> Q) (clock : nat -> Q) (perms : list (list nat))
         (evals : nat) (cols : list (list Q)) : list (list Q) * nat :=
  match perms with
  | [] => (cols, evals)
  | pi :: rest =>
      let '(col, k) := one_perm P n v pi in
      let evals' := (evals + k)%nat in
      let cols' := cols ++ [col] in
      if Qle_bool (mc_timeout P) 0 then mc_iter P n v clock rest evals' cols'
      else if Qle_bool (clock evals' - clock 0%nat) (mc_timeout P) then mc_iter P n v clock rest evals' cols'
      else (cols', evals')
  end.

Definition average_cols (n : nat) (cols : list (list Q)) : option (list Q) :=
  match cols with
  | [] => None                                         (* np.average over zero columns: NaN *)
  | _ => Some (map (fun p => sumQ (fun col => nth p col 0) cols / qn (length cols)) (seq 0 n))
  end.

Definition montecarlo (P : mcparams) (n : nat) (v : list bool -> Q) (clock : nat -> Q) (perms : list (list nat))
  : option (list Q) := average_cols n (fst (mc_iter P n v clock perms 0%nat [])).

(* the unit assignments the utility is evaluated on, in call order (per permutation, then concatenated) *)
Fixpoint perm_history (P : mcparams) (v : list bool -> Q) (perm : list nat) (query : list bool) (counter : nat)
  : list (list bool) :=
  match perm with
  | [] => []
  | idx :: rest =>
      let query' := setbit idx query in
      let new := v query' in
      query' :: (if in_band P new
                 then if Nat.ltb 0 (mc_steps P) && Nat.ltb (mc_steps P) (S counter) then []
                      else perm_history P v rest query' (S counter)
                 else perm_history P v rest query' 0%nat)
  end.
Fixpoint mc_history (P : mcparams) (n : nat) (v : list bool -> Q) (clock : nat -> Q) (perms : list (list nat))
         (evals : nat) : list (list bool) :=
  match perms with
  | [] => []
  | pi :: rest =>
      let h := perm_history P v pi (allfalse n) 0%nat in
      let evals' := (evals + length h)%nat in
      h ++ (if Qle_bool (mc_timeout P) 0 then mc_history P n v clock rest evals'
            else if Qle_bool (clock evals' - clock 0%nat) (mc_timeout P) then mc_history P n v clock rest evals'
            else [])
  end.

(* ---------- specification vocabulary (C04): marginal contribution of a unit to the units preceding it ---------- *)
Fixpoint before (perm : list nat) (p : nat) : list nat :=
  match perm with [] => [] | a :: t => if Nat.eqb a p then [] else a :: before t p end.
Definition mask_of (n : nat) (l : list nat) : list bool := fold_left (fun m i => setbit i m) l (allfalse n).
Definition marginal (n : nat) (v : list bool -> Q) (null : Q) (perm : list nat) (p : nat) : Q :=
  v (mask_of n (before perm p ++ [p])) - match before perm p with [] => null | _ => v (mask_of n (before perm p)) end.

(* all permutations of a list (insertion of the head at every position) *)
Fixpoint ins_all (a : nat) (l : list nat) : list (list nat) :=
  match l with [] => [[a]] | b :: t => (a :: l) :: map (cons b) (ins_all a t) end.
Fixpoint perms (l : list nat) : list (list nat) :=
  match l with [] => [[]] | a :: t => flat_map (ins_all a) (perms t) end.
