(* MODEL (binary64, Coq primitive floats) of the two scoring kernels, written separately after the two sources:
     kernel_ref_f : datascope/importance/shapley.py    compute_all_importances     (argsort per column inside the loop)
     kernel_cy_f  : datascope/importance/shapley_cy.pyx compute_all_importances_cy (argsort of the whole matrix first)
   Both accumulate in the order the code does: outer loop over validation points, inner loop from the farthest
   rank to the nearest, out[idx] += current, final division by n_test.  The argsort results are arguments
   (per validation point, a list of unit indices).  Executable definitions only. *)
From Coq Require Import PrimFloat Uint63 FloatOps SpecFloat ZArith List.
Import ListNotations.
Local Open Scope float_scope.

Definition fnat (k : nat) : float := of_uint63 (of_Z (Z.of_nat k)).
Definition fnth (l : list float) (i : nat) : float := nth i l zero.
Definition nthl {A} (l : list (list A)) (i : nat) : list A := nth i l [].
Fixpoint fupd (l : list float) (i : nat) (x : float) : list float :=
  match l, i with
  | [], _ => []
  | a :: t, O => (a + x) :: t
  | a :: t, S k => a :: fupd t k x
  end.

(* arguments: unit_labels[q][j] (nat), label_utilities[c][j], null_scores[j], orders[j] = argsort(dist[:, j]) *)
Record kargs := mkArgs {
  k_units : nat; k_test : nat; k_classes : nat;
  k_labels : list (list nat);       (* units x points *)
  k_utils : list (list float);      (* classes x points *)
  k_nulls : list float;             (* points *)
  k_orders : list (list nat);       (* points x units *)
}.

(* ---------------- reference kernel (shapley.py) ---------------- *)
(* unit_labels = vstack(unit_labels, repeat(n_classes, n_test)); label_utilities = vstack(label_utilities, null_scores) *)
Definition ref_labels (a : kargs) : list (list nat) := k_labels a ++ [repeat (k_classes a) (k_test a)].
Definition ref_utils (a : kargs) : list (list float) := k_utils a ++ [k_nulls a].

(* for i in range(n_units - 1, -1, -1): i_1 = idxs[i]; i_2 = idxs[i + 1]; current += (...) / float(i + 1); out[i_1] += current *)
Fixpoint ref_inner (labels : list (list nat)) (utils : list (list float)) (j : nat) (idxs : list nat)
         (steps : nat) (i : nat) (current : float) (out : list float) : list float :=
  match steps with
  | O => out
  | S s =>
      let i_1 := nth i idxs O in
      let i_2 := nth (S i) idxs O in
      let current' := current + (fnth (nthl utils (nth j (nthl labels i_1) O)) j
                                 - fnth (nthl utils (nth j (nthl labels i_2) O)) j) / fnat (S i) in
      ref_inner labels utils j idxs s (Nat.pred i) current' (fupd out i_1 current')
  end.

Fixpoint ref_outer (a : kargs) (labels : list (list nat)) (utils : list (list float)) (js : list nat) (out : list float) :=
  match js with
  | [] => out
  | j :: t =>
      let idxs := nthl (k_orders a) j ++ [k_units a] in          (* np.append(np.argsort(...), [n_units]) *)
      ref_outer a labels utils t (ref_inner labels utils j idxs (k_units a) (Nat.pred (k_units a)) zero out)
  end.

Definition kernel_ref_f (a : kargs) : list float :=
  let out := ref_outer a (ref_labels a) (ref_utils a) (seq 0 (k_test a)) (repeat zero (S (k_units a))) in
  map (fun x => x / fnat (k_test a)) (firstn (k_units a) out).

(* ---------------- compiled kernel (shapley_cy.pyx, accumulator declared double) ---------------- *)
(* idxs = vstack(argsort(unit_distances, axis=0), full((1, n_test), n_units)): a matrix indexed [i, j] *)
Definition cy_idxs (a : kargs) (i j : nat) : nat :=
  if Nat.ltb i (k_units a) then nth i (nthl (k_orders a) j) O else k_units a.

Fixpoint cy_inner (a : kargs) (labels : list (list nat)) (utils : list (list float)) (j : nat)
         (steps : nat) (i : nat) (current : float) (out : list float) : list float :=
  match steps with
  | O => out
  | S s =>
      let i_1 := cy_idxs a i j in
      let i_2 := cy_idxs a (S i) j in
      let l_1 := nth j (nthl labels i_1) O in
      let l_2 := nth j (nthl labels i_2) O in
      let u_1 := fnth (nthl utils l_1) j in
      let u_2 := fnth (nthl utils l_2) j in
      let current' := current + (u_1 - u_2) / fnat (S i) in
      cy_inner a labels utils j s (Nat.pred i) current' (fupd out i_1 current')
  end.

Fixpoint cy_outer (a : kargs) (labels : list (list nat)) (utils : list (list float)) (js : list nat) (out : list float) :=
  match js with
  | [] => out
  | j :: t => cy_outer a labels utils t (cy_inner a labels utils j (k_units a) (Nat.pred (k_units a)) zero out)
  end.

Definition kernel_cy_f (a : kargs) : list float :=
  let labels := k_labels a ++ [repeat (k_classes a) (k_test a)] in
  let utils := k_utils a ++ [k_nulls a] in
  let out := cy_outer a labels utils (seq 0 (k_test a)) (repeat zero (S (k_units a))) in
  map (fun x => x / fnat (k_test a)) (firstn (k_units a) out).

(* ---------------- the pinned compiled kernel: accumulator declared `float` (binary32) ---------------- *)
Definition round32 (x : float) : float :=
  match Prim2SF x with
  | S754_finite s m e => SF2Prim (binary_normalize 24 128 (if s then Z.neg m else Z.pos m) e s)
  | _ => x
  end.
Fixpoint cy32_inner (a : kargs) (labels : list (list nat)) (utils : list (list float)) (j : nat)
         (steps : nat) (i : nat) (current : float) (out : list float) : list float :=
  match steps with
  | O => out
  | S s =>
      let i_1 := cy_idxs a i j in
      let i_2 := cy_idxs a (S i) j in
      let u_1 := fnth (nthl utils (nth j (nthl labels i_1) O)) j in
      let u_2 := fnth (nthl utils (nth j (nthl labels i_2) O)) j in
      let current' := round32 (current + (u_1 - u_2) / fnat (S i)) in
      cy32_inner a labels utils j s (Nat.pred i) current' (fupd out i_1 current')
  end.
Fixpoint cy32_outer (a : kargs) labels utils (js : list nat) (out : list float) :=
  match js with
  | [] => out
  | j :: t => cy32_outer a labels utils t (cy32_inner a labels utils j (k_units a) (Nat.pred (k_units a)) zero out)
  end.
Definition kernel_cy_f32acc (a : kargs) : list float :=
  let labels := k_labels a ++ [repeat (k_classes a) (k_test a)] in
  let utils := k_utils a ++ [k_nulls a] in
  map (fun x => x / fnat (k_test a))
      (firstn (k_units a) (cy32_outer a labels utils (seq 0 (k_test a)) (repeat zero (S (k_units a))))).

(* bitwise comparison of results: equal as IEEE values and, for zeros, equal sign; NaN equals NaN *)
Definition fbits_eq (x y : float) : bool :=
  match PrimFloat.compare x y with
  | FEq => match PrimFloat.compare (one / x) (one / y) with FEq => true | FNotComparable => true | _ => false end
  | FNotComparable => match PrimFloat.compare x x, PrimFloat.compare y y with
                      | FNotComparable, FNotComparable => true | _, _ => false end
  | _ => false
  end.
