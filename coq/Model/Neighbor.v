(* MODEL of the K=1 map/fork path of ShapleyImportance._shapley_neighbor:
   label encoding (LabelEncoder = position among the sorted distinct training labels), the per-unit reduction
   get_unit_labels_and_distances (np.argmin: first row of minimal distance among the rows a unit owns), the
   element-wise utility table U[class][point], per-point null scores, and the kernel of Model/Kernel.v.
   Executable definitions only. *)
From Coq Require Import List Arith ZArith QArith Bool.
From DS Require Import Util.SumQ Spec.Shapley Model.Provenance Model.Kernel.
Import ListNotations.
Local Open Scope Q_scope.

(* rows owned by unit p: rows whose (single-literal) formula is true when only p is switched on *)
Definition rows_of (owner : list nat) (p : nat) : list nat :=
  filter (fun r => Nat.eqb (nth r owner 0%nat) p) (seq 0 (length owner)).

(* np.argmin over a list of candidates: the first one of minimal distance *)
Fixpoint argmin_first (d : nat -> Q) (l : list nat) : option nat :=
  match l with
  | [] => None
  | r :: t => match argmin_first d t with
              | None => Some r
              | Some s => if Qle_bool (d r) (d s) then Some r else Some s
              end
  end.

Definition unit_row (owner : list nat) (d : nat -> Q) (p : nat) : option nat := argmin_first d (rows_of owner p).
Definition unit_dist (owner : list nat) (d : nat -> Q) (p : nat) : Q :=
  match unit_row owner d p with Some r => d r | None => 0 end.

(* LabelEncoder: class index = position among the sorted distinct labels *)
Definition classes (labels : list Z) : list Z := sorted_distinct labels.
Definition encode_label (labels : list Z) (y : Z) : nat := position y (classes labels).

Definition nthQ (l : list Q) (i : nat) : Q := nth i l 0.
Definition nthL {A} (l : list (list A)) (i : nat) : list A := nth i l [].

(* utility of unit q for validation point j: U[class of the label of q's nearest row][j] *)
Definition unit_utility (labels : list Z) (owner : list nat) (dist_j : list Q) (Ucol : list Q) (q : nat) : Q :=
  match unit_row owner (nthQ dist_j) q with
  | Some r => nthQ Ucol (encode_label labels (nth r labels 0%Z))
  | None => 0
  end.

(* dist : per validation point, the distances of all rows; Ucols : per validation point, the utility of each class *)
Definition neighbor1 (n : nat) (labels : list Z) (owner : list nat) (dist : list (list Q)) (Ucols : list (list Q))
           (nulls : list Q) (orders : list (list nat)) : list Q :=
  kernel n (map (fun t => unit_utility labels owner (fst t) (snd t)) (combine dist Ucols)) nulls orders.

(* validity of an order for validation point j: a permutation of the units sorting the reduced distances *)
Fixpoint sorted_by (key : nat -> Q) (l : list nat) : bool :=
  match l with
  | [] => true
  | a :: t => match t with [] => true | b :: _ => Qle_bool (key a) (key b) && sorted_by key t end
  end.
Definition is_perm_of_units (n : nat) (l : list nat) : bool :=
  Nat.eqb (length l) n && forallb (fun p => existsb (Nat.eqb p) l) (seq 0 n).
Definition valid_order (n : nat) (owner : list nat) (dist_j : list Q) (l : list nat) : bool :=
  is_perm_of_units n l && sorted_by (unit_dist owner (nthQ dist_j)) l.

(* get_test_batch_size and the batch loop of _shapley_neighbor (observation O1 of DESIGN.md); sizes in N *)
Definition get_test_batch_size (bsize n_train n_test : N) : N :=
  N.max (n_test / N.max ((n_train * n_test) / bsize) 1) n_test.
