(* small list lemmas missing from the Coq 8.16 standard library *)
From Coq Require Import List Arith Lia.
Import ListNotations.

Lemma In_firstn {A} n (l : list A) x : In x (firstn n l) -> In x l.
Proof. intros H. rewrite <- (firstn_skipn n l). apply in_or_app. left. exact H. Qed.
Lemma In_skipn {A} n (l : list A) x : In x (skipn n l) -> In x l.
Proof. intros H. rewrite <- (firstn_skipn n l). apply in_or_app. right. exact H. Qed.
Lemma nth_skipn_add {A} n m (l : list A) d : nth m (skipn n l) d = nth (n + m) l d.
Proof.
  revert l. induction n as [|n IH]; intros l; [reflexivity|]. destruct l as [|a l]; [destruct m; reflexivity|].
  cbn [skipn Nat.add nth]. apply IH.
Qed.
