(* Sums over lists in Q (setoid Qeq). Used by every Shapley proof. *)
From Coq Require Import List Arith ZArith QArith Lia Bool Setoid Morphisms Permutation Lqa FinFun.
Import ListNotations.
Local Open Scope Q_scope.


Definition sumQ {A} (f : A -> Q) (l : list A) : Q := fold_right (fun a acc => f a + acc) 0 l.

Lemma sumQ_nil {A} (f : A -> Q) : sumQ f [] = 0. Proof. reflexivity. Qed.
Lemma sumQ_cons {A} (f : A -> Q) a l : sumQ f (a :: l) = f a + sumQ f l. Proof. reflexivity. Qed.

Lemma sumQ_ext {A} (f g : A -> Q) l : (forall a, In a l -> f a == g a) -> sumQ f l == sumQ g l.
Proof.
  induction l as [|a l IH]; intros H; [reflexivity|].
  rewrite !sumQ_cons, (H a (or_introl eq_refl)), IH; [reflexivity|].
  intros b Hb; apply H; right; exact Hb.
Qed.

Lemma sumQ_app {A} (f : A -> Q) l1 l2 : sumQ f (l1 ++ l2) == sumQ f l1 + sumQ f l2.
Proof. induction l1 as [|a l IH]; cbn [app]; rewrite ?sumQ_cons, ?sumQ_nil; [ring|rewrite IH; ring]. Qed.

Lemma sumQ_map {A B} (h : A -> B) (f : B -> Q) l : sumQ f (map h l) = sumQ (fun a => f (h a)) l.
Proof. induction l as [|a l IH]; cbn [map]; rewrite ?sumQ_cons; [reflexivity|rewrite IH; reflexivity]. Qed.

Lemma sumQ_plus {A} (f g : A -> Q) l : sumQ (fun a => f a + g a) l == sumQ f l + sumQ g l.
Proof. induction l as [|a l IH]; rewrite ?sumQ_cons, ?sumQ_nil; [ring|rewrite IH; ring]. Qed.

Lemma sumQ_scale {A} (c : Q) (f : A -> Q) l : sumQ (fun a => c * f a) l == c * sumQ f l.
Proof. induction l as [|a l IH]; rewrite ?sumQ_cons, ?sumQ_nil; [ring|rewrite IH; ring]. Qed.

Lemma sumQ_zero {A} (l : list A) : sumQ (fun _ => 0) l == 0.
Proof. induction l as [|a l IH]; rewrite ?sumQ_cons, ?sumQ_nil; [reflexivity|rewrite IH; ring]. Qed.

Lemma sumQ_swap {A B} (f : A -> B -> Q) la lb :
  sumQ (fun a => sumQ (fun b => f a b) lb) la == sumQ (fun b => sumQ (fun a => f a b) la) lb.
Proof.
  induction la as [|a la IH].
  - cbn [sumQ fold_right]. symmetry. apply sumQ_zero.
  - rewrite sumQ_cons, IH. rewrite <- sumQ_plus. apply sumQ_ext; intros b _. rewrite sumQ_cons; reflexivity.
Qed.

Lemma sumQ_perm {A} (f : A -> Q) l1 l2 : Permutation l1 l2 -> sumQ f l1 == sumQ f l2.
Proof.
  induction 1 as [|a l1 l2 _ IH|a b l|l1 l2 l3 _ IH1 _ IH2]; rewrite ?sumQ_cons.
  - reflexivity.
  - rewrite IH; reflexivity.
  - ring.
  - rewrite IH1; exact IH2.
Qed.

Lemma sumQ_filter {A} (p : A -> bool) (f : A -> Q) l :
  sumQ f (filter p l) == sumQ (fun a => if p a then f a else 0) l.
Proof.
  induction l as [|a l IH]; [reflexivity|]. cbn [filter]. rewrite sumQ_cons.
  destruct (p a); rewrite ?sumQ_cons, IH; ring.
Qed.
