(* C01, row level: under an order sorting the reduced distances, the unit game v_nn is "utility of the label of
   a nearest present training row" (ties: the one fixed order), and the null value when no unit is present. *)
From Coq Require Import List Arith ZArith QArith Lia Bool Permutation Lqa.
From DS Require Import Util.SumQ Spec.Shapley Spec.NNGame Model.Kernel Model.Neighbor.
Import ListNotations.
Local Open Scope Q_scope.

Lemma argmin_first_spec d : forall l r, argmin_first d l = Some r -> In r l /\ forall r', In r' l -> d r <= d r'.
Proof.
  induction l as [|a t IH]; intros r H; cbn [argmin_first] in H; [discriminate|].
  destruct (argmin_first d t) as [s|] eqn:E.
  - destruct (IH s eq_refl) as [Hs Hmin]. destruct (Qle_bool (d a) (d s)) eqn:Hle; injection H as <-.
    + apply Qle_bool_iff in Hle. split; [left; reflexivity|]. intros r' [<-|Hr']; [apply Qle_refl|].
      apply (Qle_trans _ (d s)); [exact Hle|apply Hmin; exact Hr'].
    + assert (Hlt : d s < d a). { apply Qnot_le_lt. intros Hc. apply Qle_bool_iff in Hc. congruence. }
      split; [right; exact Hs|]. intros r' [<-|Hr']; [apply Qlt_le_weak; exact Hlt|apply Hmin; exact Hr'].
  - injection H as <-. destruct t as [|b t]; [|cbn [argmin_first] in E; destruct (argmin_first d t); [destruct (Qle_bool _ _)|]; discriminate].
    split; [left; reflexivity|]. intros r' [<-|[]]. apply Qle_refl.
Qed.
Lemma argmin_first_some d l : l <> [] -> exists r, argmin_first d l = Some r.
Proof. destruct l as [|a t]; [contradiction|]. intros _. cbn [argmin_first]. destruct (argmin_first d t); [destruct (Qle_bool _ _)|]; eauto. Qed.

Lemma rows_of_spec owner p r : In r (rows_of owner p) <-> (r < length owner)%nat /\ nth r owner 0%nat = p.
Proof.
  unfold rows_of. rewrite filter_In, in_seq. split.
  - intros [H E]. apply Nat.eqb_eq in E. split; [lia|exact E].
  - intros [H E]. split; [lia|apply Nat.eqb_eq; exact E].
Qed.

(* the first present unit of an order *)
Lemma vnn_first u null : forall order m, (exists q, In q order /\ nth q m false = true) ->
  exists pre q post, order = pre ++ q :: post /\ nth q m false = true /\
                     (forall q', In q' pre -> nth q' m false = false) /\ vnn u null order m = u q.
Proof.
  induction order as [|a t IH]; intros m [q [Hq Hm]]; [destruct Hq|].
  cbn [vnn]. destruct (nth a m false) eqn:Ea.
  - exists [], a, t. repeat split; auto. intros q' [].
  - destruct Hq as [->|Hq]; [congruence|]. destruct (IH m (ex_intro _ q (conj Hq Hm))) as [pre [q0 [post [-> [H1 [H2 H3]]]]]].
    exists (a :: pre), q0, post. repeat split; auto. intros q' [<-|Hq']; [exact Ea|apply H2; exact Hq'].
Qed.
Lemma vnn_none u null : forall order m, (forall q, In q order -> nth q m false = false) -> vnn u null order m = null.
Proof.
  induction order as [|a t IH]; intros m H; [reflexivity|]. cbn [vnn]. rewrite (H a (or_introl eq_refl)).
  apply IH. intros q Hq. apply H. right. exact Hq.
Qed.

Lemma sorted_by_tail key : forall l pre q post, sorted_by key l = true -> l = pre ++ q :: post ->
  forall q', In q' post -> key q <= key q'.
Proof.
  induction l as [|a t IH]; intros pre q post Hs E q' Hq'; [destruct pre; discriminate|].
  cbn [sorted_by] in Hs. destruct t as [|b t'].
  - destruct pre as [|x pre]; [injection E as -> <-; destruct Hq'|injection E as _ E; destruct pre; discriminate].
  - apply andb_prop in Hs as [Hab Hs]. apply Qle_bool_iff in Hab.
    destruct pre as [|x pre].
    + injection E as -> <-. destruct Hq' as [<-|Hq']; [exact Hab|].
      apply (Qle_trans _ (key b)); [exact Hab|]. apply (IH [] b t' Hs eq_refl). exact Hq'.
    + injection E as _ E. apply (IH pre q post Hs E). exact Hq'.
Qed.

(* C01 (4): v_nn is the utility of the label of a nearest present row *)
Theorem vnn_is_nearest_present_row (n : nat) (owner : list nat) (d : nat -> Q) (rowu : nat -> Q) (null : Q)
        (order : list nat) (m : list bool) :
  Permutation order (seq 0 n) ->
  (forall r, (r < length owner)%nat -> (nth r owner 0%nat < n)%nat) ->
  (forall p, (p < n)%nat -> rows_of owner p <> []) ->
  sorted_by (unit_dist owner d) order = true ->
  let u := fun q => match unit_row owner d q with Some r => rowu r | None => 0 end in
  ((exists p, (p < n)%nat /\ nth p m false = true) ->
     exists r, (r < length owner)%nat /\ nth (nth r owner 0%nat) m false = true /\
               (forall r', (r' < length owner)%nat -> nth (nth r' owner 0%nat) m false = true -> d r <= d r') /\
               vnn u null order m = rowu r) /\
  ((forall p, (p < n)%nat -> nth p m false = false) -> vnn u null order m = null).
Proof.
  intros Hperm Hown Hrows Hsorted u. split.
  - intros [p [Hp Hm]].
    assert (Hin : In p order) by (apply (Permutation_in _ (Permutation_sym Hperm)); apply in_seq; lia).
    destruct (vnn_first u null order m (ex_intro _ p (conj Hin Hm))) as [pre [q [post [E [Hq [Hpre Hv]]]]]].
    assert (Hqn : (q < n)%nat).
    { assert (In q order) by (rewrite E; apply in_or_app; right; left; reflexivity).
      apply (Permutation_in _ Hperm) in H. apply in_seq in H. lia. }
    destruct (argmin_first_some d (rows_of owner q) (Hrows q Hqn)) as [r Hr].
    destruct (argmin_first_spec d _ r Hr) as [Hrin Hrmin]. apply rows_of_spec in Hrin as [Hrlen Hrown].
    exists r. split; [exact Hrlen|]. split; [rewrite Hrown; exact Hq|]. split.
    + intros r' Hr'len Hr'm. set (q' := nth r' owner 0%nat) in *.
      assert (Hq'n : (q' < n)%nat) by (apply Hown; exact Hr'len).
      assert (Hq'in : In q' order) by (apply (Permutation_in _ (Permutation_sym Hperm)); apply in_seq; lia).
      (* q' is not before q; so it is q or after q *)
      rewrite E in Hq'in. apply in_app_or in Hq'in as [Hb|[Heq|Ha]].
      * rewrite (Hpre q' Hb) in Hr'm. discriminate.
      * subst q'. apply Hrmin. apply rows_of_spec. split; [exact Hr'len|symmetry; exact Heq].
      * destruct (argmin_first_some d (rows_of owner q') (Hrows q' Hq'n)) as [s Hs].
        destruct (argmin_first_spec d _ s Hs) as [_ Hsmin].
        pose proof (sorted_by_tail _ order pre q post Hsorted E q' Ha) as Hle.
        unfold unit_dist, unit_row in Hle. rewrite Hr, Hs in Hle.
        apply (Qle_trans _ (d s)); [exact Hle|]. apply Hsmin. apply rows_of_spec. split; [exact Hr'len|reflexivity].
    + rewrite Hv. unfold u, unit_row. rewrite Hr. reflexivity.
  - intros Hnone. apply vnn_none. intros q Hq. apply Hnone.
    apply (Permutation_in _ Hperm) in Hq. apply in_seq in Hq. lia.
Qed.

(* boolean validity checks used by the correspondence are sound *)
Lemma is_perm_of_units_sound n l : is_perm_of_units n l = true -> Permutation l (seq 0 n).
Proof.
  unfold is_perm_of_units. intros H. apply andb_prop in H as [Hlen Hall]. apply Nat.eqb_eq in Hlen.
  rewrite forallb_forall in Hall.
  apply Permutation_sym. apply NoDup_Permutation_bis; [apply seq_NoDup|rewrite seq_length; lia|].
  intros p Hp. specialize (Hall p Hp). apply existsb_exists in Hall as [y [Hy E]]. apply Nat.eqb_eq in E. subst y. exact Hy.
Qed.
