(* C10: the constructors produce well-formed diagrams and sum / restrict / edge updates keep them well formed, so the
   semantic theorems (eval_sum, eval_restrict, modelcount_histogram, eval_as_path) apply after ANY sequence of these
   operations. *)
From Coq Require Import List Arith Bool Lia.
From DS Require Import Util.ListX Model.ADD Model.Oracle Proofs.ADDProofs Proofs.ModelCount Proofs.OracleExact.
Import ListNotations.

(* well-formedness gives every side condition of the semantic theorems *)
Theorem okd_conditions d : okd d ->
  wt_levels (d_type d) (d_levels d) /\ live_from (d_type d) (d_levels d) (d_root d)
  /\ live_w (d_type d) (diameter d) (d_levels d) (d_root d).
Proof.
  intros [W [Rc G]]. split; [exact W|]. split; [apply (good_live _ (diameter d)); exact G|]. apply good_live_w. exact G.
Qed.

(* construct_chain: chain_okd in Proofs/OracleExact.v *)

(* construct_tree *)
Lemma nth_repeat_in {A} (a d : A) : forall w k, k < w -> nth k (repeat a w) d = a.
Proof. induction w as [|w IH]; intros k H; [lia|]. destruct k as [|k]; [reflexivity|]. cbn [repeat nth]. apply IH. lia. Qed.

Lemma tree_levels_good t n w : w = 2 ^ (n - 1) -> forall m s, s + S m = n -> forall k, k < 2 ^ s ->
  good_from t w (map (fun i => if Nat.eqb (S i) n then repeat (mkNode true 0 0 (a_zero t) (a_zero t)) w
                             else map (fun k => mkNode true (2 * k) (2 * k + 1) (a_zero t) (a_zero t)) (seq 0 (2 ^ i))
                                  ++ repeat (dead t) (w - 2 ^ i)) (seq s (S m))) k.
Proof.
  intros Hw. induction m as [|m IH]; intros s Hs k Hk.
  - cbn [seq map]. assert (E : Nat.eqb (S s) n = true) by (apply Nat.eqb_eq; lia). rewrite E. cbn [good_from].
    assert (Hkw : k < w) by (rewrite Hw; replace (n - 1) with s by lia; exact Hk).
    rewrite repeat_length. unfold getnode. rewrite nth_repeat_in by exact Hkw. cbn [n_live n_c0 n_c1].
    assert (0 < w) by (rewrite Hw; apply Nat.neq_0_lt_0, Nat.pow_nonzero; lia). auto.
  - change (seq s (S (S m))) with (s :: seq (S s) (S m)). cbn [map].
    assert (E : Nat.eqb (S s) n = false) by (apply Nat.eqb_neq; lia). rewrite E. cbn [good_from].
    rewrite app_length, map_length, seq_length. split; [lia|].
    assert (En : getnode t (map (fun k0 => mkNode true (2 * k0) (2 * k0 + 1) (a_zero t) (a_zero t)) (seq 0 (2 ^ s)) ++ repeat (dead t) (w - 2 ^ s)) k
                 = mkNode true (2 * k) (2 * k + 1) (a_zero t) (a_zero t)).
    { unfold getnode. rewrite app_nth1 by (rewrite map_length, seq_length; exact Hk).
      rewrite (nth_indep _ (dead t) ((fun k0 => mkNode true (2 * k0) (2 * k0 + 1) (a_zero t) (a_zero t)) 0)) by (rewrite map_length, seq_length; exact Hk).
      rewrite (map_nth (fun k0 => mkNode true (2 * k0) (2 * k0 + 1) (a_zero t) (a_zero t))). rewrite seq_nth by exact Hk. reflexivity. }
    rewrite En. cbn [n_live n_c0 n_c1]. split; [reflexivity|].
    assert (P : 2 ^ S s = 2 * 2 ^ s) by (cbn; lia).
    split; apply IH; try lia.
Qed.

Lemma pow2_le a b : a <= b -> 2 ^ a <= 2 ^ b.
Proof. intros H. apply Nat.pow_le_mono_r; lia. Qed.
Theorem tree_okd t units : okd (tree t units).
Proof.
  set (n := length units). set (w := 2 ^ (n - 1)).
  assert (Lv : forall l, In l (d_levels (tree t units)) -> length l = w).
  { cbn [tree d_levels]. fold n w. intros l Hl. apply in_map_iff in Hl. destruct Hl as [i [<- Hi]]. apply in_seq in Hi.
    destruct (Nat.eqb (S i) n); [apply repeat_length|]. rewrite app_length, map_length, seq_length, repeat_length.
    assert (2 ^ i <= w) by (apply pow2_le; lia). lia. }
  assert (Dm : diameter (tree t units) = match n with 0 => 1 | _ => w end).
  { unfold diameter. destruct (d_levels (tree t units)) as [|l r] eqn:E.
    - cbn [tree d_levels] in E. fold n in E. destruct n; [reflexivity|]. cbn [seq map] in E. discriminate.
    - assert (length l = w) by (apply Lv; left; reflexivity). destruct n eqn:En; [|assumption].
      cbn [tree d_levels] in E. fold n in E. rewrite En in E. discriminate. }
  split; [|split].
  - cbn [tree d_type d_levels]. intros l nd Hl Hnd. apply in_map_iff in Hl. destruct Hl as [i [<- _]]. destruct (Nat.eqb (S i) (length units)).
    + apply repeat_spec in Hnd. subst nd. split; apply a_zero_wt.
    + apply in_app_or in Hnd. destruct Hnd as [Hnd|Hnd]; [|apply repeat_spec in Hnd; subst nd; apply dead_wt].
      apply in_map_iff in Hnd. destruct Hnd as [k [<- _]]. split; apply a_zero_wt.
  - intros l Hl. rewrite Dm, (Lv l Hl). destruct n eqn:En; [|reflexivity]. cbn [tree d_levels] in Hl. fold n in Hl. rewrite En in Hl. destruct Hl.
  - rewrite Dm. cbn [tree d_type d_levels d_root]. fold n. destruct n as [|m] eqn:En; [cbn; lia|].
    apply (tree_levels_good t (S m) w eq_refl m 0); [lia|cbn; lia].
Qed.

(* sum, restrict and edge updates keep diagrams well formed (and restrict / sum keep the type and the level count) *)
Theorem sum_okd d1 d2 : okd d1 -> okd d2 -> d_type d2 = d_type d1 -> length (d_levels d1) = length (d_levels d2) -> okd (add_sum d1 d2).
Proof. intros O1 O2 Ht Hl. apply (sum_ok d1 d2 O1 O2 Ht Hl). Qed.
Theorem restrict_okd d lvl v : okd d -> 2 <= length (d_levels d) -> lvl < length (d_levels d) ->
  exists r, add_restrict d lvl v = Some r /\ okd r.
Proof. intros O H2 Hl. destruct (restrict_ok d lvl v O H2 Hl) as [r [E [Or _]]]. exists r. auto. Qed.
Theorem update_okd d locs f v : okd d -> (forall a, f a = a_add (d_type d) a v) -> wt (d_type d) v -> okd (update d locs f).
Proof. intros O Hf Wv. apply (update_ok d locs f v O Hf Wv). Qed.
Theorem update_semantics d locs f v : okd d -> (forall a, f a = a_add (d_type d) a v) -> wt (d_type d) v ->
  forall x, eval (update d locs f) x = Nat.iter (hits d x locs) (fun e => a_add (d_type d) e v) (eval d x).
Proof. intros O Hf Wv. exact (proj2 (proj2 (update_ok d locs f v O Hf Wv))). Qed.
