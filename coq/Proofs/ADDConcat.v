(* C10: ADD.concatenate -- evaluation is the saturating sum of the elements' values on their own variables, and the
   result is well formed. *)
From Coq Require Import List Arith Bool Lia.
From DS Require Import Util.ListX Model.ADD Model.Oracle Proofs.ADDProofs Proofs.ModelCount Proofs.OracleExact Proofs.ADDClosure.
Import ListNotations.

(* padding a level with dead nodes is invisible *)
Lemma getnode_pad t w l j : getnode t (pad_level t w l) j = getnode t l j.
Proof.
  unfold getnode, pad_level. destruct (Nat.lt_ge_cases j (length l)) as [H|H]; [apply app_nth1; exact H|].
  rewrite app_nth2 by exact H. rewrite (nth_overflow l) by exact H.
  destruct (Nat.lt_ge_cases (j - length l) (w - length l)) as [H2|H2]; [apply nth_repeat_in; exact H2|].
  apply nth_overflow. rewrite repeat_length. exact H2.
Qed.
Lemma eval_pad t w : forall lvls j acc x, eval_from t (map (pad_level t w) lvls) j acc x = eval_from t lvls j acc x.
Proof. induction lvls as [|l rest IH]; intros j acc x; [reflexivity|]. destruct x as [|c x]; [reflexivity|]. cbn [map eval_from]. rewrite getnode_pad. apply IH. Qed.

(* the node index reached after walking all the levels *)
Fixpoint end_node (t : atype) (lvls : list (list node)) (j : nat) (x : list bool) : nat :=
  match lvls, x with l :: rest, c :: x' => end_node t rest (child (getnode t l j) c) x' | _, _ => j end.
Lemma end_pad t w : forall lvls j x, end_node t (map (pad_level t w) lvls) j x = end_node t lvls j x.
Proof. induction lvls as [|l rest IH]; intros j x; [reflexivity|]. destruct x as [|c x]; [reflexivity|]. cbn [map end_node]. rewrite getnode_pad. apply IH. Qed.
Lemma eval_app t : forall l1 l2 j acc x1 x2, length x1 = length l1 ->
  eval_from t (l1 ++ l2) j acc (x1 ++ x2) = eval_from t l2 (end_node t l1 j x1) (eval_from t l1 j acc x1) x2.
Proof.
  induction l1 as [|l l1 IH]; intros l2 j acc x1 x2 H; destruct x1 as [|c x1]; try discriminate; [reflexivity|].
  cbn [app eval_from end_node]. apply IH. cbn in H. lia.
Qed.

(* rerouting the children of the last level changes where the walk ends, not the value *)
Definition rr (tgt : nat) (n : node) : node := if n_live n then mkNode true tgt tgt (n_a0 n) (n_a1 n) else n.
Lemma reroute_last_length tgt : forall lvls, length (reroute_last lvls tgt) = length lvls.
Proof. induction lvls as [|l [|l' r] IH]; [reflexivity|reflexivity|]. cbn [reroute_last length] in *. rewrite IH. reflexivity. Qed.
Lemma reroute_eval t tgt w0 : forall lvls j acc x, good_from t w0 lvls j -> length x = length lvls -> lvls <> [] ->
  eval_from t (reroute_last lvls tgt) j acc x = eval_from t lvls j acc x /\ end_node t (reroute_last lvls tgt) j x = tgt.
Proof.
  induction lvls as [|l rest IH]; intros j acc x G Hx Hne; [contradiction|]. destruct x as [|c x]; [discriminate|].
  cbn [good_from] in G. destruct G as [G1 [G2 [G3 G4]]]. destruct rest as [|l' r].
  - destruct x; [|discriminate]. cbn [reroute_last eval_from end_node].
    assert (En : getnode t (map (fun n => if n_live n then mkNode true tgt tgt (n_a0 n) (n_a1 n) else n) l) j = rr tgt (getnode t l j)).
    { unfold getnode. rewrite (nth_indep _ (dead t) (rr tgt (dead t))) by (rewrite map_length; exact G1). apply (map_nth (rr tgt)). }
    rewrite En. unfold rr. rewrite G2. split; [destruct c; reflexivity|destruct c; reflexivity].
  - change (reroute_last (l :: l' :: r) tgt) with (l :: reroute_last (l' :: r) tgt). cbn [eval_from end_node].
    apply IH; [destruct c; assumption|cbn in Hx; cbn; lia|discriminate].
Qed.

Definition piece_ok (t : atype) (e : add) (x : list bool) : Prop :=
  okd e /\ d_type e = t /\ d_levels e <> [] /\ length x = length (d_levels e).

Lemma Forall2_cons_l {A B} (P : A -> B -> Prop) a l ys : Forall2 P (a :: l) ys -> exists b ys', ys = b :: ys' /\ P a b /\ Forall2 P l ys'.
Proof. intros H. inversion H as [|? b ? ys' Hp Hf]; subst. exists b, ys'. auto. Qed.
Lemma Forall2_nil_l {A B} (P : A -> B -> Prop) ys : Forall2 P [] ys -> ys = [].
Proof. intros H. inversion H. reflexivity. Qed.

Lemma concat_eval t w : forall els xs acc, els <> [] -> Forall2 (piece_ok t) els xs ->
  eval_from t (concat_levels t w els) (d_root (hd (mkADD t [] 0 []) els)) acc (concat xs)
  = fold_left (fun a ex => eval_from t (d_levels (fst ex)) (d_root (fst ex)) a (snd ex)) (combine els xs) acc.
Proof.
  induction els as [|e els IH]; intros xs acc Hne HF; [contradiction|].
  destruct (Forall2_cons_l _ _ _ _ HF) as [x [xs' [-> [[O [Ht [Hl Hx]]] HF']]]].
  destruct els as [|e' els'].
  - apply Forall2_nil_l in HF'. rewrite HF'. cbn [concat_levels concat combine fold_left hd fst snd]. rewrite app_nil_r. apply eval_pad.
  - change (concat_levels t w (e :: e' :: els')) with (map (pad_level t w) (reroute_last (d_levels e) (d_root e')) ++ concat_levels t w (e' :: els')).
    cbn [concat combine fold_left hd fst snd]. rewrite eval_app by (rewrite map_length, reroute_last_length; exact Hx).
    rewrite end_pad, eval_pad. destruct O as [_ [_ G]]. rewrite Ht in G.
    destruct (reroute_eval t (d_root e') _ (d_levels e) (d_root e) acc x G Hx Hl) as [E1 E2]. rewrite E1, E2.
    apply (IH xs' (eval_from t (d_levels e) (d_root e) acc x)); [discriminate|exact HF'].
Qed.

(* a value that is invalid or within the bounds *)
Definition vld (t : atype) (a : aval) : Prop := wt t a /\ match a with Some v => inb t v = true | None => True end.
Lemma a_add_vld t x y : wt t x -> wt t y -> vld t (a_add t x y).
Proof.
  intros Wx Wy. split; [apply a_add_wt; assumption|]. destruct x as [a|], y as [b|]; cbn [a_add]; auto.
  unfold clip. destruct (inb t (vadd a b)) eqn:E; [exact E|exact I].
Qed.
Lemma eval_from_acc t lvls j a x : wt_levels t lvls -> vld t a ->
  eval_from t lvls j a x = a_add t a (eval_from t lvls j (a_zero t) x).
Proof.
  intros W [Wa Va]. rewrite <- (a_add_zero_l t a Wa Va) at 1. rewrite eval_from_shift; [apply a_add_comm|exact W|apply a_zero_wt|exact Wa].
Qed.
Lemma eval_wt t : forall lvls j acc x, wt_levels t lvls -> wt t acc -> wt t (eval_from t lvls j acc x).
Proof.
  induction lvls as [|l rest IH]; intros j acc x W Wa; [exact Wa|]. destruct x as [|c x]; [exact Wa|]. cbn [eval_from].
  apply IH; [eapply wt_levels_tail; exact W|]. apply a_add_wt; [exact Wa|]. apply adder_wt, getnode_wt, (wt_levels_head t l rest W).
Qed.

(* concatenate(): the value at (x1 ++ x2 ++ ...) is the saturating sum of the elements' values at x1, x2, ... *)
Theorem eval_concatenate t els xs : els <> [] -> wf_type t -> Forall2 (piece_ok t) els xs ->
  eval (add_concatenate els) (concat xs)
  = fold_left (fun a ex => a_add t a (eval (fst ex) (snd ex))) (combine els xs) (a_zero t).
Proof.
  intros Hne Wf HF. destruct els as [|e0 els0]; [contradiction|].
  assert (Ht0 : d_type e0 = t).
  { destruct (Forall2_cons_l _ _ _ _ HF) as [x0 [xs0 [_ [[_ [H _]] _]]]]. exact H. }
  unfold eval at 1. cbn [add_concatenate d_type d_levels d_root]. rewrite Ht0.
  change (d_root e0) with (d_root (hd (mkADD t [] 0 []) (e0 :: els0))).
  rewrite (concat_eval t _ (e0 :: els0) xs (a_zero t)) by (try exact HF; discriminate).
  assert (Vz : vld t (a_zero t)) by (split; [apply a_zero_wt|apply (zero_index t Wf)]).
  clear Hne Ht0. revert Vz. generalize (e0 :: els0) as els, HF. clear HF. intros els HF. generalize (a_zero t) as a. induction HF as [|e x els xs [O [Ht [Hl Hx]]] HF IH]; intros a Va; [reflexivity|].
  cbn [combine fold_left fst snd]. destruct O as [W _]. rewrite Ht in W.
  rewrite (eval_from_acc t (d_levels e) (d_root e) a x W Va).
  change (eval e x) with (eval_from (d_type e) (d_levels e) (d_root e) (a_zero (d_type e)) x). rewrite Ht.
  apply IH. apply a_add_vld; [exact (proj1 Va)|apply eval_wt; [exact W|apply a_zero_wt]].
Qed.

(* ---------- the result is well formed ---------- *)
Lemma pad_length t w l : length l <= w -> length (pad_level t w l) = w.
Proof. intros H. unfold pad_level. rewrite app_length, repeat_length. lia. Qed.
Lemma good_pad_mono t w1 W W' : w1 <= W -> forall lvls j, good_from t w1 lvls j -> good_from t W (map (pad_level t W') lvls) j.
Proof.
  intros Hw. induction lvls as [|l rest IH]; intros j G; cbn [map good_from] in *; [lia|]. destruct G as [G1 [G2 [G3 G4]]].
  rewrite getnode_pad. unfold pad_level at 1. rewrite app_length. repeat split; try lia; auto.
Qed.
Lemma getnode_rr t tgt l j : j < length l ->
  getnode t (map (fun n => if n_live n then mkNode true tgt tgt (n_a0 n) (n_a1 n) else n) l) j = rr tgt (getnode t l j).
Proof. intros H. unfold getnode. rewrite (nth_indep _ (dead t) (rr tgt (dead t))) by (rewrite map_length; exact H). apply (map_nth (rr tgt)). Qed.
Lemma good_reroute_app t W W' tgt l2 : good_from t W l2 tgt -> forall l1 j w1, l1 <> [] -> good_from t w1 l1 j ->
  good_from t W (map (pad_level t W') (reroute_last l1 tgt) ++ l2) j.
Proof.
  intros G2. induction l1 as [|l rest IH]; intros j w1 Hne G; [contradiction|]. cbn [good_from] in G. destruct G as [A1 [A2 [A3 A4]]].
  destruct rest as [|l' r].
  - cbn [reroute_last map app good_from]. rewrite getnode_pad, getnode_rr by exact A1. unfold rr. rewrite A2. cbn [n_live n_c0 n_c1].
    unfold pad_level. rewrite app_length, map_length. repeat split; try lia; exact G2.
  - change (reroute_last (l :: l' :: r) tgt) with (l :: reroute_last (l' :: r) tgt). cbn [map app good_from].
    rewrite getnode_pad. unfold pad_level at 1. rewrite app_length. repeat split; try lia; try exact A2; apply (IH _ w1); try discriminate; assumption.
Qed.
Lemma max_fold_ge (l : list nat) x : In x l -> x <= fold_right Nat.max 0 l.
Proof. induction l as [|y l IH]; intros H; [destruct H|]. cbn [fold_right]. destruct H as [->|H]; [lia|]. specialize (IH H). lia. Qed.

Definition elem_ok (t : atype) (e : add) : Prop := okd e /\ d_type e = t /\ d_levels e <> [].

Lemma concat_good t W W' : forall els, els <> [] -> (forall e, In e els -> elem_ok t e /\ diameter e <= W) ->
  good_from t W (concat_levels t W' els) (d_root (hd (mkADD t [] 0 []) els)).
Proof.
  induction els as [|e els IH]; intros Hne H; [contradiction|]. destruct (H e (or_introl eq_refl)) as [[[_ [_ G]] [Ht Hl]] Hd]. rewrite Ht in G.
  destruct els as [|e' els'].
  - cbn [concat_levels hd]. apply (good_pad_mono t (diameter e)); assumption.
  - change (concat_levels t W' (e :: e' :: els')) with (map (pad_level t W') (reroute_last (d_levels e) (d_root e')) ++ concat_levels t W' (e' :: els')).
    cbn [hd]. apply (good_reroute_app t W W' (d_root e') _ (IH ltac:(discriminate) (fun x Hx => H x (or_intror Hx))) (d_levels e) (d_root e) (diameter e) Hl G).
Qed.
Lemma reroute_last_in tgt : forall lvls l, In l (reroute_last lvls tgt) ->
  In l lvls \/ exists l0, In l0 lvls /\ l = map (fun n => if n_live n then mkNode true tgt tgt (n_a0 n) (n_a1 n) else n) l0.
Proof.
  induction lvls as [|l0 [|l' r] IH]; intros l H; [destruct H| |].
  - cbn [reroute_last] in H. destruct H as [<-|[]]. right. exists l0. split; [left; reflexivity|reflexivity].
  - change (reroute_last (l0 :: l' :: r) tgt) with (l0 :: reroute_last (l' :: r) tgt) in H. destruct H as [<-|H]; [left; left; reflexivity|].
    destruct (IH l H) as [H'|[l1 [H1 H2]]]; [left; right; exact H'|right; exists l1; split; [right; exact H1|exact H2]].
Qed.
Lemma concat_levels_in t W : forall els l, In l (concat_levels t W els) ->
  exists e l0, In e els /\ In l0 (d_levels e) /\
    (l = pad_level t W l0 \/ exists tgt, l = pad_level t W (map (fun n => if n_live n then mkNode true tgt tgt (n_a0 n) (n_a1 n) else n) l0)).
Proof.
  induction els as [|e els IH]; intros l H; [destruct H|]. destruct els as [|e' els'].
  - cbn [concat_levels] in H. apply in_map_iff in H. destruct H as [l0 [<- H0]]. exists e, l0. split; [left; reflexivity|]. split; [exact H0|left; reflexivity].
  - change (concat_levels t W (e :: e' :: els')) with (map (pad_level t W) (reroute_last (d_levels e) (d_root e')) ++ concat_levels t W (e' :: els')) in H.
    apply in_app_or in H. destruct H as [H|H].
    + apply in_map_iff in H. destruct H as [l1 [<- H1]]. destruct (reroute_last_in _ _ _ H1) as [H2|[l0 [H2 ->]]].
      * exists e, l1. split; [left; reflexivity|]. split; [exact H2|left; reflexivity].
      * exists e, l0. split; [left; reflexivity|]. split; [exact H2|right; exists (d_root e'); reflexivity].
    + destruct (IH l H) as [e1 [l0 [A [B C]]]]. exists e1, l0. split; [right; exact A|]. split; [exact B|exact C].
Qed.

Theorem concatenate_okd t els : els <> [] -> (forall e, In e els -> elem_ok t e) -> okd (add_concatenate els).
Proof.
  intros Hne H. destruct els as [|e0 els0]; [contradiction|]. set (els := e0 :: els0) in *.
  set (W := fold_right Nat.max 0 (map diameter els)).
  destruct (H e0 (or_introl eq_refl)) as [[W0 [R0 G0]] [Ht0 Hl0]].
  assert (HW : forall e, In e els -> diameter e <= W) by (intros e He; apply max_fold_ge, in_map; exact He).
  assert (EL : d_levels (add_concatenate els) = concat_levels t W els) by (unfold els, add_concatenate; cbn [d_levels]; rewrite Ht0; reflexivity).
  assert (LW : forall l, In l (concat_levels t W els) -> length l = W).
  { intros l Hl. destruct (concat_levels_in t W els l Hl) as [e [l0 [He [Hl0' C]]]]. destruct (H e He) as [[_ [Re _]] _].
    pose proof (Re l0 Hl0') as E. pose proof (HW e He) as Hd.
    destruct C as [->|[tgt ->]]; apply pad_length; rewrite ?map_length; lia. }
  assert (Dm : diameter (add_concatenate els) = W).
  { unfold diameter. rewrite EL. destruct (concat_levels t W els) as [|l r] eqn:E; [|apply LW; left; reflexivity].
    exfalso. unfold els in E. destruct els0 as [|e1 r1]; cbn [concat_levels] in E.
    - destruct (d_levels e0); [contradiction|discriminate].
    - change (concat_levels t W (e0 :: e1 :: r1)) with (map (pad_level t W) (reroute_last (d_levels e0) (d_root e1)) ++ concat_levels t W (e1 :: r1)) in E.
      apply app_eq_nil in E. destruct E as [E _]. apply map_eq_nil in E. pose proof (reroute_last_length (d_root e1) (d_levels e0)) as L. rewrite E in L.
      destruct (d_levels e0); [contradiction|discriminate]. }
  assert (Ty : d_type (add_concatenate els) = t) by (unfold els, add_concatenate; cbn [d_type]; exact Ht0).
  split; [|split].
  - rewrite Ty, EL. intros l nd Hl Hnd. destruct (concat_levels_in t W els l Hl) as [e [l0 [He [Hl0' C]]]]. destruct (H e He) as [[We _] [Hte _]]. rewrite Hte in We.
    destruct C as [->|[tgt ->]]; unfold pad_level in Hnd; apply in_app_or in Hnd; destruct Hnd as [Hnd|Hnd];
      try (apply repeat_spec in Hnd; subst nd; apply dead_wt).
    + apply (We l0 nd Hl0' Hnd).
    + apply in_map_iff in Hnd. destruct Hnd as [n0 [<- Hn0]]. pose proof (We l0 n0 Hl0' Hn0) as [A B]. destruct (n_live n0); split; assumption.
  - intros l Hl. rewrite Dm. apply LW. rewrite <- EL. exact Hl.
  - rewrite Ty, Dm, EL. replace (d_root (add_concatenate els)) with (d_root (hd (mkADD t [] 0 []) els)) by reflexivity.
    apply concat_good; [discriminate|]. intros e He. split; [apply H; exact He|apply HW; exact He].
Qed.
