(* C10: ADD.stack -- a header tree over the factor variables selects one of the 2^f elements (in product order of the
   factor values, first factor most significant); the value at (xf ++ xe) is the value of the selected element at xe,
   and the result is well formed. *)
From Coq Require Import List Arith Bool Lia.
From DS Require Import Util.ListX Model.ADD Model.Oracle Proofs.ADDProofs Proofs.ModelCount Proofs.OracleExact
     Proofs.ADDClosure Proofs.ADDConcat.
Import ListNotations.

(* index of the element selected by the factor values *)
Definition selstep (k : nat) (b : bool) : nat := 2 * k + (if b then 1 else 0).
Definition sel (xf : list bool) : nat := fold_left selstep xf 0.

Lemma fold_selstep_lt : forall xf k s, k < 2 ^ s -> fold_left selstep xf k < 2 ^ (s + length xf).
Proof.
  induction xf as [|b xf IH]; intros k s H; cbn [fold_left length]; [rewrite Nat.add_0_r; exact H|].
  replace (s + S (length xf)) with (S s + length xf) by lia. apply IH. unfold selstep. cbn [Nat.pow]. destruct b; lia.
Qed.

(* ---------- offsets and blocks ---------- *)
Lemma offsets_length : forall els a, length (offsets els a) = length els.
Proof. induction els as [|e r IH]; intros a; [reflexivity|]. cbn [offsets length]. rewrite IH. reflexivity. Qed.
Lemma offsets_ge : forall els a q, q < length els -> a <= nth q (offsets els a) 0.
Proof.
  induction els as [|e r IH]; intros a q H; [cbn in H; lia|]. cbn [offsets]. destruct q as [|q]; [cbn; lia|]. cbn [nth].
  specialize (IH (a + diameter e) q ltac:(cbn in H; lia)). lia.
Qed.
Lemma offsets_end : forall els a q, q < length els ->
  nth q (offsets els a) 0 + diameter (nth q els (mkADD (plain []) [] 0 [])) <= a + sum_nat (map diameter els).
Proof.
  induction els as [|e r IH]; intros a q H; [cbn in H; lia|]. cbn [offsets map sum_nat fold_right]. fold (sum_nat (map diameter r)).
  destruct q as [|q]; cbn [nth]; [lia|]. specialize (IH (a + diameter e) q ltac:(cbn in H; lia)). lia.
Qed.

Section Blocks.
  Variable B : Type.
  Variable F : add * nat -> list B.
  Variable d0 : B.
  Let e0 := mkADD (plain []) [] 0 [].
  Lemma block_nth : forall els a, (forall k, k < length els -> length (F (nth k els e0, nth k (offsets els a) 0)) = diameter (nth k els e0)) ->
    forall q j, q < length els -> j < diameter (nth q els e0) ->
    nth (nth q (offsets els a) 0 + j - a) (flat_map F (combine els (offsets els a))) d0 = nth j (F (nth q els e0, nth q (offsets els a) 0)) d0.
  Proof.
    induction els as [|e r IH]; intros a HL q j Hq Hj; [cbn in Hq; lia|]. cbn [offsets combine flat_map].
    pose proof (HL 0 ltac:(cbn; lia)) as L0. cbn [nth offsets] in L0.
    destruct q as [|q]; cbn [nth] in *.
    - replace (a + j - a) with j by lia. apply app_nth1. lia.
    - assert (Hq' : q < length r) by (cbn in Hq; lia). pose proof (offsets_ge r (a + diameter e) q Hq') as Hge.
      rewrite app_nth2 by (rewrite L0; lia). rewrite L0.
      replace (nth q (offsets r (a + diameter e)) 0 + j - a - diameter e) with (nth q (offsets r (a + diameter e)) 0 + j - (a + diameter e)) by lia.
      apply IH; try assumption. intros k Hk. apply (HL (S k)). cbn. lia.
  Qed.
  Lemma block_total : forall els a, (forall k, k < length els -> length (F (nth k els e0, nth k (offsets els a) 0)) = diameter (nth k els e0)) ->
    length (flat_map F (combine els (offsets els a))) = sum_nat (map diameter els).
  Proof.
    induction els as [|e r IH]; intros a HL; [reflexivity|]. cbn [offsets combine flat_map map sum_nat fold_right]. fold (sum_nat (map diameter r)).
    rewrite app_length. pose proof (HL 0 ltac:(cbn; lia)) as L0. cbn [nth offsets] in L0. rewrite L0. f_equal.
    apply IH. intros k Hk. apply (HL (S k)). cbn. lia.
  Qed.
End Blocks.

Lemma skipn_cons_nth {A} (d : A) : forall i (l : list A), i < length l -> skipn i l = nth i l d :: skipn (S i) l.
Proof. induction i as [|i IH]; intros [|a l] H; cbn in H; try lia; [reflexivity|]. cbn [skipn nth]. apply IH. lia. Qed.
Lemma a_add_zero_r t a : vld t a -> a_add t a (a_zero t) = a.
Proof. intros [Wa Va]. rewrite a_add_comm. apply a_add_zero_l; assumption. Qed.

Section Stack.
  Variables (t : atype) (els : list add) (depth : nat).
  Let e0 := mkADD (plain []) [] 0 [].
  Let offs := offsets els 0.
  Let w := sum_nat (map diameter els).
  Hypothesis Hel : forall e, In e els -> okd e /\ d_type e = t /\ length (d_levels e) = depth.

  Definition zlevel (i : nat) : list node :=
    flat_map (fun eo : add * nat => map (shift_node (snd eo)) (nth i (d_levels (fst eo)) [])) (combine els offs).

  Lemma el_in q : q < length els -> In (nth q els e0) els. Proof. intros H. apply nth_In. exact H. Qed.
  Lemma zblock_len i : i < depth -> forall k, k < length els ->
    length ((fun eo : add * nat => map (shift_node (snd eo)) (nth i (d_levels (fst eo)) [])) (nth k els e0, nth k (offsets els 0) 0))
    = diameter (nth k els e0).
  Proof.
    intros Hi k Hk. cbn [fst snd]. rewrite map_length. destruct (Hel _ (el_in k Hk)) as [[_ [Rc _]] [_ Hd]].
    apply Rc. apply nth_In. lia.
  Qed.
  Lemma zlevel_length i : i < depth -> length (zlevel i) = w.
  Proof. intros Hi. unfold zlevel, offs, w. apply (block_total node _ els 0). apply zblock_len. exact Hi. Qed.
  Lemma getnode_zlevel i q j : i < depth -> q < length els -> j < diameter (nth q els e0) ->
    getnode t (zlevel i) (nth q offs 0 + j) = shift_node (nth q offs 0) (getnode t (nth i (d_levels (nth q els e0)) []) j).
  Proof.
    intros Hi Hq Hj. unfold getnode, zlevel, offs.
    pose proof (block_nth node (fun eo : add * nat => map (shift_node (snd eo)) (nth i (d_levels (fst eo)) [])) (dead t) els 0 (zblock_len i Hi) q j Hq Hj) as E.
    rewrite Nat.sub_0_r in E. rewrite E. cbn [fst snd].
    assert (Lj : j < length (nth i (d_levels (nth q els e0)) [])).
    { destruct (Hel _ (el_in q Hq)) as [[_ [Rc _]] [_ Hd]]. rewrite (Rc (nth i (d_levels (nth q els e0)) [])); [exact Hj|]. apply nth_In. lia. }
    rewrite (nth_indep _ (dead t) (shift_node (nth q (offsets els 0) 0) (dead t))) by (rewrite map_length; exact Lj).
    apply map_nth.
  Qed.

  Lemma zip_walk q : q < length els -> forall m i, i + m = depth -> forall j acc x,
    good_from t (diameter (nth q els e0)) (skipn i (d_levels (nth q els e0))) j ->
    eval_from t (map zlevel (seq i m)) (nth q offs 0 + j) acc x = eval_from t (skipn i (d_levels (nth q els e0))) j acc x.
  Proof.
    intros Hq. destruct (Hel _ (el_in q Hq)) as [[_ [Rc _]] [_ Hd]]. set (Le := d_levels (nth q els e0)) in *.
    induction m as [|m IH]; intros i Hi j acc x G.
    - cbn [seq map eval_from]. rewrite skipn_all2 by lia. destruct x; reflexivity.
    - cbn [seq map]. rewrite (skipn_cons_nth [] i Le) in * by lia. destruct x as [|c x]; [reflexivity|]. cbn [eval_from].
      cbn [good_from] in G. destruct G as [G1 [G2 [G3 G4]]].
      assert (Hin : In (nth i Le []) Le) by (apply nth_In; lia).
      assert (Hj : j < diameter (nth q els e0)) by (rewrite <- (Rc (nth i Le []) Hin); exact G1).
      rewrite getnode_zlevel by (try assumption; lia). fold Le. set (n := getnode t (nth i Le []) j) in *.
      replace (child (shift_node (nth q offs 0) n) c) with (nth q offs 0 + child n c) by (destruct c; cbn; lia).
      replace (adder (shift_node (nth q offs 0) n) c) with (adder n c) by (destruct c; reflexivity).
      apply IH; [lia|destruct c; assumption].
  Qed.
  Lemma zip_good q : q < length els -> forall m i, i + m = depth -> forall j,
    good_from t (diameter (nth q els e0)) (skipn i (d_levels (nth q els e0))) j ->
    good_from t w (map zlevel (seq i m)) (nth q offs 0 + j).
  Proof.
    intros Hq. destruct (Hel _ (el_in q Hq)) as [[_ [Rc _]] [_ Hd]]. set (Le := d_levels (nth q els e0)) in *.
    induction m as [|m IH]; intros i Hi j G.
    - cbn [seq map good_from]. rewrite skipn_all2 in G by lia. cbn [good_from] in G. pose proof (offsets_end els 0 q Hq). fold e0 in H. unfold offs, w. lia.
    - cbn [seq map]. rewrite (skipn_cons_nth [] i Le) in G by lia. cbn [good_from] in *. destruct G as [G1 [G2 [G3 G4]]].
      assert (Hin : In (nth i Le []) Le) by (apply nth_In; lia).
      assert (Hj : j < diameter (nth q els e0)) by (rewrite <- (Rc (nth i Le []) Hin); exact G1).
      rewrite getnode_zlevel by (try assumption; lia). fold Le. set (n := getnode t (nth i Le []) j) in *.
      rewrite zlevel_length by lia. pose proof (offsets_end els 0 q Hq) as Hend. fold e0 in Hend.
      split; [unfold offs, w; lia|]. split; [exact G2|]. cbn [shift_node n_c0 n_c1].
      rewrite !(Nat.add_comm _ (nth q offs 0)). split; apply IH; try lia; assumption.
  Qed.

  (* ---------- the header tree ---------- *)
  Variables (nf : nat) (roots : list nat).
  Definition hlevel (i : nat) : list node := header_level t w i (Nat.eqb (S i) nf) roots.
  Lemma getnode_hlevel i k : k < 2 ^ i ->
    getnode t (hlevel i) k = if Nat.eqb (S i) nf then mkNode true (nth (2 * k) roots 0) (nth (2 * k + 1) roots 0) (a_zero t) (a_zero t)
                             else mkNode true (2 * k) (2 * k + 1) (a_zero t) (a_zero t).
  Proof.
    intros Hk. unfold getnode, hlevel, header_level. rewrite app_nth1 by (rewrite map_length, seq_length; exact Hk).
    set (mk := fun k0 => if Nat.eqb (S i) nf then mkNode true (nth (2 * k0) roots 0) (nth (2 * k0 + 1) roots 0) (a_zero t) (a_zero t)
                         else mkNode true (2 * k0) (2 * k0 + 1) (a_zero t) (a_zero t)).
    rewrite (nth_indep _ (dead t) (mk 0)) by (rewrite map_length, seq_length; exact Hk).
    rewrite (map_nth mk), seq_nth by exact Hk. reflexivity.
  Qed.
  Lemma header_walk Zs : forall m s, s + S m = nf -> forall k acc xf xe, k < 2 ^ s -> length xf = S m -> vld t acc ->
    eval_from t (map hlevel (seq s (S m)) ++ Zs) k acc (xf ++ xe) = eval_from t Zs (nth (fold_left selstep xf k) roots 0) acc xe.
  Proof.
    induction m as [|m IH]; intros s Hs k acc xf xe Hk Hx Va; destruct xf as [|c xf]; try discriminate.
    - destruct xf; [|discriminate]. cbn [seq map app eval_from fold_left]. rewrite getnode_hlevel by exact Hk.
      replace (Nat.eqb (S s) nf) with true by (symmetry; apply Nat.eqb_eq; lia).
      replace (adder _ c) with (a_zero t) by (destruct c; reflexivity). rewrite a_add_zero_r by exact Va.
      f_equal. unfold selstep. destruct c; cbn [child n_c0 n_c1]; f_equal; lia.
    - change (seq s (S (S m))) with (s :: seq (S s) (S m)). cbn [map app eval_from fold_left]. rewrite getnode_hlevel by exact Hk.
      replace (Nat.eqb (S s) nf) with false by (symmetry; apply Nat.eqb_neq; lia).
      replace (adder _ c) with (a_zero t) by (destruct c; reflexivity). rewrite a_add_zero_r by exact Va.
      replace (child _ c) with (selstep k c) by (unfold selstep; destruct c; cbn [child n_c0 n_c1]; lia).
      apply IH; [lia| |cbn in Hx; lia|exact Va]. unfold selstep. cbn [Nat.pow]. destruct c; lia.
  Qed.
End Stack.

Lemma header_good t els nf roots Zs : (forall q, q < 2 ^ nf -> good_from t (sum_nat (map diameter els)) Zs (nth q roots 0)) ->
  2 ^ nf <= sum_nat (map diameter els) ->
  forall m s, s + S m = nf -> forall k, k < 2 ^ s ->
  good_from t (sum_nat (map diameter els)) (map (hlevel t els nf roots) (seq s (S m)) ++ Zs) k.
Proof.
  intros HZ Hw. induction m as [|m IH]; intros s Hs k Hk.
  - cbn [seq map app good_from]. rewrite getnode_hlevel by exact Hk.
    replace (Nat.eqb (S s) nf) with true by (symmetry; apply Nat.eqb_eq; lia). cbn [n_live n_c0 n_c1].
    assert (P : 2 ^ nf = 2 * 2 ^ s) by (rewrite <- Hs; replace (s + 1) with (S s) by lia; reflexivity).
    assert (Ps : 2 ^ s <= 2 ^ nf) by lia.
    unfold hlevel, header_level. rewrite app_length, map_length, seq_length, repeat_length.
    split; [lia|]. split; [reflexivity|]. split; apply HZ; lia.
  - change (seq s (S (S m))) with (s :: seq (S s) (S m)). cbn [map app good_from]. rewrite getnode_hlevel by exact Hk.
    replace (Nat.eqb (S s) nf) with false by (symmetry; apply Nat.eqb_neq; lia). cbn [n_live n_c0 n_c1].
    assert (Ps : 2 ^ S s <= 2 ^ nf) by (apply Nat.pow_le_mono_r; lia). assert (P2 : 2 ^ S s = 2 * 2 ^ s) by reflexivity.
    unfold hlevel at 1, header_level. rewrite app_length, map_length, seq_length, repeat_length.
    split; [lia|]. split; [reflexivity|]. split; apply IH; lia.
Qed.

Lemma sum_diam_ge : forall els, (forall e, In e els -> 1 <= diameter e) -> length els <= sum_nat (map diameter els).
Proof.
  induction els as [|e r IH]; intros H; [cbn; lia|]. cbn [length map sum_nat fold_right]. fold (sum_nat (map diameter r)).
  pose proof (H e (or_introl eq_refl)). specialize (IH (fun x Hx => H x (or_intror Hx))). lia.
Qed.
Lemma okd_diameter_pos e : okd e -> 1 <= diameter e.
Proof. intros [_ [_ G]]. unfold diameter in *. destruct (d_levels e) as [|l r]; [lia|]. cbn [good_from] in G. lia. Qed.

Section StackMain.
  Variables (t : atype) (factors : list nat) (els : list add) (depth : nat).
  Let e0 := mkADD (plain []) [] 0 [].
  Let nf := length factors.
  Hypothesis Hf : factors <> [].
  Hypothesis Hn : length els = 2 ^ length factors.
  Hypothesis Hel : forall e, In e els -> okd e /\ d_type e = t /\ length (d_levels e) = depth.

  Let offs := offsets els 0.
  Let w := sum_nat (map diameter els).
  Let roots := map (fun eo : add * nat => d_root (fst eo) + snd eo) (combine els offs).

  Lemma stack_shape : exists e els', els = e :: els' /\ d_type e = t /\ length (d_levels e) = depth /\
    add_stack factors els = mkADD t (factors ++ d_units e) 0 (map (hlevel t els nf roots) (seq 0 nf) ++ map (zlevel els) (seq 0 depth)).
  Proof.
    destruct els as [|e els'] eqn:E; [cbn in Hn; pose proof (Nat.pow_nonzero 2 (length factors)); lia|]. exists e, els'.
    destruct (Hel e (or_introl eq_refl)) as [_ [Ht Hd]]. split; [reflexivity|]. split; [exact Ht|]. split; [exact Hd|].
    destruct factors as [|f fs] eqn:Ef; [contradiction|]. unfold add_stack. rewrite Ht, Hd. reflexivity.
  Qed.
  Lemma roots_nth q : q < length els -> nth q roots 0 = nth q offs 0 + d_root (nth q els e0).
  Proof.
    intros H. unfold roots. rewrite (nth_indep _ 0 ((fun eo : add * nat => d_root (fst eo) + snd eo) (e0, 0))) by (rewrite map_length, combine_length; unfold offs; rewrite offsets_length; lia).
    rewrite (map_nth (fun eo : add * nat => d_root (fst eo) + snd eo)). rewrite combine_nth by (unfold offs; rewrite offsets_length; reflexivity). cbn [fst snd]. lia.
  Qed.

  Theorem eval_stack xf xe : wf_type t -> length xf = length factors ->
    eval (add_stack factors els) (xf ++ xe) = eval (nth (sel xf) els e0) xe.
  Proof.
    intros Wf Hx. destruct stack_shape as [e [els' [E [Ht [Hd ES]]]]]. rewrite ES. unfold eval. cbn [d_type d_levels d_root].
    assert (Hnf : nf = S (nf - 1)) by (unfold nf; destruct factors; [contradiction|cbn; lia]).
    assert (Vz : vld t (a_zero t)) by (split; [apply a_zero_wt|apply (zero_index t Wf)]).
    rewrite Hnf at 2. rewrite (header_walk t els nf roots _ (nf - 1) 0 ltac:(lia) 0 (a_zero t) xf xe); [|cbn; lia|unfold nf in *; lia|exact Vz].
    set (q := sel xf). assert (Hq : q < length els).
    { unfold q, sel. rewrite Hn, <- Hx. apply (fold_selstep_lt xf 0 0). cbn. lia. }
    fold (sel xf). fold q. rewrite roots_nth by exact Hq.
    destruct (Hel _ (nth_In els e0 Hq)) as [[_ [_ G]] [Htq Hdq]].
    rewrite (zip_walk t els depth Hel q Hq depth 0 ltac:(lia)) by (cbn [skipn]; rewrite <- Htq; exact G).
    cbn [skipn]. rewrite Htq. reflexivity.
  Qed.

  Theorem stack_okd : okd (add_stack factors els).
  Proof.
    destruct stack_shape as [e [els' [E [Ht [Hd ES]]]]]. rewrite ES.
    assert (Hnf : nf = S (nf - 1)) by (unfold nf; destruct factors; [contradiction|cbn; lia]).
    assert (Hw : 2 ^ nf <= w).
    { unfold w, nf. rewrite <- Hn. apply sum_diam_ge. intros x Hx. apply okd_diameter_pos. apply (Hel x Hx). }
    assert (LH : forall i, i < nf -> length (hlevel t els nf roots i) = w).
    { intros i Hi. unfold hlevel, header_level. rewrite app_length, map_length, seq_length, repeat_length. fold w.
      assert (2 ^ i <= 2 ^ nf) by (apply Nat.pow_le_mono_r; lia). lia. }
    assert (Dm : diameter (mkADD t (factors ++ d_units e) 0 (map (hlevel t els nf roots) (seq 0 nf) ++ map (zlevel els) (seq 0 depth))) = w).
    { unfold diameter. cbn [d_levels]. replace (seq 0 nf) with (0 :: seq 1 (nf - 1)) by (rewrite Hnf at 2; reflexivity). cbn [map app]. apply LH. lia. }
    split; [|split].
    - cbn [d_type d_levels]. intros l nd Hl Hnd. apply in_app_or in Hl. destruct Hl as [Hl|Hl]; apply in_map_iff in Hl; destruct Hl as [i [<- Hi]].
      + unfold hlevel, header_level in Hnd. apply in_app_or in Hnd. destruct Hnd as [Hnd|Hnd]; [|apply repeat_spec in Hnd; subst nd; apply dead_wt].
        apply in_map_iff in Hnd. destruct Hnd as [k [<- _]]. destruct (Nat.eqb (S i) nf); split; apply a_zero_wt.
      + unfold zlevel in Hnd. apply in_flat_map in Hnd. destruct Hnd as [[ex ox] [Hin Hnd]]. cbn [fst snd] in Hnd.
        apply in_map_iff in Hnd. destruct Hnd as [n0 [<- Hn0]]. apply in_combine_l in Hin. destruct (Hel ex Hin) as [[Wx _] [Htx _]]. rewrite Htx in Wx.
        apply in_seq in Hi. destruct (Nat.lt_ge_cases i (length (d_levels ex))) as [Hlt|Hge]; [|rewrite nth_overflow in Hn0 by exact Hge; destruct Hn0].
        pose proof (Wx (nth i (d_levels ex) []) n0 (nth_In _ _ Hlt) Hn0) as [A B]. split; assumption.
    - intros l Hl. rewrite Dm. cbn [d_levels] in Hl. apply in_app_or in Hl. destruct Hl as [Hl|Hl]; apply in_map_iff in Hl; destruct Hl as [i [<- Hi]]; apply in_seq in Hi.
      + apply LH. lia.
      + apply (zlevel_length t els depth Hel). lia.
    - rewrite Dm. cbn [d_type d_levels d_root]. replace (seq 0 nf) with (seq 0 (S (nf - 1))) by (rewrite <- Hnf; reflexivity).
      apply (header_good t els nf roots); [|exact Hw|lia|cbn; lia].
      intros q Hq. assert (Hq' : q < length els) by (rewrite Hn; exact Hq). rewrite roots_nth by exact Hq'.
      destruct (Hel _ (nth_In els e0 Hq')) as [[_ [_ G]] [Htq Hdq]].
      apply (zip_good t els depth Hel q Hq' depth 0 ltac:(lia)). cbn [skipn]. rewrite <- Htq. exact G.
  Qed.
End StackMain.
