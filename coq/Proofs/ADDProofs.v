(* C10: value algebra and decision-diagram operations. *)
From Coq Require Import List Arith Bool Lia.
From DS Require Import Model.ADD.
Import ListNotations.

Lemma a_add_spec t x y : a_add t x y =
  match x, y with Some a, Some b => if inb t (vadd a b) then Some (vadd a b) else None | _, _ => None end.
Proof. destruct x, y; reflexivity. Qed.

(* ---------- equality test ---------- *)
Lemma a_eqb_refl x : a_eqb x x = true.
Proof.
  destruct x as [a|]; [|reflexivity]. cbn [a_eqb]. rewrite Nat.eqb_refl. cbn [andb].
  induction a as [|h t IH]; [reflexivity|]. cbn [combine forallb fst snd]. rewrite Nat.eqb_refl. exact IH.
Qed.
Lemma a_eqb_eq x y : a_eqb x y = true -> x = y.
Proof.
  destruct x as [a|], y as [b|]; cbn [a_eqb]; try discriminate; [|reflexivity].
  intros H. apply andb_prop in H as [Hl H]. apply Nat.eqb_eq in Hl. f_equal.
  revert b Hl H. induction a as [|h t IH]; intros [|h' t'] Hl H; try discriminate; [reflexivity|].
  cbn [combine forallb fst snd] in H. apply andb_prop in H as [E H]. apply Nat.eqb_eq in E. subst h'.
  f_equal. apply IH; [cbn in Hl; lia|exact H].
Qed.
Lemma a_eqb_neq x y : x <> y -> a_eqb x y = false.
Proof. intros H. destruct (a_eqb x y) eqn:E; [|reflexivity]. apply a_eqb_eq in E. contradiction. Qed.

(* ---------- the enumerated domain ---------- *)
Lemma product_ranges_spec : forall maxs v,
  In v (product_ranges maxs) <-> length v = length maxs /\ forallb (fun p => Nat.leb (fst p) (snd p)) (combine v maxs) = true.
Proof.
  induction maxs as [|m t IH]; intros v; cbn [product_ranges].
  - split; [intros [<-|[]]; split; reflexivity|]. intros [H _]. destruct v; [left; reflexivity|discriminate].
  - rewrite in_flat_map. split.
    + intros [x [Hx Hv]]. apply in_map_iff in Hv as [w [<- Hw]]. apply IH in Hw as [Hl Hb]. apply in_seq in Hx.
      split; [cbn; lia|]. cbn [combine forallb fst snd]. rewrite Hb. rewrite (proj2 (Nat.leb_le x m)) by lia. reflexivity.
    + intros [Hl Hb]. destruct v as [|x w]; [discriminate|]. cbn [combine forallb fst snd] in Hb. apply andb_prop in Hb as [Hx Hb].
      apply Nat.leb_le in Hx. exists x. split; [apply in_seq; lia|]. apply in_map. apply IH. split; [cbn in Hl; lia|exact Hb].
Qed.

Lemma NoDup_app_disj {B} : forall (l1 l2 : list B), NoDup l1 -> NoDup l2 -> (forall x, In x l1 -> In x l2 -> False) -> NoDup (l1 ++ l2).
Proof.
  induction l1 as [|x l1 IH]; intros l2 H1 H2 H; cbn [app]; [exact H2|]. inversion H1; subst. constructor.
  - rewrite in_app_iff. intros [Hc|Hc]; [contradiction|]. apply (H x); [left; reflexivity|exact Hc].
  - apply IH; auto. intros y Hy1 Hy2. apply (H y); [right; exact Hy1|exact Hy2].
Qed.

Lemma NoDup_flat_map {A B} (f : A -> list B) (l : list A) :
  NoDup l -> (forall a, In a l -> NoDup (f a)) ->
  (forall a a' b, In a l -> In a' l -> In b (f a) -> In b (f a') -> a = a') -> NoDup (flat_map f l).
Proof.
  induction l as [|a l IH]; intros Hnd Hf Hdisj; cbn [flat_map]; [constructor|].
  inversion Hnd as [|? ? Ha Hnd']; subst.
  apply NoDup_app_disj.
  - apply Hf. left. reflexivity.
  - apply IH; [exact Hnd'|intros x Hx; apply Hf; right; exact Hx|].
    intros x x' b Hx Hx'. apply Hdisj; right; assumption.
  - intros b Hb1 Hb2. apply in_flat_map in Hb2 as [a' [Ha' Hb2]].
    assert (a = a') by (apply (Hdisj a a' b); [left; reflexivity|right; exact Ha'|exact Hb1|exact Hb2]). subst. contradiction.
Qed.

Lemma NoDup_map_inj {A B} (f : A -> B) l : (forall x y, f x = f y -> x = y) -> NoDup l -> NoDup (map f l).
Proof.
  intros Hinj. induction 1 as [|a l Ha Hnd IH]; cbn [map]; constructor; [|exact IH].
  intros Hc. apply in_map_iff in Hc as [y [E Hy]]. apply Hinj in E. subst. contradiction.
Qed.

Lemma product_ranges_nodup : forall maxs, NoDup (product_ranges maxs).
Proof.
  induction maxs as [|m t IH]; cbn [product_ranges]; [repeat constructor; intros []|].
  apply NoDup_flat_map; [apply seq_NoDup| |].
  - intros x _. apply NoDup_map_inj; [intros a b E; injection E; auto|exact IH].
  - intros x x' b _ _ H1 H2. apply in_map_iff in H1 as [w [<- _]]. apply in_map_iff in H2 as [w' [E _]]. injection E; auto.
Qed.

(* plain types: the domain enumerates exactly the in-bounds vectors, without repetition *)
Theorem domain_valid_plain_spec maxs v : In v (domain_valid (plain maxs)) <-> inb (plain maxs) v = true.
Proof.
  unfold domain_valid, inb, plain, leb_all. cbn [a_tally a_max]. rewrite andb_true_r, product_ranges_spec. split.
  - intros [Hl Hb]. rewrite Hl, Nat.eqb_refl, Hb. reflexivity.
  - intros H. apply andb_prop in H as [Hl Hb]. apply Nat.eqb_eq in Hl. split; assumption.
Qed.
Theorem domain_valid_plain_nodup maxs : NoDup (domain_valid (plain maxs)).
Proof. apply product_ranges_nodup. Qed.

Lemma domain_nodup_of t : NoDup (domain_valid t) -> NoDup (domain t).
Proof.
  intros H. unfold domain. apply NoDup_app_disj.
  - apply NoDup_map_inj; [intros a b E; injection E; auto|exact H].
  - repeat constructor. intros [].
  - intros x Hx [<-|[]]. apply in_map_iff in Hx as [y [E _]]. discriminate.
Qed.

(* histogram over a duplicate-free domain that contains every value: the counts add up to the number of values *)
Lemma indicator_sum (dom : list aval) v : NoDup dom -> In v dom ->
  sum_nat (map (fun e => if a_eqb e v then 1 else 0) dom) = 1.
Proof.
  induction dom as [|e dom IH]; intros Hnd Hin; [destruct Hin|]. inversion Hnd as [|? ? He Hnd']; subst.
  cbn [map sum_nat fold_right]. destruct Hin as [->|Hin].
  - rewrite a_eqb_refl. assert (Z : sum_nat (map (fun e => if a_eqb e v then 1 else 0) dom) = 0).
    { clear IH Hnd Hnd'. induction dom as [|x dom IH]; [reflexivity|]. cbn [map sum_nat fold_right].
      rewrite a_eqb_neq by (intros ->; apply He; left; reflexivity). cbn [Nat.add]. apply IH. intros Hc. apply He. right. exact Hc. }
    unfold sum_nat in *. rewrite Z. reflexivity.
  - rewrite a_eqb_neq by (intros ->; contradiction). cbn [Nat.add]. apply IH; assumption.
Qed.

Lemma sum_nat_map_add {A} (f g : A -> nat) l : sum_nat (map (fun a => f a + g a) l) = sum_nat (map f l) + sum_nat (map g l).
Proof. induction l as [|a l IH]; [reflexivity|]. cbn [map sum_nat fold_right] in *. unfold sum_nat in *. rewrite IH. lia. Qed.

Theorem histogram_total t vals : NoDup (domain t) -> (forall v, In v vals -> In v (domain t)) ->
  sum_nat (histogram t vals) = length vals.
Proof.
  intros Hnd. unfold histogram. induction vals as [|v vals IH]; intros Hin.
  - cbn [filter length]. clear. induction (domain t) as [|e l IHl]; [reflexivity|]. cbn [map sum_nat fold_right] in *. exact IHl.
  - rewrite (map_ext _ (fun e => (if a_eqb e v then 1 else 0) + length (filter (a_eqb e) vals))).
    + rewrite sum_nat_map_add, IH by (intros w Hw; apply Hin; right; exact Hw).
      rewrite indicator_sum; [reflexivity|exact Hnd|apply Hin; left; reflexivity].
    + intros e. cbn [filter]. destruct (a_eqb e v); reflexivity.
Qed.

(* ---------- tally types ---------- *)
Lemma app_inj_len {A} (a b a' b' : list A) : length a = length a' -> a ++ b = a' ++ b' -> a = a' /\ b = b'.
Proof.
  revert a'. induction a as [|x a IH]; intros [|x' a'] Hl E; try discriminate; [split; [reflexivity|exact E]|].
  cbn [app] in E. injection E as -> E. cbn in Hl. destruct (IH a' ltac:(lia) E) as [-> ->]. split; reflexivity.
Qed.

Definition single (k c : nat) : list (list nat) := filter (fun x => Nat.leb (sum_nat x) k) (product_ranges (repeat k c)).

Lemma single_spec k c w : In w (single k c) <->
  length w = c /\ forallb (fun p => Nat.leb (fst p) (snd p)) (combine w (repeat k c)) = true /\ (sum_nat w <= k)%nat.
Proof.
  unfold single. rewrite filter_In, product_ranges_spec, repeat_length, Nat.leb_le. tauto.
Qed.
Lemma single_nodup k c : NoDup (single k c).
Proof. unfold single. apply NoDup_filter. apply product_ranges_nodup. Qed.

Lemma domain_valid_tally_eq n k c : domain_valid (tally n k c)
  = flat_map (fun n' => flat_map (fun w => map (fun wo => n' :: w ++ wo) (single k c)) (single k c)) (seq 0 (S n)).
Proof. reflexivity. Qed.

Lemma forallb_combine_app {A B} (f : A * B -> bool) (a a' : list A) (b b' : list B) : length a = length b ->
  forallb f (combine (a ++ a') (b ++ b')) = forallb f (combine a b) && forallb f (combine a' b').
Proof.
  revert b. induction a as [|x a IH]; intros [|y b] Hl; try discriminate; [reflexivity|].
  cbn [app combine forallb]. rewrite IH by (cbn in Hl; lia). apply andb_assoc.
Qed.

Theorem domain_valid_tally_spec n k c v : In v (domain_valid (tally n k c)) <-> inb (tally n k c) v = true.
Proof.
  rewrite domain_valid_tally_eq. unfold inb, tally, leb_all. cbn [a_max a_tally].
  replace (2 * c)%nat with (c + c)%nat by lia. rewrite repeat_app. split.
  - intros H. apply in_flat_map in H as [n' [Hn H]]. apply in_flat_map in H as [w [Hw H]]. apply in_map_iff in H as [wo [<- Hwo]].
    apply in_seq in Hn. apply single_spec in Hw as [Lw [Bw Sw]]. apply single_spec in Hwo as [Lwo [Bwo Swo]].
    cbn [length]. rewrite !app_length, !repeat_length, Lw, Lwo, Nat.eqb_refl. cbn [andb combine forallb fst snd].
    rewrite (proj2 (Nat.leb_le n' n)) by lia. cbn [andb].
    rewrite forallb_combine_app by (rewrite repeat_length; exact Lw). rewrite Bw, Bwo. cbn [andb skipn].
    rewrite firstn_app, Lw, Nat.sub_diag, firstn_all2 by lia. cbn [firstn]. rewrite app_nil_r.
    rewrite (proj2 (Nat.leb_le _ _) Sw). cbn [andb].
    rewrite skipn_app, Lw, Nat.sub_diag, skipn_all2 by lia. cbn [app skipn].
    rewrite firstn_all2 by lia. apply Nat.leb_le. exact Swo.
  - intros H. apply andb_prop in H as [H1 H2]. apply andb_prop in H1 as [Hl Hb]. apply andb_prop in H2 as [S1 S2].
    apply Nat.eqb_eq in Hl. destruct v as [|n' rest]; [discriminate|]. cbn [length] in Hl. rewrite app_length, !repeat_length in Hl.
    cbn [combine forallb fst snd] in Hb. apply andb_prop in Hb as [Hn Hb]. apply Nat.leb_le in Hn.
    cbn [skipn] in S1. apply Nat.leb_le in S1. apply Nat.leb_le in S2.
    set (w := firstn c rest) in *. set (wo := skipn c rest).
    assert (Er : rest = w ++ wo) by (symmetry; apply firstn_skipn).
    assert (Lw : length w = c) by (unfold w; rewrite firstn_length; lia).
    assert (Lwo : length wo = c) by (unfold wo; rewrite skipn_length; lia).
    rewrite Er in Hb. rewrite forallb_combine_app in Hb by (rewrite repeat_length; exact Lw). apply andb_prop in Hb as [Bw Bwo].
    assert (Swo : (sum_nat wo <= k)%nat).
    { replace (skipn (S c) (n' :: rest)) with wo in S2 by reflexivity. rewrite firstn_all2 in S2 by lia. exact S2. }
    apply in_flat_map. exists n'. split; [apply in_seq; lia|]. apply in_flat_map. exists w. split; [apply single_spec; auto|].
    apply in_map_iff. exists wo. split; [rewrite Er; reflexivity|apply single_spec; auto].
Qed.

Theorem domain_valid_tally_nodup n k c : NoDup (domain_valid (tally n k c)).
Proof.
  rewrite domain_valid_tally_eq. apply NoDup_flat_map; [apply seq_NoDup| |].
  - intros n' _. apply NoDup_flat_map; [apply single_nodup| |].
    + intros w _. apply NoDup_map_inj; [|apply single_nodup]. intros a b E. injection E as E. apply app_inv_head in E. exact E.
    + intros w w' b Hw Hw' H1 H2. apply in_map_iff in H1 as [wo [<- Hwo]]. apply in_map_iff in H2 as [wo' [E Hwo']].
      injection E as E. apply single_spec in Hw as [Lw _]. apply single_spec in Hw' as [Lw' _].
      symmetry. apply (app_inj_len w' wo' w wo); [lia|exact E].
  - intros a a' b _ _ H1 H2. apply in_flat_map in H1 as [w [_ H1]]. apply in_map_iff in H1 as [wo [<- _]].
    apply in_flat_map in H2 as [w' [_ H2]]. apply in_map_iff in H2 as [wo' [E _]]. injection E; auto.
Qed.

Lemma clip_in_domain_tally n k c v : In (clip (tally n k c) v) (domain (tally n k c)).
Proof.
  unfold clip, domain. destruct (inb (tally n k c) v) eqn:E; apply in_or_app.
  - left. apply in_map. apply domain_valid_tally_spec. exact E.
  - right. left. reflexivity.
Qed.
