(* C10: value algebra and decision-diagram operations. *)
From Coq Require Import List Arith Bool Lia.
From DS Require Import Model.ADD.
Import ListNotations.

Lemma a_add_spec t x y : a_add t x y =
  match x, y with Some a, Some b => if inb t (vadd a b) then Some (vadd a b) else None | _, _ => None end.
Proof. destruct x, y; reflexivity. Qed.
