(* C10: value algebra and decision-diagram operations. *)
From Coq Require Import List Arith Bool Lia.
From DS Require Import Util.ListX Model.ADD.
Import ListNotations.

Lemma a_add_spec t x y : a_add t x y =
  match x, y with Some a, Some b => if inb t (vadd a b) then Some (vadd a b) else None | _, _ => None end.
Proof. destruct x, y; reflexivity. Qed.

(* ---------- equality test ---------- *)
Lemma a_eqb_refl x : a_eqb x x = true.
Proof.
  destruct x as [a|]; [|reflexivity]. cbn [a_eqb]. rewrite Nat.eqb_refl. cbn [andb].
  induction a as [|h t IH]; [reflexivity|]. cbn [combine forallb fst snd]. rewrite Nat.eqb_refl. exact IH.
Qed.
Lemma a_eqb_eq x y : a_eqb x y = true -> x = y.
Proof.
  destruct x as [a|], y as [b|]; cbn [a_eqb]; try discriminate; [|reflexivity].
  intros H. apply andb_prop in H as [Hl H]. apply Nat.eqb_eq in Hl. f_equal.
  revert b Hl H. induction a as [|h t IH]; intros [|h' t'] Hl H; try discriminate; [reflexivity|].
  cbn [combine forallb fst snd] in H. apply andb_prop in H as [E H]. apply Nat.eqb_eq in E. subst h'.
  f_equal. apply IH; [cbn in Hl; lia|exact H].
Qed.
Lemma a_eqb_neq x y : x <> y -> a_eqb x y = false.
Proof. intros H. destruct (a_eqb x y) eqn:E; [|reflexivity]. apply a_eqb_eq in E. contradiction. Qed.

(* ---------- the enumerated domain ---------- *)
Lemma product_ranges_spec : forall maxs v,
  In v (product_ranges maxs) <-> length v = length maxs /\ forallb (fun p => Nat.leb (fst p) (snd p)) (combine v maxs) = true.
Proof.
  induction maxs as [|m t IH]; intros v; cbn [product_ranges].
  - split; [intros [<-|[]]; split; reflexivity|]. intros [H _]. destruct v; [left; reflexivity|discriminate].
  - rewrite in_flat_map. split.
    + intros [x [Hx Hv]]. apply in_map_iff in Hv as [w [<- Hw]]. apply IH in Hw as [Hl Hb]. apply in_seq in Hx.
      split; [cbn; lia|]. cbn [combine forallb fst snd]. rewrite Hb. rewrite (proj2 (Nat.leb_le x m)) by lia. reflexivity.
    + intros [Hl Hb]. destruct v as [|x w]; [discriminate|]. cbn [combine forallb fst snd] in Hb. apply andb_prop in Hb as [Hx Hb].
      apply Nat.leb_le in Hx. exists x. split; [apply in_seq; lia|]. apply in_map. apply IH. split; [cbn in Hl; lia|exact Hb].
Qed.

Lemma NoDup_app_disj {B} : forall (l1 l2 : list B), NoDup l1 -> NoDup l2 -> (forall x, In x l1 -> In x l2 -> False) -> NoDup (l1 ++ l2).
Proof.
  induction l1 as [|x l1 IH]; intros l2 H1 H2 H; cbn [app]; [exact H2|]. inversion H1; subst. constructor.
  - rewrite in_app_iff. intros [Hc|Hc]; [contradiction|]. apply (H x); [left; reflexivity|exact Hc].
  - apply IH; auto. intros y Hy1 Hy2. apply (H y); [right; exact Hy1|exact Hy2].
Qed.

Lemma NoDup_flat_map {A B} (f : A -> list B) (l : list A) :
  NoDup l -> (forall a, In a l -> NoDup (f a)) ->
  (forall a a' b, In a l -> In a' l -> In b (f a) -> In b (f a') -> a = a') -> NoDup (flat_map f l).
Proof.
  induction l as [|a l IH]; intros Hnd Hf Hdisj; cbn [flat_map]; [constructor|].
  inversion Hnd as [|? ? Ha Hnd']; subst.
  apply NoDup_app_disj.
  - apply Hf. left. reflexivity.
  - apply IH; [exact Hnd'|intros x Hx; apply Hf; right; exact Hx|].
    intros x x' b Hx Hx'. apply Hdisj; right; assumption.
  - intros b Hb1 Hb2. apply in_flat_map in Hb2 as [a' [Ha' Hb2]].
    assert (a = a') by (apply (Hdisj a a' b); [left; reflexivity|right; exact Ha'|exact Hb1|exact Hb2]). subst. contradiction.
Qed.

Lemma NoDup_map_inj {A B} (f : A -> B) l : (forall x y, f x = f y -> x = y) -> NoDup l -> NoDup (map f l).
Proof.
  intros Hinj. induction 1 as [|a l Ha Hnd IH]; cbn [map]; constructor; [|exact IH].
  intros Hc. apply in_map_iff in Hc as [y [E Hy]]. apply Hinj in E. subst. contradiction.
Qed.

Lemma product_ranges_nodup : forall maxs, NoDup (product_ranges maxs).
Proof.
  induction maxs as [|m t IH]; cbn [product_ranges]; [repeat constructor; intros []|].
  apply NoDup_flat_map; [apply seq_NoDup| |].
  - intros x _. apply NoDup_map_inj; [intros a b E; injection E; auto|exact IH].
  - intros x x' b _ _ H1 H2. apply in_map_iff in H1 as [w [<- _]]. apply in_map_iff in H2 as [w' [E _]]. injection E; auto.
Qed.

(* plain types: the domain enumerates exactly the in-bounds vectors, without repetition *)
Theorem domain_valid_plain_spec maxs v : In v (domain_valid (plain maxs)) <-> inb (plain maxs) v = true.
Proof.
  unfold domain_valid, inb, plain, leb_all. cbn [a_tally a_max]. rewrite andb_true_r, product_ranges_spec. split.
  - intros [Hl Hb]. rewrite Hl, Nat.eqb_refl, Hb. reflexivity.
  - intros H. apply andb_prop in H as [Hl Hb]. apply Nat.eqb_eq in Hl. split; assumption.
Qed.
Theorem domain_valid_plain_nodup maxs : NoDup (domain_valid (plain maxs)).
Proof. apply product_ranges_nodup. Qed.

Lemma domain_nodup_of t : NoDup (domain_valid t) -> NoDup (domain t).
Proof.
  intros H. unfold domain. apply NoDup_app_disj.
  - apply NoDup_map_inj; [intros a b E; injection E; auto|exact H].
  - repeat constructor. intros [].
  - intros x Hx [<-|[]]. apply in_map_iff in Hx as [y [E _]]. discriminate.
Qed.

(* histogram over a duplicate-free domain that contains every value: the counts add up to the number of values *)
Lemma indicator_sum (dom : list aval) v : NoDup dom -> In v dom ->
  sum_nat (map (fun e => if a_eqb e v then 1 else 0) dom) = 1.
Proof.
  induction dom as [|e dom IH]; intros Hnd Hin; [destruct Hin|]. inversion Hnd as [|? ? He Hnd']; subst.
  cbn [map sum_nat fold_right]. destruct Hin as [->|Hin].
  - rewrite a_eqb_refl. assert (Z : sum_nat (map (fun e => if a_eqb e v then 1 else 0) dom) = 0).
    { clear IH Hnd Hnd'. induction dom as [|x dom IH]; [reflexivity|]. cbn [map sum_nat fold_right].
      rewrite a_eqb_neq by (intros ->; apply He; left; reflexivity). cbn [Nat.add]. apply IH. intros Hc. apply He. right. exact Hc. }
    unfold sum_nat in *. rewrite Z. reflexivity.
  - rewrite a_eqb_neq by (intros ->; contradiction). cbn [Nat.add]. apply IH; assumption.
Qed.

Lemma sum_nat_map_add {A} (f g : A -> nat) l : sum_nat (map (fun a => f a + g a) l) = sum_nat (map f l) + sum_nat (map g l).
Proof. induction l as [|a l IH]; [reflexivity|]. cbn [map sum_nat fold_right] in *. unfold sum_nat in *. rewrite IH. lia. Qed.

Theorem histogram_total t vals : NoDup (domain t) -> (forall v, In v vals -> In v (domain t)) ->
  sum_nat (histogram t vals) = length vals.
Proof.
  intros Hnd. unfold histogram. induction vals as [|v vals IH]; intros Hin.
  - cbn [filter length]. clear. induction (domain t) as [|e l IHl]; [reflexivity|]. cbn [map sum_nat fold_right] in *. exact IHl.
  - rewrite (map_ext _ (fun e => (if a_eqb e v then 1 else 0) + length (filter (a_eqb e) vals))).
    + rewrite sum_nat_map_add, IH by (intros w Hw; apply Hin; right; exact Hw).
      rewrite indicator_sum; [reflexivity|exact Hnd|apply Hin; left; reflexivity].
    + intros e. cbn [filter]. destruct (a_eqb e v); reflexivity.
Qed.

(* ---------- tally types ---------- *)
Lemma app_inj_len {A} (a b a' b' : list A) : length a = length a' -> a ++ b = a' ++ b' -> a = a' /\ b = b'.
Proof.
  revert a'. induction a as [|x a IH]; intros [|x' a'] Hl E; try discriminate; [split; [reflexivity|exact E]|].
  cbn [app] in E. injection E as -> E. cbn in Hl. destruct (IH a' ltac:(lia) E) as [-> ->]. split; reflexivity.
Qed.

Definition single (k c : nat) : list (list nat) := filter (fun x => Nat.leb (sum_nat x) k) (product_ranges (repeat k c)).

Lemma single_spec k c w : In w (single k c) <->
  length w = c /\ forallb (fun p => Nat.leb (fst p) (snd p)) (combine w (repeat k c)) = true /\ (sum_nat w <= k)%nat.
Proof.
  unfold single. rewrite filter_In, product_ranges_spec, repeat_length, Nat.leb_le. tauto.
Qed.
Lemma single_nodup k c : NoDup (single k c).
Proof. unfold single. apply NoDup_filter. apply product_ranges_nodup. Qed.

Lemma domain_valid_tally_eq n k c : domain_valid (tally n k c)
  = flat_map (fun n' => flat_map (fun w => map (fun wo => n' :: w ++ wo) (single k c)) (single k c)) (seq 0 (S n)).
Proof. reflexivity. Qed.

Lemma forallb_combine_app {A B} (f : A * B -> bool) (a a' : list A) (b b' : list B) : length a = length b ->
  forallb f (combine (a ++ a') (b ++ b')) = forallb f (combine a b) && forallb f (combine a' b').
Proof.
  revert b. induction a as [|x a IH]; intros [|y b] Hl; try discriminate; [reflexivity|].
  cbn [app combine forallb]. rewrite IH by (cbn in Hl; lia). apply andb_assoc.
Qed.

Theorem domain_valid_tally_spec n k c v : In v (domain_valid (tally n k c)) <-> inb (tally n k c) v = true.
Proof.
  rewrite domain_valid_tally_eq. unfold inb, tally, leb_all. cbn [a_max a_tally].
  replace (2 * c)%nat with (c + c)%nat by lia. rewrite repeat_app. split.
  - intros H. apply in_flat_map in H as [n' [Hn H]]. apply in_flat_map in H as [w [Hw H]]. apply in_map_iff in H as [wo [<- Hwo]].
    apply in_seq in Hn. apply single_spec in Hw as [Lw [Bw Sw]]. apply single_spec in Hwo as [Lwo [Bwo Swo]].
    cbn [length]. rewrite !app_length, !repeat_length, Lw, Lwo, Nat.eqb_refl. cbn [andb combine forallb fst snd].
    rewrite (proj2 (Nat.leb_le n' n)) by lia. cbn [andb].
    rewrite forallb_combine_app by (rewrite repeat_length; exact Lw). rewrite Bw, Bwo. cbn [andb skipn].
    rewrite firstn_app, Lw, Nat.sub_diag, firstn_all2 by lia. cbn [firstn]. rewrite app_nil_r.
    rewrite (proj2 (Nat.leb_le _ _) Sw). cbn [andb].
    rewrite skipn_app, Lw, Nat.sub_diag, skipn_all2 by lia. cbn [app skipn].
    rewrite firstn_all2 by lia. apply Nat.leb_le. exact Swo.
  - intros H. apply andb_prop in H as [H1 H2]. apply andb_prop in H1 as [Hl Hb]. apply andb_prop in H2 as [S1 S2].
    apply Nat.eqb_eq in Hl. destruct v as [|n' rest]; [discriminate|]. cbn [length] in Hl. rewrite app_length, !repeat_length in Hl.
    cbn [combine forallb fst snd] in Hb. apply andb_prop in Hb as [Hn Hb]. apply Nat.leb_le in Hn.
    cbn [skipn] in S1. apply Nat.leb_le in S1. apply Nat.leb_le in S2.
    set (w := firstn c rest) in *. set (wo := skipn c rest).
    assert (Er : rest = w ++ wo) by (symmetry; apply firstn_skipn).
    assert (Lw : length w = c) by (unfold w; rewrite firstn_length; lia).
    assert (Lwo : length wo = c) by (unfold wo; rewrite skipn_length; lia).
    rewrite Er in Hb. rewrite forallb_combine_app in Hb by (rewrite repeat_length; exact Lw). apply andb_prop in Hb as [Bw Bwo].
    assert (Swo : (sum_nat wo <= k)%nat).
    { replace (skipn (S c) (n' :: rest)) with wo in S2 by reflexivity. rewrite firstn_all2 in S2 by lia. exact S2. }
    apply in_flat_map. exists n'. split; [apply in_seq; lia|]. apply in_flat_map. exists w. split; [apply single_spec; auto|].
    apply in_map_iff. exists wo. split; [rewrite Er; reflexivity|apply single_spec; auto].
Qed.

Theorem domain_valid_tally_nodup n k c : NoDup (domain_valid (tally n k c)).
Proof.
  rewrite domain_valid_tally_eq. apply NoDup_flat_map; [apply seq_NoDup| |].
  - intros n' _. apply NoDup_flat_map; [apply single_nodup| |].
    + intros w _. apply NoDup_map_inj; [|apply single_nodup]. intros a b E. injection E as E. apply app_inv_head in E. exact E.
    + intros w w' b Hw Hw' H1 H2. apply in_map_iff in H1 as [wo [<- Hwo]]. apply in_map_iff in H2 as [wo' [E Hwo']].
      injection E as E. apply single_spec in Hw as [Lw _]. apply single_spec in Hw' as [Lw' _].
      symmetry. apply (app_inj_len w' wo' w wo); [lia|exact E].
  - intros a a' b _ _ H1 H2. apply in_flat_map in H1 as [w [_ H1]]. apply in_map_iff in H1 as [wo [<- _]].
    apply in_flat_map in H2 as [w' [_ H2]]. apply in_map_iff in H2 as [wo' [E _]]. injection E; auto.
Qed.

Lemma clip_in_domain_tally n k c v : In (clip (tally n k c) v) (domain (tally n k c)).
Proof.
  unfold clip, domain. destruct (inb (tally n k c) v) eqn:E; apply in_or_app.
  - left. apply in_map. apply domain_valid_tally_spec. exact E.
  - right. left. reflexivity.
Qed.

(* ====================== algebra of saturating addition ====================== *)
Definition wt (t : atype) (x : aval) : Prop := match x with Some v => length v = length (a_max t) | None => True end.

Lemma vadd_length a b : length a = length b -> length (vadd a b) = length a.
Proof. intros H. unfold vadd. rewrite map_length, combine_length, H. apply Nat.min_id. Qed.
Lemma vadd_comm : forall a b, vadd a b = vadd b a.
Proof. unfold vadd. induction a as [|x a IH]; intros [|y b]; cbn [combine map]; try reflexivity. rewrite IH. f_equal. cbn. lia. Qed.
Lemma vadd_assoc : forall a b c, vadd (vadd a b) c = vadd a (vadd b c).
Proof. unfold vadd. induction a as [|x a IH]; intros [|y b] [|z c]; cbn [combine map]; try reflexivity. rewrite IH. f_equal. cbn. lia. Qed.
Lemma vadd_nth a b i : length a = length b -> nth i (vadd a b) 0 = nth i a 0 + nth i b 0.
Proof. revert b i. induction a as [|x a IH]; intros [|y b] [|i] H; try discriminate; cbn; try reflexivity. apply IH. cbn in H. lia. Qed.

(* componentwise order and the two monotone ingredients of inb *)
Definition vle_p (a b : list nat) : Prop := length a = length b /\ forall i, nth i a 0 <= nth i b 0.
Lemma leb_all_iff v m : leb_all v m = true <-> vle_p v m.
Proof.
  unfold leb_all, vle_p. rewrite andb_true_iff, Nat.eqb_eq. split; intros [Hl H]; split; auto.
  - revert m Hl H. induction v as [|x v IH]; intros [|y m] Hl H i; try discriminate; [destruct i; cbn; lia|].
    cbn [combine forallb fst snd] in H. apply andb_prop in H as [H1 H2]. apply Nat.leb_le in H1.
    destruct i; cbn [nth]; [exact H1|]. apply IH; [cbn in Hl; lia|exact H2].
  - revert m Hl H. induction v as [|x v IH]; intros [|y m] Hl H; try discriminate; [reflexivity|].
    cbn [combine forallb fst snd]. rewrite (proj2 (Nat.leb_le x y)) by (apply (H 0%nat)). cbn [andb].
    apply IH; [cbn in Hl; lia|]. intros i. apply (H (S i)).
Qed.
Lemma sum_nat_le : forall a b, length a = length b -> (forall i, nth i a 0 <= nth i b 0) -> sum_nat a <= sum_nat b.
Proof.
  induction a as [|x a IH]; intros [|y b] Hl H; try discriminate; [lia|]. cbn [sum_nat fold_right].
  pose proof (H 0%nat) as H0. cbn in H0. assert (sum_nat a <= sum_nat b) by (apply IH; [cbn in Hl; lia|intros i; apply (H (S i))]).
  unfold sum_nat in *. lia.
Qed.
Lemma nth_firstn_lt {A} (d : A) : forall c i (l : list A), i < c -> nth i (firstn c l) d = nth i l d.
Proof. induction c as [|c IH]; intros i l H; [lia|]. destruct l as [|x l]; [destruct i; reflexivity|]. destruct i; cbn; [reflexivity|]. apply IH. lia. Qed.
Lemma nth_firstn_skipn c k (v : list nat) i : nth i (firstn c (skipn k v)) 0 = if i <? c then nth (k + i) v 0 else 0.
Proof.
  destruct (Nat.ltb_spec i c) as [H|H].
  - rewrite nth_firstn_lt by exact H. apply nth_skipn_add.
  - apply nth_overflow. rewrite firstn_length. lia.
Qed.

(* inb is downward closed among vectors of the right length *)
Theorem inb_down t a b : length a = length b -> (forall i, nth i a 0 <= nth i b 0) -> inb t b = true -> inb t a = true.
Proof.
  intros Hl Hle Hb. unfold inb in *. apply andb_prop in Hb as [H1 H2]. apply leb_all_iff in H1 as [L1 B1].
  apply andb_true_intro. split.
  - apply leb_all_iff. split; [congruence|]. intros i. specialize (Hle i). specialize (B1 i). lia.
  - destruct (a_tally t) as [[k c]|]; [|reflexivity]. apply andb_prop in H2 as [S1 S2]. apply Nat.leb_le in S1. apply Nat.leb_le in S2.
    apply andb_true_intro. split; apply Nat.leb_le.
    + eapply Nat.le_trans; [|exact S1]. apply sum_nat_le.
      * rewrite !firstn_length, !skipn_length, Hl. reflexivity.
      * intros i. rewrite !nth_firstn_skipn. destruct (i <? c); [apply Hle|lia].
    + eapply Nat.le_trans; [|exact S2]. apply sum_nat_le.
      * rewrite !firstn_length, !skipn_length, Hl. reflexivity.
      * intros i. rewrite !nth_firstn_skipn. destruct (i <? c); [apply Hle|lia].
Qed.

Lemma inb_length t v : inb t v = true -> length v = length (a_max t).
Proof. unfold inb. intros H. apply andb_prop in H as [H _]. apply leb_all_iff in H as [H _]. exact H. Qed.

Lemma a_add_comm t x y : a_add t x y = a_add t y x.
Proof. destruct x, y; cbn [a_add]; try reflexivity. rewrite vadd_comm. reflexivity. Qed.

Lemma clip_some t v w : clip t v = Some w -> w = v /\ inb t v = true.
Proof. unfold clip. destruct (inb t v) eqn:E; intros H; [injection H as <-; auto|discriminate]. Qed.

(* both groupings of three saturating additions equal the clipped total *)
Lemma a_add3 t a b c : length a = length (a_max t) -> length b = length (a_max t) -> length c = length (a_max t) ->
  a_add t (a_add t (Some a) (Some b)) (Some c) = clip t (vadd (vadd a b) c).
Proof.
  intros La Lb Lc. cbn [a_add]. unfold clip at 1. destruct (inb t (vadd a b)) eqn:E; [reflexivity|].
  cbn [a_add]. unfold clip. destruct (inb t (vadd (vadd a b) c)) eqn:E2; [|reflexivity]. exfalso.
  assert (H : inb t (vadd a b) = true).
  { apply (inb_down t (vadd a b) (vadd (vadd a b) c)); [| |exact E2].
    - rewrite !vadd_length; rewrite ?vadd_length; congruence.
    - intros i. rewrite (vadd_nth (vadd a b) c) by (rewrite vadd_length; congruence). lia. }
  congruence.
Qed.

Theorem a_add_assoc t x y z : wt t x -> wt t y -> wt t z -> a_add t (a_add t x y) z = a_add t x (a_add t y z).
Proof.
  destruct x as [a|], y as [b|], z as [c|]; cbn [wt]; intros La Lb Lc; try reflexivity.
  - rewrite a_add3 by assumption. rewrite (a_add_comm t (Some a) (a_add t (Some b) (Some c))). rewrite a_add3 by assumption.
    f_equal. rewrite (vadd_comm (vadd b c) a), vadd_assoc. reflexivity.
  - cbn [a_add]. destruct (clip t (vadd a b)); reflexivity.
Qed.

Lemma a_add_wt t x y : wt t x -> wt t y -> wt t (a_add t x y).
Proof.
  destruct x as [a|], y as [b|]; cbn [a_add wt]; auto. intros La Lb. unfold clip. destruct (inb t (vadd a b)) eqn:E; [|exact I].
  cbn [wt]. apply inb_length in E. exact E.
Qed.
Lemma a_zero_wt t : wt t (a_zero t).
Proof. cbn. apply repeat_length. Qed.
Lemma vadd_zero_l n a : length a = n -> vadd (repeat 0 n) a = a.
Proof. revert n. unfold vadd. induction a as [|x a IH]; intros [|n] H; try discriminate; [reflexivity|]. cbn. rewrite IH by (cbn in H; lia). reflexivity. Qed.

(* ====================== diagrams ====================== *)
Definition wt_node (t : atype) (n : node) : Prop := wt t (n_a0 n) /\ wt t (n_a1 n).
Definition wt_levels (t : atype) (lvls : list (list node)) : Prop := forall l n, In l lvls -> In n l -> wt_node t n.
Fixpoint live_from (t : atype) (lvls : list (list node)) (j : nat) : Prop :=
  match lvls with
  | [] => True
  | l :: rest => j < length l /\ n_live (getnode t l j) = true
                 /\ live_from t rest (n_c0 (getnode t l j)) /\ live_from t rest (n_c1 (getnode t l j))
  end.

Lemma dead_wt t : wt_node t (dead t).
Proof. split; apply a_zero_wt. Qed.
Lemma getnode_wt t l j : (forall n, In n l -> wt_node t n) -> wt_node t (getnode t l j).
Proof.
  intros H. unfold getnode. destruct (Nat.lt_ge_cases j (length l)) as [Hj|Hj]; [apply H, nth_In; exact Hj|].
  rewrite nth_overflow by exact Hj. apply dead_wt.
Qed.
Lemma adder_wt t n b : wt_node t n -> wt t (adder n b).
Proof. intros [H0 H1]. destruct b; assumption. Qed.
Lemma wt_levels_tail t l rest : wt_levels t (l :: rest) -> wt_levels t rest.
Proof. intros H l' n Hl Hn. apply (H l' n); [right; exact Hl|exact Hn]. Qed.
Lemma wt_levels_head t l rest : wt_levels t (l :: rest) -> forall n, In n l -> wt_node t n.
Proof. intros H n Hn. apply (H l n); [left; reflexivity|exact Hn]. Qed.
Lemma live_from_child t rest n b : live_from t rest (n_c0 n) -> live_from t rest (n_c1 n) -> live_from t rest (child n b).
Proof. destruct b; auto. Qed.

Lemma upd_dead t cur v : upd_node t cur v (dead t) = dead t.
Proof. reflexivity. Qed.
Lemma getnode_map_upd t cur v prev j : getnode t (map (upd_node t cur v) prev) j = upd_node t cur v (getnode t prev j).
Proof. unfold getnode. rewrite <- (upd_dead t cur v) at 1. apply map_nth. Qed.

(* one merged step equals the two original steps *)
Lemma restrict_step t prev cur rest j acc b v x :
  wt_levels t (prev :: cur :: rest) -> wt t acc -> n_live (getnode t prev j) = true ->
  eval_from t (map (upd_node t cur v) prev :: rest) j acc (b :: x)
  = eval_from t (prev :: cur :: rest) j acc (b :: v :: x).
Proof.
  intros Hwt Hacc Hlive. cbn [eval_from]. rewrite getnode_map_upd.
  set (n := getnode t prev j). fold n in Hlive. unfold upd_node. rewrite Hlive.
  set (m := getnode t cur (child n b)).
  assert (Wn : wt_node t n) by (apply getnode_wt, (wt_levels_head t prev (cur :: rest) Hwt)).
  assert (Wm : wt_node t m) by (apply getnode_wt, (wt_levels_head t cur rest (wt_levels_tail t prev _ Hwt))).
  assert (Ech : child (mkNode true (child (getnode t cur (n_c0 n)) v) (child (getnode t cur (n_c1 n)) v)
                              (a_add t (n_a0 n) (adder (getnode t cur (n_c0 n)) v)) (a_add t (n_a1 n) (adder (getnode t cur (n_c1 n)) v))) b
                = child m v) by (unfold m; destruct b; reflexivity).
  assert (Ead : adder (mkNode true (child (getnode t cur (n_c0 n)) v) (child (getnode t cur (n_c1 n)) v)
                              (a_add t (n_a0 n) (adder (getnode t cur (n_c0 n)) v)) (a_add t (n_a1 n) (adder (getnode t cur (n_c1 n)) v))) b
                = a_add t (adder n b) (adder m v)) by (unfold m; destruct b; reflexivity).
  rewrite Ech, Ead. f_equal. symmetry. apply a_add_assoc; [exact Hacc|apply adder_wt; exact Wn|apply adder_wt; exact Wm].
Qed.

(* restrict of a variable that is not the first one: the original with that variable fixed *)
Theorem eval_restrict_pos t v : forall k lvls j acc x,
  wt_levels t lvls -> wt t acc -> live_from t lvls j -> S k < length lvls -> S (length x) = length lvls ->
  eval_from t (restrict_levels t lvls (S k) v) j acc x = eval_from t lvls j acc (firstn (S k) x ++ v :: skipn (S k) x).
Proof.
  induction k as [|k IH]; intros lvls j acc x Hwt Hacc Hlive Hlen Hx.
  - destruct lvls as [|prev [|cur rest]]; cbn [length] in Hlen; try lia.
    destruct x as [|b x]; [cbn in Hx; lia|]. cbn [restrict_levels firstn skipn app].
    apply restrict_step; [exact Hwt|exact Hacc|]. destruct Hlive as [_ [Hl _]]. exact Hl.
  - destruct lvls as [|l [|l2 rest]]; cbn [length] in Hlen; try lia.
    destruct x as [|b x]; [cbn in Hx; lia|].
    change (restrict_levels t (l :: l2 :: rest) (S (S k)) v) with (l :: restrict_levels t (l2 :: rest) (S k) v).
    cbn [firstn skipn app eval_from]. destruct Hlive as [Hj [Hl [H0 H1]]].
    apply IH.
    + apply (wt_levels_tail t l). exact Hwt.
    + apply a_add_wt; [exact Hacc|]. apply adder_wt. apply getnode_wt. apply (wt_levels_head t l _ Hwt).
    + apply live_from_child; assumption.
    + cbn [length]. lia.
    + cbn [length] in *. lia.
Qed.

(* restrict of the FIRST variable (needs a next level: otherwise the code raises, finding F12) *)
Lemma getnode_set_node t j n l : j < length l -> getnode t (set_node j n l) j = n.
Proof.
  intros H. unfold getnode, set_node. rewrite app_nth2; rewrite firstn_length, Nat.min_l by lia; [|lia].
  rewrite Nat.sub_diag. reflexivity.
Qed.

Theorem eval_restrict_root t l0 l1 rest root v x :
  wt_levels t (l0 :: l1 :: rest) ->
  let r := getnode t l0 root in let root' := child r v in let n := getnode t l1 root' in
  root' < length l1 -> x <> [] ->
  eval_from t (set_node root' (mkNode (n_live n) (n_c0 n) (n_c1 n) (a_add t (n_a0 n) (adder r v)) (a_add t (n_a1 n) (adder r v))) l1 :: rest)
            root' (a_zero t) x
  = eval_from t (l0 :: l1 :: rest) root (a_zero t) (v :: x).
Proof.
  intros Hwt r root' n Hr Hx. destruct x as [|b x]; [contradiction|]. cbn [eval_from]. fold r. fold root'.
  rewrite getnode_set_node by exact Hr. fold n.
  assert (Wr : wt_node t r) by (apply getnode_wt, (wt_levels_head t l0 _ Hwt)).
  assert (Wn : wt_node t n) by (apply getnode_wt, (wt_levels_head t l1 rest (wt_levels_tail t l0 _ Hwt))).
  assert (Ech : child (mkNode (n_live n) (n_c0 n) (n_c1 n) (a_add t (n_a0 n) (adder r v)) (a_add t (n_a1 n) (adder r v))) b = child n b)
    by (destruct b; reflexivity).
  assert (Ead : adder (mkNode (n_live n) (n_c0 n) (n_c1 n) (a_add t (n_a0 n) (adder r v)) (a_add t (n_a1 n) (adder r v))) b
                = a_add t (adder n b) (adder r v)) by (destruct b; reflexivity).
  rewrite Ech, Ead. f_equal.
  rewrite (a_add_comm t (adder n b) (adder r v)).
  symmetry. apply a_add_assoc; [apply a_zero_wt|apply adder_wt; exact Wr|apply adder_wt; exact Wn].
Qed.

(* ---------- sum: the product construction ---------- *)
Lemma plookup_spec key : forall m k, plookup key m = Some k -> nth k m (0, 0) = key /\ k < length m.
Proof.
  induction m as [|h m IH]; intros k H; cbn [plookup] in H; [discriminate|].
  destruct (Nat.eqb (fst h) (fst key) && Nat.eqb (snd h) (snd key)) eqn:E.
  - injection H as <-. apply andb_prop in E as [E1 E2]. apply Nat.eqb_eq in E1. apply Nat.eqb_eq in E2.
    cbn [nth length]. split; [destruct h, key; cbn in *; congruence|lia].
  - destruct (plookup key m) as [k'|]; [|discriminate]. injection H as <-. destruct (IH k' eq_refl) as [H1 H2].
    cbn [nth length]. split; [exact H1|lia].
Qed.

Lemma setdefault_spec key m : let '(m', k) := setdefault key m in
  nth k m' (0, 0) = key /\ k < length m' /\ exists suffix, m' = m ++ suffix.
Proof.
  unfold setdefault. destruct (plookup key m) as [k|] eqn:E.
  - destruct (plookup_spec key m k E) as [H1 H2]. split; [exact H1|]. split; [exact H2|]. exists []. rewrite app_nil_r. reflexivity.
  - split; [rewrite app_nth2 by lia; rewrite Nat.sub_diag; reflexivity|]. split; [rewrite app_length; cbn; lia|]. exists [key]. reflexivity.
Qed.

(* what one level of the product construction produces *)
Lemma sum_level_spec t l1 l2 : forall pn cn,
  let '(nodes, cn') := sum_level t l1 l2 pn cn in
  length nodes = length pn /\ (exists suffix, cn' = cn ++ suffix) /\
  forall k, k < length pn ->
    let ij := nth k pn (0, 0) in
    let n1 := getnode t l1 (fst ij) in let n2 := getnode t l2 (snd ij) in
    let nd := nth k nodes (dead t) in
    n_live nd = true /\
    (forall b, adder nd b = a_add t (adder n1 b) (adder n2 b)) /\
    (forall b, nth (child nd b) cn' (0, 0) = (child n1 b, child n2 b) /\ child nd b < length cn').
Proof.
  induction pn as [|[i j] pn IH]; intros cn; cbn [sum_level].
  - split; [reflexivity|]. split; [exists []; rewrite app_nil_r; reflexivity|]. intros k Hk. cbn in Hk. lia.
  - set (n1 := getnode t l1 i). set (n2 := getnode t l2 j).
    pose proof (setdefault_spec (n_c0 n1, n_c0 n2) cn) as S0. destruct (setdefault (n_c0 n1, n_c0 n2) cn) as [cn0 k0].
    pose proof (setdefault_spec (n_c1 n1, n_c1 n2) cn0) as S1. destruct (setdefault (n_c1 n1, n_c1 n2) cn0) as [cn1 k1].
    specialize (IH cn1). destruct (sum_level t l1 l2 pn cn1) as [nodes cn'].
    destruct S0 as [A0 [B0 [s0 E0]]]. destruct S1 as [A1 [B1 [s1 E1]]]. destruct IH as [L [[s2 E2] H]].
    split; [cbn [length]; lia|]. split; [exists (s0 ++ s1 ++ s2); rewrite E2, E1, E0, <- !app_assoc; reflexivity|].
    intros k Hk. destruct k as [|k].
    + cbn [nth fst snd]. fold n1 n2. split; [reflexivity|]. split; [intros []; reflexivity|].
      intros b. destruct b; cbn [child n_c0 n_c1].
      * split; [rewrite E2, app_nth1 by exact B1; exact A1|rewrite E2, app_length; lia].
      * split; [rewrite E2, E1, <- app_assoc, app_nth1 by exact B0; exact A0|rewrite E2, E1, !app_length; lia].
    + cbn [nth length] in *. apply H. lia.
Qed.

Lemma getnode_app_l t a b k : k < length a -> getnode t (a ++ b) k = getnode t a k.
Proof. intros H. unfold getnode. apply app_nth1. exact H. Qed.

Theorem eval_sum_levels t : forall ls1 ls2 pn w k acc1 acc2 x,
  length ls1 = length ls2 -> wt_levels t ls1 -> wt_levels t ls2 -> wt t acc1 -> wt t acc2 -> k < length pn ->
  eval_from t (sum_levels t ls1 ls2 pn w) k (a_add t acc1 acc2) x
  = a_add t (eval_from t ls1 (fst (nth k pn (0, 0))) acc1 x) (eval_from t ls2 (snd (nth k pn (0, 0))) acc2 x).
Proof.
  induction ls1 as [|l1 r1 IH]; intros [|l2 r2] pn w k acc1 acc2 x Hlen W1 W2 A1 A2 Hk; try discriminate.
  - reflexivity.
  - cbn [sum_levels]. pose proof (sum_level_spec t l1 l2 pn []) as S. destruct (sum_level t l1 l2 pn []) as [nodes cn].
    destruct S as [L [_ H]]. destruct x as [|b x]; [reflexivity|]. cbn [eval_from].
    rewrite getnode_app_l by lia. specialize (H k Hk). cbv zeta in H. destruct H as [_ [Had Hch]].
    destruct (Hch b) as [Hc1 Hc2]. change (getnode t nodes k) with (nth k nodes (dead t)). rewrite (Had b).
    set (n1 := getnode t l1 (fst (nth k pn (0, 0)))) in *. set (n2 := getnode t l2 (snd (nth k pn (0, 0)))) in *.
    assert (Wn1 : wt t (adder n1 b)) by (apply adder_wt, getnode_wt, (wt_levels_head t l1 r1 W1)).
    assert (Wn2 : wt t (adder n2 b)) by (apply adder_wt, getnode_wt, (wt_levels_head t l2 r2 W2)).
    replace (a_add t (a_add t acc1 acc2) (a_add t (adder n1 b) (adder n2 b)))
      with (a_add t (a_add t acc1 (adder n1 b)) (a_add t acc2 (adder n2 b))).
    + rewrite (IH r2 cn w (child (nth k nodes (dead t)) b)); [rewrite Hc1; reflexivity| | | | | |exact Hc2];
        try (cbn in Hlen; lia); try (eapply wt_levels_tail; eassumption); apply a_add_wt; assumption.
    + rewrite (a_add_assoc t acc1 (adder n1 b)) by (auto; apply a_add_wt; assumption).
      rewrite <- (a_add_assoc t (adder n1 b) acc2) by assumption.
      rewrite (a_add_comm t (adder n1 b) acc2).
      rewrite (a_add_assoc t acc2 (adder n1 b)) by assumption.
      rewrite <- (a_add_assoc t acc1 acc2) by (auto; apply a_add_wt; assumption). reflexivity.
Qed.

Lemma a_add_zero_l t x : wt t x -> (match x with Some v => inb t v = true | None => True end) -> a_add t (a_zero t) x = x.
Proof.
  destruct x as [v|]; [|reflexivity]. cbn [wt a_add a_zero]. intros L H. rewrite vadd_zero_l by exact L. unfold clip. rewrite H. reflexivity.
Qed.

(* sum() evaluates to the pointwise (saturating) sum of its operands *)
Theorem eval_sum d1 d2 x : d_type d2 = d_type d1 -> length (d_levels d1) = length (d_levels d2) ->
  wt_levels (d_type d1) (d_levels d1) -> wt_levels (d_type d1) (d_levels d2) ->
  inb (d_type d1) (repeat 0 (length (a_max (d_type d1)))) = true ->
  eval (add_sum d1 d2) x = a_add (d_type d1) (eval d1 x) (eval d2 x).
Proof.
  intros Ht Hlen W1 W2 Hz. unfold eval, add_sum. cbn [d_type d_levels d_root]. rewrite Ht.
  rewrite <- (a_add_zero_l (d_type d1) (a_zero (d_type d1))) at 1 by (auto using a_zero_wt).
  rewrite (eval_sum_levels (d_type d1) (d_levels d1) (d_levels d2) [(d_root d1, d_root d2)]); auto using a_zero_wt.
Qed.

(* ====================== value indices enumerate the domain bijectively ====================== *)
Lemma nth_flat_map_blocks {A B} (f : A -> list B) (L : nat) (da : A) (d : B) : forall (l : list A) p q,
  (forall a, In a l -> length (f a) = L) -> p < length l -> q < L ->
  nth (p * L + q) (flat_map f l) d = nth q (f (nth p l da)) d.
Proof.
  induction l as [|a l IH]; intros p q HL Hp Hq; [cbn in Hp; lia|]. cbn [flat_map].
  assert (La : length (f a) = L) by (apply HL; left; reflexivity).
  destruct p as [|p].
  - cbn [Nat.mul Nat.add nth]. apply app_nth1. lia.
  - rewrite app_nth2 by (rewrite La; nia). rewrite La. replace (S p * L + q - L) with (p * L + q) by nia.
    cbn [nth]. apply IH; [intros x Hx; apply HL; right; exact Hx|cbn in Hp; lia|exact Hq].
Qed.
Lemma length_flat_map_blocks {A B} (f : A -> list B) (L : nat) (l : list A) :
  (forall a, In a l -> length (f a) = L) -> length (flat_map f l) = length l * L.
Proof.
  induction l as [|a l IH]; intros HL; [reflexivity|]. cbn [flat_map length]. rewrite app_length.
  rewrite IH by (intros x Hx; apply HL; right; exact Hx). rewrite (HL a) by (left; reflexivity). lia.
Qed.

Definition radix (maxs : list nat) : nat := fold_right Nat.mul 1 (map S maxs).
Lemma product_ranges_length maxs : length (product_ranges maxs) = radix maxs.
Proof.
  induction maxs as [|m t IH]; [reflexivity|]. cbn [product_ranges]. unfold radix in *. cbn [map fold_right].
  rewrite (length_flat_map_blocks _ (fold_right Nat.mul 1 (map S t))).
  - rewrite seq_length. reflexivity.
  - intros x _. rewrite map_length. exact IH.
Qed.
Lemma radix_pos maxs : 0 < radix maxs.
Proof. induction maxs as [|m t IH]; unfold radix in *; cbn [map fold_right]; lia. Qed.

(* plain types: the mixed-radix index is the position in domain() *)
Theorem mixed_radix_position : forall maxs v, In v (product_ranges maxs) ->
  mixed_radix v maxs < radix maxs /\ nth (mixed_radix v maxs) (product_ranges maxs) [] = v.
Proof.
  induction maxs as [|m t IH]; intros v Hv.
  - destruct Hv as [<-|[]]. cbn. split; [lia|reflexivity].
  - cbn [product_ranges] in Hv. apply in_flat_map in Hv as [x [Hx Hv]]. apply in_map_iff in Hv as [w [<- Hw]].
    apply in_seq in Hx. destruct (IH w Hw) as [Hlt Hn]. cbn [mixed_radix]. fold (radix t).
    assert (Hr : radix (m :: t) = S m * radix t) by reflexivity.
    split; [rewrite Hr; nia|]. cbn [product_ranges].
    rewrite (nth_flat_map_blocks _ (radix t) 0 []) ; [| |rewrite seq_length; lia|exact Hlt].
    + rewrite seq_nth by lia. cbn [Nat.add].
      rewrite (nth_indep _ [] (x :: [])) by (rewrite map_length, product_ranges_length; exact Hlt).
      rewrite (map_nth (cons x)). rewrite Hn. reflexivity.
    + intros a _. rewrite map_length. apply product_ranges_length.
Qed.

Lemma pos_list_spec x : forall l, In x l -> pos_list x l < length l /\ nth (pos_list x l) l [] = x.
Proof.
  induction l as [|h l IH]; intros H; [destruct H|]. cbn [pos_list].
  destruct (a_eqb (Some x) (Some h)) eqn:E.
  - apply a_eqb_eq in E. injection E as ->. cbn. split; [lia|reflexivity].
  - destruct H as [->|H]; [rewrite a_eqb_refl in E; discriminate|]. destruct (IH H) as [H1 H2]. cbn [length nth]. split; [lia|exact H2].
Qed.

Theorem tally_index_position n k c v : In v (domain_valid (tally n k c)) ->
  let s := length (single k c) in
  tally_index n k c (Some v) < S n * s * s /\ nth (tally_index n k c (Some v)) (domain_valid (tally n k c)) [] = v.
Proof.
  intros Hv s. rewrite domain_valid_tally_eq in *.
  apply in_flat_map in Hv as [n' [Hn Hv]]. apply in_flat_map in Hv as [w [Hw Hv]]. apply in_map_iff in Hv as [wo [<- Hwo]].
  apply in_seq in Hn. pose proof Hw as Hw'. pose proof Hwo as Hwo'.
  apply single_spec in Hw' as [Lw _]. apply single_spec in Hwo' as [Lwo _].
  destruct (pos_list_spec w (single k c) Hw) as [Pw Nw]. destruct (pos_list_spec wo (single k c) Hwo) as [Pwo Nwo].
  unfold tally_index. fold (single k c). fold s. cbn [hd skipn].
  assert (E1 : firstn c (w ++ wo) = w) by (rewrite firstn_app, Lw, Nat.sub_diag, firstn_all2 by lia; cbn; apply app_nil_r).
  assert (E2 : firstn c (skipn c (w ++ wo)) = wo).
  { rewrite skipn_app, Lw, Nat.sub_diag, skipn_all2 by lia. cbn [app skipn]. apply firstn_all2. lia. }
  rewrite E1, E2. fold s in Pw, Pwo. split; [nia|].
  set (inner := fun n0 => flat_map (fun w0 => map (fun wo0 => n0 :: w0 ++ wo0) (single k c)) (single k c)).
  assert (Linner : forall n0, length (inner n0) = s * s).
  { intros n0. unfold inner. rewrite (length_flat_map_blocks _ s); [reflexivity|]. intros a _. apply map_length. }
  replace (n' * s * s + pos_list w (single k c) * s + pos_list wo (single k c))
    with (n' * (s * s) + (pos_list w (single k c) * s + pos_list wo (single k c))) by nia.
  change (flat_map (fun n'0 => flat_map (fun w0 => map (fun wo0 => n'0 :: w0 ++ wo0) (single k c)) (single k c)) (seq 0 (S n)))
    with (flat_map inner (seq 0 (S n))).
  rewrite (nth_flat_map_blocks inner (s * s) 0 []); [|intros a _; apply Linner|rewrite seq_length; lia|nia].
  rewrite seq_nth by lia. cbn [Nat.add]. unfold inner.
  rewrite (nth_flat_map_blocks _ s [] []); [|intros a _; apply map_length|exact Pw|exact Pwo].
  rewrite Nw. rewrite (nth_indep _ [] ((fun wo0 => n' :: w ++ wo0) [])) by (rewrite map_length; exact Pwo).
  rewrite (map_nth (fun wo0 => n' :: w ++ wo0)), Nwo. reflexivity.
Qed.

Lemma domain_valid_tally_length n k c : length (domain_valid (tally n k c)) = S n * length (single k c) * length (single k c).
Proof.
  rewrite domain_valid_tally_eq. rewrite (length_flat_map_blocks _ (length (single k c) * length (single k c))).
  - rewrite seq_length. lia.
  - intros a _. rewrite (length_flat_map_blocks _ (length (single k c))); [reflexivity|]. intros b _. apply map_length.
Qed.

Lemma a_index_tally n k c x : a_index (tally n k c) x = tally_index n k c x.
Proof. reflexivity. Qed.

(* well-formed value types (the two families the code has) *)
Definition wf_type (t : atype) : Prop := (exists maxs, t = plain maxs) \/ (exists n k c, t = tally n k c).

(* C10: value indices enumerate the domain bijectively (and therefore agree with equality) *)
Theorem index_bijective t : wf_type t ->
  NoDup (domain t) /\
  (forall x, In x (domain t) -> a_index t x < length (domain t) /\ nth (a_index t x) (domain t) None = x) /\
  (forall v, inb t v = true <-> In (Some v) (domain t)).
Proof.
  intros [[maxs ->]|[n [k [c ->]]]].
  - split; [apply domain_nodup_of, domain_valid_plain_nodup|]. split.
    + intros x Hx. unfold domain in *. rewrite app_length, map_length. cbn [length].
      unfold domain_valid, plain in *. cbn [a_tally a_max] in *. apply in_app_or in Hx as [Hx|[<-|[]]].
      * apply in_map_iff in Hx as [v [<- Hv]]. destruct (mixed_radix_position maxs v Hv) as [H1 H2].
        unfold a_index. cbn [a_tally a_max]. rewrite product_ranges_length. split; [lia|].
        rewrite app_nth1 by (rewrite map_length, product_ranges_length; exact H1).
        rewrite (nth_indep _ None (Some [])) by (rewrite map_length, product_ranges_length; exact H1).
        rewrite (map_nth (@Some (list nat))), H2. reflexivity.
      * unfold a_index. cbn [a_tally a_max]. fold (radix maxs). rewrite product_ranges_length. split; [lia|].
        rewrite app_nth2 by (rewrite map_length, product_ranges_length; lia). rewrite map_length, product_ranges_length, Nat.sub_diag. reflexivity.
    + intros v. rewrite <- domain_valid_plain_spec. unfold domain. rewrite in_app_iff, in_map_iff. split.
      * intros H. left. exists v. split; [reflexivity|exact H].
      * intros [[w [E H]]|[E|[]]]; [injection E as ->; exact H|discriminate].
  - split; [apply domain_nodup_of, domain_valid_tally_nodup|]. split.
    + intros x Hx. unfold domain in *. rewrite app_length, map_length. cbn [length]. apply in_app_or in Hx as [Hx|[<-|[]]].
      * apply in_map_iff in Hx as [v [<- Hv]]. destruct (tally_index_position n k c v Hv) as [H1 H2].
        rewrite a_index_tally, domain_valid_tally_length. split; [lia|].
        rewrite app_nth1 by (rewrite map_length, domain_valid_tally_length; exact H1).
        rewrite (nth_indep _ None (Some [])) by (rewrite map_length, domain_valid_tally_length; exact H1).
        rewrite (map_nth (@Some (list nat))), H2. reflexivity.
      * rewrite a_index_tally. unfold tally_index. fold (single k c).
        rewrite domain_valid_tally_length. split; [lia|].
        rewrite app_nth2 by (rewrite map_length, domain_valid_tally_length; lia).
        rewrite map_length, domain_valid_tally_length, Nat.sub_diag. reflexivity.
    + intros v. rewrite <- domain_valid_tally_spec. unfold domain. rewrite in_app_iff, in_map_iff. split.
      * intros H. left. exists v. split; [reflexivity|exact H].
      * intros [[w [E H]]|[E|[]]]; [injection E as ->; exact H|discriminate].
Qed.

Lemma bmasks_length n : length (bmasks n) = 2 ^ n.
Proof. induction n as [|n IH]; [reflexivity|]. cbn [bmasks]. rewrite app_length, !map_length, IH. cbn [Nat.pow]. lia. Qed.
