(* C10: modelcount() is the histogram over all assignments of the evaluated value. *)
From Coq Require Import List Arith Bool Lia.
From DS Require Import Util.ListX Model.ADD Proofs.ADDProofs.
Import ListNotations.

(* the plain (unsaturated) sum of the edge values along a path; None when an edge value is invalid *)
Fixpoint path_sum (t : atype) (lvls : list (list node)) (j : nat) (x : list bool) : option (list nat) :=
  match lvls, x with
  | l :: rest, b :: x' =>
      let n := getnode t l j in
      match adder n b, path_sum t rest (child n b) x' with
      | Some a, Some s => Some (vadd a s)
      | _, _ => None
      end
  | _, _ => Some (repeat 0 (length (a_max t)))
  end.

Lemma path_sum_length t : forall lvls j x s, wt_levels t lvls -> path_sum t lvls j x = Some s -> length s = length (a_max t).
Proof.
  induction lvls as [|l rest IH]; intros j x s W H; cbn [path_sum] in H.
  - injection H as <-. apply repeat_length.
  - destruct x as [|b x]; [injection H as <-; apply repeat_length|].
    destruct (adder (getnode t l j) b) as [a|] eqn:Ea; [|discriminate].
    destruct (path_sum t rest (child (getnode t l j) b) x) as [s'|] eqn:Es; [|discriminate]. injection H as <-.
    assert (La : length a = length (a_max t)).
    { pose proof (adder_wt t (getnode t l j) b (getnode_wt t l j (wt_levels_head t l rest W))) as Hw. rewrite Ea in Hw. exact Hw. }
    rewrite vadd_length; [exact La|]. rewrite La. symmetry. apply (IH _ _ _ (wt_levels_tail t l rest W) Es).
Qed.

Lemma eval_from_none t : forall lvls j x, eval_from t lvls j None x = None.
Proof. induction lvls as [|l rest IH]; intros j [|b x]; cbn [eval_from]; try reflexivity. apply IH. Qed.

Lemma vadd_zero_r n a : length a = n -> vadd a (repeat 0 n) = a.
Proof. intros H. rewrite vadd_comm. apply vadd_zero_l. exact H. Qed.

(* saturating evaluation = clip of the plain total (bounds are downward closed) *)
Theorem eval_path t : forall lvls j a x, wt_levels t lvls -> inb t a = true -> length x = length lvls ->
  eval_from t lvls j (Some a) x = match path_sum t lvls j x with Some s => clip t (vadd a s) | None => None end.
Proof.
  induction lvls as [|l rest IH]; intros j a x W Ha Hx.
  - destruct x; [|discriminate]. cbn [eval_from path_sum]. rewrite vadd_zero_r by (apply inb_length; exact Ha).
    unfold clip. rewrite Ha. reflexivity.
  - destruct x as [|b x]; [discriminate|]. cbn [eval_from path_sum]. set (n := getnode t l j).
    assert (Wn : wt t (adder n b)) by (apply adder_wt, getnode_wt, (wt_levels_head t l rest W)).
    destruct (adder n b) as [ad|] eqn:Ead; cbn [a_add]; [|apply eval_from_none].
    cbn [wt] in Wn. pose proof (inb_length t a Ha) as La.
    unfold clip at 1. destruct (inb t (vadd a ad)) eqn:E1.
    + rewrite (IH (child n b) (vadd a ad) x (wt_levels_tail t l rest W) E1) by (cbn in Hx; lia).
      destruct (path_sum t rest (child n b) x) as [s|]; [|reflexivity]. rewrite vadd_assoc. reflexivity.
    + rewrite eval_from_none. destruct (path_sum t rest (child n b) x) as [s|] eqn:Es; [|reflexivity].
      unfold clip. destruct (inb t (vadd a (vadd ad s))) eqn:E2; [|reflexivity]. exfalso.
      pose proof (path_sum_length t rest _ _ s (wt_levels_tail t l rest W) Es) as Ls.
      assert (H : inb t (vadd a ad) = true).
      { apply (inb_down t (vadd a ad) (vadd a (vadd ad s))); [| |exact E2].
        - rewrite !vadd_length; rewrite ?vadd_length; congruence.
        - intros i. rewrite !vadd_nth; rewrite ?vadd_length; try congruence. lia. }
      congruence.
Qed.

(* ---------- vector subtraction ---------- *)
Lemma vsub_length a b : length a = length b -> length (vsub a b) = length a.
Proof. intros H. unfold vsub. rewrite map_length, combine_length, H. apply Nat.min_id. Qed.
Lemma vsub_nth a b i : length a = length b -> nth i (vsub a b) 0 = nth i a 0 - nth i b 0.
Proof. revert b i. induction a as [|x a IH]; intros [|y b] [|i] H; try discriminate; cbn; try reflexivity. apply IH. cbn in H. lia. Qed.

Lemma vadd_eq_iff : forall a s e, length a = length e -> length s = length e ->
  (vadd a s = e <-> vle a e = true /\ s = vsub e a).
Proof.
  unfold vadd, vle, vsub. induction a as [|x a IH]; intros [|y s] [|z e] La Ls; try discriminate.
  - cbn. split; auto.
  - cbn [combine map forallb fst snd]. specialize (IH s e ltac:(cbn in La; lia) ltac:(cbn in Ls; lia)). split.
    + intros H. injection H as H1 H2. apply IH in H2 as [H2 H3]. split.
      * rewrite H2, (proj2 (Nat.leb_le x z)) by lia. reflexivity.
      * f_equal; [lia|exact H3].
    + intros [H1 H2]. apply andb_prop in H1 as [Hx H1]. apply Nat.leb_le in Hx. injection H2 as H2 H3.
      f_equal; [lia|]. apply IH. split; assumption.
Qed.

Lemma vsub_le a b i : length a = length b -> nth i (vsub a b) 0 <= nth i a 0.
Proof. intros H. rewrite vsub_nth by exact H. lia. Qed.

(* ---------- zero ---------- *)
Lemma product_ranges_hd maxs : hd [] (product_ranges maxs) = repeat 0 (length maxs).
Proof.
  induction maxs as [|m t IH]; [reflexivity|]. cbn [product_ranges seq flat_map].
  destruct (product_ranges t) as [|h r] eqn:E; [pose proof (product_ranges_length t) as L; rewrite E in L; pose proof (radix_pos t); cbn in L; lia|].
  cbn [map app hd length repeat]. cbn [hd] in IH. rewrite IH. reflexivity.
Qed.
Lemma sum_nat_repeat0 n : sum_nat (repeat 0 n) = 0.
Proof. induction n; [reflexivity|]. cbn [repeat sum_nat fold_right] in *. unfold sum_nat in *. lia. Qed.
Lemma single_hd k c : hd [] (single k c) = repeat 0 c.
Proof.
  unfold single. pose proof (product_ranges_hd (repeat k c)) as H. rewrite repeat_length in H.
  destruct (product_ranges (repeat k c)) as [|h r]; [cbn in H; destruct c; [reflexivity|discriminate]|].
  cbn [hd] in H. subst h. cbn [filter]. rewrite sum_nat_repeat0. cbn [Nat.leb hd]. reflexivity.
Qed.
Lemma single_nonempty k c : single k c <> [].
Proof.
  intros E. assert (In (repeat 0 c) (single k c)).
  { apply single_spec. split; [apply repeat_length|]. split; [|rewrite sum_nat_repeat0; lia].
    clear. induction c as [|c IH]; [reflexivity|]. cbn [repeat combine forallb fst snd]. exact IH. }
  rewrite E in H. destruct H.
Qed.

Lemma mixed_radix_zero : forall maxs, mixed_radix (repeat 0 (length maxs)) maxs = 0.
Proof. induction maxs as [|m t IH]; [reflexivity|]. cbn [length repeat mixed_radix]. rewrite IH. lia. Qed.

Lemma zero_index t : wf_type t -> a_index t (Some (repeat 0 (length (a_max t)))) = 0 /\ inb t (repeat 0 (length (a_max t))) = true.
Proof.
  intros [[maxs ->]|[n [k [c ->]]]].
  - split.
    + unfold a_index, plain. cbn [a_tally a_max]. apply mixed_radix_zero.
    + apply domain_valid_plain_spec. unfold domain_valid, plain. cbn [a_tally a_max].
      rewrite <- product_ranges_hd. pose proof (product_ranges_length maxs) as L. pose proof (radix_pos maxs).
      destruct (product_ranges maxs); [cbn in L; lia|left; reflexivity].
  - assert (Ez : repeat 0 (length (a_max (tally n k c))) = 0 :: repeat 0 c ++ repeat 0 c).
    { unfold tally. cbn [a_max length]. rewrite repeat_length. cbn [repeat]. f_equal. replace (2 * c) with (c + c) by lia. apply repeat_app. }
    rewrite Ez. split.
    + rewrite a_index_tally. unfold tally_index. fold (single k c). cbn [hd skipn].
      rewrite firstn_app, repeat_length, Nat.sub_diag, firstn_all2 by (rewrite repeat_length; lia). cbn [firstn]. rewrite app_nil_r.
      rewrite skipn_app, repeat_length, Nat.sub_diag, skipn_all2 by (rewrite repeat_length; lia). cbn [app skipn].
      rewrite firstn_all2 by (rewrite repeat_length; lia).
      pose proof (single_hd k c) as Hh. pose proof (single_nonempty k c) as Hn. destruct (single k c) as [|h r]; [contradiction|].
      cbn [hd] in Hh. subst h. cbn [pos_list]. rewrite a_eqb_refl. lia.
    + apply domain_valid_tally_spec. rewrite domain_valid_tally_eq. apply in_flat_map. exists 0. split; [apply in_seq; lia|].
      assert (Hz : In (repeat 0 c) (single k c)).
      { pose proof (single_hd k c) as Hh. pose proof (single_nonempty k c). destruct (single k c); [contradiction|]. cbn in Hh. subst. left. reflexivity. }
      apply in_flat_map. exists (repeat 0 c). split; [exact Hz|]. apply (in_map (fun wo => 0 :: repeat 0 c ++ wo)). exact Hz.
Qed.

(* ---------- the dynamic programme ---------- *)
Definition cnt (t : atype) (lvls : list (list node)) (j : nat) (e : list nat) : nat :=
  length (filter (fun x => a_eqb (path_sum t lvls j x) (Some e)) (bmasks (length lvls))).
Definition tbl (t : atype) (lvls : list (list node)) (init : list (list nat)) : list (list nat) :=
  fold_right (fun lvl prev => count_level t (a_index t) (domain t) prev lvl) init lvls.
Fixpoint live_w (t : atype) (w : nat) (lvls : list (list node)) (j : nat) : Prop :=
  match lvls with
  | [] => j < w
  | l :: rest => j < length l /\ n_live (getnode t l j) = true
                 /\ live_w t w rest (n_c0 (getnode t l j)) /\ live_w t w rest (n_c1 (getnode t l j))
  end.
Definition init_tbl (t : atype) (w : nat) : list (list nat) := repeat (1 :: repeat 0 (length (domain t) - 1)) w.

Lemma index_inj t : wf_type t -> forall x y, In x (domain t) -> In y (domain t) -> a_index t x = a_index t y -> x = y.
Proof.
  intros W x y Hx Hy E. destruct (index_bijective t W) as [_ [H _]].
  rewrite <- (proj2 (H x Hx)), <- (proj2 (H y Hy)), E. reflexivity.
Qed.

Lemma filter_length_ext {A} (f g : A -> bool) l : (forall a, In a l -> f a = g a) -> length (filter f l) = length (filter g l).
Proof.
  induction l as [|a l IH]; intros H; [reflexivity|]. cbn [filter]. rewrite (H a (or_introl eq_refl)).
  destruct (g a); cbn [length]; rewrite IH by (intros b Hb; apply H; right; exact Hb); reflexivity.
Qed.
Lemma filter_false_length {A} (l : list A) : length (filter (fun _ => false) l) = 0.
Proof. induction l; [reflexivity|exact IHl]. Qed.

Theorem dp_invariant t w : wf_type t -> forall lvls j e, wt_levels t lvls -> live_w t w lvls j -> inb t e = true ->
  nth (a_index t (Some e)) (nth j (tbl t lvls (init_tbl t w)) []) 0 = cnt t lvls j e.
Proof.
  intros W. destruct (index_bijective t W) as [Hnd [Hidx Hdom]]. destruct (zero_index t W) as [Z0 Zb].
  induction lvls as [|l rest IH]; intros j e Wt Hl He.
  - cbn [tbl fold_right live_w] in *. unfold init_tbl.
    rewrite (nth_indep _ [] (1 :: repeat 0 (length (domain t) - 1))) by (rewrite repeat_length; exact Hl).
    rewrite nth_repeat. unfold cnt. cbn [length bmasks filter path_sum].
    destruct (a_eqb (Some (repeat 0 (length (a_max t)))) (Some e)) eqn:E.
    + apply a_eqb_eq in E. injection E as <-. rewrite Z0. reflexivity.
    + assert (Hne : a_index t (Some e) <> 0).
      { intros Hc. rewrite <- Z0 in Hc. apply index_inj in Hc; [|exact W|apply Hdom; exact He|apply Hdom; exact Zb].
        rewrite Hc, a_eqb_refl in E. discriminate. }
      destruct (a_index t (Some e)) as [|p]; [contradiction|]. cbn [nth length]. apply nth_repeat.
  - cbn [live_w] in Hl. destruct Hl as [Hj [Hlive [L0 L1]]].
    change (tbl t (l :: rest) (init_tbl t w)) with (count_level t (a_index t) (domain t) (tbl t rest (init_tbl t w)) l).
    set (prev := tbl t rest (init_tbl t w)). unfold count_level.
    rewrite (nth_indep _ [] (count_row t (a_index t) (domain t) prev (dead t))) by (rewrite map_length; exact Hj).
    rewrite (map_nth (count_row t (a_index t) (domain t) prev)). fold (getnode t l j). set (n := getnode t l j) in *.
    unfold count_row. rewrite Hlive.
    assert (Hin : In (Some e) (domain t)) by (apply Hdom; exact He).
    destruct (Hidx (Some e) Hin) as [Hp Hn].
    set (f := fun e0 : aval => match e0 with
                                | None => 0
                                | Some _ => fold_right Nat.add 0 (map (fun c : bool => match a_sub t e0 (adder n c) with
                                              | None => 0 | Some v => nth (a_index t (Some v)) (nth (child n c) prev []) 0 end) [false; true])
                                end).
    rewrite (nth_indep _ 0 (f None)) by (rewrite map_length; exact Hp). rewrite (map_nth f), Hn. unfold f. cbn [map fold_right].
    (* the count splits on the first bit *)
    unfold cnt. cbn [length bmasks]. rewrite filter_app, app_length.
    assert (Wrest : wt_levels t rest) by (apply (wt_levels_tail t l); exact Wt).
    assert (Wn : wt_node t n) by (apply getnode_wt, (wt_levels_head t l rest Wt)).
    assert (Le : length e = length (a_max t)) by (apply inb_length; exact He).
    assert (Branch : forall c : bool, live_w t w rest (child n c) ->
              match a_sub t (Some e) (adder n c) with None => 0 | Some v => nth (a_index t (Some v)) (nth (child n c) prev []) 0 end
              = length (filter (fun x => a_eqb (path_sum t (l :: rest) j x) (Some e)) (map (cons c) (bmasks (length rest))))).
    { intros c Lc. pose proof (adder_wt t n c Wn) as Wa.
      assert (Efilter : forall g : list bool -> bool, length (filter g (map (cons c) (bmasks (length rest))))
                        = length (filter (fun x' => g (c :: x')) (bmasks (length rest)))).
      { intros g. induction (bmasks (length rest)) as [|x xs IHx]; [reflexivity|]. cbn [map filter]. destruct (g (c :: x)); cbn [length]; rewrite IHx; reflexivity. }
      rewrite Efilter. cbn [path_sum]. fold n.
      destruct (adder n c) as [a|] eqn:Ea; cbn [a_sub].
      - cbn [wt] in Wa. destruct (vle a e) eqn:Ev.
        + assert (Hb : inb t (vsub e a) = true).
          { apply (inb_down t (vsub e a) e); [rewrite vsub_length; congruence| |exact He]. intros i. apply vsub_le. congruence. }
          unfold clip. rewrite Hb. unfold prev. rewrite (IH (child n c) (vsub e a) Wrest Lc Hb). unfold cnt.
          apply filter_length_ext. intros x' _.
          destruct (path_sum t rest (child n c) x') as [s|] eqn:Es; [|reflexivity].
          pose proof (path_sum_length t rest _ _ s Wrest Es) as Ls.
          destruct (a_eqb (Some s) (Some (vsub e a))) eqn:E1.
          * apply a_eqb_eq in E1. injection E1 as ->. symmetry.
            assert (E2 : vadd a (vsub e a) = e) by (apply vadd_eq_iff; [congruence|rewrite vsub_length; congruence|split; [exact Ev|reflexivity]]).
            rewrite E2. apply a_eqb_refl.
          * symmetry. apply a_eqb_neq. intros Hc. injection Hc as Hc. apply vadd_eq_iff in Hc as [_ Hc]; [|congruence|congruence].
            subst s. rewrite a_eqb_refl in E1. discriminate.
        + rewrite <- (filter_false_length (bmasks (length rest))). apply filter_length_ext. intros x' _.
          destruct (path_sum t rest (child n c) x') as [s|] eqn:Es; [|reflexivity].
          pose proof (path_sum_length t rest _ _ s Wrest Es) as Ls. symmetry. apply a_eqb_neq. intros Hc. injection Hc as Hc.
          apply vadd_eq_iff in Hc as [Hc _]; [congruence|congruence|congruence].
      - rewrite <- (filter_false_length (bmasks (length rest))). apply filter_length_ext. intros x' _. reflexivity. }
    rewrite <- (Branch false L0), <- (Branch true L1). lia.
Qed.

(* ---------- assembling: modelcount = histogram of eval ---------- *)
Lemma domain_length t : length (domain t) = S (length (domain_valid t)).
Proof. unfold domain. rewrite app_length, map_length. cbn. lia. Qed.

Lemma tbl_row_length t w : forall lvls j, live_w t w lvls j -> length (nth j (tbl t lvls (init_tbl t w)) []) = length (domain t).
Proof.
  destruct lvls as [|l rest]; intros j H.
  - cbn [tbl fold_right live_w] in *. unfold init_tbl.
    rewrite (nth_indep _ [] (1 :: repeat 0 (length (domain t) - 1))) by (rewrite repeat_length; exact H).
    rewrite nth_repeat. cbn [length]. rewrite repeat_length, domain_length. lia.
  - cbn [live_w] in H. destruct H as [Hj _].
    change (tbl t (l :: rest) (init_tbl t w)) with (count_level t (a_index t) (domain t) (tbl t rest (init_tbl t w)) l).
    unfold count_level. rewrite (nth_indep _ [] (count_row t (a_index t) (domain t) (tbl t rest (init_tbl t w)) (dead t))) by (rewrite map_length; exact Hj).
    rewrite (map_nth (count_row t (a_index t) (domain t) (tbl t rest (init_tbl t w)))). unfold count_row.
    destruct (n_live (nth j l (dead t))); apply map_length.
Qed.

Lemma index_of_nth t : wf_type t -> forall p, p < length (domain t) -> a_index t (nth p (domain t) None) = p.
Proof.
  intros W p Hp. destruct (index_bijective t W) as [Hnd [Hidx _]].
  assert (Hin : In (nth p (domain t) None) (domain t)) by (apply nth_In; exact Hp).
  destruct (Hidx _ Hin) as [H1 H2]. apply (proj1 (NoDup_nth (domain t) None) Hnd); assumption.
Qed.

Lemma eval_as_path d x : wf_type (d_type d) -> wt_levels (d_type d) (d_levels d) -> length x = length (d_levels d) ->
  eval d x = match path_sum (d_type d) (d_levels d) (d_root d) x with Some s => clip (d_type d) s | None => None end.
Proof.
  intros W Wt Hx. unfold eval, a_zero. destruct (zero_index (d_type d) W) as [_ Zb].
  rewrite (eval_path (d_type d) (d_levels d) (d_root d) _ x Wt Zb Hx).
  destruct (path_sum (d_type d) (d_levels d) (d_root d) x) as [s|] eqn:E; [|reflexivity].
  rewrite vadd_zero_l; [reflexivity|]. apply (path_sum_length _ _ _ _ _ Wt E).
Qed.

Lemma bmasks_lengths n x : In x (bmasks n) -> length x = n.
Proof.
  revert x. induction n as [|n IH]; intros x H; cbn [bmasks] in H; [destruct H as [<-|[]]; reflexivity|].
  apply in_app_or in H as [H|H]; apply in_map_iff in H as [y [<- Hy]]; cbn [length]; f_equal; apply IH; exact Hy.
Qed.

Lemma filter_map_length {A B} (g : A -> B) (f : B -> bool) l : length (filter f (map g l)) = length (filter (fun a => f (g a)) l).
Proof. induction l as [|a l IH]; [reflexivity|]. cbn [map filter]. destruct (f (g a)); cbn [length]; rewrite IH; reflexivity. Qed.

Lemma a_eqb_sym x y : a_eqb x y = a_eqb y x.
Proof.
  destruct (a_eqb x y) eqn:E.
  - apply a_eqb_eq in E. subst. symmetry. apply a_eqb_refl.
  - destruct (a_eqb y x) eqn:E2; [|reflexivity]. apply a_eqb_eq in E2. subst. rewrite a_eqb_refl in E. discriminate.
Qed.

(* C10: modelcount() is the histogram over all assignments of the evaluated value *)
Theorem modelcount_histogram d :
  wf_type (d_type d) -> wt_levels (d_type d) (d_levels d) -> live_w (d_type d) (diameter d) (d_levels d) (d_root d) ->
  add_modelcount d = histogram (d_type d) (map (eval d) (bmasks (length (d_levels d)))).
Proof.
  intros W Wt Hl. set (t := d_type d) in *. set (vals := map (eval d) (bmasks (length (d_levels d)))).
  destruct (index_bijective t W) as [Hnd [Hidx Hdom]].
  unfold add_modelcount. fold t. change (repeat (1 :: repeat 0 (length (domain t) - 1)) (diameter d)) with (init_tbl t (diameter d)).
  change (fold_right (fun lvl prev => count_level t (a_index t) (domain t) prev lvl) (init_tbl t (diameter d)) (d_levels d))
    with (tbl t (d_levels d) (init_tbl t (diameter d))).
  set (res := nth (d_root d) (tbl t (d_levels d) (init_tbl t (diameter d))) []).
  assert (Lres : length res = length (domain t)) by (apply tbl_row_length; exact Hl).
  rewrite domain_length in *. replace (S (length (domain_valid t)) - 1) with (length (domain_valid t)) by lia.
  (* the valid part *)
  assert (Hvalid : firstn (length (domain_valid t)) res
                   = map (fun e => length (filter (a_eqb (Some e)) vals)) (domain_valid t)).
  { apply (nth_ext _ _ 0 0); [rewrite firstn_length, map_length; lia|].
    intros p Hp. rewrite firstn_length, Nat.min_l in Hp by lia.
    rewrite nth_firstn_lt by exact Hp.
    rewrite (nth_indep (map (fun e => length (filter (a_eqb (Some e)) vals)) (domain_valid t)) 0
                       ((fun e => length (filter (a_eqb (Some e)) vals)) [])) by (rewrite map_length; exact Hp).
    rewrite (map_nth (fun e => length (filter (a_eqb (Some e)) vals))).
    set (e := nth p (domain_valid t) []).
    assert (Hin : In e (domain_valid t)) by (apply nth_In; exact Hp).
    assert (He : inb t e = true).
    { apply Hdom. unfold domain. apply in_or_app. left. apply in_map. exact Hin. }
    assert (Ep : a_index t (Some e) = p).
    { rewrite <- (index_of_nth t W p) by (rewrite domain_length; lia). f_equal. unfold domain.
      rewrite app_nth1 by (rewrite map_length; exact Hp).
      rewrite (nth_indep _ None (Some [])) by (rewrite map_length; exact Hp). rewrite (map_nth (@Some (list nat))). reflexivity. }
    unfold res. rewrite <- Ep. rewrite (dp_invariant t (diameter d) W (d_levels d) (d_root d) e Wt Hl He).
    unfold cnt, vals. rewrite filter_map_length. apply filter_length_ext. intros x Hx.
    rewrite (eval_as_path d x W Wt (bmasks_lengths _ _ Hx)). fold t.
    destruct (path_sum t (d_levels d) (d_root d) x) as [s|]; [|reflexivity].
    unfold clip. destruct (a_eqb (Some s) (Some e)) eqn:E.
    - apply a_eqb_eq in E. injection E as ->. rewrite He. symmetry. apply a_eqb_refl.
    - destruct (inb t s); [rewrite a_eqb_sym; symmetry; exact E|reflexivity]. }
  rewrite Hvalid. unfold histogram, domain. rewrite map_app, map_map. cbn [map]. f_equal. f_equal.
  (* the invalid count, by complement *)
  pose proof (histogram_total t vals Hnd) as Htot.
  assert (Hall : forall v, In v vals -> In v (domain t)).
  { intros v Hv. unfold vals in Hv. apply in_map_iff in Hv as [x [<- Hx]].
    rewrite (eval_as_path d x W Wt (bmasks_lengths _ _ Hx)). fold t.
    destruct (path_sum t (d_levels d) (d_root d) x) as [s|]; [|unfold domain; apply in_or_app; right; left; reflexivity].
    unfold clip. destruct (inb t s) eqn:E; [apply Hdom; exact E|unfold domain; apply in_or_app; right; left; reflexivity]. }
  specialize (Htot Hall). unfold histogram, domain in Htot. rewrite map_app, map_map in Htot. cbn [map] in Htot.
  assert (Hs : forall a b, sum_nat (a ++ [b]) = sum_nat a + b).
  { clear. intros a b. induction a as [|x a IH]; cbn [app sum_nat fold_right] in *; unfold sum_nat in *; lia. }
  rewrite Hs in Htot. unfold vals in Htot at 3. rewrite map_length, bmasks_length in Htot. lia.
Qed.

(* ---------- statements at the level of whole diagrams ---------- *)
Theorem eval_restrict d k v x :
  wt_levels (d_type d) (d_levels d) -> live_from (d_type d) (d_levels d) (d_root d) ->
  S k < length (d_levels d) -> S (length x) = length (d_levels d) ->
  exists r, add_restrict d (S k) v = Some r /\ eval r x = eval d (firstn (S k) x ++ v :: skipn (S k) x).
Proof.
  intros Wt Hl Hk Hx. eexists. split; [reflexivity|]. unfold eval. cbn [d_type d_levels d_root].
  apply eval_restrict_pos; auto using a_zero_wt.
Qed.

Theorem eval_restrict_first d v x l0 l1 rest :
  d_levels d = l0 :: l1 :: rest -> wt_levels (d_type d) (d_levels d) ->
  child (getnode (d_type d) l0 (d_root d)) v < length l1 -> x <> [] ->
  exists r, add_restrict d 0 v = Some r /\ eval r x = eval d (v :: x).
Proof.
  intros E Wt Hr Hx. unfold add_restrict. rewrite E. eexists. split; [reflexivity|]. unfold eval. cbn [d_type d_levels d_root].
  rewrite E in Wt. rewrite E. apply (eval_restrict_root (d_type d) l0 l1 rest (d_root d) v x Wt Hr Hx).
Qed.

(* finding F12: the model of restrict has no result for the only variable of a one-variable diagram *)
Theorem restrict_only_variable d l0 v : d_levels d = [l0] -> add_restrict d 0 v = None.
Proof. intros E. unfold add_restrict. rewrite E. reflexivity. Qed.

(* chain: evaluation is the saturating sum of the edge values along the (only) path *)
Lemma a_sub_spec t x y : a_sub t x y =
  match x, y with Some a, Some b => if vle b a then (if inb t (vsub a b) then Some (vsub a b) else None) else None | _, _ => None end.
Proof. destruct x, y; reflexivity. Qed.
