(* C09 / C02: the graph step of compile().  The leaf units are chosen greedily (a maximal independent set of the "appear
   together in a row" graph, visiting the units in ANY order -- the code uses np.argsort(degrees)); the components are ANY
   partition of the units such that every row lies inside one part (the code takes scipy's connected components).  For
   every such input (graph_ok) the component structure build_hints derives satisfies hints_ok, hence (CompileValid) the
   oracle over the compiled diagram is exact. *)
From Coq Require Import List Arith Bool Lia Permutation.
From DS Require Import Util.ListX Model.ADD Spec.Count Model.Oracle Proofs.ADDProofs Proofs.OracleValid Proofs.CompileValid.
Import ListNotations.

(* ---------- booleans and lists ---------- *)
Lemma NoDup_nodup_b : forall l, NoDup l -> nodup_b l = true.
Proof.
  induction l as [|a r IH]; intros H; [reflexivity|]. inversion H as [|x y Hn Hr]; subst. cbn [nodup_b]. rewrite (IH Hr), andb_true_r.
  apply negb_true_iff. destruct (existsb (Nat.eqb a) r) eqn:E; [|reflexivity]. apply existsb_exists in E. destruct E as [z [Hz Ez]].
  apply Nat.eqb_eq in Ez. subst z. contradiction.
Qed.
Lemma memb_false u l : memb u l = false <-> ~ In u l.
Proof. split; intros H. - intros Hin. apply memb_In in Hin. congruence. - destruct (memb u l) eqn:E; [|reflexivity]. apply memb_In in E. contradiction. Qed.

Lemma NoDup_app_inv {A} : forall (l1 l2 : list A), NoDup (l1 ++ l2) -> NoDup l1 /\ NoDup l2 /\ (forall x, In x l1 -> In x l2 -> False).
Proof.
  induction l1 as [|a l1 IH]; intros l2 H; cbn [app] in H.
  - split; [constructor|]. split; [exact H|]. intros x [].
  - inversion H as [|x y Hn Hr]; subst. destruct (IH l2 Hr) as [A1 [A2 A3]]. split; [|split; [exact A2|]].
    + constructor; [|exact A1]. intros Hin. apply Hn. apply in_or_app. left. exact Hin.
    + intros x [<-|Hx] Hx2; [apply Hn; apply in_or_app; right; exact Hx2|apply (A3 x Hx Hx2)].
Qed.
Lemma memb_filter_seq' (f : nat -> bool) m q : q < m -> memb q (filter f (seq 0 m)) = f q.
Proof.
  intros Hq. destruct (f q) eqn:E.
  - apply memb_In. apply filter_In. split; [apply in_seq; lia|exact E].
  - apply memb_false. intros H. apply filter_In in H. destruct H as [_ H]. congruence.
Qed.

Lemma concat_unique {A} : forall (ls : list (list A)) a b u, NoDup (concat ls) -> In a ls -> In b ls -> In u a -> In u b -> a = b.
Proof.
  induction ls as [|x r IH]; intros a b u Hnd Ha Hb Hua Hub; [destruct Ha|]. cbn [concat] in Hnd.
  assert (Hx : forall c, In c r -> In u x -> In u c -> False).
  { intros c Hc H1 H2. apply NoDup_app_inv in Hnd. destruct Hnd as [_ [_ D]]. apply (D u H1). apply in_concat. exists c. split; assumption. }
  destruct Ha as [<-|Ha], Hb as [<-|Hb].
  - reflexivity.
  - exfalso. apply (Hx b Hb Hua Hub).
  - exfalso. apply (Hx a Ha Hub Hua).
  - apply (IH a b u); try assumption. apply NoDup_app_inv in Hnd. tauto.
Qed.

Lemma filter_le1 (f : nat -> bool) : forall row, NoDup row -> (forall a b, In a row -> In b row -> f a = true -> f b = true -> a = b) ->
  length (filter f row) <= 1.
Proof.
  intros row Hnd H. assert (Hn : NoDup (filter f row)) by (apply NoDup_filter; exact Hnd).
  destruct (filter f row) as [|a [|b r]] eqn:E; cbn [length]; [lia|lia|]. exfalso.
  assert (Ha : In a (filter f row)) by (rewrite E; left; reflexivity). assert (Hb : In b (filter f row)) by (rewrite E; right; left; reflexivity).
  apply filter_In in Ha. apply filter_In in Hb. assert (a = b) by (apply H; tauto). subst b.
  inversion Hn as [|x y Hx _]; subst. apply Hx. left. reflexivity.
Qed.

(* ---------- the "appear together" relation ---------- *)
Lemma adj_spec rows u v : adj rows u v = true <-> u <> v /\ exists row, In row rows /\ In u row /\ In v row.
Proof.
  unfold adj. rewrite andb_true_iff, negb_true_iff, Nat.eqb_neq, existsb_exists. split.
  - intros [H [row [Hr Hm]]]. apply andb_prop in Hm as [A B]. apply memb_In in A. apply memb_In in B. split; [exact H|]. exists row. tauto.
  - intros [H [row [Hr [A B]]]]. split; [exact H|]. exists row. split; [exact Hr|]. apply andb_true_intro. split; apply memb_In; assumption.
Qed.
Lemma adj_sym rows u v : adj rows u v = adj rows v u.
Proof.
  destruct (adj rows u v) eqn:E1, (adj rows v u) eqn:E2; try reflexivity.
  - apply adj_spec in E1. destruct E1 as [H [row [A [B C]]]]. assert (adj rows v u = true) by (apply adj_spec; split; [congruence|exists row; tauto]). congruence.
  - apply adj_spec in E2. destruct E2 as [H [row [A [B C]]]]. assert (adj rows u v = true) by (apply adj_spec; split; [congruence|exists row; tauto]). congruence.
Qed.
Lemma adj_irrefl rows u : adj rows u u = false.
Proof. unfold adj. rewrite Nat.eqb_refl. reflexivity. Qed.

(* ---------- the greedy selection ---------- *)
Section Select.
  Variable rows : list (list nat).
  Lemma sel_incl : forall order avail leaves l, In l leaves -> In l (select_leaves rows order avail leaves).
  Proof.
    induction order as [|a r IH]; intros avail leaves l H; cbn [select_leaves]; [exact H|].
    destruct (memb a avail); apply IH; [right; exact H|exact H].
  Qed.
  (* independent: no two selected units appear together in a row *)
  Lemma sel_indep : forall order avail leaves,
    (forall l v, In l leaves -> In v avail -> adj rows l v = false) ->
    (forall l1 l2, In l1 leaves -> In l2 leaves -> adj rows l1 l2 = false) ->
    forall l1 l2, In l1 (select_leaves rows order avail leaves) -> In l2 (select_leaves rows order avail leaves) -> adj rows l1 l2 = false.
  Proof.
    induction order as [|a r IH]; intros avail leaves I3 I4; cbn [select_leaves]; [exact I4|].
    destruct (memb a avail) eqn:E; [|apply IH; assumption]. apply memb_In in E. apply IH.
    - intros l v [<-|Hl] Hv; apply filter_In in Hv; destruct Hv as [Hv Hf].
      + apply negb_true_iff in Hf. exact Hf.
      + apply I3; assumption.
    - intros l1 l2 [<-|H1] [<-|H2].
      + apply adj_irrefl.
      + rewrite adj_sym. apply I3; assumption.
      + apply I3; assumption.
      + apply I4; assumption.
  Qed.
  (* maximal: every visited unit is selected or appears together with a selected one *)
  Lemma sel_max : forall order avail leaves,
    (forall u, In u order -> memb u avail = false -> exists l, In l leaves /\ adj rows l u = true) ->
    forall u, In u order -> In u (select_leaves rows order avail leaves)
                            \/ exists l, In l (select_leaves rows order avail leaves) /\ adj rows l u = true.
  Proof.
    induction order as [|a r IH]; intros avail leaves H u Hu; [destruct Hu|]. cbn [select_leaves]. destruct (memb a avail) eqn:E.
    - assert (H' : forall w, In w r -> memb w (filter (fun v => negb (adj rows a v)) avail) = false -> exists l, In l (a :: leaves) /\ adj rows l w = true).
      { intros w Hw Hm. destruct (memb w avail) eqn:Ew.
        - exists a. split; [left; reflexivity|]. destruct (adj rows a w) eqn:Ea; [reflexivity|]. exfalso. apply memb_false in Hm. apply Hm.
          apply filter_In. split; [apply memb_In; exact Ew|]. rewrite Ea. reflexivity.
        - destruct (H w (or_intror Hw) Ew) as [l [A B]]. exists l. split; [right; exact A|exact B]. }
      destruct Hu as [<-|Hu]; [left; apply sel_incl; left; reflexivity|]. apply (IH _ _ H' u Hu).
    - assert (H' : forall w, In w r -> memb w avail = false -> exists l, In l leaves /\ adj rows l w = true) by (intros w Hw; apply H; right; exact Hw).
      destruct Hu as [<-|Hu]; [|apply (IH _ _ H' u Hu)].
      destruct (H a (or_introl eq_refl) E) as [l [A B]]. right. exists l. split; [apply sel_incl; exact A|exact B].
  Qed.
End Select.

(* ---------- the structure derived from leaves and components ---------- *)
Section Hints.
  Variables (n : nat) (leaves : list nat).
  Definition bh (cm : list nat) : comp :=
    (filter (fun u => memb u cm && negb (memb u leaves)) (seq 0 n), filter (fun u => memb u cm && memb u leaves) (seq 0 n)).
  Lemma bh_in cm v : In v (fst (bh cm) ++ snd (bh cm)) <-> In v cm /\ v < n.
  Proof.
    unfold bh. cbn [fst snd]. rewrite in_app_iff, !filter_In, !in_seq, !andb_true_iff, negb_true_iff, !memb_In. split.
    - intros [[A [B _]]|[A [B _]]]; split; (exact B || lia).
    - intros [A B]. destruct (memb v leaves) eqn:E; [right|left]; (split; [lia|split; [exact A|]]); [apply memb_In; exact E|reflexivity].
  Qed.
  Lemma bh_nodup cm : NoDup (fst (bh cm) ++ snd (bh cm)).
  Proof.
    unfold bh. cbn [fst snd]. apply NoDup_app_disj; try (apply NoDup_filter; apply seq_NoDup).
    intros x H1 H2. apply filter_In in H1. apply filter_In in H2. destruct H1 as [_ H1]. destruct H2 as [_ H2].
    apply andb_prop in H1 as [_ H1]. apply andb_prop in H2 as [_ H2]. rewrite H2 in H1. discriminate.
  Qed.
  Lemma bh_perm cm : NoDup cm -> (forall v, In v cm -> v < n) -> Permutation (fst (bh cm) ++ snd (bh cm)) cm.
  Proof.
    intros Hnd Hlt. apply NoDup_Permutation; [apply bh_nodup|exact Hnd|]. intros v. rewrite bh_in. split; [tauto|]. intros H. split; [exact H|apply Hlt; exact H].
  Qed.
  Lemma bh_units : forall comps, NoDup (concat comps) -> (forall v, In v (concat comps) -> v < n) ->
    Permutation (units_of (map bh comps)) (concat comps).
  Proof.
    induction comps as [|c r IH]; intros Hnd Hlt; [constructor|]. unfold units_of. cbn [map flat_map concat]. cbn [concat] in Hnd, Hlt.
    apply Permutation_app.
    - apply bh_perm; [apply NoDup_app_inv in Hnd; tauto|]. intros v Hv. apply Hlt. apply in_or_app. left. exact Hv.
    - apply IH; [apply NoDup_app_inv in Hnd; tauto|]. intros v Hv. apply Hlt. apply in_or_app. right. exact Hv.
  Qed.
  Lemma bh_leaf cm v : In v cm -> v < n -> memb v (snd (bh cm)) = memb v leaves.
  Proof.
    intros Hc Hv. unfold bh. cbn [snd]. rewrite memb_filter_seq' by exact Hv. apply memb_In in Hc. rewrite Hc. reflexivity.
  Qed.

  (* a row inside one part, containing at most one selected unit, passes row_ok *)
  Lemma bh_row_ok row : row <> [] -> length (filter (fun v => memb v leaves) row) <= 1 ->
    forall comps, NoDup (concat comps) -> (forall v, In v (concat comps) -> v < n) ->
    (exists cm, In cm comps /\ forall v, In v row -> In v cm) -> row_ok (map bh comps) row = true.
  Proof.
    intros Hne Hleaf. induction comps as [|c r IH]; intros Hnd Hlt [cm [Hc Hsub]]; [destruct Hc|].
    assert (Hhd : In (hd 0 row) row) by (destruct row; [congruence|left; reflexivity]).
    cbn [map row_ok]. destruct (memb (hd 0 row) (fst (bh c) ++ snd (bh c))) eqn:E.
    - apply memb_In in E. apply bh_in in E. destruct E as [E _].
      assert (cm = c). { apply (concat_unique (c :: r) cm c (hd 0 row) Hnd Hc (or_introl eq_refl)); [apply Hsub; exact Hhd|exact E]. }
      subst cm. apply andb_true_intro. split; [apply andb_true_intro; split|].
      + destruct row; [congruence|reflexivity].
      + apply forallb_forall. intros v Hv. apply memb_In. apply bh_in. split; [apply Hsub; exact Hv|]. apply Hlt. cbn [concat]. apply in_or_app. left. apply Hsub. exact Hv.
      + apply Nat.leb_le. rewrite (filter_ext_in (fun v => memb v (snd (bh c))) (fun v => memb v leaves)); [exact Hleaf|].
        intros v Hv. apply bh_leaf; [apply Hsub; exact Hv|]. apply Hlt. cbn [concat]. apply in_or_app. left. apply Hsub. exact Hv.
    - destruct Hc as [<-|Hc].
      + exfalso. apply memb_false in E. apply E. apply bh_in. split; [apply Hsub; exact Hhd|]. apply Hlt. cbn [concat]. apply in_or_app. left. apply Hsub. exact Hhd.
      + cbn [concat] in Hnd, Hlt. apply IH; [apply NoDup_app_inv in Hnd; tauto| |exists cm; tauto]. intros v Hv. apply Hlt. apply in_or_app. right. exact Hv.
  Qed.
End Hints.

(* ---------- the theorem ---------- *)
Theorem graph_hints_ok n rows order components :
  graph_ok n rows order components = true -> hints_ok n rows (build_hints n rows order components) = true.
Proof.
  unfold graph_ok. intros H.
  repeat (match type of H with (_ && _) = true => let H' := fresh "V" in apply andb_prop in H as [H H'] end).
  (* H nodup order, V6 len order, V5 lt order, V4 nodup comps, V3 len comps, V2 lt comps, V1 comps nonempty, V0 each nonempty, V rows *)
  apply nodup_b_NoDup in H. apply Nat.eqb_eq in V6. apply nodup_b_NoDup in V4. apply Nat.eqb_eq in V3.
  assert (Hclt : forall v, In v (concat components) -> v < n) by (intros v Hv; rewrite forallb_forall in V2; apply Nat.ltb_lt; apply V2; exact Hv).
  assert (Hall : forall u, u < n -> In u order).
  { intros u Hu. apply (NoDup_length_incl H (l' := seq 0 n)); [rewrite seq_length; lia| |apply in_seq; lia].
    intros x Hx. rewrite forallb_forall in V5. apply in_seq. specialize (V5 x Hx). apply Nat.ltb_lt in V5. lia. }
  set (leaves := select_leaves rows order (seq 0 n) []).
  assert (Hind : forall l1 l2, In l1 leaves -> In l2 leaves -> adj rows l1 l2 = false).
  { apply sel_indep; intros ? ? []. }
  assert (Hmax : forall u, u < n -> In u leaves \/ exists l, In l leaves /\ adj rows l u = true).
  { intros u Hu. apply sel_max; [|apply Hall; exact Hu]. intros w Hw Hm. exfalso. apply memb_false in Hm. apply Hm. apply in_seq.
    rewrite forallb_forall in V5. specialize (V5 w Hw). apply Nat.ltb_lt in V5. lia. }
  assert (Hrows : forall row, In row rows -> row <> [] /\ NoDup row /\ exists cm, In cm components /\ forall v, In v row -> In v cm).
  { intros row Hr. rewrite forallb_forall in V. specialize (V row Hr). apply andb_prop in V as [V Vc]. apply andb_prop in V as [Va Vb].
    split; [intros ->; discriminate|]. split; [apply nodup_b_NoDup; exact Vb|]. apply existsb_exists in Vc. destruct Vc as [cm [A B]].
    exists cm. split; [exact A|]. intros v Hv. rewrite forallb_forall in B. apply memb_In. apply B. exact Hv. }
  change (build_hints n rows order components) with (map (bh n leaves) components).
  pose proof (bh_units n leaves components V4 Hclt) as PU.
  unfold hints_ok. repeat (apply andb_true_intro; split).
  - apply NoDup_nodup_b. apply (Permutation_NoDup (Permutation_sym PU)). exact V4.
  - apply forallb_forall. intros u Hu. apply Nat.ltb_lt. apply Hclt. apply (Permutation_in _ PU). exact Hu.
  - apply Nat.eqb_eq. rewrite (Permutation_length PU). exact V3.
  - (* every part has a selected unit *)
    apply forallb_forall. intros c Hc. apply in_map_iff in Hc. destruct Hc as [cm [<- Hcomp]]. apply negb_true_iff. apply Nat.eqb_neq.
    assert (Hne : cm <> []).
    { rewrite forallb_forall in V0. specialize (V0 cm Hcomp). intros ->. discriminate. }
    destruct cm as [|u0 rest] eqn:Ecomp; [congruence|]. rewrite <- Ecomp in *. assert (Hu0 : In u0 cm) by (rewrite Ecomp; left; reflexivity).
    assert (Hin : forall v, In v cm -> In v (concat components)) by (intros v Hv; apply in_concat; exists cm; split; assumption).
    assert (Hw : exists l, In l cm /\ In l leaves).
    { destruct (Hmax u0 (Hclt u0 (Hin u0 Hu0))) as [A|[l [A B]]]; [exists u0; split; assumption|]. exists l. split; [|exact A].
      apply adj_spec in B. destruct B as [_ [row [Hr [Hl Hu]]]]. destruct (Hrows row Hr) as [_ [_ [cm' [Hc' Hsub]]]].
      assert (cm' = cm) by (apply (concat_unique components cm' cm u0 V4 Hc' Hcomp); [apply Hsub; exact Hu|exact Hu0]).
      subst cm'. apply Hsub. exact Hl. }
    destruct Hw as [l [Hl1 Hl2]]. intros E. apply length_zero_iff_nil in E.
    assert (In l (snd (bh n leaves cm))); [|rewrite E in *; contradiction].
    apply memb_In. rewrite bh_leaf; [apply memb_In; exact Hl2|exact Hl1|apply Hclt; apply Hin; exact Hl1].
  - apply negb_true_iff. apply Nat.eqb_neq. rewrite map_length. apply negb_true_iff in V1. apply Nat.eqb_neq in V1. exact V1.
  - apply forallb_forall. intros row Hr. destruct (Hrows row Hr) as [Hne [Hnd Hex]]. apply bh_row_ok; try assumption.
    apply filter_le1; [exact Hnd|]. intros a b Ha Hb Fa Fb. apply memb_In in Fa. apply memb_In in Fb.
    destruct (Nat.eq_dec a b) as [E|E]; [exact E|]. exfalso.
    assert (adj rows a b = true) by (apply adj_spec; split; [exact E|exists row; tauto]). rewrite (Hind a b Fa Fb) in H0. discriminate.
Qed.

(* compile(), graph step included: for every visiting order of the units and every row-closed partition of the units the oracle
   over the compiled diagram is exact *)
Theorem oracle_graph_exact (p : cprob) order components target t1 t2 :
  graph_ok (p_units p) (p_rows p) order components = true -> 2 <= p_units p -> target < p_units p ->
  let comps := build_hints (p_units p) (p_rows p) order components in
  oracle_query p (compile_add (p_type p) comps) (map (row_locs 0 comps) (p_rows p)) target t1 t2 = Some (count_spec p target t1 t2).
Proof. intros H Hn Ht comps. apply oracle_compile_exact; [apply graph_hints_ok; exact H|exact Hn|exact Ht]. Qed.
