(* Core of C01: the kernel's backward recurrence equals the Shapley value of the 1-NN game. *)
From Coq Require Import List Arith ZArith QArith Lia Bool Setoid Morphisms Permutation Lqa FinFun.
Import ListNotations.
Local Open Scope Q_scope.
From DS Require Import Util.SumQ Spec.Shapley Spec.NNGame Model.Kernel Proofs.ShapleyAxioms.

Section NN.
Variable u : nat -> Q.
Variable null : Q.



(* D prefix l m = sum over positions of l of (u_k - u_{k+1}) * OR_{prefix ++ l[..k]}(m) *)
Fixpoint D (prefix l : list nat) (m : list bool) : Q :=
  match l with
  | [] => 0
  | q :: t => (u q - hd_u u null t) * org (prefix ++ [q]) m + D (prefix ++ [q]) t m
  end.

Lemma org_app_present P q m : existsb (fun p => nth p m false) P = true -> org (P ++ [q]) m = 1.
Proof. intros H. unfold org. rewrite existsb_app, H. reflexivity. Qed.

Lemma D_present : forall l P m, existsb (fun p => nth p m false) P = true -> D P l m == hd_u u null l - null.
Proof.
  induction l as [|q t IH]; intros P m HP; cbn [D hd_u]; [ring|].
  rewrite org_app_present by exact HP. rewrite IH; [ring|]. rewrite existsb_app, HP. reflexivity.
Qed.

Lemma D_absent : forall l P m, existsb (fun p => nth p m false) P = false -> D P l m == vnn u null l m - null.
Proof.
  induction l as [|q t IH]; intros P m HP; cbn [D vnn]; [ring|].
  unfold org at 1. rewrite existsb_app, HP. cbn [existsb orb]. rewrite orb_false_r.
  destruct (nth q m false) eqn:Eq.
  - rewrite D_present; [ring|]. rewrite existsb_app. cbn [existsb]. rewrite Eq, orb_true_r. reflexivity.
  - rewrite IH; [ring|]. rewrite existsb_app, HP. cbn [existsb]. rewrite Eq. reflexivity.
Qed.

Theorem nn_game_decomposition l m : vnn u null l m == null + D [] l m.
Proof. rewrite D_absent by reflexivity. ring. Qed.
End NN.


Lemma shapley_bf_ext n v1 v2 i : (forall m, length m = n -> v1 m == v2 m) -> shapley_bf n v1 i == shapley_bf n v2 i.
Proof. intros H. unfold shapley_bf. apply sumQ_ext. intros m Hm. apply masks_length in Hm. rewrite H by exact Hm. reflexivity. Qed.

Lemma shapley_const n c i : (i < n)%nat -> shapley_bf n (fun _ => c) i == 0.
Proof. intros Hi. rewrite shapley_bf_marginal by exact Hi. apply shapley_null_player; [exact Hi|]. intros; reflexivity. Qed.

Lemma NoDup_app_l {A} (l1 l2 : list A) : NoDup (l1 ++ l2) -> NoDup l1.
Proof.
  induction l1 as [|a l1 IH]; intros H; [constructor|]. cbn [app] in H. inversion H as [|? ? Ha H']; subst.
  constructor; [|apply IH; exact H']. intros Hin. apply Ha. apply in_or_app. left. exact Hin.
Qed.

Section K.
Variable n : nat.
Variable u : nat -> Q.
Variable null : Q.

Definition ind (p : nat) (T : list nat) : Q := if memb p T then 1 / qn (length T) else 0.

Fixpoint DS (P l : list nat) (p : nat) : Q :=
  match l with
  | [] => 0
  | q :: t => (u q - hd_u u null t) * ind p (P ++ [q]) + DS (P ++ [q]) t p
  end.

Lemma shapley_D : forall l P p, NoDup (P ++ l) -> (forall r, In r (P ++ l) -> (r < n)%nat) -> (p < n)%nat ->
  shapley_bf n (D u null P l) p == DS P l p.
Proof.
  induction l as [|q t IH]; intros P p Hnd Hlt Hp; cbn [D DS].
  - apply shapley_const. exact Hp.
  - rewrite (shapley_bf_ext n _ (fun m => (u q - hd_u u null t) * org (P ++ [q]) m + 1 * D u null (P ++ [q]) t m))
      by (intros; ring).
    rewrite shapley_linear.
    assert (Hnd' : NoDup ((P ++ [q]) ++ t)) by (rewrite <- app_assoc; exact Hnd).
    assert (Hlt' : forall r, In r ((P ++ [q]) ++ t) -> (r < n)%nat) by (intros r Hr; apply Hlt; rewrite <- app_assoc in Hr; exact Hr).
    rewrite IH by assumption.
    rewrite shapley_or_game; [unfold ind; ring| | | |exact Hp].
    + apply NoDup_app_l in Hnd'. exact Hnd'.
    + destruct P; discriminate.
    + intros r Hr. apply Hlt'. apply in_or_app. left. exact Hr.
Qed.

Theorem shapley_vnn l p : NoDup l -> (forall r, In r l -> (r < n)%nat) -> (p < n)%nat ->
  shapley_bf n (vnn u null l) p == DS [] l p.
Proof.
  intros Hnd Hlt Hp.
  rewrite (shapley_bf_ext n _ (fun m => null * 1 + 1 * D u null [] l m)).
  - rewrite (shapley_linear n (fun _ => 1) (D u null [] l) null 1 p).
    rewrite shapley_const by exact Hp. rewrite shapley_D by assumption. ring.
  - intros m _. rewrite nn_game_decomposition. ring.
Qed.
End K.


Section K3.
Variable u : nat -> Q.
Variable null : Q.

(* the kernel's backward recurrence, written front to back: curs pos l = [cur_pos; cur_{pos+1}; ...] *)

Lemma memb_app_r p P q : memb p (P ++ [q]) = memb p P || Nat.eqb p q.
Proof. unfold memb. rewrite existsb_app. cbn [existsb]. rewrite orb_false_r. reflexivity. Qed.

Lemma DS_in : forall l P p, memb p P = true -> DS u null P l p == hd0 (curs u null (length P) l).
Proof.
  induction l as [|q t IH]; intros P p Hp; cbn [DS curs hd0]; [reflexivity|].
  assert (Hp' : memb p (P ++ [q]) = true) by (rewrite memb_app_r, Hp; reflexivity).
  rewrite IH by exact Hp'. unfold ind. rewrite Hp'. rewrite app_length. cbn [length].
  replace (length P + 1)%nat with (S (length P)) by lia.
  assert (0 < qn (S (length P))) by (apply qn_pos; lia). field. lra.
Qed.

Lemma DS_out : forall l P p i, memb p P = false -> NoDup l -> nth_error l i = Some p ->
  DS u null P l p == nth i (curs u null (length P) l) 0.
Proof.
  induction l as [|q t IH]; intros P p i Hp Hnd Hi; [destruct i; discriminate|].
  inversion Hnd as [|? ? Hq Hnd']; subst. cbn [DS curs]. destruct i as [|i]; cbn [nth_error nth] in *.
  - injection Hi as ->. assert (Hp' : memb p (P ++ [p]) = true) by (rewrite memb_app_r, Nat.eqb_refl, orb_true_r; reflexivity).
    rewrite DS_in by exact Hp'. unfold ind. rewrite Hp'. rewrite !app_length. cbn [length].
    replace (length P + 1)%nat with (S (length P)) by lia.
    assert (0 < qn (S (length P))) by (apply qn_pos; lia). field. lra.
  - assert (Hne : Nat.eqb p q = false).
    { apply Nat.eqb_neq. intros ->. apply Hq. apply nth_error_In in Hi. exact Hi. }
    assert (Hp' : memb p (P ++ [q]) = false) by (rewrite memb_app_r, Hp, Hne; reflexivity).
    rewrite (IH (P ++ [q]) p i Hp' Hnd' Hi). unfold ind. rewrite Hp'. rewrite app_length. cbn [length].
    replace (length P + 1)%nat with (S (length P)) by lia. ring.
Qed.

Theorem kernel_is_shapley n idxs i p : NoDup idxs -> (forall r, In r idxs -> (r < n)%nat) ->
  nth_error idxs i = Some p ->
  nth i (curs u null 0 idxs) 0 == shapley_bf n (vnn u null idxs) p.
Proof.
  intros Hnd Hlt Hi. assert (Hp : (p < n)%nat) by (apply Hlt; apply nth_error_In in Hi; exact Hi).
  rewrite (shapley_vnn n u null idxs p Hnd Hlt Hp). symmetry. apply (DS_out idxs [] p i); auto.
Qed.
End K3.
