(* C04 / C16: the Monte-Carlo loop as permutation-sampling estimator; timeout and truncation budgets. *)
From Coq Require Import List Arith ZArith QArith Qabs Lia Bool Setoid Morphisms Permutation Lqa.
From DS Require Import Util.SumQ Util.ListX Spec.Shapley Spec.Dnf Model.Provenance Model.Bruteforce Model.MonteCarlo
     Proofs.ShapleyAxioms Proofs.ProvRefine Proofs.KernelFull.
Import ListNotations.
Local Open Scope Q_scope.

(* ---------- the loop without truncation ---------- *)
Fixpoint plain_loop (v : list bool -> Q) (perm : list nat) (query : list bool) (new_score : Q) (imp : list Q) : list Q :=
  match perm with
  | [] => imp
  | idx :: rest => let query' := setbit idx query in let new := v query' in
                   plain_loop v rest query' new (set_q idx (new - new_score) imp)
  end.

(* C16: disabling truncation (0 steps) never cuts *)
Theorem no_cut P v : mc_steps P = 0%nat -> forall perm query new counter imp evals,
  perm_loop P v perm query new counter imp evals = (plain_loop v perm query new imp, (evals + length perm)%nat).
Proof.
  intros H0. induction perm as [|idx rest IH]; intros query new counter imp evals; cbn [perm_loop plain_loop length].
  - rewrite Nat.add_0_r. reflexivity.
  - rewrite H0. cbn [Nat.ltb Nat.leb andb]. destruct (in_band P (v (setbit idx query))); rewrite IH; f_equal; lia.
Qed.

(* ---------- masks of prefixes ---------- *)
Lemma mask_of_app n l i : mask_of n (l ++ [i]) = setbit i (mask_of n l).
Proof. unfold mask_of. rewrite fold_left_app. reflexivity. Qed.
Lemma fold_setbit_app l : forall q l', fold_left (fun m i => setbit i m) (l ++ l') q
  = fold_left (fun m i => setbit i m) l' (fold_left (fun m i => setbit i m) l q).
Proof. intros. apply fold_left_app. Qed.

Lemma before_not_in perm p : ~ In p perm -> before perm p = perm.
Proof. induction perm as [|a t IH]; intros H; [reflexivity|]. cbn [before]. destruct (Nat.eqb_spec a p) as [->|_]; [exfalso; apply H; left; reflexivity|]. rewrite IH; [reflexivity|]. intros Hc; apply H; right; exact Hc. Qed.

Lemma set_q_length i x l : (i < length l)%nat -> length (set_q i x l) = length l.
Proof. apply set_nth_length. Qed.

(* value of the importance column: the unit at each position receives v(prefix + it) - v0(prefix) *)
Lemma plain_loop_spec v : forall perm pre prev imp n,
  NoDup perm -> (forall r, In r perm -> (r < n)%nat) -> length imp = n ->
  forall p, (p < n)%nat ->
  nth p (plain_loop v perm (mask_of n pre) prev imp) 0 ==
  if existsb (Nat.eqb p) perm
  then v (mask_of n (pre ++ before perm p ++ [p]))
       - match before perm p with [] => prev | _ => v (mask_of n (pre ++ before perm p)) end
  else nth p imp 0.
Proof.
  induction perm as [|idx rest IH]; intros pre prev imp n Hnd Hlt Hlen p Hp; cbn [plain_loop existsb]; [reflexivity|].
  inversion Hnd as [|? ? Hnotin Hnd']; subst.
  assert (Hidx : (idx < length imp)%nat) by (apply Hlt; left; reflexivity).
  rewrite <- mask_of_app.
  rewrite (IH (pre ++ [idx]) (v (mask_of (length imp) (pre ++ [idx]))) (set_q idx (v (mask_of (length imp) (pre ++ [idx])) - prev) imp) (length imp));
    try assumption; [|intros r Hr; apply Hlt; right; exact Hr|apply set_q_length; exact Hidx].
  cbn [before]. destruct (Nat.eqb_spec p idx) as [->|Hne].
  - (* p is the first element *)
    rewrite Nat.eqb_refl. cbn [orb app].
    assert (Hex : existsb (Nat.eqb idx) rest = false).
    { destruct (existsb (Nat.eqb idx) rest) eqn:E; [|reflexivity]. apply existsb_exists in E as [y [Hy Ey]].
      apply Nat.eqb_eq in Ey. subst y. contradiction. }
    rewrite Hex. unfold set_q. rewrite nth_set_nth_same by exact Hidx. reflexivity.
  - destruct (Nat.eqb_spec idx p) as [E|_]; [congruence|]. cbn [orb].
    destruct (existsb (Nat.eqb p) rest) eqn:Ex.
    + rewrite <- !app_assoc. cbn [app].
      destruct (before rest p) as [|b bt] eqn:Eb; cbn [app]; reflexivity.
    + unfold set_q. rewrite nth_set_nth_other by (auto; lia). reflexivity.
Qed.

Lemma nth_repeat_0' n p : nth p (repeat 0 n) 0 = 0.
Proof. revert p; induction n as [|n IH]; intros [|p]; cbn; auto. Qed.

Lemma existsb_in p l : In p l -> existsb (Nat.eqb p) l = true.
Proof. intros H. apply existsb_exists. exists p. split; [exact H|apply Nat.eqb_refl]. Qed.

(* C04 (1), one permutation: with truncation disabled every unit's entry is its marginal contribution to the units
   preceding it (the first against the null score) *)
Theorem one_perm_marginals P n v perm p : mc_steps P = 0%nat -> Permutation perm (seq 0 n) -> (p < n)%nat ->
  nth p (fst (one_perm P n v perm)) 0 == marginal n v (mc_null P) perm p.
Proof.
  intros H0 Hperm Hp. unfold one_perm. rewrite (no_cut P v H0). cbn [fst].
  change (allfalse n) with (mask_of n []).
  rewrite (plain_loop_spec v perm [] (mc_null P) (repeat 0 n) n);
    [|apply (Permutation_NoDup (Permutation_sym Hperm)), seq_NoDup
     |intros r Hr; apply (Permutation_in _ Hperm) in Hr; apply in_seq in Hr; lia|apply repeat_length|exact Hp].
  rewrite existsb_in by (apply (Permutation_in _ (Permutation_sym Hperm)); apply in_seq; lia).
  unfold marginal. cbn [app]. destruct (before perm p); reflexivity.
Qed.

(* ---------- iterations without timeout ---------- *)
Lemma mc_iter_no_timeout P n v clock : Qle_bool (mc_timeout P) 0 = true ->
  forall perms evals cols, fst (mc_iter P n v clock perms evals cols) = cols ++ map (fun pi => fst (one_perm P n v pi)) perms.
Proof.
  intros Ht. induction perms as [|pi rest IH]; intros evals cols; cbn [mc_iter map]; [rewrite app_nil_r; reflexivity|].
  destruct (one_perm P n v pi) as [col k] eqn:E. rewrite Ht, IH, <- app_assoc. reflexivity.
Qed.

Lemma average_cols_map n (f : list nat -> list Q) (l : list (list nat)) : l <> [] ->
  average_cols n (map f l) = Some (map (fun p => sumQ (fun pi => nth p (f pi) 0) l / qn (length l)) (seq 0 n)).
Proof.
  intros Hne. destruct l as [|a t]; [contradiction|]. unfold average_cols.
  change (map f (a :: t)) with (f a :: map f t) at 1. cbv iota. f_equal. apply map_ext. intros p.
  rewrite map_length, sumQ_map. reflexivity.
Qed.

Theorem mc_is_marginal_average P n v clock perms p :
  mc_steps P = 0%nat -> Qle_bool (mc_timeout P) 0 = true -> perms <> [] ->
  (forall pi, In pi perms -> Permutation pi (seq 0 n)) -> (p < n)%nat ->
  exists scores, montecarlo P n v clock perms = Some scores /\
    nth p scores 0 == sumQ (fun pi => marginal n v (mc_null P) pi p) perms / qn (length perms).
Proof.
  intros H0 Ht Hne Hperm Hp. unfold montecarlo. rewrite (mc_iter_no_timeout P n v clock Ht). cbn [app].
  rewrite average_cols_map by exact Hne. eexists. split; [reflexivity|].
  rewrite (map_nth_seq _ 0 n p Hp). apply Qmult_comp; [|reflexivity]. apply sumQ_ext.
  intros pi Hpi. apply one_perm_marginals; [exact H0|apply Hperm; exact Hpi|exact Hp].
Qed.

(* ---------- efficiency of one permutation: telescoping ---------- *)
Lemma marginal_sum_telescopes n (v : list bool -> Q) : forall perm pre (prev : Q), NoDup perm ->
  sumQ (fun p => v (mask_of n (pre ++ before perm p ++ [p]))
                 - match before perm p with [] => prev | _ => v (mask_of n (pre ++ before perm p)) end) perm
  == match perm with [] => 0 | _ => v (mask_of n (pre ++ perm)) - prev end.
Proof.
  induction perm as [|a t IH]; intros pre prev Hnd; [reflexivity|].
  inversion Hnd as [|? ? Ha Hnd']; subst. rewrite sumQ_cons. cbn [before]. rewrite Nat.eqb_refl. cbn [app].
  rewrite (sumQ_ext _ (fun p => v (mask_of n ((pre ++ [a]) ++ before t p ++ [p]))
                          - match before t p with [] => v (mask_of n (pre ++ [a])) | _ => v (mask_of n ((pre ++ [a]) ++ before t p)) end)).
  - rewrite (IH (pre ++ [a]) (v (mask_of n (pre ++ [a]))) Hnd'). destruct t as [|b t'].
    + ring.
    + rewrite <- app_assoc. cbn [app]. ring.
  - intros p Hp. destruct (Nat.eqb_spec a p) as [->|_]; [contradiction|].
    rewrite <- !app_assoc. cbn [app]. destruct (before t p); cbn [app]; rewrite ?app_nil_r; reflexivity.
Qed.

Lemma mask_of_nth : forall l q i, (i < length q)%nat ->
  nth i (fold_left (fun m j => setbit j m) l q) false = (existsb (Nat.eqb i) l || nth i q false).
Proof.
  induction l as [|a l IH]; intros q i Hi; cbn [fold_left existsb]; [reflexivity|].
  rewrite IH by (rewrite setbit_length; exact Hi). destruct (Nat.eqb_spec i a) as [->|Hne].
  - rewrite setbit_nth by exact Hi. rewrite orb_true_r. reflexivity.
  - rewrite setbit_nth_other by exact Hne. destruct (existsb (Nat.eqb i) l); reflexivity.
Qed.
Lemma mask_of_perm_all n perm : Permutation perm (seq 0 n) -> mask_of n perm = alltrue n.
Proof.
  intros H. apply (nth_ext _ _ false false).
  - unfold mask_of. assert (L : forall l q, length (fold_left (fun m j => setbit j m) l q) = length q).
    { induction l as [|a l IH]; intros q; cbn [fold_left]; [reflexivity|]. rewrite IH. apply setbit_length. }
    rewrite L. unfold allfalse, alltrue. rewrite !repeat_length. reflexivity.
  - intros i Hi. assert (Hlen : forall l q, length (fold_left (fun m j => setbit j m) l q) = length q).
    { induction l as [|a l IH]; intros q; cbn [fold_left]; [reflexivity|]. rewrite IH. apply setbit_length. }
    unfold mask_of in *. rewrite Hlen in Hi. unfold allfalse in Hi. rewrite repeat_length in Hi.
    rewrite mask_of_nth by (unfold allfalse; rewrite repeat_length; exact Hi).
    rewrite existsb_in by (apply (Permutation_in _ (Permutation_sym H)); apply in_seq; lia).
    rewrite nth_alltrue by exact Hi. reflexivity.
Qed.

(* C04 (2): on every run, for every permutation, the column sums to v(all units) - null *)
Theorem marginals_sum n v null perm : (0 < n)%nat -> Permutation perm (seq 0 n) ->
  sumQ (fun p => marginal n v null perm p) (seq 0 n) == v (alltrue n) - null.
Proof.
  intros Hn Hperm. rewrite <- (sumQ_perm _ _ _ Hperm). unfold marginal.
  rewrite (sumQ_ext _ (fun p => v (mask_of n ([] ++ before perm p ++ [p]))
                          - match before perm p with [] => null | _ => v (mask_of n ([] ++ before perm p)) end))
    by (intros; reflexivity).
  rewrite marginal_sum_telescopes by (apply (Permutation_NoDup (Permutation_sym Hperm)), seq_NoDup).
  destruct perm as [|a t]; [apply Permutation_length in Hperm; rewrite seq_length in Hperm; cbn in Hperm; lia|].
  cbn [app]. rewrite (mask_of_perm_all n (a :: t) Hperm). reflexivity.
Qed.

Theorem mc_efficiency P n v clock perms :
  mc_steps P = 0%nat -> Qle_bool (mc_timeout P) 0 = true -> perms <> [] -> (0 < n)%nat ->
  (forall pi, In pi perms -> Permutation pi (seq 0 n)) ->
  exists scores, montecarlo P n v clock perms = Some scores /\
    sumQ (fun p => nth p scores 0) (seq 0 n) == v (alltrue n) - mc_null P.
Proof.
  intros H0 Ht Hne Hn Hperm. unfold montecarlo. rewrite (mc_iter_no_timeout P n v clock Ht). cbn [app].
  rewrite average_cols_map by exact Hne. eexists. split; [reflexivity|].
  rewrite (sumQ_ext _ (fun p => sumQ (fun pi => marginal n v (mc_null P) pi p) perms / qn (length perms))).
  2:{ intros p Hp. apply in_seq in Hp. rewrite (map_nth_seq _ 0 n p) by lia.
      apply Qmult_comp; [|reflexivity]. apply sumQ_ext. intros pi Hpi.
      apply one_perm_marginals; [exact H0|apply Hperm; exact Hpi|lia]. }
  assert (Hc : 0 < qn (length perms)) by (apply qn_pos; destruct perms; [contradiction|cbn; lia]).
  rewrite (sumQ_ext _ (fun p => (1 / qn (length perms)) * sumQ (fun pi => marginal n v (mc_null P) pi p) perms))
    by (intros; field; lra).
  rewrite sumQ_scale, sumQ_swap.
  rewrite (sumQ_ext _ (fun _ => v (alltrue n) - mc_null P)) by (intros pi Hpi; apply marginals_sum; [exact Hn|apply Hperm; exact Hpi]).
  rewrite sumQ_const. field. lra.
Qed.

(* ---------- C16: timeout ---------- *)
(* the kept columns are never empty once an iteration has run, and they are a prefix of the per-permutation columns *)
Theorem mc_iter_prefix P n v clock : forall perms evals cols,
  exists k, (k <= length perms)%nat /\ (perms <> [] -> (1 <= k)%nat) /\
    fst (mc_iter P n v clock perms evals cols) = cols ++ map (fun pi => fst (one_perm P n v pi)) (firstn k perms).
Proof.
  induction perms as [|pi rest IH]; intros evals cols; cbn [mc_iter].
  - exists 0%nat. cbn. rewrite app_nil_r. repeat split; auto. intros H; contradiction.
  - destruct (one_perm P n v pi) as [col c] eqn:E.
    assert (Hcol : col = fst (one_perm P n v pi)) by (rewrite E; reflexivity).
    destruct (Qle_bool (mc_timeout P) 0).
    + destruct (IH (evals + c)%nat (cols ++ [col])) as [k [Hk [_ Hf]]]. exists (S k). cbn [length firstn map].
      split; [lia|]. split; [lia|]. rewrite Hf, <- app_assoc, Hcol. reflexivity.
    + destruct (Qle_bool (clock (evals + c)%nat - clock 0%nat) (mc_timeout P)).
      * destruct (IH (evals + c)%nat (cols ++ [col])) as [k [Hk [_ Hf]]]. exists (S k). cbn [length firstn map].
        split; [lia|]. split; [lia|]. rewrite Hf, <- app_assoc, Hcol. reflexivity.
      * exists 1%nat. cbn [length firstn map fst]. split; [lia|]. split; [lia|]. rewrite Hcol. reflexivity.
Qed.

Theorem timeout_average P n v clock perms : perms <> [] ->
  exists k scores, (1 <= k <= length perms)%nat /\ montecarlo P n v clock perms = Some scores /\
    forall p, (p < n)%nat ->
      nth p scores 0 == sumQ (fun pi => nth p (fst (one_perm P n v pi)) 0) (firstn k perms) / qn k.
Proof.
  intros Hne. destruct (mc_iter_prefix P n v clock perms 0%nat []) as [k [Hk [H1 Hf]]]. specialize (H1 Hne).
  exists k. unfold montecarlo. rewrite Hf. cbn [app].
  assert (Hlen : length (firstn k perms) = k) by (rewrite firstn_length; lia).
  assert (Hne' : firstn k perms <> []) by (intros E; rewrite E in Hlen; cbn in Hlen; lia).
  rewrite average_cols_map by exact Hne'. eexists. split; [lia|]. split; [reflexivity|].
  intros p Hp. rewrite (map_nth_seq _ 0 n p Hp), Hlen. reflexivity.
Qed.

(* ---------- C16: truncation is sound ---------- *)
(* instrumented run of one permutation: the scores seen, most recent first *)
Fixpoint seen (P : mcparams) (v : list bool -> Q) (perm : list nat) (query : list bool) (counter : nat) (acc : list Q)
  : list Q * bool :=       (* (scores seen, most recent first; cut?) *)
  match perm with
  | [] => (acc, false)
  | idx :: rest =>
      let query' := setbit idx query in let new := v query' in
      if in_band P new
      then if Nat.ltb 0 (mc_steps P) && Nat.ltb (mc_steps P) (S counter) then (new :: acc, true)
           else seen P v rest query' (S counter) (new :: acc)
      else seen P v rest query' 0%nat (new :: acc)
  end.

(* the counter is the length of the current in-band run: invariant by induction over the steps *)
Theorem truncation_sound P v : forall perm query counter acc,
  (counter <= length acc)%nat -> forallb (in_band P) (firstn counter acc) = true ->
  snd (seen P v perm query counter acc) = true ->
  (0 < mc_steps P)%nat /\ (mc_steps P < length (fst (seen P v perm query counter acc)))%nat /\
  forallb (in_band P) (firstn (S (mc_steps P)) (fst (seen P v perm query counter acc))) = true.
Proof.
  induction perm as [|idx rest IH]; intros query counter acc Hc Hb; cbn [seen]; [cbn [snd]; discriminate|].
  destruct (in_band P (v (setbit idx query))) eqn:Eb.
  - destruct (Nat.ltb 0 (mc_steps P) && Nat.ltb (mc_steps P) (S counter)) eqn:Ecut.
    + cbn [fst snd]. intros _. apply andb_prop in Ecut as [E1 E2]. apply Nat.ltb_lt in E1. apply Nat.ltb_lt in E2.
      split; [exact E1|]. split; [cbn [length]; lia|].
      cbn [firstn forallb]. rewrite Eb. cbn [andb].
      assert (Hsub : forall k l, (k <= counter)%nat -> forallb (in_band P) (firstn counter l) = true -> forallb (in_band P) (firstn k l) = true).
      { intros k l Hk H. rewrite forallb_forall in *. intros x Hx. apply H.
        rewrite <- (firstn_skipn k (firstn counter l)). rewrite firstn_firstn, Nat.min_l by exact Hk. apply in_or_app. left. exact Hx. }
      apply (Hsub (mc_steps P) acc); [lia|exact Hb].
    + apply IH; [cbn [length]; lia|]. cbn [firstn forallb]. rewrite Eb. exact Hb.
  - apply IH; [lia|reflexivity].
Qed.

(* units after the cut keep the initial zero: a column entry can differ from its initial value only for a unit
   that was evaluated before the cut *)
Lemma evals_mono P v : forall perm query new counter imp evals,
  (evals <= snd (perm_loop P v perm query new counter imp evals))%nat.
Proof.
  induction perm as [|idx rest IH]; intros query new counter imp evals; cbn [perm_loop]; [cbn [snd]; lia|].
  destruct (in_band P (v (setbit idx query))).
  - destruct (Nat.ltb 0 (mc_steps P) && Nat.ltb (mc_steps P) (S counter)); [cbn [snd]; lia|].
    eapply Nat.le_trans; [|apply IH]. lia.
  - eapply Nat.le_trans; [|apply IH]. lia.
Qed.

Lemma set_q_other idx x imp p : (idx < length imp)%nat -> p <> idx -> nth p (set_q idx x imp) 0 = nth p imp 0.
Proof. intros H Hne. unfold set_q. apply nth_set_nth_other; assumption. Qed.

Theorem cut_units_get_zero P v : forall perm query new counter imp evals p,
  (forall r, In r perm -> (r < length imp)%nat) ->
  ~ In p (firstn (snd (perm_loop P v perm query new counter imp evals) - evals) perm) ->
  nth p (fst (perm_loop P v perm query new counter imp evals)) 0 = nth p imp 0.
Proof.
  induction perm as [|idx rest IH]; intros query new counter imp evals p Hlt Hp; cbn [perm_loop] in *; [reflexivity|].
  assert (Hidx : (idx < length imp)%nat) by (apply Hlt; left; reflexivity).
  set (imp' := set_q idx (v (setbit idx query) - new) imp) in *.
  assert (Hlen' : length imp' = length imp) by (apply set_q_length; exact Hidx).
  assert (Hlt' : forall r, In r rest -> (r < length imp')%nat) by (intros r Hr; rewrite Hlen'; apply Hlt; right; exact Hr).
  assert (Hcase : forall c, ~ In p (firstn (snd (perm_loop P v rest (setbit idx query) (v (setbit idx query)) c imp' (S evals)) - evals)
                                     (idx :: rest)) ->
                            nth p (fst (perm_loop P v rest (setbit idx query) (v (setbit idx query)) c imp' (S evals))) 0 = nth p imp 0).
  { intros c Hnot.
    pose proof (evals_mono P v rest (setbit idx query) (v (setbit idx query)) c imp' (S evals)) as Hm.
    set (k := snd (perm_loop P v rest (setbit idx query) (v (setbit idx query)) c imp' (S evals))) in *.
    replace (k - evals)%nat with (S (k - S evals)) in Hnot by lia. cbn [firstn] in Hnot.
    rewrite (IH (setbit idx query) (v (setbit idx query)) c imp' (S evals) p Hlt').
    - unfold imp'. apply set_q_other; [exact Hidx|]. intros ->. apply Hnot. left. reflexivity.
    - intros Hin. apply Hnot. right. exact Hin. }
  destruct (in_band P (v (setbit idx query))).
  - destruct (Nat.ltb 0 (mc_steps P) && Nat.ltb (mc_steps P) (S counter)).
    + cbn [fst snd] in *. replace (S evals - evals)%nat with 1%nat in Hp by lia. cbn [firstn] in Hp.
      unfold imp'. apply set_q_other; [exact Hidx|]. intros ->. apply Hp. left. reflexivity.
    + apply Hcase. exact Hp.
  - apply Hcase. exact Hp.
Qed.
