(* C02 end to end for chain-compiled provenance (one unit per row): the loop of compute_shapley_add over the MODEL of the
   ADD-based oracle (compile, boundary diagrams, restrict, sum, modelcount) is the Shapley value of the KNN game. *)
From Coq Require Import List Arith ZArith QArith Lia Bool Setoid.
From DS Require Import Util.SumQ Spec.Shapley Model.ADD Spec.Count Spec.Knn Model.Oracle Model.ShapleyAdd
     Proofs.ShapleyAxioms Proofs.KernelFull Proofs.KnnShapley Proofs.OracleExact Proofs.OracleValid Proofs.CompileValid Proofs.CompileGraph.
Import ListNotations.
Local Open Scope Q_scope.

Definition oracle_of (p : cprob) (d : add) (locs : list (list loc)) : oracle_fn :=
  fun target t1 t2 => match oracle_query p d locs target t1 t2 with Some c => c | None => [] end.
Definition chain_oracle (p : cprob) : oracle_fn :=
  oracle_of p (fst (compile_chain (p_type p) (p_units p) (map (fun r => (hd 0%nat r, true)) (p_rows p))))
              (snd (compile_chain (p_type p) (p_units p) (map (fun r => (hd 0%nat r, true)) (p_rows p)))).

Lemma shapley_add_point_ext p (o1 o2 : oracle_fn) ucol null :
  (forall i t1 t2, (i < p_units p)%nat -> o1 i t1 t2 = o2 i t1 t2) ->
  forall i, (i < p_units p)%nat -> nth i (shapley_add_point p o1 ucol null) 0 == nth i (shapley_add_point p o2 ucol null) 0.
Proof.
  intros H i Hi. unfold shapley_add_point. rewrite !map_nth_seq by exact Hi.
  apply sumQ_ext. intros t1 _. apply sumQ_ext. intros t2 _. rewrite (H i t1 t2 Hi). reflexivity.
Qed.

Lemma chain_oracle_exact p : (forall r, (r < length (p_rows p))%nat -> exists u, nth r (p_rows p) [] = [u] /\ (u < p_units p)%nat) ->
  (2 <= p_units p)%nat -> forall i t1 t2, (i < p_units p)%nat -> chain_oracle p i t1 t2 = count_spec p i t1 t2.
Proof.
  intros Hrows Hn i t1 t2 Hi. unfold chain_oracle, oracle_of. rewrite (oracle_chain_exact p i t1 t2 Hrows Hn Hi). reflexivity.
Qed.

Theorem add_chain_is_shapley n K C rows labels dists ucols nulls i :
  (2 <= n)%nat -> (i < n)%nat -> (1 <= K)%nat ->
  (forall r, (r < length rows)%nat -> exists u, nth r rows [] = [u] /\ (u < n)%nat) ->
  (forall r, (r < length rows)%nat -> (nth r labels 0 < C)%nat) ->
  (forall d, In d dists -> length d = length rows /\ NoDup (map Qred d)) ->
  nth i (shapley_add (map (fun d => mkProb n rows labels d (n - 1) K C) dists)
                     (map chain_oracle (map (fun d => mkProb n rows labels d (n - 1) K C) dists)) ucols nulls n) 0
  == shapley n (v_knn K C rows labels dists ucols nulls) i.
Proof.
  intros Hn Hi HK Hrows Hlab Hd. rewrite <- (add_is_shapley n K C rows labels dists ucols nulls i Hi HK Hlab Hd).
  unfold shapley_add. rewrite !map_nth_seq by exact Hi.
  rewrite (combine_points (fun p o uc nl => nth i (shapley_add_point p o uc nl) 0) (fun d => mkProb n rows labels d (n - 1) K C) chain_oracle).
  rewrite (combine_points (fun p o uc nl => nth i (shapley_add_point p o uc nl) 0) (fun d => mkProb n rows labels d (n - 1) K C) (fun p => count_spec p)).
  apply Qmult_comp; [|reflexivity]. apply sumQ_ext. intros [[d u] nl] _. cbn [fst snd].
  apply shapley_add_point_ext; [|exact Hi]. intros i' t1 t2 Hi'. apply chain_oracle_exact; assumption.
Qed.

(* any conjunctive provenance (rows needing several units, compile()'s leaf/factor case): whenever the validator accepts
   the compiled diagram and row locations, the loop over the model of the ADD-based oracle is the Shapley value *)
Theorem add_validated_is_shapley n K C rows labels dists ucols nulls d locs i :
  (2 <= n)%nat -> (i < n)%nat -> (1 <= K)%nat ->
  (forall ds, In ds dists -> valid_compiled (mkProb n rows labels ds (n - 1) K C) d locs = true) ->
  (forall r, (r < length rows)%nat -> (nth r labels 0 < C)%nat) ->
  (forall ds, In ds dists -> length ds = length rows /\ NoDup (map Qred ds)) ->
  nth i (shapley_add (map (fun ds => mkProb n rows labels ds (n - 1) K C) dists)
                     (map (fun p => oracle_of p d locs) (map (fun ds => mkProb n rows labels ds (n - 1) K C) dists)) ucols nulls n) 0
  == shapley n (v_knn K C rows labels dists ucols nulls) i.
Proof.
  intros Hn Hi HK Hv Hlab Hd. rewrite <- (add_is_shapley n K C rows labels dists ucols nulls i Hi HK Hlab Hd).
  unfold shapley_add. rewrite !map_nth_seq by exact Hi.
  rewrite (combine_points (fun p o uc nl => nth i (shapley_add_point p o uc nl) 0) (fun ds => mkProb n rows labels ds (n - 1) K C) (fun p => oracle_of p d locs)).
  rewrite (combine_points (fun p o uc nl => nth i (shapley_add_point p o uc nl) 0) (fun ds => mkProb n rows labels ds (n - 1) K C) (fun p => count_spec p)).
  apply Qmult_comp; [|reflexivity]. apply sumQ_ext. intros [[ds u] nl] Ht. cbn [fst snd].
  apply in_combine_l in Ht. apply in_combine_l in Ht.
  apply shapley_add_point_ext; [|exact Hi]. intros i' t1 t2 Hi'. unfold oracle_of.
  rewrite (oracle_exact_validated _ d locs i' t1 t2 (Hv ds Ht)); [reflexivity|exact Hn|exact Hi'].
Qed.

(* any conjunctive provenance through the MODEL of compile(): for every admissible component structure (hints_ok) the loop
   over the oracle built on the modelled diagram and row locations is the Shapley value *)
Theorem add_compile_is_shapley n K C rows labels dists ucols nulls comps i :
  (2 <= n)%nat -> (i < n)%nat -> (1 <= K)%nat ->
  hints_ok n rows comps = true ->
  (forall r, (r < length rows)%nat -> (nth r labels 0 < C)%nat) ->
  (forall ds, In ds dists -> length ds = length rows /\ NoDup (map Qred ds)) ->
  nth i (shapley_add (map (fun ds => mkProb n rows labels ds (n - 1) K C) dists)
                     (map (fun p => oracle_of p (compile_add (p_type p) comps) (map (row_locs 0 comps) (p_rows p)))
                          (map (fun ds => mkProb n rows labels ds (n - 1) K C) dists)) ucols nulls n) 0
  == shapley n (v_knn K C rows labels dists ucols nulls) i.
Proof.
  intros Hn Hi HK Hh Hlab Hd. rewrite <- (add_is_shapley n K C rows labels dists ucols nulls i Hi HK Hlab Hd).
  unfold shapley_add. rewrite !map_nth_seq by exact Hi.
  rewrite (combine_points (fun p o uc nl => nth i (shapley_add_point p o uc nl) 0) (fun ds => mkProb n rows labels ds (n - 1) K C)
                          (fun p => oracle_of p (compile_add (p_type p) comps) (map (row_locs 0 comps) (p_rows p)))).
  rewrite (combine_points (fun p o uc nl => nth i (shapley_add_point p o uc nl) 0) (fun ds => mkProb n rows labels ds (n - 1) K C) (fun p => count_spec p)).
  apply Qmult_comp; [|reflexivity]. apply sumQ_ext. intros [[ds u] nl] Ht. cbn [fst snd].
  apply shapley_add_point_ext; [|exact Hi]. intros i' t1 t2 Hi'. unfold oracle_of.
  rewrite (oracle_compile_exact (mkProb n rows labels ds (n - 1) K C) comps i' t1 t2); [reflexivity|exact Hh|exact Hn|exact Hi'].
Qed.

(* the same with the graph step of compile() inside the model: any visiting order of the units for the greedy leaf selection
   (the code: np.argsort(degrees)) and any row-closed partition of the units (the code: scipy's connected components) *)
Theorem add_graph_is_shapley n K C rows labels dists ucols nulls order components i :
  (2 <= n)%nat -> (i < n)%nat -> (1 <= K)%nat ->
  graph_ok n rows order components = true ->
  (forall r, (r < length rows)%nat -> (nth r labels 0 < C)%nat) ->
  (forall ds, In ds dists -> length ds = length rows /\ NoDup (map Qred ds)) ->
  let comps := build_hints n rows order components in
  nth i (shapley_add (map (fun ds => mkProb n rows labels ds (n - 1) K C) dists)
                     (map (fun p => oracle_of p (compile_add (p_type p) comps) (map (row_locs 0 comps) (p_rows p)))
                          (map (fun ds => mkProb n rows labels ds (n - 1) K C) dists)) ucols nulls n) 0
  == shapley n (v_knn K C rows labels dists ucols nulls) i.
Proof. intros Hn Hi HK Hg Hlab Hd comps. apply add_compile_is_shapley; try assumption. apply graph_hints_ok. exact Hg. Qed.
