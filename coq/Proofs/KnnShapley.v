(* C02: the loop of compute_shapley_add over the counting specification computes the Shapley value of the
   K-nearest-neighbour game (conjunctive provenance, pairwise distinct distances). *)
From Coq Require Import List Arith ZArith QArith Lia Bool Setoid Morphisms Permutation Lqa.
From DS Require Import Util.SumQ Util.ListX Spec.Shapley Model.ADD Model.Bruteforce Spec.Count Spec.Knn Model.ShapleyAdd
     Proofs.ShapleyAxioms Proofs.KernelFull Proofs.BruteforceShapley Proofs.ADDProofs Proofs.OracleProofs.
Import ListNotations.
Local Open Scope Q_scope.

(* ---------- A. a sum weighted by a histogram is a sum over the values ---------- *)
Lemma indicator_pick (dom : list aval) (F : aval -> Q) v : NoDup dom -> In v dom ->
  sumQ (fun e => (if a_eqb e v then 1 else 0) * F e) dom == F v.
Proof.
  induction dom as [|e dom IH]; intros Hnd Hin; [destruct Hin|]. inversion Hnd as [|? ? He Hnd']; subst.
  rewrite sumQ_cons. destruct Hin as [->|Hin].
  - rewrite a_eqb_refl. rewrite (sumQ_ext _ (fun _ => 0)); [rewrite sumQ_zero; ring|].
    intros x Hx. rewrite a_eqb_neq by (intros ->; contradiction). ring.
  - rewrite a_eqb_neq by (intros ->; contradiction). rewrite IH by assumption. ring.
Qed.

Theorem histogram_sum t (vals : list aval) (F : aval -> Q) : NoDup (domain t) -> (forall v, In v vals -> In v (domain t)) ->
  sumQ (fun ec : aval * nat => qn (snd ec) * F (fst ec)) (combine (domain t) (histogram t vals)) == sumQ F vals.
Proof.
  intros Hnd. unfold histogram.
  assert (Hc : forall (h : aval -> nat) (l : list aval),
             sumQ (fun ec : aval * nat => qn (snd ec) * F (fst ec)) (combine l (map h l)) == sumQ (fun e => qn (h e) * F e) l).
  { intros h l. induction l as [|e l IHl]; [reflexivity|]. cbn [map combine]. rewrite !sumQ_cons, IHl. reflexivity. }
  rewrite Hc. clear Hc. induction vals as [|v vals IH]; intros Hall.
  - cbn [filter length]. rewrite (sumQ_ext _ (fun _ => 0)); [apply sumQ_zero|]. intros e _. unfold qn. cbn. ring.
  - rewrite sumQ_cons.
    rewrite (sumQ_ext _ (fun e => (if a_eqb e v then 1 else 0) * F e + qn (length (filter (a_eqb e) vals)) * F e)).
    + rewrite sumQ_plus, IH by (intros w Hw; apply Hall; right; exact Hw).
      rewrite indicator_pick; [reflexivity|exact Hnd|apply Hall; left; reflexivity].
    + intros e _. cbn [filter]. destruct (a_eqb e v); cbn [length]; [rewrite qn_S|]; ring.
Qed.

(* ---------- B. coalitions not containing i = assignments of the other players ---------- *)
Lemma masks_bmasks n : masks n = bmasks n.
Proof. induction n as [|n IH]; [reflexivity|]. cbn [masks bmasks]. rewrite IH. reflexivity. Qed.

Lemma sum_without_player : forall n i (G : list bool -> Q), (i < n)%nat ->
  sumQ (fun m => if nth i m false then 0 else G m) (masks n) == sumQ (fun x => G (insert_bit i false x)) (bmasks (n - 1)).
Proof.
  induction n as [|k IH]; intros i G Hi; [lia|]. cbn [masks]. rewrite sumQ_app, !sumQ_map.
  replace (S k - 1)%nat with k by lia. destruct i as [|i].
  - cbn [nth]. rewrite sumQ_zero, masks_bmasks. unfold insert_bit. cbn [firstn skipn app]. ring.
  - cbn [nth]. destruct k as [|k']; [lia|].
    rewrite (IH i (fun t => G (false :: t))) by lia. rewrite (IH i (fun t => G (true :: t))) by lia.
    replace (S k' - 1)%nat with k' by lia. cbn [bmasks]. rewrite sumQ_app, !sumQ_map. unfold insert_bit. cbn [firstn skipn app]. reflexivity.
Qed.

Lemma insert_bit_length i b x : (i <= length x)%nat -> length (insert_bit i b x) = S (length x).
Proof. intros H. unfold insert_bit. rewrite app_length, firstn_length, Nat.min_l by lia. cbn [length]. rewrite skipn_length. lia. Qed.
Lemma setbit_insert i x : (i <= length x)%nat -> setbit i (insert_bit i false x) = insert_bit i true x.
Proof.
  revert x. unfold insert_bit. induction i as [|i IH]; intros x H; [reflexivity|].
  destruct x as [|b x]; [cbn in H; lia|]. cbn [firstn skipn app setbit]. f_equal. apply IH. cbn in H. lia.
Qed.
Lemma cnt_insert_false i x : cnt (insert_bit i false x) = count_true x.
Proof.
  unfold insert_bit, count_true. rewrite <- (firstn_skipn i x) at 3. rewrite filter_app, app_length.
  assert (E : forall l, cnt l = length (filter (fun b : bool => b) l)).
  { induction l as [|[] l IHl]; cbn [cnt filter length]; lia. }
  rewrite E, filter_app, app_length. cbn [filter]. reflexivity.
Qed.

(* the Shapley weight is 1 / (n * C(n-1, s)) *)
Lemma weight_binom n s : (s < n)%nat -> w n s == 1 / (qn n * qn (binom (n - 1) s)).
Proof.
  intros H. unfold w. destruct n as [|n]; [lia|]. replace (S n - 1)%nat with n by lia. replace (S n - s - 1)%nat with (n - s)%nat by lia.
  pose proof (binom_fact n s ltac:(lia)) as Hb.
  assert (E : qn (binom n s) * (qf s * qf (n - s)) == qf n) by (unfold qf; rewrite <- qn_mult; apply qn_inj_mult; exact Hb).
  rewrite (qf_S n). assert (0 < qn (binom n s)) by (apply qn_pos, binom_pos; lia). assert (0 < qn (S n)) by (apply qn_pos; lia).
  pose proof (qf_pos s). pose proof (qf_pos (n - s)). pose proof (qf_pos n). rewrite <- E. field. repeat split; lra.
Qed.

(* ---------- C. ranks under pairwise distinct distances ---------- *)
Lemma filter_length_le {A} (f : A -> bool) l : (length (filter f l) <= length l)%nat.
Proof. induction l as [|a l IH]; cbn [filter length]; [lia|]. destruct (f a); cbn [length]; lia. Qed.
Lemma filter_length_mono {A} (f g : A -> bool) l : (forall x, In x l -> f x = true -> g x = true) ->
  (length (filter f l) <= length (filter g l))%nat.
Proof.
  induction l as [|a l IH]; intros H; cbn [filter length]; [lia|].
  assert (IH' := IH (fun x Hx => H x (or_intror Hx))). pose proof (H a (or_introl eq_refl)) as Ha.
  destruct (f a) eqn:Fa; [rewrite (Ha eq_refl); cbn [length]; lia|]. destruct (g a); cbn [length]; lia.
Qed.
Lemma filter_length_lt {A} (f g : A -> bool) l a : (forall x, In x l -> f x = true -> g x = true) ->
  In a l -> f a = false -> g a = true -> (length (filter f l) < length (filter g l))%nat.
Proof.
  induction l as [|b l IH]; intros H Hin Fa Ga; [destruct Hin|]. cbn [filter].
  assert (H' : forall x, In x l -> f x = true -> g x = true) by (intros x Hx; apply H; right; exact Hx).
  destruct Hin as [->|Hin].
  - rewrite Fa, Ga. cbn [length]. pose proof (filter_length_mono f g l H'). lia.
  - pose proof (IH H' Hin Fa Ga). pose proof (H b (or_introl eq_refl)) as Hb.
    destruct (f b); [rewrite (Hb eq_refl); cbn [length]; lia|]. destruct (g b); cbn [length]; lia.
Qed.
Lemma filter_filter' {A} (f g : A -> bool) l : filter f (filter g l) = filter (fun x => g x && f x) l.
Proof. induction l as [|a l IH]; [reflexivity|]. cbn [filter]. destruct (g a); cbn [filter andb]; [destruct (f a)|]; rewrite IH; reflexivity. Qed.
Lemma NoDup_map_inj {A B} (f : A -> B) l : NoDup l -> (forall x y, In x l -> In y l -> f x = f y -> x = y) -> NoDup (map f l).
Proof.
  induction l as [|a l IH]; intros Hnd Hinj; [constructor|]. inversion Hnd as [|? ? Ha Hnd']; subst. cbn [map]. constructor.
  - intros Hin. apply in_map_iff in Hin. destruct Hin as [x [Hx Hin]]. apply Ha.
    rewrite (Hinj a x (or_introl eq_refl) (or_intror Hin) (eq_sym Hx)). exact Hin.
  - apply IH; [exact Hnd'|]. intros x y Hx Hy. apply Hinj; right; assumption.
Qed.

Section Rank.
  Variable d : nat -> Q.
  Variable P : list nat.
  Hypothesis Pnd : NoDup P.
  Hypothesis dinj : forall r r', In r P -> In r' P -> d r == d r' -> r = r'.

  Lemma nle_pos t : In t P -> (1 <= nle d P t)%nat.
  Proof.
    intros H. unfold nle. assert (In t (filter (fun r => Qle_bool (d r) (d t)) P)).
    { apply filter_In. split; [exact H|]. apply Qle_bool_iff. apply Qle_refl. }
    destruct (filter _ P); [contradiction|cbn [length]; lia].
  Qed.
  Lemma nle_le t : (nle d P t <= length P)%nat.
  Proof. apply filter_length_le. Qed.
  Lemma nle_mono r t : d r <= d t -> (nle d P r <= nle d P t)%nat.
  Proof.
    intros H. apply filter_length_mono. intros x _ Hx. apply Qle_bool_iff in Hx. apply Qle_bool_iff. eapply Qle_trans; eassumption.
  Qed.
  Lemma nle_strict r t : In t P -> d r < d t -> (nle d P r < nle d P t)%nat.
  Proof.
    intros Ht H. apply (filter_length_lt _ _ P t).
    - intros x _ Hx. apply Qle_bool_iff in Hx. apply Qle_bool_iff. apply Qlt_le_weak. eapply Qle_lt_trans; eassumption.
    - exact Ht.
    - destruct (Qle_bool (d t) (d r)) eqn:E; [|reflexivity]. apply Qle_bool_iff in E. exfalso. apply (Qlt_not_le _ _ H). exact E.
    - apply Qle_bool_iff. apply Qle_refl.
  Qed.
  Lemma nle_le_iff r t : In r P -> In t P -> ((nle d P r <= nle d P t)%nat <-> d r <= d t).
  Proof.
    intros Hr Ht. split; [|apply nle_mono]. intros H. destruct (Qlt_le_dec (d t) (d r)) as [L|L]; [|exact L].
    pose proof (nle_strict t r Hr L). lia.
  Qed.
  Lemma nle_inj r t : In r P -> In t P -> nle d P r = nle d P t -> r = t.
  Proof.
    intros Hr Ht E. apply dinj; try assumption. apply Qle_antisym; apply nle_le_iff; try assumption; lia.
  Qed.

  Lemma rank_exists K : (1 <= K)%nat -> (K <= length P)%nat -> exists t, In t P /\ nle d P t = K.
  Proof.
    intros H1 H2.
    assert (Hnd : NoDup (map (nle d P) P)) by (apply NoDup_map_inj; [exact Pnd|intros x y Hx Hy; apply nle_inj; assumption]).
    assert (Hincl : incl (map (nle d P) P) (seq 1 (length P))).
    { intros k Hk. apply in_map_iff in Hk. destruct Hk as [t [<- Ht]]. apply in_seq. pose proof (nle_pos t Ht). pose proof (nle_le t). lia. }
    assert (Hback : incl (seq 1 (length P)) (map (nle d P) P)).
    { apply NoDup_length_incl; [exact Hnd| rewrite map_length, seq_length; lia | exact Hincl]. }
    assert (Hk : In K (map (nle d P) P)) by (apply Hback, in_seq; lia).
    apply in_map_iff in Hk. destruct Hk as [t [E Ht]]. exists t. split; assumption.
  Qed.

  (* exactly one row has rank K when 1 <= K <= |P|, none otherwise *)
  Lemma rank_count K : (1 <= K)%nat ->
    length (filter (fun t => Nat.eqb (nle d P t) K) P) = if Nat.leb K (length P) then 1%nat else 0%nat.
  Proof.
    intros H1. destruct (Nat.leb_spec K (length P)) as [H2|H2].
    - destruct (rank_exists K H1 H2) as [t [Ht E]].
      assert (Hall : forall x, In x (filter (fun t => Nat.eqb (nle d P t) K) P) -> x = t).
      { intros x Hx. apply filter_In in Hx. destruct Hx as [Hx Ex]. apply Nat.eqb_eq in Ex. apply nle_inj; try assumption. lia. }
      assert (Hin : In t (filter (fun t => Nat.eqb (nle d P t) K) P)) by (apply filter_In; split; [exact Ht|apply Nat.eqb_eq; exact E]).
      assert (Hnd := NoDup_filter (fun t => Nat.eqb (nle d P t) K) Pnd).
      destruct (filter (fun t => Nat.eqb (nle d P t) K) P) as [|a [|b l]]; [destruct Hin|reflexivity|].
      exfalso. inversion Hnd as [|? ? Ha _]; subst. apply Ha. left.
      rewrite (Hall a (or_introl eq_refl)), (Hall b (or_intror (or_introl eq_refl))). reflexivity.
    - assert (E : filter (fun t => Nat.eqb (nle d P t) K) P = []).
      { destruct (filter (fun t => Nat.eqb (nle d P t) K) P) as [|a l] eqn:Ef; [reflexivity|]. exfalso.
        assert (Ha : In a (filter (fun t => Nat.eqb (nle d P t) K) P)) by (rewrite Ef; left; reflexivity).
        apply filter_In in Ha. destruct Ha as [_ Ea]. apply Nat.eqb_eq in Ea. pose proof (nle_le a). lia. }
      rewrite E. reflexivity.
  Qed.
End Rank.

(* ---------- D. label tallies are tallies over filtered row lists ---------- *)
Local Close Scope Q_scope.
Lemma vadd_length a b : length a = length b -> length (vadd a b) = length a.
Proof. intros H. unfold vadd. rewrite map_length, combine_length. lia. Qed.
Lemma vadd_zero_l : forall v, vadd (repeat 0 (length v)) v = v.
Proof. induction v as [|x v IH]; [reflexivity|]. cbn [length repeat]. unfold vadd in *. cbn [combine map fst snd]. rewrite IH. reflexivity. Qed.
Lemma onehot_length c k : length (onehot c k) = c.
Proof. unfold onehot. rewrite map_length, seq_length. reflexivity. Qed.
Lemma vsum_length c vs : (forall v, In v vs -> length v = c) -> length (vsum c vs) = c.
Proof.
  induction vs as [|v vs IH]; intros H; cbn [vsum fold_right]; [apply repeat_length|].
  fold (vsum c vs). rewrite vadd_length; [apply H; left; reflexivity|]. rewrite IH; [apply H; left; reflexivity|intros w Hw; apply H; right; exact Hw].
Qed.
Lemma vsum_filter c (cond : nat -> bool) (f : nat -> list nat) l : (forall r, length (f r) = c) ->
  vsum c (map (fun r => if cond r then f r else repeat 0 c) l) = vsum c (map f (filter cond l)).
Proof.
  intros Hf. induction l as [|r l IH]; [reflexivity|]. cbn [map filter]. destruct (cond r).
  - cbn [map]. unfold vsum in *. cbn [fold_right]. rewrite IH. reflexivity.
  - unfold vsum in *. cbn [fold_right]. rewrite IH. fold (vsum c (map f (filter cond l))).
    assert (L : length (vsum c (map f (filter cond l))) = c).
    { apply vsum_length. intros v Hv. apply in_map_iff in Hv. destruct Hv as [x [<- _]]. apply Hf. }
    rewrite <- L at 1. apply vadd_zero_l.
Qed.
Lemma sum_nat_vadd : forall a b, length a = length b -> sum_nat (vadd a b) = sum_nat a + sum_nat b.
Proof.
  induction a as [|x a IH]; intros [|y b] H; try discriminate; [reflexivity|]. unfold vadd in *. cbn [combine map fst snd sum_nat fold_right].
  fold (sum_nat (map (fun p => fst p + snd p) (combine a b))). rewrite IH by (cbn in H; lia). fold (sum_nat a) (sum_nat b). lia.
Qed.
Lemma sum_nat_repeat0 c : sum_nat (repeat 0 c) = 0.
Proof. induction c as [|c IH]; [reflexivity|]. cbn [repeat sum_nat fold_right]. fold (sum_nat (repeat 0 c)). rewrite IH. reflexivity. Qed.
Lemma sum_nat_onehot_gen k : forall c s, sum_nat (map (fun i => if Nat.eqb i k then 1 else 0) (seq s c)) = if (s <=? k) && (k <? s + c) then 1 else 0.
Proof.
  induction c as [|c IH]; intros s; cbn [seq map sum_nat fold_right].
  - destruct (Nat.leb_spec s k), (Nat.ltb_spec k (s + 0)); cbn [andb]; try reflexivity; lia.
  - fold (sum_nat (map (fun i => if Nat.eqb i k then 1 else 0) (seq (S s) c))). rewrite IH.
    destruct (Nat.eqb_spec s k), (Nat.leb_spec (S s) k), (Nat.ltb_spec k (S s + c)), (Nat.leb_spec s k), (Nat.ltb_spec k (s + S c)); cbn [andb]; lia.
Qed.
Lemma sum_nat_onehot c k : k < c -> sum_nat (onehot c k) = 1.
Proof. intros H. unfold onehot. rewrite sum_nat_onehot_gen. destruct (Nat.leb_spec 0 k), (Nat.ltb_spec k (0 + c)); cbn [andb]; lia. Qed.
Lemma sum_vsum_onehot c (lab : nat -> nat) l : (forall r, In r l -> lab r < c) ->
  sum_nat (vsum c (map (fun r => onehot c (lab r)) l)) = length l.
Proof.
  induction l as [|r l IH]; intros H; cbn [map vsum fold_right length]; [apply sum_nat_repeat0|].
  fold (vsum c (map (fun r => onehot c (lab r)) l)). rewrite sum_nat_vadd.
  - rewrite sum_nat_onehot by (apply H; left; reflexivity). rewrite IH by (intros x Hx; apply H; right; exact Hx). reflexivity.
  - rewrite onehot_length, vsum_length; [reflexivity|]. intros v Hv. apply in_map_iff in Hv. destruct Hv as [x [<- _]]. apply onehot_length.
Qed.

Section Tally.
  Variable p : cprob.
  Let dq (r : nat) : Q := nth r (p_dist p) 0%Q.
  Let lab (r : nat) : nat := nth r (p_labels p) 0.
  Let C := p_classes p.
  Definition tl_of (l : list nat) : list nat := vsum (p_classes p) (map (fun r => onehot (p_classes p) (nth r (p_labels p) 0)) l).

  Lemma label_tally_some x t :
    label_tally p x (Some t) = tl_of (filter (fun r => Qle_bool (dq r) (dq t)) (present_rows (p_rows p) x)).
  Proof.
    unfold label_tally, tl_of, present_rows. rewrite filter_filter'. apply vsum_filter. intros r. apply onehot_length.
  Qed.
  Lemma label_tally_none x : label_tally p x None = tl_of (present_rows (p_rows p) x).
  Proof.
    unfold label_tally, tl_of, present_rows.
    rewrite (vsum_filter _ (fun r => row_present (nth r (p_rows p) []) x && true)) by (intros r; apply onehot_length).
    f_equal. f_equal. apply filter_ext. intros r. apply andb_true_r.
  Qed.
  Lemma tl_of_length l : length (tl_of l) = p_classes p.
  Proof. unfold tl_of. apply vsum_length. intros v Hv. apply in_map_iff in Hv. destruct Hv as [x [<- _]]. apply onehot_length. Qed.
  Lemma tl_of_sum l : (forall r, In r l -> nth r (p_labels p) 0 < p_classes p) -> sum_nat (tl_of l) = length l.
  Proof. intros H. unfold tl_of. apply (sum_vsum_onehot (p_classes p) (fun r => nth r (p_labels p) 0)). exact H. Qed.
End Tally.

(* ---------- E. one oracle entry, one assignment ---------- *)
Lemma In_le_sum x l : In x l -> x <= sum_nat l.
Proof. induction l as [|y l IH]; intros H; [destruct H|]. cbn [sum_nat fold_right]. fold (sum_nat l). destruct H as [->|H]; [lia|]. specialize (IH H). lia. Qed.
Lemma forallb_le_repeat K : forall v m, (forall x, In x v -> x <= K) -> forallb (fun q => fst q <=? snd q) (combine v (repeat K m)) = true.
Proof.
  induction v as [|x v IH]; intros m H; [reflexivity|]. destruct m as [|m]; [reflexivity|]. cbn [repeat combine forallb fst snd].
  rewrite (proj2 (Nat.leb_le x K)) by (apply H; left; reflexivity). cbn [andb]. apply IH. intros y Hy. apply H. right. exact Hy.
Qed.
Lemma slots_lw c (s : nat) (lw lwo : list nat) : length lw = c -> firstn c (skipn 1 (s :: lw ++ lwo)) = lw.
Proof. intros H. subst c. cbn [skipn]. rewrite firstn_app, Nat.sub_diag. cbn [firstn]. rewrite app_nil_r. apply firstn_all. Qed.
Lemma slots_lwo c (s : nat) (lw lwo : list nat) : length lw = c -> length lwo = c -> firstn c (skipn (S c) (s :: lw ++ lwo)) = lwo.
Proof. intros H H'. subst c. cbn [skipn]. rewrite skipn_app, Nat.sub_diag, skipn_all. cbn [skipn app]. rewrite <- H'. apply firstn_all. Qed.
Lemma inb_tally nt K c s lw lwo : length lw = c -> length lwo = c -> s <= nt -> sum_nat lw <= K -> sum_nat lwo <= K ->
  inb (tally nt K c) (s :: lw ++ lwo) = true.
Proof.
  intros H H' Hs Hw Hwo. unfold inb. cbn [tally a_max a_tally]. rewrite (slots_lw c s lw lwo H), (slots_lwo c s lw lwo H H').
  rewrite (proj2 (Nat.leb_le _ _) Hw), (proj2 (Nat.leb_le _ _) Hwo). cbn [andb]. rewrite andb_true_r.
  unfold leb_all. cbn [length]. rewrite app_length, repeat_length, H, H'. replace (S (c + c)) with (S (2 * c)) by lia. rewrite Nat.eqb_refl. cbn [andb combine forallb fst snd].
  rewrite (proj2 (Nat.leb_le _ _) Hs). cbn [andb]. apply forallb_le_repeat. intros x Hx. apply in_app_or in Hx.
  destruct Hx as [Hx|Hx]; apply In_le_sum in Hx; lia.
Qed.

Local Open Scope Q_scope.
Lemma entry_term_cnt p n ucol null t2 e c : entry_term p n ucol null t2 e c == qn c * entry_term p n ucol null t2 e 1.
Proof.
  unfold entry_term. destruct e as [v|]; [|ring].
  set (X := negb (Nat.eqb (sum_nat (firstn (p_classes p) (skipn 1 v))) (p_k p))).
  set (Y := match t2 with Some _ => negb (Nat.eqb (sum_nat (firstn (p_classes p) (skipn (S (p_classes p)) v))) (p_k p))
                        | None => Nat.leb (p_k p) (sum_nat (firstn (p_classes p) (skipn (S (p_classes p)) v))) end).
  set (a := 1 / qn (binom (n - 1) (hd 0%nat v))).
  set (df := match t2 with Some _ => _ | None => _ end).
  change (Nat.eqb 1 0) with false. cbn [orb].
  destruct (Nat.eqb_spec c 0) as [->|Hc]; cbn [orb].
  - change (qn 0) with 0. ring.
  - destruct (X || Y); [ring|]. change (qn 1) with 1. ring.
Qed.

Lemma entry_term_clip (p : cprob) n s lw lwo ucol null t2 :
  p_numtuples p = (n - 1)%nat -> length lw = p_classes p -> length lwo = p_classes p -> (s <= n - 1)%nat ->
  entry_term p n ucol null t2 (clip (p_type p) (s :: lw ++ lwo)) 1 ==
  if Nat.eqb (sum_nat lw) (p_k p) && match t2 with Some _ => Nat.eqb (sum_nat lwo) (p_k p) | None => Nat.ltb (sum_nat lwo) (p_k p) end
  then (1 / qn (binom (n - 1) s)) * (nth (argmax_first lw) ucol 0 - match t2 with Some _ => nth (argmax_first lwo) ucol 0 | None => null end)
  else 0.
Proof.
  intros Hn H H' Hs. unfold clip. destruct (inb (p_type p) (s :: lw ++ lwo)) eqn:Ei.
  - unfold entry_term. cbn [hd]. rewrite (slots_lw _ s lw lwo H), (slots_lwo _ s lw lwo H H').
    change (Nat.eqb 1 0) with false. cbn [orb].
    destruct (Nat.eqb (sum_nat lw) (p_k p)); cbn [negb orb andb]; [|reflexivity].
    destruct t2 as [t|].
    + destruct (Nat.eqb (sum_nat lwo) (p_k p)); cbn [negb]; [|reflexivity]. change (qn 1) with 1. ring.
    + rewrite Nat.ltb_antisym. destruct (Nat.leb (p_k p) (sum_nat lwo)); cbn [negb]; [reflexivity|]. change (qn 1) with 1. ring.
  - cbn [entry_term]. destruct (Nat.eqb_spec (sum_nat lw) (p_k p)) as [E1|E1]; cbn [andb]; [|reflexivity].
    destruct (match t2 with Some _ => Nat.eqb (sum_nat lwo) (p_k p) | None => Nat.ltb (sum_nat lwo) (p_k p) end) eqn:E2; [|reflexivity].
    exfalso. assert (Hwo : (sum_nat lwo <= p_k p)%nat).
    { destruct t2; [apply Nat.eqb_eq in E2; lia|apply Nat.ltb_lt in E2; lia]. }
    unfold p_type in Ei. rewrite inb_tally in Ei; try assumption; [discriminate|lia|lia].
Qed.

(* ---------- F. one assignment of the other units: the boundary-pair double sum is the marginal ---------- *)
Lemma sumQ_indicator {A} (f : A -> bool) (c : Q) l : sumQ (fun a => if f a then c else 0) l == qn (length (filter f l)) * c.
Proof.
  induction l as [|a l IH]; [cbn [filter length]; rewrite sumQ_nil; change (qn 0) with 0; ring|]. rewrite sumQ_cons, IH. cbn [filter]. destruct (f a); cbn [length]; [rewrite qn_S|]; ring.
Qed.
Lemma count_true_le x : (count_true x <= length x)%nat.
Proof. apply filter_length_le. Qed.
Lemma bmasks_length n x : In x (bmasks n) -> length x = n.
Proof. rewrite <- masks_bmasks. apply masks_length. Qed.
Lemma row_present_mono units i x : row_present units (insert_bit i false x) = true -> row_present units (insert_bit i true x) = true.
Proof.
  unfold row_present. rewrite !forallb_forall. intros H u Hu. specialize (H u Hu). revert H. unfold insert_bit.
  destruct (Nat.lt_ge_cases u (length (firstn i x))) as [L|L].
  - rewrite !app_nth1 by exact L. auto.
  - rewrite !app_nth2 by exact L. destruct (u - length (firstn i x))%nat; cbn [nth]; auto.
Qed.

Lemma nearest_of_rank d P K t : (forall r r', In r P -> In r' P -> d r == d r' -> r = r') -> In t P -> nle d P t = K ->
  filter (fun r => Qle_bool (d r) (d t)) P = nearest K d P.
Proof.
  intros dinj Ht E. unfold nearest. apply filter_ext_in. intros r Hr. subst K.
  destruct (Nat.leb_spec (nle d P r) (nle d P t)) as [L|L].
  - apply Qle_bool_iff. apply (nle_le_iff d P r t Hr Ht). exact L.
  - destruct (Qle_bool (d r) (d t)) eqn:Eq; [|reflexivity]. apply Qle_bool_iff in Eq. apply (nle_le_iff d P r t Hr Ht) in Eq. lia.
Qed.

Section OneAssignment.
  Variables (n K C : nat) (rows : list (list nat)) (labels : list nat) (dist ucol : list Q) (null : Q) (i : nat) (x : list bool).
  Let p := mkProb n rows labels dist (n - 1) K C.
  Let R := length rows.
  Let dq (r : nat) : Q := nth r dist 0.
  Hypothesis HK : (1 <= K)%nat.
  Hypothesis Hlab : forall r, (r < R)%nat -> (nth r labels 0 < C)%nat.
  Hypothesis Hd : forall r r', (r < R)%nat -> (r' < R)%nat -> dq r == dq r' -> r = r'.
  Hypothesis Hx : (count_true x <= n - 1)%nat.
  Let xw := insert_bit i true x.
  Let xo := insert_bit i false x.
  Let P1 := present_rows rows xw.
  Let P0 := present_rows rows xo.
  Let cc := 1 / qn (binom (n - 1) (count_true x)).
  Let V (P : list nat) : Q := nth (argmax_first (tl_of p (nearest K dq P))) ucol 0.

  Lemma present_lt P m r : P = present_rows rows m -> In r P -> (r < R)%nat.
  Proof. intros -> H. apply filter_In in H. destruct H as [H _]. apply in_seq in H. unfold R. lia. Qed.
  Lemma present_nodup m : NoDup (present_rows rows m).
  Proof. apply NoDup_filter, seq_NoDup. Qed.
  Lemma present_inj m r r' : In r (present_rows rows m) -> In r' (present_rows rows m) -> dq r == dq r' -> r = r'.
  Proof. intros H H'. apply Hd; eapply present_lt; try reflexivity; eassumption. Qed.
  Lemma present_in m r : (r < R)%nat -> (In r (present_rows rows m) <-> row_present (nth r rows []) m = true).
  Proof. intros Hr. unfold present_rows. rewrite filter_In, in_seq. unfold R in Hr. intuition lia. Qed.
  Lemma tl_sum_present m (f : nat -> bool) : sum_nat (tl_of p (filter f (present_rows rows m))) = length (filter f (present_rows rows m)).
  Proof. apply tl_of_sum. intros r Hr. apply filter_In in Hr. destruct Hr as [Hr _]. apply Hlab. eapply present_lt; [reflexivity|exact Hr]. Qed.

  Definition Arank (P : list nat) (t : nat) : bool := existsb (Nat.eqb t) P && Nat.eqb (nle dq P t) K.

  Lemma existsb_eqb_In t P : existsb (Nat.eqb t) P = true <-> In t P.
  Proof. rewrite existsb_exists. split; [intros [y [Hy E]]; apply Nat.eqb_eq in E; subst; exact Hy|intros H; exists t; split; [exact H|apply Nat.eqb_refl]]. Qed.

  (* the contribution of the pair (t1, t2) for this assignment *)
  Lemma pair_term t1 t2 : (t1 < R)%nat -> (match t2 with Some t => (t < R)%nat | None => True end) ->
    entry_term p n ucol null t2 (tally_of p i t1 t2 x) 1 ==
    if Arank P1 t1 && match t2 with Some t => Arank P0 t | None => Nat.ltb (length P0) K end
    then cc * (V P1 - match t2 with Some _ => V P0 | None => null end) else 0.
  Proof.
    intros Ht1 Ht2. unfold tally_of. fold xw xo. cbn [p_rows p].
    assert (E1 : existsb (Nat.eqb t1) P1 = row_present (nth t1 rows []) xw).
    { apply eq_true_iff_eq. rewrite existsb_eqb_In. apply present_in. exact Ht1. }
    assert (E2 : match t2 with Some t => existsb (Nat.eqb t) P0 | None => true end
                 = match t2 with Some t => row_present (nth t rows []) xo | None => true end).
    { destruct t2 as [t|]; [|reflexivity]. apply eq_true_iff_eq. rewrite existsb_eqb_In. apply present_in. exact Ht2. }
    unfold Arank. rewrite E1. destruct (row_present (nth t1 rows []) xw) eqn:Pr1; cbn [andb]; [|reflexivity].
    destruct t2 as [t|].
    - rewrite E2. destruct (row_present (nth t rows []) xo) eqn:Pr0; cbn [andb]; [|rewrite andb_false_r; reflexivity].
      rewrite (label_tally_some p xw t1), (label_tally_some p xo t). fold P1 P0. cbn [p_dist p_rows p]. fold dq.
      rewrite (entry_term_clip p n (count_true x) _ _ ucol null (Some t) eq_refl (tl_of_length p _) (tl_of_length p _) Hx). cbn [p_k p].
      unfold P1, P0. rewrite !tl_sum_present. fold P1 P0.
      change (length (filter (fun r : nat => Qle_bool (nth r dist 0) (nth t1 dist 0)) P1)) with (nle dq P1 t1).
      change (length (filter (fun r : nat => Qle_bool (nth r dist 0) (nth t dist 0)) P0)) with (nle dq P0 t).
      destruct (Nat.eqb_spec (nle dq P1 t1) K) as [N1|N1]; cbn [andb]; [|reflexivity].
      destruct (Nat.eqb_spec (nle dq P0 t) K) as [N0|N0]; [|reflexivity].
      assert (I1 : In t1 P1) by (apply present_in; assumption). assert (I0 : In t P0) by (apply present_in; assumption).
      pose proof (nearest_of_rank dq P1 K t1 (present_inj xw) I1 N1) as Q1. pose proof (nearest_of_rank dq P0 K t (present_inj xo) I0 N0) as Q0.
      unfold dq in Q1, Q0. cbv beta in Q1, Q0. rewrite Q1, Q0. reflexivity.
    - rewrite (label_tally_some p xw t1), (label_tally_none p xo). fold P1 P0. cbn [p_dist p_rows p]. fold dq.
      rewrite (entry_term_clip p n (count_true x) _ _ ucol null None eq_refl (tl_of_length p _) (tl_of_length p _) Hx). cbn [p_k p].
      unfold P1. rewrite tl_sum_present. fold P1.
      change (length (filter (fun r : nat => Qle_bool (nth r dist 0) (nth t1 dist 0)) P1)) with (nle dq P1 t1).
      assert (S0 : sum_nat (tl_of p P0) = length P0).
      { apply tl_of_sum. intros r Hr. apply Hlab. eapply present_lt; [reflexivity|exact Hr]. }
      fold P0. rewrite S0.
      destruct (Nat.eqb_spec (nle dq P1 t1) K) as [N1|N1]; cbn [andb]; [|reflexivity].
      destruct (Nat.ltb (length P0) K); [|reflexivity].
      assert (I1 : In t1 P1) by (apply present_in; assumption).
      pose proof (nearest_of_rank dq P1 K t1 (present_inj xw) I1 N1) as Q1. unfold dq in Q1. cbv beta in Q1. rewrite Q1. reflexivity.
  Qed.
  Lemma arank_count m : length (filter (Arank (present_rows rows m)) (seq 0 R))
                        = if Nat.leb K (length (present_rows rows m)) then 1%nat else 0%nat.
  Proof.
    set (P := present_rows rows m).
    assert (E : filter (Arank P) (seq 0 R) = filter (fun t => Nat.eqb (nle dq P t) K) P).
    { unfold P at 3. unfold present_rows. rewrite filter_filter'. apply filter_ext_in. intros t Ht. unfold Arank. f_equal.
      apply eq_true_iff_eq. rewrite (existsb_eqb_In t P). apply (present_in m t). apply in_seq in Ht. unfold R. lia. }
    rewrite E. apply rank_count; [apply present_nodup| |exact HK].
    intros r r' Hr Hr'. apply (present_inj m r r' Hr Hr').
  Qed.

  Lemma present_le : (length (present_rows rows xo) <= length (present_rows rows xw))%nat.
  Proof. unfold present_rows. apply filter_length_mono. intros r _. apply row_present_mono. Qed.

  Theorem pair_sum :
    sumQ (fun t1 => sumQ (fun t2 => entry_term p n ucol null t2 (tally_of p i t1 t2 x) 1) (map Some (seq 0 R) ++ [None])) (seq 0 R)
    == (1 / qn (binom (n - 1) (count_true x)))
       * (knn_point K C rows labels dist ucol null xw - knn_point K C rows labels dist ucol null xo).
  Proof.
    fold cc. set (G := qn (length (filter (Arank P0) (seq 0 R))) * (cc * (V P1 - V P0))
              + (if Nat.ltb (length P0) K then cc * (V P1 - null) else 0)).
    rewrite (sumQ_ext _ (fun t1 => if Arank P1 t1 then G else 0)).
    - rewrite sumQ_indicator. unfold G, P1, P0. rewrite !arank_count. fold P1 P0.
      unfold knn_point. fold P1 P0. pose proof present_le as Hle. fold P1 P0 in Hle.
      change (nth (argmax_first (vsum C (map (fun r => onehot C (nth r labels 0%nat)) (nearest K (fun r => nth r dist 0) P1)))) ucol 0) with (V P1).
      change (nth (argmax_first (vsum C (map (fun r => onehot C (nth r labels 0%nat)) (nearest K (fun r => nth r dist 0) P0)))) ucol 0) with (V P0).
      destruct (Nat.leb_spec K (length P1)) as [L1|L1]; destruct (Nat.leb_spec K (length P0)) as [L0|L0];
        destruct (Nat.ltb_spec (length P1) K) as [M1|M1]; destruct (Nat.ltb_spec (length P0) K) as [M0|M0]; try lia;
        change (qn 1) with 1; change (qn 0) with 0; ring.
    - intros t1 Ht1. apply in_seq in Ht1.
      rewrite (sumQ_ext _ (fun t2 => if Arank P1 t1 && match t2 with Some t => Arank P0 t | None => Nat.ltb (length P0) K end
                                     then cc * (V P1 - match t2 with Some _ => V P0 | None => null end) else 0)).
      + rewrite sumQ_app, sumQ_map. cbn [sumQ_cons]. rewrite sumQ_cons, sumQ_nil.
        destruct (Arank P1 t1); cbn [andb].
        * unfold G. rewrite sumQ_indicator. ring.
        * rewrite sumQ_zero. ring.
      + intros t2 Ht2. apply (pair_term t1 t2); [unfold R; lia|].
        destruct t2 as [t|]; [|exact I]. apply in_app_or in Ht2. destruct Ht2 as [H|[H|[]]]; [|discriminate].
        apply in_map_iff in H. destruct H as [y [Ey Hy]]. inversion Ey; subst. apply in_seq in Hy. unfold R. lia.
  Qed.
End OneAssignment.

(* ---------- G. one validation point ---------- *)
Theorem add_point_is_shapley n K C rows labels dist ucol null i :
  (i < n)%nat -> (1 <= K)%nat ->
  (forall r, (r < length rows)%nat -> (nth r labels 0 < C)%nat) ->
  (forall r r', (r < length rows)%nat -> (r' < length rows)%nat -> nth r dist 0 == nth r' dist 0 -> r = r') ->
  nth i (shapley_add_point (mkProb n rows labels dist (n - 1) K C) (count_spec (mkProb n rows labels dist (n - 1) K C)) ucol null) 0
  == qn n * shapley n (knn_point K C rows labels dist ucol null) i.
Proof.
  intros Hi HK Hlab Hd. set (p := mkProb n rows labels dist (n - 1) K C). set (R := length rows).
  unfold shapley_add_point. rewrite map_nth_seq by exact Hi. cbn [p_units p_rows p]. fold R.
  (* histogram -> assignments *)
  rewrite (sumQ_ext _ (fun t1 => sumQ (fun x => sumQ (fun t2 => entry_term p n ucol null t2 (tally_of p i t1 t2 x) 1)
                                                   (map Some (seq 0 R) ++ [None])) (bmasks (n - 1)))).
  2:{ intros t1 _. rewrite <- sumQ_swap. apply sumQ_ext. intros t2 _.
      rewrite (sumQ_ext _ (fun ec : aval * nat => qn (snd ec) * entry_term p n ucol null t2 (fst ec) 1)) by (intros ec _; apply entry_term_cnt).
      unfold count_spec. rewrite (histogram_sum (p_type p) _ (fun e => entry_term p n ucol null t2 e 1)).
      - rewrite sumQ_map. reflexivity.
      - unfold p_type. apply domain_nodup_of. apply domain_valid_tally_nodup.
      - intros v Hv. apply in_map_iff in Hv. destruct Hv as [x [<- _]]. apply tally_of_in_domain. }
  rewrite sumQ_swap.
  (* per assignment *)
  rewrite (sumQ_ext _ (fun x => (1 / qn (binom (n - 1) (count_true x)))
                               * (knn_point K C rows labels dist ucol null (insert_bit i true x)
                                  - knn_point K C rows labels dist ucol null (insert_bit i false x)))).
  2:{ intros x Hx. apply bmasks_length in Hx. apply (pair_sum n K C rows labels dist ucol null i x HK Hlab Hd).
      pose proof (count_true_le x). lia. }
  unfold shapley. rewrite (sum_without_player n i _ Hi). rewrite <- sumQ_scale. apply sumQ_ext. intros x Hx.
  apply bmasks_length in Hx. rewrite setbit_insert by lia. rewrite cnt_insert_false.
  pose proof (count_true_le x) as Hc. rewrite weight_binom by lia.
  assert (0 < qn n) by (apply qn_pos; lia). assert (0 < qn (binom (n - 1) (count_true x))) by (apply qn_pos, binom_pos; lia).
  field. split; lra.
Qed.

(* ---------- H. all validation points ---------- *)
Lemma sumQ_minus {A} (f g : A -> Q) l : sumQ (fun a => f a - g a) l == sumQ f l - sumQ g l.
Proof. induction l as [|a l IH]; [rewrite !sumQ_nil; ring|]. rewrite !sumQ_cons, IH. ring. Qed.

Lemma shapley_sum {A} n (g : A -> list bool -> Q) (l : list A) (c : Q) i :
  shapley n (fun m => sumQ (fun t => g t m) l / c) i == sumQ (fun t => shapley n (g t) i) l / c.
Proof.
  unfold shapley. rewrite sumQ_swap. unfold Qdiv. rewrite Qmult_comm, <- sumQ_scale. apply sumQ_ext. intros m _.
  destruct (nth i m false).
  - rewrite sumQ_zero. ring.
  - rewrite sumQ_scale, sumQ_minus. ring.
Qed.

Lemma combine_points {A} (H : cprob -> oracle_fn -> list Q -> Q -> Q) (mk : A -> cprob) (cs : cprob -> oracle_fn) :
  forall (dists : list A) (ucols : list (list Q)) (nulls : list Q),
  sumQ (fun t : cprob * oracle_fn * list Q * Q => let '(p, o, uc, nl) := t in H p o uc nl)
       (combine (combine (combine (map mk dists) (map cs (map mk dists))) ucols) nulls)
  == sumQ (fun t : A * list Q * Q => H (mk (fst (fst t))) (cs (mk (fst (fst t)))) (snd (fst t)) (snd t))
          (combine (combine dists ucols) nulls).
Proof.
  induction dists as [|d dists IH]; intros ucols nulls; [reflexivity|].
  destruct ucols as [|u ucols]; [reflexivity|]. destruct nulls as [|nl nulls]; [reflexivity|].
  cbn [map combine]. rewrite !sumQ_cons, IH. reflexivity.
Qed.

Lemma distinct_of_nodup (d : list Q) R : length d = R -> NoDup (map Qred d) ->
  forall r r', (r < R)%nat -> (r' < R)%nat -> nth r d 0 == nth r' d 0 -> r = r'.
Proof.
  intros HL Hnd r r' Hr Hr' E. apply Qred_complete in E.
  apply (proj1 (NoDup_nth (map Qred d) (Qred 0)) Hnd); rewrite ?map_length; try lia.
  rewrite !map_nth. exact E.
Qed.

Theorem add_is_shapley n K C rows labels dists ucols nulls i :
  (i < n)%nat -> (1 <= K)%nat ->
  (forall r, (r < length rows)%nat -> (nth r labels 0 < C)%nat) ->
  (forall d, In d dists -> length d = length rows /\ NoDup (map Qred d)) ->
  nth i (shapley_add (map (fun d => mkProb n rows labels d (n - 1) K C) dists)
                     (map (fun p => count_spec p) (map (fun d => mkProb n rows labels d (n - 1) K C) dists)) ucols nulls n) 0
  == shapley n (v_knn K C rows labels dists ucols nulls) i.
Proof.
  intros Hi HK Hlab Hd. unfold shapley_add. rewrite map_nth_seq by exact Hi.
  rewrite (combine_points (fun p o uc nl => nth i (shapley_add_point p o uc nl) 0)).
  unfold v_knn. rewrite (shapley_sum n (fun (t : list Q * list Q * Q) m => knn_point K C rows labels (fst (fst t)) (snd (fst t)) (snd t) m)).
  rewrite (sumQ_ext _ (fun t => qn n * shapley n (fun m => knn_point K C rows labels (fst (fst t)) (snd (fst t)) (snd t) m) i)).
  - rewrite sumQ_scale. set (S := sumQ _ _). assert (E : qn n * / qn n == 1).
    { apply Qmult_inv_r. assert (0 < qn n) by (apply qn_pos; lia). lra. }
    unfold Qdiv. rewrite Qinv_mult_distr. transitivity ((qn n * / qn n) * (S * / qn (length nulls))); [ring|]. rewrite E. ring.
  - intros [[d u] nl] Ht. cbn [fst snd]. apply in_combine_l in Ht. apply in_combine_l in Ht. destruct (Hd d Ht) as [HL Hnd].
    apply add_point_is_shapley; try assumption. apply distinct_of_nodup; assumption.
Qed.

(* ---------- I. a concrete instance meeting the hypotheses ---------- *)
Definition add_is_shapley_instance_statement : Prop :=
  let rows := [[0]; [1]; [0; 2]]%nat in let labels := [0; 1; 0]%nat in let dists := [[1; 2; 3]; [3; 1; 2]] in
  (forall r, (r < length rows)%nat -> (nth r labels 0 < 2)%nat) /\
  (forall d, In d dists -> length d = length rows /\ NoDup (map Qred d)) /\
  map Qred (shapley_add (map (fun d => mkProb 3 rows labels d 2 2 2) dists)
                        (map (fun p => count_spec p) (map (fun d => mkProb 3 rows labels d 2 2 2) dists))
                        [[1; 0]; [0; 1]] [0; 0] 3)
  = map (fun i => Qred (shapley 3 (v_knn 2 2 rows labels dists [[1; 0]; [0; 1]] [0; 0]) i)) [0; 1; 2]%nat /\
  map Qred (shapley_add (map (fun d => mkProb 3 rows labels d 2 2 2) dists)
                        (map (fun p => count_spec p) (map (fun d => mkProb 3 rows labels d 2 2 2) dists))
                        [[1; 0]; [0; 1]] [0; 0] 3) <> [0; 0; 0].
Example add_is_shapley_instance : add_is_shapley_instance_statement.
Proof.
  unfold add_is_shapley_instance_statement. cbv zeta. split; [|split; [|split]].
  - intros r Hr. cbn in Hr. destruct r as [|[|[|r]]]; cbn; lia.
  - intros d [<-|[<-|[]]]; (split; [reflexivity|]); vm_compute; repeat constructor; cbn; intuition discriminate.
  - vm_compute. reflexivity.
  - vm_compute. discriminate.
Qed.

