(* C12, join: the specification a correct join has to meet (one row per pair, present iff both members are),
   stated and proved for the formula-level join.  The implementation's join is a known finding (F11). *)
From Coq Require Import List Arith Bool Lia.
From DS Require Import Spec.Dnf Proofs.QueryCorrect Proofs.ExprLogic.
Import ListNotations.

Definition shift_conj (n1 : nat) (c : conj) : conj := map (fun l => (n1 + fst l, snd l)) c.
Definition join_dnf (n1 : nat) (f g : dnf) : dnf := flat_map (fun c => map (fun d => c ++ d) (map (shift_conj n1) g)) f.
Definition join_spec (n1 : nat) (fs gs : list dnf) : list dnf := flat_map (fun f => map (join_dnf n1 f) gs) fs.
Definition pair_and (b1 b2 : list bool) : list bool := flat_map (fun a => map (andb a) b2) b1.

Lemma eval_conj_left x1 x2 c : (forall l, In l c -> fst l < length x1) -> eval_conj (x1 ++ x2) c = eval_conj x1 c.
Proof.
  intros H. unfold eval_conj. apply forallb_ext_in. intros l Hl. unfold eval_lit.
  rewrite app_nth1 by (apply H; exact Hl). reflexivity.
Qed.
Lemma eval_conj_shift x1 x2 c : eval_conj (x1 ++ x2) (shift_conj (length x1) c) = eval_conj x2 c.
Proof.
  unfold eval_conj, shift_conj. rewrite forallb_map. apply forallb_ext_in. intros l _. unfold eval_lit. cbn [fst snd].
  rewrite app_nth2_plus. reflexivity.
Qed.
Lemma eval_dnf_left x1 x2 f : units_below (length x1) f -> eval_dnf (x1 ++ x2) f = eval_dnf x1 f.
Proof.
  intros H. unfold eval_dnf. apply existsb_ext_in. intros c Hc. apply eval_conj_left. intros l Hl. exact (H c l Hc Hl).
Qed.
Lemma eval_dnf_shift x1 x2 g : eval_dnf (x1 ++ x2) (map (shift_conj (length x1)) g) = eval_dnf x2 g.
Proof. unfold eval_dnf. rewrite existsb_map. apply existsb_ext_in. intros c _. apply eval_conj_shift. Qed.

Theorem join_dnf_correct x1 x2 f g : units_below (length x1) f ->
  eval_dnf (x1 ++ x2) (join_dnf (length x1) f g) = eval_dnf x1 f && eval_dnf x2 g.
Proof. intros H. unfold join_dnf. rewrite eval_dnf_product, eval_dnf_left, eval_dnf_shift by exact H. reflexivity. Qed.

Theorem join_spec_correct x1 x2 fs gs : (forall f, In f fs -> units_below (length x1) f) ->
  map (eval_dnf (x1 ++ x2)) (join_spec (length x1) fs gs) = pair_and (map (eval_dnf x1) fs) (map (eval_dnf x2) gs).
Proof.
  intros H. unfold join_spec, pair_and. induction fs as [|f fs IH]; [reflexivity|].
  cbn [flat_map map]. rewrite map_app, IH by (intros g Hg; apply H; right; exact Hg). f_equal.
  rewrite !map_map. apply map_ext. intros g. apply join_dnf_correct. apply H. left. reflexivity.
Qed.
