(* C09 / C02: compile() in the leaf/factor case.  For EVERY component structure satisfying hints_ok (components partition
   the units, every component has a leaf, every row lies in one component and contains at most one leaf -- what the
   graph step of compile() guarantees), the modelled diagram and row locations satisfy every hypothesis of
   oracle_exact_order: the oracle over them is exact. *)
From Coq Require Import List Arith Bool Lia Permutation.
From DS Require Import Util.ListX Model.ADD Spec.Count Model.Oracle Proofs.ADDProofs Proofs.ModelCount Proofs.OracleExact
     Proofs.OracleValid Proofs.ADDClosure Proofs.ADDConcat Proofs.ADDStack Proofs.CompilePaths.
Import ListNotations.

(* ---------- the shape of one component ---------- *)
Lemma pow2_pos k : 0 < 2 ^ k. Proof. apply Nat.neq_0_lt_0, Nat.pow_nonzero. lia. Qed.
Lemma comp_els_ok t (c : comp) : forall e, In e (repeat (chain t (snd c)) (2 ^ length (fst c))) ->
  okd e /\ d_type e = t /\ length (d_levels e) = length (snd c).
Proof. intros e He. apply repeat_spec in He. subst e. split; [apply chain_okd|]. split; [reflexivity|]. cbn [chain d_levels]. apply map_length. Qed.

Lemma comp_add_facts t (c : comp) : snd c <> [] ->
  okd (comp_add t c) /\ d_type (comp_add t c) = t /\ d_root (comp_add t c) = 0
  /\ length (d_levels (comp_add t c)) = comp_size c /\ d_units (comp_add t c) = fst c ++ snd c /\ zero_adders (comp_add t c).
Proof.
  destruct c as [F L]. cbn [fst snd]. intros HL. unfold comp_add, comp_size. cbn [fst snd]. destruct F as [|f F'].
  - cbn [length Nat.pow repeat add_stack app Nat.add]. split; [apply chain_okd|]. split; [reflexivity|]. split; [reflexivity|].
    split; [cbn [chain d_levels]; apply map_length|]. split; [reflexivity|].
    intros l nd Hl Hnd. cbn [chain d_levels d_type] in *. apply in_map_iff in Hl. destruct Hl as [u [<- _]]. destruct Hnd as [<-|[]]. split; reflexivity.
  - set (F := f :: F') in *. set (els := repeat (chain t L) (2 ^ length F)).
    assert (HF : F <> []) by discriminate. assert (Hn : length els = 2 ^ length F) by (unfold els; apply repeat_length).
    pose proof (comp_els_ok t (F, L)) as Hel. cbn [fst snd] in Hel. fold els in Hel.
    destruct (stack_shape t F els (length L) HF Hn Hel) as [e [els' [E [Ht [Hd ES]]]]].
    split; [apply (stack_okd t F els (length L) HF Hn Hel)|]. rewrite ES. cbn [d_type d_root d_levels d_units].
    assert (Ee : e = chain t L).
    { assert (In e els) by (rewrite E; left; reflexivity). unfold els in H. apply repeat_spec in H. exact H. }
    split; [reflexivity|]. split; [reflexivity|]. split; [rewrite app_length, !map_length, !seq_length; reflexivity|].
    split; [rewrite Ee; reflexivity|].
    intros l nd Hl Hnd. cbn [d_levels d_type] in *. apply in_app_or in Hl. destruct Hl as [Hl|Hl]; apply in_map_iff in Hl; destruct Hl as [i [<- Hi]].
    + unfold hlevel, header_level in Hnd. apply in_app_or in Hnd. destruct Hnd as [Hnd|Hnd]; [|apply repeat_spec in Hnd; subst nd; split; reflexivity].
        apply in_map_iff in Hnd. destruct Hnd as [k [<- _]]. destruct (Nat.eqb (S i) (length F)); split; reflexivity.
    + unfold zlevel in Hnd. apply in_flat_map in Hnd. destruct Hnd as [[ex ox] [Hin Hnd]]. cbn [fst snd] in Hnd.
        apply in_map_iff in Hnd. destruct Hnd as [n0 [<- Hn0]]. apply in_combine_l in Hin. unfold els in Hin. apply repeat_spec in Hin. subst ex.
        cbn [chain d_levels] in Hn0. destruct (Nat.lt_ge_cases i (length L)) as [Hlt|Hge].
      * assert (Hin2 : In (nth i (map (fun _ : nat => [mkNode true 0 0 (a_zero t) (a_zero t)]) L) [])
                         (map (fun _ : nat => [mkNode true 0 0 (a_zero t) (a_zero t)]) L)) by (apply nth_In; rewrite map_length; exact Hlt).
        apply in_map_iff in Hin2. destruct Hin2 as [u [Eu _]]. rewrite <- Eu in Hn0. destruct Hn0 as [<-|[]]. split; reflexivity.
      * rewrite nth_overflow in Hn0 by (rewrite map_length; exact Hge). destruct Hn0.
Qed.

Lemma flat_map_map {A B C} (g : A -> B) (f : B -> list C) : forall l, flat_map f (map g l) = flat_map (fun x => f (g x)) l.
Proof. induction l as [|a l IH]; [reflexivity|]. cbn [map flat_map]. rewrite IH. reflexivity. Qed.
Lemma flat_map_ext_in' {A B} (f g : A -> list B) : forall l, (forall a, In a l -> f a = g a) -> flat_map f l = flat_map g l.
Proof. induction l as [|a l IH]; intros H; [reflexivity|]. cbn [flat_map]. rewrite (H a (or_introl eq_refl)), IH; [reflexivity|]. intros b Hb. apply H. right. exact Hb. Qed.

(* ---------- the whole diagram ---------- *)
Section Whole.
  Variables (t : atype) (comps : list comp).
  Hypothesis Hne : comps <> [].
  Hypothesis HL : forall c, In c comps -> snd c <> [].
  Let els := map (comp_add t) comps.
  Let d := compile_add t comps.
  Let W := fold_right Nat.max 0 (map diameter els).

  Lemma els_ne : els <> []. Proof. unfold els. destruct comps; [contradiction|discriminate]. Qed.
  Lemma els_elem_ok e : In e els -> elem_ok t e.
  Proof.
    intros He. unfold els in He. apply in_map_iff in He. destruct He as [c [<- Hc]].
    destruct (comp_add_facts t c (HL c Hc)) as [O [Ht [_ [Hlen _]]]]. split; [exact O|]. split; [exact Ht|].
    intros E. rewrite E in Hlen. cbn in Hlen. unfold comp_size in Hlen. pose proof (HL c Hc). destruct (snd c); [contradiction|cbn in Hlen; lia].
  Qed.
  Lemma whole_okd : okd d.
  Proof. unfold d, compile_add. fold els. apply (concatenate_okd t els els_ne els_elem_ok). Qed.
End Whole.

Lemma whole_shape t comps : comps <> [] -> (forall c, In c comps -> snd c <> []) ->
  d_type (compile_add t comps) = t /\ d_root (compile_add t comps) = 0
  /\ d_levels (compile_add t comps)
     = concat_levels t (fold_right Nat.max 0 (map diameter (map (comp_add t) comps))) (map (comp_add t) comps)
  /\ d_units (compile_add t comps) = units_of comps.
Proof.
  intros Hne HL. destruct comps as [|c0 r0]; [contradiction|]. unfold compile_add. cbn [map add_concatenate d_type d_root d_levels d_units].
  destruct (comp_add_facts t c0 (HL c0 (or_introl eq_refl))) as [_ [Ht [Hr _]]].
  split; [exact Ht|]. split; [exact Hr|]. split; [rewrite Ht; reflexivity|].
  change (comp_add t c0 :: map (comp_add t) r0) with (map (comp_add t) (c0 :: r0)).
  unfold units_of. rewrite flat_map_map. apply flat_map_ext_in'.
  intros c Hc. destruct (comp_add_facts t c (HL c Hc)) as [_ [_ [_ [_ [Hu _]]]]]. exact Hu.
Qed.

(* ---------- positions of units ---------- *)
Lemma memb_In u l : memb u l = true <-> In u l.
Proof.
  unfold memb. rewrite existsb_exists. split; [intros [x [Hx E]]; apply Nat.eqb_eq in E; subst; exact Hx|intros H; exists u; split; [exact H|apply Nat.eqb_refl]].
Qed.
Lemma level_of_index d u : level_of d u = index_of u (d_units d).
Proof.
  unfold level_of. generalize (d_units d). intros l.
  assert (H : forall k, (fix go (l0 : list nat) (k0 : nat) {struct l0} : nat :=
                match l0 with [] => k0 | u0 :: t0 => if Nat.eqb u0 u then k0 else go t0 (S k0) end) l k = k + index_of u l).
  { induction l as [|a l IH]; intros k; cbn [index_of]; [lia|]. destruct (Nat.eqb a u); [lia|]. rewrite IH. lia. }
  rewrite H. reflexivity.
Qed.
Lemma index_of_app u : forall l1 l2, index_of u (l1 ++ l2) = if memb u l1 then index_of u l1 else length l1 + index_of u l2.
Proof.
  induction l1 as [|a l1 IH]; intros l2; [reflexivity|]. cbn [app index_of memb existsb length]. rewrite (Nat.eqb_sym u a).
  destruct (Nat.eqb a u); cbn [orb]; [reflexivity|]. fold (memb u l1). rewrite IH. destruct (memb u l1); lia.
Qed.
Lemma index_of_lt u : forall l, In u l -> index_of u l < length l /\ nth (index_of u l) l 0 = u.
Proof.
  induction l as [|a l IH]; intros H; [destruct H|]. cbn [index_of]. destruct (Nat.eqb_spec a u) as [->|Hne]; [cbn; split; [lia|reflexivity]|].
  destruct H as [->|H]; [contradiction|]. destruct (IH H) as [A B]. cbn [length nth]. split; [lia|exact B].
Qed.

Definition start (comps : list comp) (k : nat) : nat := fold_right Nat.add 0 (firstn k (map comp_size comps)).
Lemma sum_firstn_S : forall (l : list nat) k, k < length l -> fold_right Nat.add 0 (firstn (S k) l) = fold_right Nat.add 0 (firstn k l) + nth k l 0.
Proof.
  induction l as [|a l IH]; intros k H; [cbn in H; lia|]. destruct k as [|k]; [cbn; lia|].
  change (firstn (S (S k)) (a :: l)) with (a :: firstn (S k) l). change (firstn (S k) (a :: l)) with (a :: firstn k l).
  cbn [fold_right nth]. rewrite IH by (cbn in H; lia). lia.
Qed.
Lemma start_S comps k : k < length comps -> start comps (S k) = start comps k + comp_size (nth k comps ([], [])).
Proof.
  intros H. unfold start. rewrite sum_firstn_S by (rewrite map_length; exact H). f_equal.
  change 0 with (comp_size ([], [])). apply map_nth.
Qed.
Lemma NoDup_app_r' {A} : forall (l1 l2 : list A), NoDup (l1 ++ l2) -> NoDup l2.
Proof. induction l1 as [|a l1 IH]; intros l2 H; [exact H|]. cbn [app] in H. inversion H; subst. apply IH. assumption. Qed.
Lemma units_index comps u k : NoDup (units_of comps) -> k < length comps -> In u (fst (nth k comps ([], [])) ++ snd (nth k comps ([], []))) ->
  index_of u (units_of comps) = start comps k + index_of u (fst (nth k comps ([], [])) ++ snd (nth k comps ([], []))).
Proof.
  revert k. induction comps as [|c r IH]; intros k Hnd Hk Hin; [cbn in Hk; lia|]. unfold units_of in *. cbn [flat_map] in *.
  rewrite index_of_app. destruct k as [|k].
  - cbn [nth] in *. rewrite (proj2 (memb_In u _) Hin). unfold start. cbn. lia.
  - cbn [nth] in *. assert (Hnot : memb u (fst c ++ snd c) = false).
    { destruct (memb u (fst c ++ snd c)) eqn:E; [|reflexivity]. apply memb_In in E. exfalso.
      assert (Hin2 : In u (flat_map (fun c0 : comp => fst c0 ++ snd c0) r)).
      { apply in_flat_map. exists (nth k r ([], [])). split; [apply nth_In; cbn in Hk; lia|exact Hin]. }
      revert Hnd E Hin2. generalize (fst c ++ snd c) as l1, (flat_map (fun c0 : comp => fst c0 ++ snd c0) r) as l2. clear.
      induction l1 as [|a l1 IHl]; intros l2 Hnd E Hin2; [destruct E|]. cbn [app] in Hnd. inversion Hnd as [|? ? Ha Hnd']; subst.
      destruct E as [->|E]; [apply Ha; apply in_or_app; right; exact Hin2|apply (IHl l2 Hnd' E Hin2)]. }
    rewrite Hnot. rewrite (IH k) by (try exact Hin; try (cbn in Hk; lia); apply NoDup_app_r' in Hnd; exact Hnd).
    unfold start. cbn [map firstn fold_right]. unfold comp_size at 2. rewrite app_length. lia.
Qed.
Lemma start_of_comps t : forall comps k, (forall c, In c comps -> snd c <> []) -> start_of (map (comp_add t) comps) k = start comps k.
Proof.
  induction comps as [|c r IH]; intros k HL; [destruct k; reflexivity|]. destruct k as [|k]; [reflexivity|]. cbn [map start_of].
  destruct (comp_add_facts t c (HL c (or_introl eq_refl))) as [_ [_ [_ [Hlen _]]]]. rewrite Hlen, IH by (intros c' Hc'; apply HL; right; exact Hc').
  unfold start. cbn [map firstn fold_right]. reflexivity.
Qed.

(* ---------- one row ---------- *)
Lemma hits_nodes d y lvl (Q : list nat) : NoDup Q -> lvl < length (d_levels d) -> lvl < length y ->
  hits d y (map (fun q => (lvl, q, true)) Q)
  = if nth lvl y false && memb (node_at (d_type d) (d_levels d) (d_root d) y lvl) Q then 1 else 0.
Proof.
  intros Hnd H1 H2. unfold hits. rewrite filter_map_length. set (na := node_at (d_type d) (d_levels d) (d_root d) y lvl).
  rewrite (filter_length_ext _ (fun q => Nat.eqb na q && Bool.eqb (nth lvl y false) true)) by (intros q _; unfold on_loc; apply on_path_node; assumption).
  destruct (nth lvl y false); cbn [andb Bool.eqb].
  - rewrite (filter_length_ext _ (Nat.eqb na)) by (intros q _; apply andb_true_r).
    destruct (memb na Q) eqn:E.
    + apply count_eq_nodup; [exact Hnd|apply memb_In; exact E].
    + rewrite (filter_length_ext _ (fun _ => false)); [apply filter_false_length|]. intros q Hq. apply Nat.eqb_neq. intros ->.
      apply memb_In in Hq. congruence.
  - rewrite (filter_length_ext _ (fun _ => false)); [apply filter_false_length|]. intros q _. apply andb_false_r.
Qed.
Lemma forallb_split {A} (g a : A -> bool) : forall l, forallb g l = forallb g (filter a l) && forallb g (filter (fun x => negb (a x)) l).
Proof.
  induction l as [|x l IH]; [reflexivity|]. cbn [forallb filter]. rewrite IH. destruct (a x); cbn [negb forallb]; destruct (g x); cbn [andb]; try reflexivity.
  - rewrite andb_false_r. reflexivity.
Qed.
Lemma forallb_pivot (g : nat -> bool) i : forall P, In i P -> forallb g P = g i && forallb (fun pos => Nat.eqb pos i || g pos) P.
Proof.
  intros P Hin. destruct (g i) eqn:Gi; cbn [andb].
  - apply forallb_ext_in'. intros pos _. destruct (Nat.eqb_spec pos i) as [->|_]; [rewrite Gi; reflexivity|reflexivity].
  - destruct (forallb g P) eqn:E; [|reflexivity]. rewrite forallb_forall in E. rewrite (E i Hin) in Gi. discriminate.
Qed.
Lemma max_in : forall P : list nat, P <> [] -> In (fold_right Nat.max 0 P) P /\ forall p, In p P -> p <= fold_right Nat.max 0 P.
Proof.
  induction P as [|a P IH]; intros H; [contradiction|]. cbn [fold_right]. destruct P as [|b P'].
  - cbn [fold_right]. rewrite Nat.max_0_r. split; [left; reflexivity|]. intros p [->|[]]. lia.
  - destruct (IH ltac:(discriminate)) as [A B]. set (m := fold_right Nat.max 0 (b :: P')) in *. split.
    + destruct (Nat.max_spec a m) as [[_ ->]|[_ ->]]; [right; exact A|left; reflexivity].
    + intros p [->|Hp]; [lia|]. specialize (B p Hp). lia.
Qed.

Lemma comp_nodup : forall comps k, NoDup (units_of comps) -> k < length comps ->
  NoDup (fst (nth k comps ([], [])) ++ snd (nth k comps ([], []))).
Proof.
  unfold units_of. induction comps as [|c0 r IH]; intros k Hnd Hk; [cbn in Hk; lia|].
  cbn [flat_map] in Hnd. destruct k as [|k]; cbn [nth].
  - clear - Hnd. induction (fst c0 ++ snd c0) as [|a l IHl]; [constructor|]. cbn [app] in Hnd. inversion Hnd as [|? ? Ha Hn']; subst.
    constructor; [intros Hin; apply Ha; apply in_or_app; left; exact Hin|apply IHl; exact Hn'].
  - apply IH; [apply NoDup_app_r' in Hnd; exact Hnd|cbn in Hk; lia].
Qed.

Section RowSec.
  Variables (t : atype) (comps : list comp) (n : nat) (y : list bool) (k : nat).
  Hypothesis Hne : comps <> [].
  Hypothesis HL : forall c, In c comps -> snd c <> [].
  Hypothesis Hnd : NoDup (units_of comps).
  Hypothesis Hlen : length (units_of comps) = n.
  Hypothesis Hy : length y = n.
  Hypothesis Hk : k < length comps.
  Let d := compile_add t comps.
  Let c := nth k comps ([], []).
  Let F := fst c.
  Let L := snd c.
  Let nf := length F.
  Let st := start comps k.
  Let sizes := map comp_size comps.
  Let chunk := nth k (chunks sizes y) [].
  Let xf := firstn nf chunk.
  Let xl := skipn nf chunk.

  Lemma c_in : In c comps. Proof. apply nth_In. exact Hk. Qed.
  Lemma sizes_sum : fold_right Nat.add 0 sizes = n.
  Proof.
    rewrite <- Hlen. unfold sizes, units_of. clear. induction comps as [|c0 r IH]; [reflexivity|]. cbn [map fold_right flat_map].
    rewrite app_length, IH. unfold comp_size. rewrite app_length. reflexivity.
  Qed.
  Lemma chunk_len : length chunk = comp_size c.
  Proof.
    unfold chunk. rewrite chunks_length; [|rewrite sizes_sum; exact Hy|unfold sizes; rewrite map_length; exact Hk].
    unfold sizes. change 0 with (comp_size ([], [])). apply map_nth.
  Qed.
  Lemma xf_len : length xf = nf.
  Proof. unfold xf. rewrite firstn_length, chunk_len. unfold comp_size. fold F nf. lia. Qed.
  Lemma xl_len : length xl = length L.
  Proof. unfold xl. rewrite skipn_length, chunk_len. unfold comp_size. fold F L nf. lia. Qed.
  Lemma chunk_split : chunk = xf ++ xl. Proof. unfold xf, xl. symmetry. apply firstn_skipn. Qed.
  Lemma st_bound : st + comp_size c <= n.
  Proof.
    unfold st, c. rewrite <- (start_S comps k Hk). rewrite <- sizes_sum. unfold start, sizes.
    clear. generalize (S k) as m. generalize (map comp_size comps) as l. induction l as [|a l IH]; intros m; [destruct m; cbn; lia|].
    destruct m as [|m]; cbn [firstn fold_right]; [lia|]. specialize (IH m). lia.
  Qed.
  Lemma y_at pos : pos < comp_size c -> nth (st + pos) y false = nth pos chunk false.
  Proof.
    intros H. unfold chunk, st, start. fold sizes. symmetry. apply chunks_nth; [unfold sizes; rewrite map_length; exact Hk|].
    unfold sizes. rewrite (nth_indep _ 0 (comp_size ([], []))) by (rewrite map_length; exact Hk). rewrite (map_nth comp_size). exact H.
  Qed.
  Lemma y_at_f pos : pos < nf -> nth (st + pos) y false = nth pos xf false.
  Proof.
    intros H. rewrite y_at by (unfold comp_size; fold F nf; lia). rewrite chunk_split, app_nth1 by (rewrite xf_len; exact H). reflexivity.
  Qed.
  Lemma y_at_l j : j < length L -> nth (st + (nf + j)) y false = nth j xl false.
  Proof.
    intros H. rewrite y_at by (unfold comp_size; fold F L nf; lia). rewrite chunk_split, app_nth2 by (rewrite xf_len; lia). rewrite xf_len. f_equal. lia.
  Qed.

  Lemma d_len : length (d_levels d) = n.
  Proof.
    destruct (whole_shape t comps Hne HL) as [_ [_ [EL _]]]. unfold d. rewrite EL.
    rewrite <- sizes_sum. unfold sizes. clear - HL Hne. set (w := fold_right Nat.max 0 (map diameter (map (comp_add t) comps))). clearbody w.
    induction comps as [|c0 r IH]; [contradiction|]. destruct (comp_add_facts t c0 (HL c0 (or_introl eq_refl))) as [_ [_ [_ [Hl0 _]]]].
    destruct r as [|c1 r'].
    - cbn [map concat_levels fold_right]. rewrite map_length, Hl0. lia.
    - change (concat_levels t w (map (comp_add t) (c0 :: c1 :: r'))) with
        (map (pad_level t w) (reroute_last (d_levels (comp_add t c0)) (d_root (comp_add t c1))) ++ concat_levels t w (map (comp_add t) (c1 :: r'))).
      rewrite app_length, map_length, reroute_last_length, Hl0. cbn [map fold_right]. f_equal.
      apply IH; [discriminate|intros c' Hc'; apply HL; right; exact Hc'].
  Qed.

  (* the node reached at level st + i *)
  Lemma d_node_at i : i < comp_size c ->
    node_at (d_type d) (d_levels d) (d_root d) y (st + i) = if i <? nf then sel (firstn i xf) else sel xf.
  Proof.
    intros Hi. destruct (whole_shape t comps Hne HL) as [Ht [Hr [EL _]]]. unfold d. rewrite Ht, Hr, EL.
    set (els := map (comp_add t) comps). set (w := fold_right Nat.max 0 (map diameter els)).
    assert (Hels : els <> []) by (unfold els; destruct comps; [contradiction|discriminate]).
    assert (R0 : d_root (hd (mkADD t [] 0 []) els) = 0).
    { unfold els. destruct comps as [|c0 r]; [contradiction|]. cbn [map hd]. apply (comp_add_facts t c0 (HL c0 (or_introl eq_refl))). }
    rewrite <- R0. rewrite <- (concat_chunks sizes y) at 1 by (rewrite sizes_sum; exact Hy).
    assert (HF : Forall2 (piece_ok t) els (chunks sizes y)).
    { unfold els, sizes. assert (Hy' : length y = fold_right Nat.add 0 (map comp_size comps)) by (fold sizes; rewrite sizes_sum; exact Hy).
      clear - HL Hy'. revert y Hy'. induction comps as [|c0 r IH]; intros y0 Hy0; [constructor|]. cbn [map chunks fold_right] in *.
      destruct (comp_add_facts t c0 (HL c0 (or_introl eq_refl))) as [O [Ht0 [_ [Hl0 _]]]]. constructor.
      - split; [exact O|]. split; [exact Ht0|]. split.
        + intros E. rewrite E in Hl0. cbn in Hl0. unfold comp_size in Hl0. pose proof (HL c0 (or_introl eq_refl)). destruct (snd c0); [contradiction|cbn in Hl0; lia].
        + rewrite firstn_length, Hl0. lia.
      - apply IH; [intros c' Hc'; apply HL; right; exact Hc'|rewrite skipn_length; lia]. }
    replace st with (start_of els k) by (unfold els, st; apply start_of_comps; exact HL).
    assert (En : nth k els (e0' t) = comp_add t c).
    { unfold els, c. rewrite (nth_indep _ (e0' t) (comp_add t ([], []))) by (rewrite map_length; exact Hk). apply map_nth. }
    rewrite (concat_node_at t w els (chunks sizes y) Hels HF k i) by (try (unfold els; rewrite map_length; exact Hk); rewrite En; rewrite (proj1 (proj2 (proj2 (proj2 (comp_add_facts t c (HL c c_in)))))); exact Hi).
    rewrite En. fold chunk. rewrite chunk_split. apply comp_node_at; [apply xf_len|apply xl_len|exact Hi].
  Qed.

  (* the level of a unit of this component *)
  Lemma d_level_of u : In u (F ++ L) -> level_of d u = st + index_of u (F ++ L).
  Proof.
    intros H. rewrite level_of_index. destruct (whole_shape t comps Hne HL) as [_ [_ [_ EU]]]. unfold d. rewrite EU.
    apply (units_index comps u k Hnd Hk). exact H.
  Qed.
  Lemma FL_nodup : NoDup (F ++ L).
  Proof. apply (comp_nodup comps k Hnd Hk). Qed.
End RowSec.
