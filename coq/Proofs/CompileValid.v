(* C09 / C02: compile() in the leaf/factor case.  For EVERY component structure satisfying hints_ok (components partition
   the units, every component has a leaf, every row lies in one component and contains at most one leaf -- what the
   graph step of compile() guarantees), the modelled diagram and row locations satisfy every hypothesis of
   oracle_exact_order: the oracle over them is exact. *)
From Coq Require Import List Arith Bool Lia Permutation.
From DS Require Import Util.ListX Model.ADD Spec.Count Model.Oracle Proofs.ADDProofs Proofs.ModelCount Proofs.OracleExact
     Proofs.OracleValid Proofs.ADDClosure Proofs.ADDConcat Proofs.ADDStack Proofs.CompilePaths.
Import ListNotations.

(* ---------- the shape of one component ---------- *)
Lemma pow2_pos k : 0 < 2 ^ k. Proof. apply Nat.neq_0_lt_0, Nat.pow_nonzero. lia. Qed.
Lemma comp_els_ok t (c : comp) : forall e, In e (repeat (chain t (snd c)) (2 ^ length (fst c))) ->
  okd e /\ d_type e = t /\ length (d_levels e) = length (snd c).
Proof. intros e He. apply repeat_spec in He. subst e. split; [apply chain_okd|]. split; [reflexivity|]. cbn [chain d_levels]. apply map_length. Qed.

Lemma comp_add_facts t (c : comp) : snd c <> [] ->
  okd (comp_add t c) /\ d_type (comp_add t c) = t /\ d_root (comp_add t c) = 0
  /\ length (d_levels (comp_add t c)) = comp_size c /\ d_units (comp_add t c) = fst c ++ snd c /\ zero_adders (comp_add t c).
Proof.
  destruct c as [F L]. cbn [fst snd]. intros HL. unfold comp_add, comp_size. cbn [fst snd]. destruct F as [|f F'].
  - cbn [length Nat.pow repeat add_stack app Nat.add]. split; [apply chain_okd|]. split; [reflexivity|]. split; [reflexivity|].
    split; [cbn [chain d_levels]; apply map_length|]. split; [reflexivity|].
    intros l nd Hl Hnd. cbn [chain d_levels d_type] in *. apply in_map_iff in Hl. destruct Hl as [u [<- _]]. destruct Hnd as [<-|[]]. split; reflexivity.
  - set (F := f :: F') in *. set (els := repeat (chain t L) (2 ^ length F)).
    assert (HF : F <> []) by discriminate. assert (Hn : length els = 2 ^ length F) by (unfold els; apply repeat_length).
    pose proof (comp_els_ok t (F, L)) as Hel. cbn [fst snd] in Hel. fold els in Hel.
    destruct (stack_shape t F els (length L) HF Hn Hel) as [e [els' [E [Ht [Hd ES]]]]].
    split; [apply (stack_okd t F els (length L) HF Hn Hel)|]. rewrite ES. cbn [d_type d_root d_levels d_units].
    assert (Ee : e = chain t L).
    { assert (In e els) by (rewrite E; left; reflexivity). unfold els in H. apply repeat_spec in H. exact H. }
    split; [reflexivity|]. split; [reflexivity|]. split; [rewrite app_length, !map_length, !seq_length; reflexivity|].
    split; [rewrite Ee; reflexivity|].
    intros l nd Hl Hnd. cbn [d_levels d_type] in *. apply in_app_or in Hl. destruct Hl as [Hl|Hl]; apply in_map_iff in Hl; destruct Hl as [i [<- Hi]].
    + unfold hlevel, header_level in Hnd. apply in_app_or in Hnd. destruct Hnd as [Hnd|Hnd]; [|apply repeat_spec in Hnd; subst nd; split; reflexivity].
        apply in_map_iff in Hnd. destruct Hnd as [k [<- _]]. destruct (Nat.eqb (S i) (length F)); split; reflexivity.
    + unfold zlevel in Hnd. apply in_flat_map in Hnd. destruct Hnd as [[ex ox] [Hin Hnd]]. cbn [fst snd] in Hnd.
        apply in_map_iff in Hnd. destruct Hnd as [n0 [<- Hn0]]. apply in_combine_l in Hin. unfold els in Hin. apply repeat_spec in Hin. subst ex.
        cbn [chain d_levels] in Hn0. destruct (Nat.lt_ge_cases i (length L)) as [Hlt|Hge].
      * assert (Hin2 : In (nth i (map (fun _ : nat => [mkNode true 0 0 (a_zero t) (a_zero t)]) L) [])
                         (map (fun _ : nat => [mkNode true 0 0 (a_zero t) (a_zero t)]) L)) by (apply nth_In; rewrite map_length; exact Hlt).
        apply in_map_iff in Hin2. destruct Hin2 as [u [Eu _]]. rewrite <- Eu in Hn0. destruct Hn0 as [<-|[]]. split; reflexivity.
      * rewrite nth_overflow in Hn0 by (rewrite map_length; exact Hge). destruct Hn0.
Qed.

Lemma flat_map_map {A B C} (g : A -> B) (f : B -> list C) : forall l, flat_map f (map g l) = flat_map (fun x => f (g x)) l.
Proof. induction l as [|a l IH]; [reflexivity|]. cbn [map flat_map]. rewrite IH. reflexivity. Qed.
Lemma flat_map_ext_in' {A B} (f g : A -> list B) : forall l, (forall a, In a l -> f a = g a) -> flat_map f l = flat_map g l.
Proof. induction l as [|a l IH]; intros H; [reflexivity|]. cbn [flat_map]. rewrite (H a (or_introl eq_refl)), IH; [reflexivity|]. intros b Hb. apply H. right. exact Hb. Qed.

(* ---------- the whole diagram ---------- *)
Section Whole.
  Variables (t : atype) (comps : list comp).
  Hypothesis Hne : comps <> [].
  Hypothesis HL : forall c, In c comps -> snd c <> [].
  Let els := map (comp_add t) comps.
  Let d := compile_add t comps.
  Let W := fold_right Nat.max 0 (map diameter els).

  Lemma els_ne : els <> []. Proof. unfold els. destruct comps; [contradiction|discriminate]. Qed.
  Lemma els_elem_ok e : In e els -> elem_ok t e.
  Proof.
    intros He. unfold els in He. apply in_map_iff in He. destruct He as [c [<- Hc]].
    destruct (comp_add_facts t c (HL c Hc)) as [O [Ht [_ [Hlen _]]]]. split; [exact O|]. split; [exact Ht|].
    intros E. rewrite E in Hlen. cbn in Hlen. unfold comp_size in Hlen. pose proof (HL c Hc). destruct (snd c); [contradiction|cbn in Hlen; lia].
  Qed.
  Lemma whole_okd : okd d.
  Proof. unfold d, compile_add. fold els. apply (concatenate_okd t els els_ne els_elem_ok). Qed.
End Whole.

Lemma whole_shape t comps : comps <> [] -> (forall c, In c comps -> snd c <> []) ->
  d_type (compile_add t comps) = t /\ d_root (compile_add t comps) = 0
  /\ d_levels (compile_add t comps)
     = concat_levels t (fold_right Nat.max 0 (map diameter (map (comp_add t) comps))) (map (comp_add t) comps)
  /\ d_units (compile_add t comps) = units_of comps.
Proof.
  intros Hne HL. destruct comps as [|c0 r0]; [contradiction|]. unfold compile_add. cbn [map add_concatenate d_type d_root d_levels d_units].
  destruct (comp_add_facts t c0 (HL c0 (or_introl eq_refl))) as [_ [Ht [Hr _]]].
  split; [exact Ht|]. split; [exact Hr|]. split; [rewrite Ht; reflexivity|].
  change (comp_add t c0 :: map (comp_add t) r0) with (map (comp_add t) (c0 :: r0)).
  unfold units_of. rewrite flat_map_map. apply flat_map_ext_in'.
  intros c Hc. destruct (comp_add_facts t c (HL c Hc)) as [_ [_ [_ [_ [Hu _]]]]]. exact Hu.
Qed.

(* ---------- positions of units ---------- *)
Lemma memb_In u l : memb u l = true <-> In u l.
Proof.
  unfold memb. rewrite existsb_exists. split; [intros [x [Hx E]]; apply Nat.eqb_eq in E; subst; exact Hx|intros H; exists u; split; [exact H|apply Nat.eqb_refl]].
Qed.
Lemma level_of_index d u : level_of d u = index_of u (d_units d).
Proof.
  unfold level_of. generalize (d_units d). intros l.
  assert (H : forall k, (fix go (l0 : list nat) (k0 : nat) {struct l0} : nat :=
                match l0 with [] => k0 | u0 :: t0 => if Nat.eqb u0 u then k0 else go t0 (S k0) end) l k = k + index_of u l).
  { induction l as [|a l IH]; intros k; cbn [index_of]; [lia|]. destruct (Nat.eqb a u); [lia|]. rewrite IH. lia. }
  rewrite H. reflexivity.
Qed.
Lemma index_of_app u : forall l1 l2, index_of u (l1 ++ l2) = if memb u l1 then index_of u l1 else length l1 + index_of u l2.
Proof.
  induction l1 as [|a l1 IH]; intros l2; [reflexivity|]. cbn [app index_of memb existsb length]. rewrite (Nat.eqb_sym u a).
  destruct (Nat.eqb a u); cbn [orb]; [reflexivity|]. fold (memb u l1). rewrite IH. destruct (memb u l1); lia.
Qed.
Lemma index_of_lt u : forall l, In u l -> index_of u l < length l /\ nth (index_of u l) l 0 = u.
Proof.
  induction l as [|a l IH]; intros H; [destruct H|]. cbn [index_of]. destruct (Nat.eqb_spec a u) as [->|Hne]; [cbn; split; [lia|reflexivity]|].
  destruct H as [->|H]; [contradiction|]. destruct (IH H) as [A B]. cbn [length nth]. split; [lia|exact B].
Qed.

Definition start (comps : list comp) (k : nat) : nat := fold_right Nat.add 0 (firstn k (map comp_size comps)).
Lemma sum_firstn_S : forall (l : list nat) k, k < length l -> fold_right Nat.add 0 (firstn (S k) l) = fold_right Nat.add 0 (firstn k l) + nth k l 0.
Proof.
  induction l as [|a l IH]; intros k H; [cbn in H; lia|]. destruct k as [|k]; [cbn; lia|].
  change (firstn (S (S k)) (a :: l)) with (a :: firstn (S k) l). change (firstn (S k) (a :: l)) with (a :: firstn k l).
  cbn [fold_right nth]. rewrite IH by (cbn in H; lia). lia.
Qed.
Lemma start_S comps k : k < length comps -> start comps (S k) = start comps k + comp_size (nth k comps ([], [])).
Proof.
  intros H. unfold start. rewrite sum_firstn_S by (rewrite map_length; exact H). f_equal.
  change 0 with (comp_size ([], [])). apply map_nth.
Qed.
Lemma NoDup_app_r' {A} : forall (l1 l2 : list A), NoDup (l1 ++ l2) -> NoDup l2.
Proof. induction l1 as [|a l1 IH]; intros l2 H; [exact H|]. cbn [app] in H. inversion H; subst. apply IH. assumption. Qed.
Lemma units_index comps u k : NoDup (units_of comps) -> k < length comps -> In u (fst (nth k comps ([], [])) ++ snd (nth k comps ([], []))) ->
  index_of u (units_of comps) = start comps k + index_of u (fst (nth k comps ([], [])) ++ snd (nth k comps ([], []))).
Proof.
  revert k. induction comps as [|c r IH]; intros k Hnd Hk Hin; [cbn in Hk; lia|]. unfold units_of in *. cbn [flat_map] in *.
  rewrite index_of_app. destruct k as [|k].
  - cbn [nth] in *. rewrite (proj2 (memb_In u _) Hin). unfold start. cbn. lia.
  - cbn [nth] in *. assert (Hnot : memb u (fst c ++ snd c) = false).
    { destruct (memb u (fst c ++ snd c)) eqn:E; [|reflexivity]. apply memb_In in E. exfalso.
      assert (Hin2 : In u (flat_map (fun c0 : comp => fst c0 ++ snd c0) r)).
      { apply in_flat_map. exists (nth k r ([], [])). split; [apply nth_In; cbn in Hk; lia|exact Hin]. }
      revert Hnd E Hin2. generalize (fst c ++ snd c) as l1, (flat_map (fun c0 : comp => fst c0 ++ snd c0) r) as l2. clear.
      induction l1 as [|a l1 IHl]; intros l2 Hnd E Hin2; [destruct E|]. cbn [app] in Hnd. inversion Hnd as [|? ? Ha Hnd']; subst.
      destruct E as [->|E]; [apply Ha; apply in_or_app; right; exact Hin2|apply (IHl l2 Hnd' E Hin2)]. }
    rewrite Hnot. rewrite (IH k) by (try exact Hin; try (cbn in Hk; lia); apply NoDup_app_r' in Hnd; exact Hnd).
    unfold start. cbn [map firstn fold_right]. unfold comp_size at 2. rewrite app_length. lia.
Qed.
Lemma start_of_comps t : forall comps k, (forall c, In c comps -> snd c <> []) -> start_of (map (comp_add t) comps) k = start comps k.
Proof.
  induction comps as [|c r IH]; intros k HL; [destruct k; reflexivity|]. destruct k as [|k]; [reflexivity|]. cbn [map start_of].
  destruct (comp_add_facts t c (HL c (or_introl eq_refl))) as [_ [_ [_ [Hlen _]]]]. rewrite Hlen, IH by (intros c' Hc'; apply HL; right; exact Hc').
  unfold start. cbn [map firstn fold_right]. reflexivity.
Qed.

(* ---------- one row ---------- *)
Lemma hits_nodes d y lvl (Q : list nat) : NoDup Q -> lvl < length (d_levels d) -> lvl < length y ->
  hits d y (map (fun q => (lvl, q, true)) Q)
  = if nth lvl y false && memb (node_at (d_type d) (d_levels d) (d_root d) y lvl) Q then 1 else 0.
Proof.
  intros Hnd H1 H2. unfold hits. rewrite filter_map_length. set (na := node_at (d_type d) (d_levels d) (d_root d) y lvl).
  rewrite (filter_length_ext _ (fun q => Nat.eqb na q && Bool.eqb (nth lvl y false) true)) by (intros q _; unfold on_loc; apply on_path_node; assumption).
  destruct (nth lvl y false); cbn [andb Bool.eqb].
  - rewrite (filter_length_ext _ (Nat.eqb na)) by (intros q _; apply andb_true_r).
    destruct (memb na Q) eqn:E.
    + apply count_eq_nodup; [exact Hnd|apply memb_In; exact E].
    + rewrite (filter_length_ext _ (fun _ => false)); [apply filter_false_length|]. intros q Hq. apply Nat.eqb_neq. intros ->.
      apply memb_In in Hq. congruence.
  - rewrite (filter_length_ext _ (fun _ => false)); [apply filter_false_length|]. intros q _. apply andb_false_r.
Qed.
Lemma forallb_split {A} (g a : A -> bool) : forall l, forallb g l = forallb g (filter a l) && forallb g (filter (fun x => negb (a x)) l).
Proof.
  induction l as [|x l IH]; [reflexivity|]. cbn [forallb filter]. rewrite IH. destruct (a x); cbn [negb forallb]; destruct (g x); cbn [andb]; try reflexivity.
  - rewrite andb_false_r. reflexivity.
Qed.
Lemma forallb_pivot (g : nat -> bool) i : forall P, In i P -> forallb g P = g i && forallb (fun pos => Nat.eqb pos i || g pos) P.
Proof.
  intros P Hin. destruct (g i) eqn:Gi; cbn [andb].
  - apply forallb_ext_in'. intros pos _. destruct (Nat.eqb_spec pos i) as [->|_]; [rewrite Gi; reflexivity|reflexivity].
  - destruct (forallb g P) eqn:E; [|reflexivity]. rewrite forallb_forall in E. rewrite (E i Hin) in Gi. discriminate.
Qed.
Lemma max_in : forall P : list nat, P <> [] -> In (fold_right Nat.max 0 P) P /\ forall p, In p P -> p <= fold_right Nat.max 0 P.
Proof.
  induction P as [|a P IH]; intros H; [contradiction|]. cbn [fold_right]. destruct P as [|b P'].
  - cbn [fold_right]. rewrite Nat.max_0_r. split; [left; reflexivity|]. intros p [->|[]]. lia.
  - destruct (IH ltac:(discriminate)) as [A B]. set (m := fold_right Nat.max 0 (b :: P')) in *. split.
    + destruct (Nat.max_spec a m) as [[_ ->]|[_ ->]]; [right; exact A|left; reflexivity].
    + intros p [->|Hp]; [lia|]. specialize (B p Hp). lia.
Qed.

Lemma comp_nodup : forall comps k, NoDup (units_of comps) -> k < length comps ->
  NoDup (fst (nth k comps ([], [])) ++ snd (nth k comps ([], []))).
Proof.
  unfold units_of. induction comps as [|c0 r IH]; intros k Hnd Hk; [cbn in Hk; lia|].
  cbn [flat_map] in Hnd. destruct k as [|k]; cbn [nth].
  - clear - Hnd. induction (fst c0 ++ snd c0) as [|a l IHl]; [constructor|]. cbn [app] in Hnd. inversion Hnd as [|? ? Ha Hn']; subst.
    constructor; [intros Hin; apply Ha; apply in_or_app; left; exact Hin|apply IHl; exact Hn'].
  - apply IH; [apply NoDup_app_r' in Hnd; exact Hnd|cbn in Hk; lia].
Qed.

Section RowSec.
  Variables (t : atype) (comps : list comp) (n : nat) (y : list bool) (k : nat).
  Hypothesis Hne : comps <> [].
  Hypothesis HL : forall c, In c comps -> snd c <> [].
  Hypothesis Hnd : NoDup (units_of comps).
  Hypothesis Hlen : length (units_of comps) = n.
  Hypothesis Hy : length y = n.
  Hypothesis Hk : k < length comps.
  Let d := compile_add t comps.
  Let c := nth k comps ([], []).
  Let F := fst c.
  Let L := snd c.
  Let nf := length F.
  Let st := start comps k.
  Let sizes := map comp_size comps.
  Let chunk := nth k (chunks sizes y) [].
  Let xf := firstn nf chunk.
  Let xl := skipn nf chunk.

  Lemma c_in : In c comps. Proof. apply nth_In. exact Hk. Qed.
  Lemma sizes_sum : fold_right Nat.add 0 sizes = n.
  Proof.
    rewrite <- Hlen. unfold sizes, units_of. clear. induction comps as [|c0 r IH]; [reflexivity|]. cbn [map fold_right flat_map].
    rewrite app_length, IH. unfold comp_size. rewrite app_length. reflexivity.
  Qed.
  Lemma chunk_len : length chunk = comp_size c.
  Proof.
    unfold chunk. rewrite chunks_length; [|rewrite sizes_sum; exact Hy|unfold sizes; rewrite map_length; exact Hk].
    unfold sizes. change 0 with (comp_size ([], [])). apply map_nth.
  Qed.
  Lemma xf_len : length xf = nf.
  Proof. unfold xf. rewrite firstn_length, chunk_len. unfold comp_size. fold F nf. lia. Qed.
  Lemma xl_len : length xl = length L.
  Proof. unfold xl. rewrite skipn_length, chunk_len. unfold comp_size. fold F L nf. lia. Qed.
  Lemma chunk_split : chunk = xf ++ xl. Proof. unfold xf, xl. symmetry. apply firstn_skipn. Qed.
  Lemma st_bound : st + comp_size c <= n.
  Proof.
    unfold st, c. rewrite <- (start_S comps k Hk). rewrite <- sizes_sum. unfold start, sizes.
    clear. generalize (S k) as m. generalize (map comp_size comps) as l. induction l as [|a l IH]; intros m; [destruct m; cbn; lia|].
    destruct m as [|m]; cbn [firstn fold_right]; [lia|]. specialize (IH m). lia.
  Qed.
  Lemma y_at pos : pos < comp_size c -> nth (st + pos) y false = nth pos chunk false.
  Proof.
    intros H. unfold chunk, st, start. fold sizes. symmetry. apply chunks_nth; [unfold sizes; rewrite map_length; exact Hk|].
    unfold sizes. rewrite (nth_indep _ 0 (comp_size ([], []))) by (rewrite map_length; exact Hk). rewrite (map_nth comp_size). exact H.
  Qed.
  Lemma y_at_f pos : pos < nf -> nth (st + pos) y false = nth pos xf false.
  Proof.
    intros H. rewrite y_at by (unfold comp_size; fold F nf; lia). rewrite chunk_split, app_nth1 by (rewrite xf_len; exact H). reflexivity.
  Qed.
  Lemma y_at_l j : j < length L -> nth (st + (nf + j)) y false = nth j xl false.
  Proof.
    intros H. rewrite y_at by (unfold comp_size; fold F L nf; lia). rewrite chunk_split, app_nth2 by (rewrite xf_len; lia). rewrite xf_len. f_equal. lia.
  Qed.

  Lemma d_len : length (d_levels d) = n.
  Proof.
    destruct (whole_shape t comps Hne HL) as [_ [_ [EL _]]]. unfold d. rewrite EL.
    rewrite <- sizes_sum. unfold sizes. clear - HL Hne. set (w := fold_right Nat.max 0 (map diameter (map (comp_add t) comps))). clearbody w.
    induction comps as [|c0 r IH]; [contradiction|]. destruct (comp_add_facts t c0 (HL c0 (or_introl eq_refl))) as [_ [_ [_ [Hl0 _]]]].
    destruct r as [|c1 r'].
    - cbn [map concat_levels fold_right]. rewrite map_length, Hl0. lia.
    - change (concat_levels t w (map (comp_add t) (c0 :: c1 :: r'))) with
        (map (pad_level t w) (reroute_last (d_levels (comp_add t c0)) (d_root (comp_add t c1))) ++ concat_levels t w (map (comp_add t) (c1 :: r'))).
      rewrite app_length, map_length, reroute_last_length, Hl0. cbn [map fold_right]. f_equal.
      apply IH; [discriminate|intros c' Hc'; apply HL; right; exact Hc'].
  Qed.

  (* the node reached at level st + i *)
  Lemma d_node_at i : i < comp_size c ->
    node_at (d_type d) (d_levels d) (d_root d) y (st + i) = if i <? nf then sel (firstn i xf) else sel xf.
  Proof.
    intros Hi. destruct (whole_shape t comps Hne HL) as [Ht [Hr [EL _]]]. unfold d. rewrite Ht, Hr, EL.
    set (els := map (comp_add t) comps). set (w := fold_right Nat.max 0 (map diameter els)).
    assert (Hels : els <> []) by (unfold els; destruct comps; [contradiction|discriminate]).
    assert (R0 : d_root (hd (mkADD t [] 0 []) els) = 0).
    { unfold els. destruct comps as [|c0 r]; [contradiction|]. cbn [map hd]. apply (comp_add_facts t c0 (HL c0 (or_introl eq_refl))). }
    rewrite <- R0. rewrite <- (concat_chunks sizes y) at 1 by (rewrite sizes_sum; exact Hy).
    assert (HF : Forall2 (piece_ok t) els (chunks sizes y)).
    { unfold els, sizes. assert (Hy' : length y = fold_right Nat.add 0 (map comp_size comps)) by (fold sizes; rewrite sizes_sum; exact Hy).
      clear - HL Hy'. revert y Hy'. induction comps as [|c0 r IH]; intros y0 Hy0; [constructor|]. cbn [map chunks fold_right] in *.
      destruct (comp_add_facts t c0 (HL c0 (or_introl eq_refl))) as [O [Ht0 [_ [Hl0 _]]]]. constructor.
      - split; [exact O|]. split; [exact Ht0|]. split.
        + intros E. rewrite E in Hl0. cbn in Hl0. unfold comp_size in Hl0. pose proof (HL c0 (or_introl eq_refl)). destruct (snd c0); [contradiction|cbn in Hl0; lia].
        + rewrite firstn_length, Hl0. lia.
      - apply IH; [intros c' Hc'; apply HL; right; exact Hc'|rewrite skipn_length; lia]. }
    replace st with (start_of els k) by (unfold els, st; apply start_of_comps; exact HL).
    assert (En : nth k els (e0' t) = comp_add t c).
    { unfold els, c. rewrite (nth_indep _ (e0' t) (comp_add t ([], []))) by (rewrite map_length; exact Hk). apply map_nth. }
    rewrite (concat_node_at t w els (chunks sizes y) Hels HF k i) by (try (unfold els; rewrite map_length; exact Hk); rewrite En; rewrite (proj1 (proj2 (proj2 (proj2 (comp_add_facts t c (HL c c_in)))))); exact Hi).
    rewrite En. fold chunk. rewrite chunk_split. apply comp_node_at; [apply xf_len|apply xl_len|exact Hi].
  Qed.

  (* the level of a unit of this component *)
  Lemma d_level_of u : In u (F ++ L) -> level_of d u = st + index_of u (F ++ L).
  Proof.
    intros H. rewrite level_of_index. destruct (whole_shape t comps Hne HL) as [_ [_ [_ EU]]]. unfold d. rewrite EU.
    apply (units_index comps u k Hnd Hk). exact H.
  Qed.
  Lemma FL_nodup : NoDup (F ++ L).
  Proof. apply (comp_nodup comps k Hnd Hk). Qed.

  (* ---- the hits of a row's locations ---- *)
  Lemma memb_filter_seq (f : nat -> bool) m q : q < m -> memb q (filter f (seq 0 m)) = f q.
  Proof.
    intros H. destruct (f q) eqn:E.
    - apply memb_In. apply filter_In. split; [apply in_seq; lia|exact E].
    - destruct (memb q (filter f (seq 0 m))) eqn:E2; [|reflexivity]. apply memb_In in E2. apply filter_In in E2. destruct E2 as [_ E2]. congruence.
  Qed.
  Lemma forallb_map' {A B} (h : A -> B) (g : B -> bool) : forall l, forallb g (map h l) = forallb (fun a => g (h a)) l.
  Proof. induction l as [|a l IH]; [reflexivity|]. cbn [map forallb]. rewrite IH. reflexivity. Qed.
  Lemma memb_FL v : In v (F ++ L) -> memb v L = negb (memb v F).
  Proof.
    intros Hin. pose proof FL_nodup as Hn. destruct (memb v F) eqn:EF; cbn [negb].
    - apply memb_In in EF. destruct (memb v L) eqn:EL; [|reflexivity]. apply memb_In in EL. exfalso.
      clear - Hn EF EL. induction F as [|a l IHl]; [destruct EF|]. cbn [app] in Hn. inversion Hn as [|? ? Ha Hn']; subst.
      destruct EF as [->|EF]; [apply Ha; apply in_or_app; right; exact EL|apply (IHl Hn' EF)].
    - apply in_app_or in Hin. destruct Hin as [Hin|Hin]; [apply memb_In in Hin; congruence|apply memb_In; exact Hin].
  Qed.

  Lemma row_hits row : row <> [] -> (forall v, In v row -> In v (F ++ L)) -> length (filter (fun v => memb v L) row) <= 1 ->
    hits d y (row_locs_in st c row) = if forallb (fun u => nth (level_of d u) y false) row then 1 else 0.
  Proof.
    intros Hrow Hin Hleaf. unfold row_locs_in. fold F L nf.
    set (G := fun u => nth (level_of d u) y false).
    set (P := map (fun u => index_of u F) (filter (fun u => memb u F) row)).
    assert (PF : forall pos, In pos P -> pos < nf).
    { intros pos Hp. unfold P in Hp. apply in_map_iff in Hp. destruct Hp as [u [<- Hu]]. apply filter_In in Hu. destruct Hu as [_ Hu]. apply memb_In in Hu.
      apply (index_of_lt u F Hu). }
    assert (RowF : forallb G (filter (fun u => memb u F) row) = forallb (fun pos => nth pos xf false) P).
    { unfold P. rewrite forallb_map'. apply forallb_ext_in'. intros u Hu. apply filter_In in Hu. destruct Hu as [Hur Hu]. unfold G.
      rewrite (d_level_of u (Hin u Hur)), index_of_app, Hu. apply y_at_f. apply memb_In in Hu. apply (index_of_lt u F Hu). }
    assert (Split : forallb G row = forallb G (filter (fun u => memb u F) row) && forallb G (filter (fun v => memb v L) row)).
    { rewrite (forallb_split G (fun u => memb u F) row). f_equal. f_equal. apply filter_ext_in. intros v Hv. symmetry. apply memb_FL. apply Hin. exact Hv. }
    pose proof st_bound as Hst. pose proof d_len as Hdl.
    destruct (filter (fun v => memb v L) row) as [|l tl] eqn:EL.
    - (* all units of the row are factors *)
      assert (Hall : filter (fun u => memb u F) row = row).
      { assert (H : forall v, In v row -> memb v F = true).
        { intros v Hv. pose proof (memb_FL v (Hin v Hv)) as E. destruct (memb v F) eqn:EF; [reflexivity|]. cbn in E.
          assert (In v (filter (fun v0 => memb v0 L) row)) by (apply filter_In; split; assumption). rewrite EL in H. destruct H. }
        clear - H. induction row as [|a r IH]; [reflexivity|]. cbn [filter]. rewrite (H a (or_introl eq_refl)). f_equal. apply IH. intros v Hv. apply H. right. exact Hv. }
      assert (PN : P <> []) by (unfold P; rewrite Hall; destruct row; [contradiction|discriminate]).
      destruct (max_in P PN) as [Mi Mle]. set (i := fold_right Nat.max 0 P) in *. pose proof (PF i Mi) as Hi.
      assert (Lfi : length (firstn i xf) = i) by (rewrite firstn_length, xf_len; lia).
      rewrite hits_nodes; [|apply NoDup_filter, seq_NoDup|unfold comp_size in Hst; fold F L nf in Hst; lia|unfold comp_size in Hst; fold F L nf in Hst; lia].
      rewrite (d_node_at i) by (unfold comp_size; fold F L nf; lia). replace (i <? nf) with true by (symmetry; apply Nat.ltb_lt; exact Hi).
      rewrite memb_filter_seq by (rewrite <- Lfi at 2; apply sel_lt). rewrite y_at_f by exact Hi.
      rewrite Split, RowF. cbn [forallb]. rewrite andb_true_r.
      rewrite (forallb_pivot (fun pos => nth pos xf false) i P Mi).
      replace (forallb (fun pos => Nat.eqb pos i || msb i (sel (firstn i xf)) pos) P) with (forallb (fun pos => Nat.eqb pos i || nth pos xf false) P); [reflexivity|].
      apply forallb_ext_in'. intros pos Hp. destruct (Nat.eqb_spec pos i) as [->|Hpi]; [reflexivity|]. cbn [orb].
      pose proof (Mle pos Hp). rewrite <- Lfi at 1. rewrite msb_sel by (rewrite Lfi; lia). symmetry. apply nth_firstn_lt. lia.
    - (* the row has its leaf *)
      assert (Etl : tl = []) by (destruct tl; [reflexivity|cbn in Hleaf; lia]). subst tl.
      assert (HlL : In l L).
      { assert (Hl : In l (filter (fun v => memb v L) row)) by (rewrite EL; left; reflexivity). apply filter_In in Hl. destruct Hl as [_ Hl]. apply memb_In. exact Hl. }
      destruct (index_of_lt l L HlL) as [Hidx _].
      assert (HlF : memb l F = false).
      { pose proof (memb_FL l (in_or_app _ _ _ (or_intror HlL))) as E. rewrite (proj2 (memb_In l L) HlL) in E. destruct (memb l F); [discriminate|reflexivity]. }
      rewrite <- Nat.add_assoc.
      rewrite hits_nodes; [|apply NoDup_filter, seq_NoDup|unfold comp_size in Hst; fold F L nf in Hst; lia|unfold comp_size in Hst; fold F L nf in Hst; lia].
      rewrite (d_node_at (nf + index_of l L)) by (unfold comp_size; fold F L nf; lia).
      replace (nf + index_of l L <? nf) with false by (symmetry; apply Nat.ltb_ge; lia).
      rewrite memb_filter_seq by (rewrite <- xf_len; apply sel_lt). rewrite y_at_l by exact Hidx.
      rewrite Split, RowF. cbn [forallb]. rewrite andb_true_r. unfold G at 1.
      rewrite (d_level_of l (in_or_app _ _ _ (or_intror HlL))), index_of_app, HlF. fold nf. rewrite y_at_l by exact Hidx.
      replace (forallb (msb nf (sel xf)) P) with (forallb (fun pos => nth pos xf false) P); [rewrite andb_comm; reflexivity|].
      apply forallb_ext_in'. intros pos Hp. rewrite <- xf_len at 1. symmetry. apply msb_sel. rewrite xf_len. apply PF. exact Hp.
  Qed.
End RowSec.

(* ---------- assembling the hypotheses of oracle_exact_order ---------- *)
Lemma whole_zero t comps : comps <> [] -> (forall c, In c comps -> snd c <> []) -> zero_adders (compile_add t comps).
Proof.
  intros Hne HL. destruct (whole_shape t comps Hne HL) as [Ht [_ [EL _]]]. intros l nd Hl Hnd. rewrite Ht. rewrite EL in Hl.
  destruct (concat_levels_in t _ _ l Hl) as [e [l0 [He [Hl0 C]]]]. apply in_map_iff in He. destruct He as [c [<- Hc]].
  destruct (comp_add_facts t c (HL c Hc)) as [_ [Htc [_ [_ [_ Z]]]]]. rewrite <- Htc.
  destruct C as [->|[tgt ->]]; unfold pad_level in Hnd; apply in_app_or in Hnd; destruct Hnd as [Hnd|Hnd];
    try (apply repeat_spec in Hnd; subst nd; rewrite Htc; split; reflexivity).
  - apply (Z l0 nd Hl0 Hnd).
  - apply in_map_iff in Hnd. destruct Hnd as [n0 [<- Hn0]]. destruct (Z l0 n0 Hl0 Hn0) as [A B]. destruct (n_live n0); cbn [n_a0 n_a1]; split; assumption.
Qed.

Lemma row_ok_find : forall comps row s, row_ok comps row = true ->
  exists k, k < length comps /\ row <> [] /\ (forall v, In v row -> In v (fst (nth k comps ([], [])) ++ snd (nth k comps ([], []))))
            /\ length (filter (fun v => memb v (snd (nth k comps ([], [])))) row) <= 1
            /\ row_locs s comps row = row_locs_in (s + start comps k) (nth k comps ([], [])) row.
Proof.
  induction comps as [|c r IH]; intros row s H; [discriminate|]. cbn [row_ok row_locs] in *.
  destruct (memb (hd 0 row) (fst c ++ snd c)) eqn:E.
  - apply andb_prop in H as [H H3]. apply andb_prop in H as [H1 H2]. exists 0. cbn [nth length]. split; [lia|]. split.
    + intros ->. discriminate.
    + split; [intros v Hv; rewrite forallb_forall in H2; apply memb_In; apply H2; exact Hv|]. split; [apply Nat.leb_le; exact H3|].
      unfold start. cbn. rewrite Nat.add_0_r. reflexivity.
  - destruct (IH row (s + comp_size c) H) as [k [A [B [C [D F]]]]]. exists (S k). cbn [nth length]. split; [lia|]. split; [exact B|]. split; [exact C|]. split; [exact D|].
    rewrite F. f_equal. unfold start. cbn [map firstn fold_right]. lia.
Qed.

Theorem compile_valid (p : cprob) comps : hints_ok (p_units p) (p_rows p) comps = true ->
  let d := compile_add (p_type p) comps in let locs := map (row_locs 0 comps) (p_rows p) in
  d_type d = p_type p /\ okd d /\ zero_adders d
  /\ Permutation (map (level_of d) (seq 0 (p_units p))) (seq 0 (p_units p)) /\ length (d_levels d) = p_units p
  /\ (forall y, length y = p_units p -> forall r, r < length (p_rows p) ->
        hits d y (nth r locs []) = if row_present (nth r (p_rows p) []) (unit_view d (p_units p) y) then 1 else 0)
  /\ (forall r u, In u (nth r (p_rows p) []) -> u < p_units p).
Proof.
  unfold hints_ok. intros H.
  repeat (match type of H with (_ && _) = true => let H' := fresh "V" in apply andb_prop in H as [H H'] end).
  (* H nodup, V3 lt, V2 len, V1 leaves, V0 nonempty, V rows *)
  set (n := p_units p) in *. set (t := p_type p).
  assert (Hnd : NoDup (units_of comps)) by (apply nodup_b_NoDup; exact H).
  assert (Hlt : forall u, In u (units_of comps) -> u < n) by (intros u Hu; rewrite forallb_forall in V3; apply Nat.ltb_lt; apply V3; exact Hu).
  assert (Hlen : length (units_of comps) = n) by (apply Nat.eqb_eq; exact V2).
  assert (HL : forall c, In c comps -> snd c <> []).
  { intros c Hc E. rewrite forallb_forall in V1. specialize (V1 c Hc). rewrite E in V1. discriminate. }
  assert (Hne : comps <> []) by (intros E; rewrite E in V0; discriminate).
  set (d := compile_add t comps). set (locs := map (row_locs 0 comps) (p_rows p)). destruct (whole_shape t comps Hne HL) as [Ht [Hr [EL EU]]]. fold d in Ht, Hr, EL, EU.
  assert (Hrow : forall r, r < length (p_rows p) -> row_ok comps (nth r (p_rows p) []) = true).
  { intros r Hr'. rewrite forallb_forall in V. apply V. apply nth_In. exact Hr'. }
  assert (Hunits : forall k v, k < length comps -> In v (fst (nth k comps ([], [])) ++ snd (nth k comps ([], []))) -> In v (units_of comps)).
  { intros k v Hk Hv. unfold units_of. apply in_flat_map. exists (nth k comps ([], [])). split; [apply nth_In; exact Hk|exact Hv]. }
  split; [exact Ht|]. split; [apply (whole_okd t comps Hne HL)|]. split; [apply (whole_zero t comps Hne HL)|]. split; [|split; [|split]].
  - (* the unit order is a permutation *)
    assert (PU : Permutation (units_of comps) (seq 0 n)).
    { apply NoDup_Permutation_bis; [exact Hnd|rewrite seq_length; lia|]. intros u Hu. apply in_seq. specialize (Hlt u Hu). lia. }
    assert (Hall : forall u, u < n -> In u (units_of comps)) by (intros u Hu; apply (Permutation_in _ (Permutation_sym PU)); apply in_seq; lia).
    apply NoDup_Permutation_bis.
    + apply KnnShapley.NoDup_map_inj; [apply seq_NoDup|]. intros u v Hu Hv E. apply in_seq in Hu. apply in_seq in Hv.
      rewrite !level_of_index, EU in E. destruct (index_of_lt u _ (Hall u ltac:(lia))) as [_ A]. destruct (index_of_lt v _ (Hall v ltac:(lia))) as [_ B].
      rewrite <- A, <- B, E. reflexivity.
    + rewrite map_length, !seq_length. lia.
    + intros x Hx. apply in_map_iff in Hx. destruct Hx as [u [<- Hu]]. apply in_seq in Hu. rewrite level_of_index, EU.
      destruct (index_of_lt u _ (Hall u ltac:(lia))) as [A _]. apply in_seq. lia.
  - apply (d_len t comps n Hne HL Hlen).
  - intros y Hy r Hr'. destruct (row_ok_find comps (nth r (p_rows p) []) 0 (Hrow r Hr')) as [k [Hk [Hrne [Hin [Hleaf Eloc]]]]].
    unfold locs. rewrite (nth_indep _ [] (row_locs 0 comps [])) by (rewrite map_length; exact Hr'). rewrite (map_nth (row_locs 0 comps)).
    rewrite Eloc. cbn [Nat.add]. unfold d. rewrite (row_hits t comps n y k Hne HL Hnd Hlen Hy Hk _ Hrne Hin Hleaf).
    unfold row_present. replace (forallb (fun u => nth u (unit_view (compile_add t comps) n y) false) (nth r (p_rows p) []))
      with (forallb (fun u => nth (level_of (compile_add t comps) u) y false) (nth r (p_rows p) [])); [reflexivity|].
    apply forallb_ext_in'. intros u Hu. symmetry. apply unit_view_nth. apply Hlt. apply (Hunits k u Hk). apply Hin. exact Hu.
  - intros r u Hu. destruct (Nat.lt_ge_cases r (length (p_rows p))) as [Hr'|Hr']; [|rewrite nth_overflow in Hu by exact Hr'; destruct Hu].
    destruct (row_ok_find comps (nth r (p_rows p) []) 0 (Hrow r Hr')) as [k [Hk [_ [Hin _]]]]. apply Hlt. apply (Hunits k u Hk). apply Hin. exact Hu.
Qed.

(* compile()'s construction is correct for every admissible component structure *)
Theorem oracle_compile_exact (p : cprob) comps target t1 t2 :
  hints_ok (p_units p) (p_rows p) comps = true -> 2 <= p_units p -> target < p_units p ->
  oracle_query p (compile_add (p_type p) comps) (map (row_locs 0 comps) (p_rows p)) target t1 t2 = Some (count_spec p target t1 t2).
Proof.
  intros H Hn Htg. destruct (compile_valid p comps H) as [A [B [C [D [E [F G]]]]]]. apply oracle_exact_order; assumption.
Qed.
