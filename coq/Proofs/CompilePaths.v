(* Where an assignment's path runs in stacked and concatenated diagrams (node_at), as needed to show that compile()'s
   row locations are valid. *)
From Coq Require Import List Arith Bool Lia.
From DS Require Import Util.ListX Model.ADD Model.Oracle Proofs.ADDProofs Proofs.ModelCount Proofs.OracleExact
     Proofs.ADDClosure Proofs.ADDConcat Proofs.ADDStack.
Import ListNotations.

(* node_at through a prefix of levels *)
Lemma node_at_app_l t : forall l1 l2 j x lvl, lvl < length l1 -> lvl < length x -> node_at t (l1 ++ l2) j x lvl = node_at t l1 j x lvl.
Proof.
  induction l1 as [|l l1 IH]; intros l2 j x lvl H1 H2; [cbn in H1; lia|]. destruct lvl as [|lvl]; [reflexivity|].
  destruct x as [|c x]; [cbn in H2; lia|]. cbn [app node_at]. apply IH; cbn in H1, H2; lia.
Qed.
Lemma node_at_app_r t : forall l1 l2 j x1 x2 lvl, length x1 = length l1 ->
  node_at t (l1 ++ l2) j (x1 ++ x2) (length l1 + lvl) = node_at t l2 (end_node t l1 j x1) x2 lvl.
Proof.
  induction l1 as [|l l1 IH]; intros l2 j x1 x2 lvl H; destruct x1 as [|c x1]; try discriminate; [reflexivity|].
  cbn [app length Nat.add node_at end_node]. apply IH. cbn in H. lia.
Qed.
Lemma node_at_pad t w : forall lvls j x lvl, node_at t (map (pad_level t w) lvls) j x lvl = node_at t lvls j x lvl.
Proof.
  induction lvls as [|l rest IH]; intros j x lvl; destruct lvl as [|lvl]; try reflexivity. destruct x as [|c x]; [reflexivity|].
  cbn [map node_at]. rewrite getnode_pad. apply IH.
Qed.
Lemma node_at_reroute t tgt : forall lvls j x lvl, lvl < length lvls -> node_at t (reroute_last lvls tgt) j x lvl = node_at t lvls j x lvl.
Proof.
  induction lvls as [|l rest IH]; intros j x lvl H; [cbn in H; lia|].
  destruct rest as [|l' r]; [destruct lvl; [reflexivity|cbn in H; lia]|]. change (reroute_last (l :: l' :: r) tgt) with (l :: reroute_last (l' :: r) tgt).
  destruct lvl as [|lvl]; [reflexivity|]. destruct x as [|c x]; [reflexivity|]. cbn [node_at]. apply IH. cbn in H. cbn. lia.
Qed.

(* ---------- bits of the selected element index ---------- *)
Lemma sel_snoc xf b : sel (xf ++ [b]) = 2 * sel xf + (if b then 1 else 0).
Proof. unfold sel. rewrite fold_left_app. reflexivity. Qed.
Lemma sel_lt xf : sel xf < 2 ^ length xf.
Proof. unfold sel. apply (fold_selstep_lt xf 0 0). cbn. lia. Qed.
Lemma msb_sel : forall xf pos, pos < length xf -> msb (length xf) (sel xf) pos = nth pos xf false.
Proof.
  intros xf. induction xf as [|b xf IH] using rev_ind; intros pos H; [cbn in H; lia|].
  rewrite app_length in *. cbn [length] in *. unfold msb. rewrite sel_snoc.
  destruct (Nat.eq_dec pos (length xf)) as [->|Hne].
  - replace (length xf + 1 - 1 - length xf) with 0 by lia. rewrite app_nth2, Nat.sub_diag by lia. cbn [nth].
    destruct b; [apply Nat.testbit_odd_0|rewrite Nat.add_0_r; apply Nat.testbit_even_0].
  - replace (length xf + 1 - 1 - pos) with (S (length xf - 1 - pos)) by lia. rewrite app_nth1 by lia.
    destruct b.
    + rewrite Nat.testbit_odd_succ by lia. apply IH. lia.
    + rewrite Nat.add_0_r, Nat.testbit_even_succ by lia. apply IH. lia.
Qed.

(* ---------- inside one stacked component ---------- *)
Lemma header_end t els nf roots : forall m s, s + S m = nf -> forall k xf, k < 2 ^ s -> length xf = S m ->
  end_node t (map (hlevel t els nf roots) (seq s (S m))) k xf = nth (fold_left selstep xf k) roots 0.
Proof.
  induction m as [|m IH]; intros s Hs k xf Hk Hx; destruct xf as [|c xf]; try discriminate.
  - destruct xf; [|discriminate]. cbn [seq map end_node fold_left]. rewrite getnode_hlevel by exact Hk.
    replace (Nat.eqb (S s) nf) with true by (symmetry; apply Nat.eqb_eq; lia). unfold selstep. destruct c; cbn [child n_c0 n_c1]; f_equal; lia.
  - change (seq s (S (S m))) with (s :: seq (S s) (S m)). cbn [map end_node fold_left]. rewrite getnode_hlevel by exact Hk.
    replace (Nat.eqb (S s) nf) with false by (symmetry; apply Nat.eqb_neq; lia).
    replace (child _ c) with (selstep k c) by (unfold selstep; destruct c; cbn [child n_c0 n_c1]; lia).
    apply IH; [lia| |cbn in Hx; lia]. unfold selstep. cbn [Nat.pow]. destruct c; lia.
Qed.
Lemma header_node_at t els nf roots : forall i m s, s + S m = nf -> forall k x, k < 2 ^ s -> i <= m -> i <= length x ->
  node_at t (map (hlevel t els nf roots) (seq s (S m))) k x i = fold_left selstep (firstn i x) k.
Proof.
  induction i as [|i IH]; intros m s Hs k x Hk Hi Hx; [reflexivity|]. destruct x as [|c x]; [cbn in Hx; lia|].
  destruct m as [|m]; [lia|]. change (seq s (S (S m))) with (s :: seq (S s) (S m)). cbn [map node_at firstn fold_left].
  rewrite getnode_hlevel by exact Hk. replace (Nat.eqb (S s) nf) with false by (symmetry; apply Nat.eqb_neq; lia).
  replace (child _ c) with (selstep k c) by (unfold selstep; destruct c; cbn [child n_c0 n_c1]; lia).
  apply IH; [lia| |lia|cbn in Hx; lia]. unfold selstep. cbn [Nat.pow]. destruct c; lia.
Qed.

Lemma zip_node_at t els depth (Hel : forall e, In e els -> okd e /\ d_type e = t /\ length (d_levels e) = depth) q :
  q < length els -> forall m i0, i0 + m = depth -> forall i j x, i <= m -> i <= length x ->
  good_from t (diameter (nth q els (mkADD (plain []) [] 0 []))) (skipn i0 (d_levels (nth q els (mkADD (plain []) [] 0 [])))) j ->
  node_at t (map (zlevel els) (seq i0 m)) (nth q (offsets els 0) 0 + j) x i
  = nth q (offsets els 0) 0 + node_at t (skipn i0 (d_levels (nth q els (mkADD (plain []) [] 0 [])))) j x i.
Proof.
  intros Hq. set (e0 := mkADD (plain []) [] 0 []). destruct (Hel _ (nth_In els e0 Hq)) as [[_ [Rc _]] [_ Hd]]. set (Le := d_levels (nth q els e0)) in *.
  induction m as [|m IH]; intros i0 Hi0 i j x Hi Hx G; [assert (i = 0) by lia; subst i; destruct (skipn i0 Le); reflexivity|].
  destruct i as [|i]; [destruct (skipn i0 Le); reflexivity|]. destruct x as [|c x]; [cbn in Hx; lia|].
  cbn [seq map node_at]. rewrite (skipn_cons_nth [] i0 Le) in * by lia. cbn [node_at good_from] in *. destruct G as [G1 [G2 [G3 G4]]].
  assert (Hin : In (nth i0 Le []) Le) by (apply nth_In; lia).
  assert (Hj : j < diameter (nth q els e0)) by (rewrite <- (Rc (nth i0 Le []) Hin); exact G1).
  rewrite (getnode_zlevel t els depth Hel i0 q j) by (try assumption; lia). fold e0. fold Le. set (n := getnode t (nth i0 Le []) j) in *.
  replace (child (shift_node (nth q (offsets els 0) 0) n) c) with (nth q (offsets els 0) 0 + child n c) by (destruct c; cbn; lia).
  apply IH; [lia|lia|cbn in Hx; lia|destruct c; assumption].
Qed.

Lemma offsets_repeat e : forall k a q, q < k -> nth q (offsets (repeat e k) a) 0 = a + q * diameter e.
Proof.
  induction k as [|k IH]; intros a q H; [lia|]. cbn [repeat offsets]. destruct q as [|q]; cbn [nth]; [lia|]. rewrite IH by lia. lia.
Qed.
Lemma chain_diameter t units : diameter (chain t units) = 1.
Proof. unfold diameter, chain. cbn [d_levels]. destruct units; reflexivity. Qed.
Lemma nth_repeat_same {A} (a d : A) k q : q < k -> nth q (repeat a k) d = a.
Proof. apply nth_repeat_in. Qed.

(* the node reached at level i of a component: the factor values read so far (header), then the selected copy *)
Theorem comp_node_at t (c : comp) xf xl i : length xf = length (fst c) -> length xl = length (snd c) -> i < comp_size c ->
  node_at t (d_levels (comp_add t c)) (d_root (comp_add t c)) (xf ++ xl) i
  = if i <? length (fst c) then sel (firstn i xf) else sel xf.
Proof.
  destruct c as [F L]. cbn [fst snd]. unfold comp_size. cbn [fst snd]. intros Hf Hl Hi. unfold comp_add. cbn [fst snd].
  destruct F as [|f F'].
  - destruct xf; [|discriminate]. cbn [length Nat.pow repeat] in *. cbn [add_stack app Nat.ltb Nat.leb]. cbn [chain d_levels d_root].
    rewrite chain_node_at. reflexivity.
  - set (F := f :: F') in *. set (els := repeat (chain t L) (2 ^ length F)).
    assert (Hel : forall e, In e els -> okd e /\ d_type e = t /\ length (d_levels e) = length L).
    { intros e He. apply repeat_spec in He. subst e. split; [apply chain_okd|]. split; [reflexivity|]. cbn [chain d_levels]. apply map_length. }
    assert (HF : F <> []) by discriminate.
    assert (Hn : length els = 2 ^ length F) by (unfold els; apply repeat_length).
    destruct (stack_shape t F els (length L) HF Hn Hel) as [e [els' [E [Ht [Hd ES]]]]]. rewrite ES. cbn [d_levels d_root].
    set (nf := length F) in *. set (roots := map (fun eo : add * nat => d_root (fst eo) + snd eo) (combine els (offsets els 0))) in *.
    assert (Hnf : nf = S (nf - 1)) by (unfold nf, F; cbn; lia).
    assert (LH : length (map (hlevel t els nf roots) (seq 0 nf)) = nf) by (rewrite map_length, seq_length; reflexivity).
    destruct (Nat.ltb_spec i nf) as [Hlt|Hge].
    + rewrite node_at_app_l by (rewrite ?LH, ?app_length; lia).
      replace (seq 0 nf) with (seq 0 (S (nf - 1))) by (rewrite <- Hnf; reflexivity).
      rewrite (header_node_at t els nf roots i (nf - 1) 0) by (try lia; try (cbn; lia); rewrite app_length; lia).
      rewrite firstn_app. replace (i - length xf) with 0 by lia. cbn [firstn]. rewrite app_nil_r. reflexivity.
    + replace i with (length (map (hlevel t els nf roots) (seq 0 nf)) + (i - nf)) by (rewrite LH; lia).
      rewrite node_at_app_r by (rewrite LH; exact Hf).
      replace (seq 0 nf) with (seq 0 (S (nf - 1))) by (rewrite <- Hnf; reflexivity).
      rewrite (header_end t els nf roots (nf - 1) 0) by (try lia; cbn; lia). fold (sel xf).
      set (q := sel xf). assert (Hq : q < length els) by (rewrite Hn; unfold q; rewrite <- Hf; apply sel_lt).
      unfold roots. rewrite (roots_nth F els Hn q Hq).
      assert (Eq : nth q els (mkADD (plain []) [] 0 []) = chain t L) by (unfold els; apply nth_repeat_same; rewrite <- Hn; exact Hq).
      assert (Eo : nth q (offsets els 0) 0 = q).
      { unfold els. rewrite offsets_repeat by (unfold els in Hq; rewrite repeat_length in Hq; exact Hq). rewrite chain_diameter. lia. }
      rewrite (zip_node_at t els (length L) Hel q Hq (length L) 0 eq_refl (i - nf) (d_root (nth q els (mkADD (plain []) [] 0 []))) xl); try lia.
      * rewrite Eq, Eo. cbn [skipn chain d_levels d_root]. rewrite chain_node_at. lia.
      * cbn [skipn]. rewrite Eq. destruct (chain_okd t L) as [_ [_ G]]. exact G.
Qed.

(* ---------- across concatenated elements ---------- *)
Lemma node_at_prefix t : forall lvls j x1 x2 i, i <= length x1 -> node_at t lvls j (x1 ++ x2) i = node_at t lvls j x1 i.
Proof.
  induction lvls as [|l rest IH]; intros j x1 x2 i H; destruct i as [|i]; try reflexivity.
  destruct x1 as [|c x1]; [cbn in H; lia|]. cbn [app node_at]. apply IH. cbn in H. lia.
Qed.

Definition e0' (t : atype) : add := mkADD t [] 0 [].
Fixpoint start_of (els : list add) (k : nat) : nat :=
  match els, k with e :: rest, S k' => length (d_levels e) + start_of rest k' | _, _ => 0 end.

Lemma concat_node_at t w : forall els xs, els <> [] -> Forall2 (piece_ok t) els xs ->
  forall k i, k < length els -> i < length (d_levels (nth k els (e0' t))) ->
  node_at t (concat_levels t w els) (d_root (hd (mkADD t [] 0 []) els)) (concat xs) (start_of els k + i)
  = node_at t (d_levels (nth k els (e0' t))) (d_root (nth k els (e0' t))) (nth k xs []) i.
Proof.
  induction els as [|e els IH]; intros xs Hne HF k i Hk Hi; [contradiction|].
  destruct (Forall2_cons_l _ _ _ _ HF) as [x [xs' [-> [[O [Ht [Hl Hx]]] HF']]]].
  destruct els as [|e' els'].
  - assert (k = 0) by (cbn in Hk; lia). subst k. apply Forall2_nil_l in HF'. subst xs'.
    cbn [concat_levels concat start_of hd nth Nat.add] in *. rewrite app_nil_r. apply node_at_pad.
  - change (concat_levels t w (e :: e' :: els')) with (map (pad_level t w) (reroute_last (d_levels e) (d_root e')) ++ concat_levels t w (e' :: els')).
    assert (LL : length (map (pad_level t w) (reroute_last (d_levels e) (d_root e'))) = length (d_levels e)) by (rewrite map_length; apply reroute_last_length).
    cbn [concat hd]. destruct k as [|k].
    + cbn [start_of nth Nat.add] in *. rewrite node_at_app_l by (rewrite ?LL, ?app_length; lia).
      rewrite node_at_pad, node_at_reroute by exact Hi. apply node_at_prefix. lia.
    + cbn [start_of nth] in *. rewrite <- LL at 1. rewrite <- Nat.add_assoc. rewrite node_at_app_r by (rewrite LL; exact Hx).
      rewrite end_pad. destruct O as [_ [_ G]]. rewrite Ht in G.
      destruct (reroute_eval t (d_root e') _ (d_levels e) (d_root e) None x G Hx Hl) as [_ E2]. rewrite E2.
      apply (IH xs' ltac:(discriminate) HF' k i); [cbn in Hk; cbn; lia|exact Hi].
Qed.

(* cutting an assignment into the pieces of the elements *)
Fixpoint chunks (sizes : list nat) (y : list bool) : list (list bool) :=
  match sizes with [] => [] | s :: rest => firstn s y :: chunks rest (skipn s y) end.
Lemma concat_chunks : forall sizes y, length y = fold_right Nat.add 0 sizes -> concat (chunks sizes y) = y.
Proof.
  induction sizes as [|s rest IH]; intros y H; cbn [chunks concat fold_right] in *; [destruct y; [reflexivity|discriminate]|].
  rewrite IH by (rewrite skipn_length; lia). apply firstn_skipn.
Qed.
Lemma chunks_length : forall sizes y k, length y = fold_right Nat.add 0 sizes -> k < length sizes ->
  length (nth k (chunks sizes y) []) = nth k sizes 0.
Proof.
  induction sizes as [|s rest IH]; intros y k H Hk; [cbn in Hk; lia|]. cbn [chunks fold_right] in *. destruct k as [|k]; cbn [nth].
  - rewrite firstn_length. lia.
  - apply IH; [rewrite skipn_length; lia|cbn in Hk; lia].
Qed.
Lemma chunks_nth : forall sizes y k pos, k < length sizes -> pos < nth k sizes 0 ->
  nth pos (nth k (chunks sizes y) []) false = nth (fold_right Nat.add 0 (firstn k sizes) + pos) y false.
Proof.
  induction sizes as [|s rest IH]; intros y k pos Hk Hp; [cbn in Hk; lia|]. cbn [chunks]. destruct k as [|k]; cbn [nth firstn fold_right] in *.
  - apply nth_firstn_lt. exact Hp.
  - cbn [length] in Hk. rewrite IH by (try exact Hp; lia). rewrite nth_skipn_add. f_equal. lia.
Qed.
