(* Where an assignment's path runs in stacked and concatenated diagrams (node_at), as needed to show that compile()'s
   row locations are valid. *)
From Coq Require Import List Arith Bool Lia.
From DS Require Import Util.ListX Model.ADD Model.Oracle Proofs.ADDProofs Proofs.ModelCount Proofs.OracleExact
     Proofs.ADDClosure Proofs.ADDConcat Proofs.ADDStack.
Import ListNotations.

(* node_at through a prefix of levels *)
Lemma node_at_app_l t : forall l1 l2 j x lvl, lvl < length l1 -> lvl < length x -> node_at t (l1 ++ l2) j x lvl = node_at t l1 j x lvl.
Proof.
  induction l1 as [|l l1 IH]; intros l2 j x lvl H1 H2; [cbn in H1; lia|]. destruct lvl as [|lvl]; [reflexivity|].
  destruct x as [|c x]; [cbn in H2; lia|]. cbn [app node_at]. apply IH; cbn in H1, H2; lia.
Qed.
Lemma node_at_app_r t : forall l1 l2 j x1 x2 lvl, length x1 = length l1 ->
  node_at t (l1 ++ l2) j (x1 ++ x2) (length l1 + lvl) = node_at t l2 (end_node t l1 j x1) x2 lvl.
Proof.
  induction l1 as [|l l1 IH]; intros l2 j x1 x2 lvl H; destruct x1 as [|c x1]; try discriminate; [reflexivity|].
  cbn [app length Nat.add node_at end_node]. apply IH. cbn in H. lia.
Qed.
Lemma node_at_pad t w : forall lvls j x lvl, node_at t (map (pad_level t w) lvls) j x lvl = node_at t lvls j x lvl.
Proof.
  induction lvls as [|l rest IH]; intros j x lvl; destruct lvl as [|lvl]; try reflexivity. destruct x as [|c x]; [reflexivity|].
  cbn [map node_at]. rewrite getnode_pad. apply IH.
Qed.
Lemma node_at_reroute t tgt : forall lvls j x lvl, lvl < length lvls -> node_at t (reroute_last lvls tgt) j x lvl = node_at t lvls j x lvl.
Proof.
  induction lvls as [|l rest IH]; intros j x lvl H; [cbn in H; lia|].
  destruct rest as [|l' r]; [destruct lvl; [reflexivity|cbn in H; lia]|]. change (reroute_last (l :: l' :: r) tgt) with (l :: reroute_last (l' :: r) tgt).
  destruct lvl as [|lvl]; [reflexivity|]. destruct x as [|c x]; [reflexivity|]. cbn [node_at]. apply IH. cbn in H. cbn. lia.
Qed.
