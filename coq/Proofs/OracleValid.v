(* C09: the boolean validator of a compiled diagram implies every hypothesis of oracle_exact_order -- whenever
   valid_compiled evaluates to true on the diagram and row locations dumped from the implementation, the oracle model
   is exact for every target and boundary pair (translation validation backed by a theorem). *)
From Coq Require Import List Arith Bool Lia Permutation.
From DS Require Import Util.ListX Model.ADD Spec.Count Model.Oracle Proofs.ADDProofs Proofs.ModelCount Proofs.OracleExact.
From DS Require Proofs.KnnShapley Proofs.ShapleyAxioms.
Import ListNotations.

Lemma eqb_natlist_eq : forall a b, eqb_natlist a b = true -> a = b.
Proof.
  unfold eqb_natlist. induction a as [|x a IH]; intros [|y b] H; try reflexivity; try discriminate.
  cbn [length combine forallb fst snd] in H. apply andb_prop in H as [H1 H2]. apply andb_prop in H2 as [H2 H3].
  apply Nat.eqb_eq in H2. subst y. f_equal. apply IH. cbn in H1. rewrite H1. exact H3.
Qed.
Lemma eqb_atype_eq a b : eqb_atype a b = true -> a = b.
Proof.
  unfold eqb_atype. intros H. apply andb_prop in H as [H1 H2]. apply eqb_natlist_eq in H1. destruct a as [ma ta], b as [mb tb]. cbn in *. subst mb.
  destruct ta as [[k c]|], tb as [[k' c']|]; try discriminate; [|reflexivity].
  apply andb_prop in H2 as [E1 E2]. apply Nat.eqb_eq in E1. apply Nat.eqb_eq in E2. subst. reflexivity.
Qed.
Lemma wt_b_wt t x : wt_b t x = true -> wt t x.
Proof. destruct x as [v|]; cbn; [apply Nat.eqb_eq|auto]. Qed.
Lemma good_b_good t w : forall lvls j, good_b t w lvls j = true -> good_from t w lvls j.
Proof.
  induction lvls as [|l rest IH]; intros j H; cbn [good_b good_from] in *; [apply Nat.ltb_lt; exact H|].
  apply andb_prop in H as [H H4]. apply andb_prop in H as [H H3]. apply andb_prop in H as [H1 H2]. apply Nat.ltb_lt in H1. auto.
Qed.
Lemma nodup_b_NoDup : forall l, nodup_b l = true -> NoDup l.
Proof.
  induction l as [|a r IH]; intros H; [constructor|]. cbn [nodup_b] in H. apply andb_prop in H as [H1 H2]. constructor; [|apply IH; exact H2].
  intros Hin. apply negb_true_iff in H1. assert (existsb (Nat.eqb a) r = true); [|congruence].
  apply existsb_exists. exists a. split; [exact Hin|apply Nat.eqb_refl].
Qed.

(* the path listed by path_nodes is the path of on_path *)
Lemma path_nodes_on_path t : forall lvls root x off i j b,
  existsb (eqb_loc (i, j, b)) (path_nodes t lvls root x off) = if Nat.ltb i off then false else on_path t lvls root x (i - off) j b.
Proof.
  induction lvls as [|l rest IH]; intros root x off i j b.
  - cbn [path_nodes existsb on_path]. destruct (Nat.ltb i off); reflexivity.
  - destruct x as [|c x]; [cbn [path_nodes existsb on_path]; destruct (Nat.ltb i off); reflexivity|].
    cbn [path_nodes existsb]. rewrite IH. unfold eqb_loc at 1. cbn [fst snd].
    destruct (Nat.ltb_spec i off) as [L|L].
    + replace (Nat.eqb i off) with false by (symmetry; apply Nat.eqb_neq; lia). cbn [andb orb].
      replace (Nat.ltb i (S off)) with true by (symmetry; apply Nat.ltb_lt; lia). reflexivity.
    + destruct (Nat.eqb_spec i off) as [->|Hne].
      * rewrite Nat.sub_diag. cbn [on_path]. replace (Nat.ltb off (S off)) with true by (symmetry; apply Nat.ltb_lt; lia).
        rewrite orb_false_r. rewrite (Nat.eqb_sym j root). destruct (Nat.eqb root j); cbn [andb]; [|reflexivity].
        destruct b, c; reflexivity.
      * cbn [andb orb]. replace (Nat.ltb i (S off)) with false by (symmetry; apply Nat.ltb_ge; lia).
        replace (i - off) with (S (i - S off)) by lia. reflexivity.
Qed.

Theorem valid_compiled_sound p d locs : valid_compiled p d locs = true ->
  d_type d = p_type p /\ okd d /\ zero_adders d
  /\ Permutation (map (level_of d) (seq 0 (p_units p))) (seq 0 (p_units p)) /\ length (d_levels d) = p_units p
  /\ (forall y, length y = p_units p -> forall r, r < length (p_rows p) ->
        hits d y (nth r locs []) = if row_present (nth r (p_rows p) []) (unit_view d (p_units p) y) then 1 else 0)
  /\ (forall r u, In u (nth r (p_rows p) []) -> u < p_units p).
Proof.
  unfold valid_compiled. intros H.
  repeat (match type of H with (_ && _) = true => let H' := fresh "V" in apply andb_prop in H as [H H'] end).
  (* H type, V7 wt, V6 rect, V5 good, V4 zero, V3 lt, V2 nodup, V1 len, V0 rows, V compiled_ok *)
  apply eqb_atype_eq in H.
  split; [exact H|]. split; [|split; [|split; [|split; [|split]]]].
  - split; [|split].
    + intros l nd Hl Hnd. rewrite forallb_forall in V7. specialize (V7 l Hl). rewrite forallb_forall in V7. specialize (V7 nd Hnd).
      apply andb_prop in V7 as [A B]. split; apply wt_b_wt; assumption.
    + intros l Hl. rewrite forallb_forall in V6. apply Nat.eqb_eq. apply V6. exact Hl.
    + apply good_b_good. exact V5.
  - intros l nd Hl Hnd. rewrite forallb_forall in V4. specialize (V4 l Hl). rewrite forallb_forall in V4. specialize (V4 nd Hnd).
    apply andb_prop in V4 as [A B]. split; apply a_eqb_eq; assumption.
  - apply NoDup_Permutation_bis; [apply nodup_b_NoDup; exact V2|rewrite map_length, !seq_length; lia|].
    intros k Hk. rewrite forallb_forall in V3. apply V3 in Hk. apply Nat.ltb_lt in Hk. apply in_seq. lia.
  - apply Nat.eqb_eq. exact V1.
  - intros y Hy r Hr. unfold compiled_ok in V. apply andb_prop in V as [_ V]. rewrite forallb_forall in V.
    assert (Hin : In y (bmasks (p_units p))) by (rewrite <- KnnShapley.masks_bmasks; apply ShapleyAxioms.masks_length; exact Hy).
    specialize (V y Hin). cbv zeta in V. rewrite forallb_forall in V. specialize (V r ltac:(apply in_seq; lia)). apply Nat.eqb_eq in V.
    unfold unit_view. rewrite <- V. unfold hits. apply filter_length_ext. intros [[i j] b] _. unfold on_loc.
    rewrite path_nodes_on_path. cbn [Nat.ltb Nat.leb]. rewrite Nat.sub_0_r. reflexivity.
  - intros r u Hin. destruct (Nat.lt_ge_cases r (length (p_rows p))) as [Hr|Hr]; [|rewrite nth_overflow in Hin by exact Hr; destruct Hin].
    rewrite forallb_forall in V0. specialize (V0 (nth r (p_rows p) []) (nth_In _ _ Hr)). rewrite forallb_forall in V0. apply Nat.ltb_lt. apply V0. exact Hin.
Qed.

Theorem oracle_exact_validated p d locs target t1 t2 :
  valid_compiled p d locs = true -> 2 <= p_units p -> target < p_units p ->
  oracle_query p d locs target t1 t2 = Some (count_spec p target t1 t2).
Proof.
  intros V Hn Htg. destruct (valid_compiled_sound p d locs V) as [A [B [C [D [E [F G]]]]]].
  apply oracle_exact_order; assumption.
Qed.

(* the validator does not look at labels or distances *)
Lemma valid_compiled_data_irrelevant n rows labels labels' ds ds' nt K C d locs :
  valid_compiled (mkProb n rows labels ds nt K C) d locs = valid_compiled (mkProb n rows labels' ds' nt K C) d locs.
Proof. reflexivity. Qed.
