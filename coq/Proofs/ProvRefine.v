(* C19: a Provenance under any history of legal edits refines a plain list of formulas.
   C12: fork / select / default / grouped act row-wise. *)
From Coq Require Import List Arith ZArith Bool Lia.
From DS Require Import Util.ListX Spec.Dnf Model.Provenance Model.ProvOps Proofs.QueryCorrect.
Import ListNotations.

(* ---------- list edit helpers ---------- *)
Lemma map_set_nth {A B} (g : A -> B) i v l : map g (set_nth i v l) = set_nth i (g v) (map g l).
Proof. unfold set_nth. rewrite map_app, firstn_map. cbn [map]. rewrite skipn_map. reflexivity. Qed.
Lemma map_insert_nth {A B} (g : A -> B) i v l : map g (insert_nth i v l) = insert_nth i (g v) (map g l).
Proof. unfold insert_nth. rewrite map_app, firstn_map. cbn [map]. rewrite skipn_map. reflexivity. Qed.
Lemma map_del_nth {A B} (g : A -> B) i l : map g (del_nth i l) = del_nth i (map g l).
Proof. unfold del_nth. rewrite map_app, firstn_map, skipn_map. reflexivity. Qed.

Lemma set_insert_nth {A} i (v w : A) l : i <= length l -> set_nth i v (insert_nth i w l) = insert_nth i v l.
Proof.
  intros H. unfold set_nth, insert_nth.
  rewrite firstn_app, firstn_firstn, Nat.min_id, firstn_length, Nat.min_l by exact H.
  rewrite Nat.sub_diag. cbn [firstn]. rewrite app_nil_r.
  rewrite skipn_app, firstn_length, Nat.min_l by exact H.
  rewrite (skipn_all2 (firstn i l)) by (rewrite firstn_length; lia).
  replace (S i - i) with 1 by lia. reflexivity.
Qed.

Lemma in_set_nth {A} i (v : A) l x : In x (set_nth i v l) -> x = v \/ In x l.
Proof.
  unfold set_nth. intros H. apply in_app_or in H as [H|[H|H]].
  - right. eapply In_firstn; eauto.
  - left. symmetry. exact H.
  - right. eapply In_skipn; eauto.
Qed.
Lemma in_insert_nth {A} i (v : A) l x : In x (insert_nth i v l) -> x = v \/ In x l.
Proof.
  unfold insert_nth. intros H. apply in_app_or in H as [H|[H|H]].
  - right. eapply In_firstn; eauto.
  - left. symmetry. exact H.
  - right. eapply In_skipn; eauto.
Qed.
Lemma in_del_nth {A} i l (x : A) : In x (del_nth i l) -> In x l.
Proof.
  unfold del_nth. intros H. apply in_app_or in H as [H|H]; [eapply In_firstn|eapply In_skipn]; eauto.
Qed.
Lemma set_nth_length {A} i (v : A) l : i < length l -> length (set_nth i v l) = length l.
Proof.
  intros H. unfold set_nth. rewrite app_length, firstn_length, Nat.min_l by lia. cbn [length].
  rewrite skipn_length. lia.
Qed.
Lemma insert_nth_length {A} i (v : A) l : i <= length l -> length (insert_nth i v l) = S (length l).
Proof.
  intros H. unfold insert_nth. rewrite app_length, firstn_length, Nat.min_l by lia. cbn [length].
  rewrite skipn_length. lia.
Qed.
Lemma insert_nth_end {A} (v : A) l : insert_nth (length l) v l = l ++ [v].
Proof. unfold insert_nth. rewrite firstn_all, skipn_all. reflexivity. Qed.
Lemma del_nth_last {A} (l : list A) : del_nth (length l - 1) l = removelast l.
Proof.
  destruct l as [|a l] using rev_ind; [reflexivity|].
  rewrite removelast_last. unfold del_nth. rewrite app_length. cbn [length].
  replace (length l + 1 - 1) with (length l) by lia.
  rewrite firstn_app, firstn_all, Nat.sub_diag. cbn [firstn]. rewrite app_nil_r.
  rewrite skipn_all2 by (rewrite app_length; cbn [length]; lia). apply app_nil_r.
Qed.

(* ---------- re-padding is invisible ---------- *)
Lemma decode_repad_conj C c : decode_conj (repad_conj C c) = decode_conj c.
Proof.
  unfold decode_conj, repad_conj. rewrite filter_app, (filter_repeat_false _ padcell) by reflexivity.
  rewrite app_nil_r. reflexivity.
Qed.
Lemma allpad_repad_conj C c : forallb cell_is_pad (repad_conj C c) = forallb cell_is_pad c.
Proof.
  unfold repad_conj. rewrite forallb_app, (forallb_repeat _ padcell) by reflexivity. apply andb_true_r.
Qed.
Lemma decode_repad_row D C r : decode_row (repad_row D C r) = decode_row r.
Proof.
  unfold decode_row, repad_row. rewrite filter_app, map_app.
  rewrite (filter_repeat_false _ (repeat padcell C)) by (rewrite forallb_repeat; reflexivity).
  cbn [map]. rewrite app_nil_r.
  induction r as [|c r IH]; [reflexivity|]. cbn [map filter]. rewrite allpad_repad_conj.
  destruct (forallb cell_is_pad c); cbn [negb map]; rewrite ?decode_repad_conj, IH; reflexivity.
Qed.
Lemma clean_repad_row n D C r : clean_row n r -> clean_row n (repad_row D C r).
Proof.
  intros H c Hc. unfold repad_row in Hc. apply in_app_or in Hc as [Hc|Hc].
  - apply in_map_iff in Hc as [c0 [<- Hc0]]. intros x Hx. unfold repad_conj in Hx. apply in_app_or in Hx as [Hx|Hx].
    + exact (H c0 Hc0 x Hx).
    + apply repeat_spec in Hx. left. exact Hx.
  - apply repeat_spec in Hc. subst c. apply clean_repeat_pad.
Qed.
Lemma decode_blank D C : decode_row (repeat (repeat padcell C) D) = [].
Proof.
  unfold decode_row. rewrite (filter_repeat_false _ (repeat padcell C)); [reflexivity|].
  rewrite forallb_repeat; reflexivity.
Qed.
Lemma clean_blank n D C : clean_row n (repeat (repeat padcell C) D).
Proof. intros c Hc. apply repeat_spec in Hc. subst c. apply clean_repeat_pad. Qed.

(* ---------- the primitive edits on the view ---------- *)
Lemma view_length p : length (view p) = plen p.
Proof. unfold view, plen. apply map_length. Qed.

Lemma view_repad D C p : view (repad D C p) = view p.
Proof. unfold view, repad. cbn [prow]. rewrite map_map. apply map_ext. apply decode_repad_row. Qed.

Theorem view_setitem p i f : conj_nonempty f -> view (setitem p i f) = set_nth i f (view p).
Proof.
  intros Hne. unfold view, setitem. cbn [prow]. rewrite map_set_nth, decode_pad_row by exact Hne.
  f_equal. apply (view_repad _ _ p).
Qed.
Theorem view_insert p i f : conj_nonempty f -> i <= plen p -> view (insert p i f) = insert_nth i f (view p).
Proof.
  intros Hne Hi. unfold insert. rewrite view_setitem by exact Hne. unfold view at 1. cbn [prow].
  rewrite map_insert_nth, decode_blank. fold (view p). apply set_insert_nth. rewrite view_length. exact Hi.
Qed.
Theorem view_delitem p i : view (delitem p i) = del_nth i (view p).
Proof. unfold view, delitem. cbn [prow]. apply map_del_nth. Qed.

Lemma clean_setitem n p i f : clean n p -> units_below n f -> clean n (setitem p i f).
Proof.
  intros Hp Hf r Hr. unfold setitem in Hr. cbn [prow] in Hr. apply in_set_nth in Hr as [->|Hr].
  - apply clean_pad_row. exact Hf.
  - apply in_map_iff in Hr as [r0 [<- Hr0]]. apply clean_repad_row. apply Hp. exact Hr0.
Qed.
Lemma clean_insert n p i f : clean n p -> units_below n f -> clean n (insert p i f).
Proof.
  intros Hp Hf. unfold insert. apply clean_setitem; [|exact Hf].
  intros r Hr. cbn [prow] in Hr. apply in_insert_nth in Hr as [->|Hr]; [apply clean_blank|apply Hp; exact Hr].
Qed.
Lemma clean_delitem n p i : clean n p -> clean n (delitem p i).
Proof. intros Hp r Hr. cbn [delitem prow] in Hr. apply in_del_nth in Hr. apply Hp. exact Hr. Qed.

Lemma clean_encode n fs : (forall f, In f fs -> units_below n f) -> clean n (encode fs).
Proof.
  intros H r Hr. unfold encode in Hr. cbn [prow] in Hr. apply in_map_iff in Hr as [f [<- Hf]].
  apply clean_pad_row. apply H. exact Hf.
Qed.
Lemma view_encode fs : (forall f, In f fs -> conj_nonempty f) -> view (encode fs) = fs.
Proof.
  intros H. unfold view, encode. cbn [prow]. rewrite map_map. rewrite <- (map_id fs) at 2.
  apply map_ext_in. intros f Hf. apply decode_pad_row. apply H. exact Hf.
Qed.

(* ---------- observations through the view ---------- *)
Theorem query_view (x : assignment) p : clean (length x) p -> query p (zs x) = map (eval_dnf x) (view p).
Proof.
  intros H. unfold query, view. rewrite map_map. apply map_ext_in. intros r Hr. apply query_row_decode. apply H. exact Hr.
Qed.
Theorem getitem_view p i : getitem p i = nth i (view p) [].
Proof.
  unfold getitem, view. change (nth i (map decode_row (prow p)) []) with (nth i (map decode_row (prow p)) (decode_row [])).
  symmetry. apply map_nth.
Qed.

(* ---------- extend ---------- *)
Lemma view_extend n : forall fs p, (forall f, In f fs -> wf_formula n f) -> clean n p ->
  view (fold_left (fun q f => insert q (plen q) f) fs p) = view p ++ fs /\
  clean n (fold_left (fun q f => insert q (plen q) f) fs p).
Proof.
  induction fs as [|f fs IH]; intros p Hf Hp; cbn [fold_left].
  - rewrite app_nil_r. split; [reflexivity|exact Hp].
  - destruct (Hf f (or_introl eq_refl)) as [_ [Hne Hu]].
    destruct (IH (insert p (plen p) f)) as [E C].
    + intros g Hg. apply Hf. right. exact Hg.
    + apply clean_insert; assumption.
    + split; [|exact C]. rewrite E, view_insert by (auto; lia).
      rewrite <- view_length, insert_nth_end, <- app_assoc. reflexivity.
Qed.

(* ---------- delete many ---------- *)
Lemma map_del_many {A B} (g : A -> B) idx l : map g (del_many idx l) = del_many idx (map g l).
Proof.
  unfold del_many. rewrite map_length. generalize (seq 0 (length l)) as s.
  induction l as [|a l IH]; intros [|k s]; cbn [combine filter map]; try reflexivity.
  cbn [fst]. destruct (existsb (Nat.eqb k) idx); cbn [negb map snd]; rewrite IH; reflexivity.
Qed.
Lemma in_del_many {A} idx l (x : A) : In x (del_many idx l) -> In x l.
Proof.
  unfold del_many. intros H. apply in_map_iff in H as [[k y] [<- H]]. apply filter_In in H as [H _].
  apply in_combine_r in H. exact H.
Qed.

(* ---------- reverse ---------- *)
Lemma nth_set_nth_same {A} (d v : A) i l : i < length l -> nth i (set_nth i v l) d = v.
Proof.
  intros H. unfold set_nth. rewrite app_nth2; rewrite firstn_length, Nat.min_l by lia; [|lia].
  rewrite Nat.sub_diag. reflexivity.
Qed.
Lemma nth_set_nth_other {A} (d v : A) i j l : i < length l -> j <> i -> nth j (set_nth i v l) d = nth j l d.
Proof.
  intros H Hne. unfold set_nth. destruct (Nat.lt_ge_cases j i) as [Hlt|Hge].
  - rewrite app_nth1 by (rewrite firstn_length; lia). rewrite <- (firstn_skipn i l) at 2.
    rewrite app_nth1 by (rewrite firstn_length; lia). reflexivity.
  - rewrite app_nth2; rewrite firstn_length, Nat.min_l by lia; [|lia].
    destruct (j - i) as [|m] eqn:E; [lia|]. cbn [nth].
    rewrite nth_skipn_add. f_equal. lia.
Qed.

Lemma swap_loop_spec {A} (d : A) (l : list A) n : n = length l ->
  forall k i l', i + k <= n / 2 -> length l' = n ->
    (forall t, t < n -> nth t l' d = if (t <? i) || (n - 1 - i <? t) then nth (n - 1 - t) l d else nth t l d) ->
    let r := swap_loop d k i n l' in
    length r = n /\
    forall t, t < n -> nth t r d = if (t <? i + k) || (n - 1 - (i + k) <? t) then nth (n - 1 - t) l d else nth t l d.
Proof.
  intros Hn. induction k as [|k IH]; intros i l' Hik Hlen Hinv; cbn [swap_loop].
  - rewrite Nat.add_0_r. split; [exact Hlen|exact Hinv].
  - assert (Hdiv : 2 * (n / 2) <= n) by (apply Nat.mul_div_le; lia).
    assert (Hi : i < n) by lia. assert (Hj : n - i - 1 < n) by lia.
    assert (Hne : n - i - 1 <> i) by lia.
    set (l1 := set_nth i (nth (n - i - 1) l' d) l').
    set (l2 := set_nth (n - i - 1) (nth i l' d) l1).
    assert (Hl1 : length l1 = n) by (unfold l1; rewrite set_nth_length; lia).
    assert (Hl2 : length l2 = n) by (unfold l2; rewrite set_nth_length; lia).
    specialize (IH (S i) l2). replace (S i + k) with (i + S k) in IH by lia.
    apply IH; [lia|exact Hl2|].
    intros t Ht. unfold l2.
    destruct (Nat.eq_dec t (n - i - 1)) as [->|Hne1].
    + rewrite nth_set_nth_same by lia. rewrite (Hinv i Hi).
      replace (i <? i) with false by (symmetry; apply Nat.ltb_ge; lia).
      replace (n - 1 - i <? i) with false by (symmetry; apply Nat.ltb_ge; lia). cbn [orb].
      replace (n - i - 1 <? S i) with false by (symmetry; apply Nat.ltb_ge; lia).
      replace (n - 1 - S i <? n - i - 1) with true by (symmetry; apply Nat.ltb_lt; lia). cbn [orb].
      f_equal. lia.
    + rewrite nth_set_nth_other by lia. unfold l1.
      destruct (Nat.eq_dec t i) as [->|Hne2].
      * rewrite nth_set_nth_same by lia. rewrite (Hinv (n - i - 1) Hj).
        replace (n - i - 1 <? i) with false by (symmetry; apply Nat.ltb_ge; lia).
        replace (n - 1 - i <? n - i - 1) with false by (symmetry; apply Nat.ltb_ge; lia). cbn [orb].
        replace (i <? S i) with true by (symmetry; apply Nat.ltb_lt; lia). cbn [orb]. f_equal. lia.
      * rewrite nth_set_nth_other by lia. rewrite (Hinv t Ht).
        destruct (Nat.ltb_spec t i), (Nat.ltb_spec (n - 1 - i) t), (Nat.ltb_spec t (S i)), (Nat.ltb_spec (n - 1 - S i) t);
          cbn [orb]; try reflexivity; lia.
Qed.

Theorem swap_loop_rev {A} (d : A) (l : list A) : swap_loop d (length l / 2) 0 (length l) l = rev l.
Proof.
  set (n := length l).
  destruct (swap_loop_spec d l n eq_refl (n / 2) 0 l) as [Hlen Hnth]; [lia|reflexivity| |].
  - intros t Ht. replace (t <? 0) with false by reflexivity.
    replace (n - 1 - 0 <? t) with false by (symmetry; apply Nat.ltb_ge; lia). reflexivity.
  - apply (nth_ext _ _ d d); [rewrite rev_length; exact Hlen|].
    intros t Ht. rewrite Hlen in Ht. rewrite (Hnth t Ht). cbn [Nat.add].
    assert (Hdiv : 2 * (n / 2) <= n) by (apply Nat.mul_div_le; lia).
    assert (Hdiv2 : n < 2 * (n / 2) + 2).
    { pose proof (Nat.div_mod n 2 ltac:(lia)) as E. pose proof (Nat.mod_upper_bound n 2 ltac:(lia)). lia. }
    rewrite rev_nth by exact Ht. fold n.
    destruct (Nat.ltb_spec t (n / 2)), (Nat.ltb_spec (n - 1 - n / 2) t); cbn [orb];
      try (f_equal; lia).
Qed.

(* the array-level loop follows the list-level loop as long as every row reads back to a storable formula *)
Definition rows_wf (n : nat) (l : list dnf) : Prop := forall f, In f l -> wf_formula n f.

Lemma rows_wf_set_nth n i f l : rows_wf n l -> wf_formula n f -> rows_wf n (set_nth i f l).
Proof. intros Hl Hf g Hg. apply in_set_nth in Hg as [->|Hg]; [exact Hf|apply Hl; exact Hg]. Qed.

Lemma reverse_loop_view n : forall k i m p, clean n p -> rows_wf n (view p) -> plen p = m -> i + k <= m / 2 ->
  view (reverse_loop k i m p) = swap_loop [] k i m (view p) /\ clean n (reverse_loop k i m p).
Proof.
  induction k as [|k IH]; intros i m p Hc Hwf Hm Hik; cbn [reverse_loop swap_loop]; [split; [reflexivity|exact Hc]|].
  assert (Hdiv : 2 * (m / 2) <= m) by (apply Nat.mul_div_le; lia).
  assert (Hi : i < length (view p)) by (rewrite view_length; lia).
  assert (Hj : m - i - 1 < length (view p)) by (rewrite view_length; lia).
  assert (Wa : wf_formula n (getitem p i)) by (rewrite getitem_view; apply Hwf; apply nth_In; exact Hi).
  assert (Wb : wf_formula n (getitem p (m - i - 1))) by (rewrite getitem_view; apply Hwf; apply nth_In; exact Hj).
  set (p1 := setitem p i (getitem p (m - i - 1))).
  set (p2 := setitem p1 (m - i - 1) (getitem p i)).
  assert (V1 : view p1 = set_nth i (getitem p (m - i - 1)) (view p)) by (apply view_setitem; apply Wb).
  assert (V2 : view p2 = set_nth (m - i - 1) (getitem p i) (view p1)) by (apply view_setitem; apply Wa).
  assert (C2 : clean n p2) by (apply clean_setitem; [apply clean_setitem; [exact Hc|apply Wb]|apply Wa]).
  assert (L1 : length (view p1) = length (view p)) by (rewrite V1; apply set_nth_length; exact Hi).
  destruct (IH (S i) m p2) as [E C]; try exact C2; try lia.
  - rewrite V2, V1. apply rows_wf_set_nth; [apply rows_wf_set_nth|]; assumption.
  - rewrite <- view_length, V2, set_nth_length by (rewrite L1; exact Hj). rewrite L1, view_length. exact Hm.
  - split; [|exact C]. rewrite E, V2, V1, !getitem_view. reflexivity.
Qed.

Theorem view_reverse n p : clean n p -> rows_wf n (view p) -> view (reverse_p p) = rev (view p) /\ clean n (reverse_p p).
Proof.
  intros Hc Hwf. unfold reverse_p. destruct (reverse_loop_view n (plen p / 2) 0 (plen p) p Hc Hwf eq_refl) as [E C]; [lia|].
  split; [|exact C]. rewrite E, <- view_length. apply swap_loop_rev.
Qed.

(* ---------- assignment to several positions at once ---------- *)
Lemma view_setmany n : forall (its : list (nat * dnf)) p, (forall t, In t its -> wf_formula n (snd t)) -> clean n p ->
  view (fold_left (fun q (t : nat * dnf) => setitem q (fst t) (snd t)) its p)
  = fold_left (fun m (t : nat * dnf) => set_nth (fst t) (snd t) m) its (view p)
  /\ clean n (fold_left (fun q (t : nat * dnf) => setitem q (fst t) (snd t)) its p).
Proof.
  induction its as [|[i f] its IH]; intros p Hf Hp; cbn [fold_left fst snd]; [split; [reflexivity|exact Hp]|].
  destruct (Hf (i, f) (or_introl eq_refl)) as [_ [Hne Hu]]. cbn [snd] in Hne, Hu.
  destruct (IH (setitem p i f)) as [E C].
  - intros t Ht. apply Hf. right. exact Ht.
  - apply clean_setitem; assumption.
  - split; [|exact C]. rewrite E, view_setitem by exact Hne. reflexivity.
Qed.
Lemma rows_wf_setmany n : forall (its : list (nat * dnf)) l, rows_wf n l -> (forall t, In t its -> wf_formula n (snd t)) ->
  rows_wf n (fold_left (fun m (t : nat * dnf) => set_nth (fst t) (snd t) m) its l).
Proof.
  induction its as [|[i f] its IH]; intros l Hl Hf; cbn [fold_left fst snd]; [exact Hl|]. apply IH.
  - apply rows_wf_set_nth; [exact Hl|]. apply (Hf (i, f)). left. reflexivity.
  - intros t Ht. apply Hf. right. exact Ht.
Qed.

(* ---------- one step and whole histories ---------- *)
Lemma rows_wf_apply n l o : rows_wf n l -> legal n l o -> rows_wf n (apply_list l o).
Proof.
  intros Hl Ho. destruct o as [i f|i f|f|i| |fs|idx|idx fs|]; cbn [apply_list legal] in *.
  - apply rows_wf_set_nth; tauto.
  - intros g Hg. apply in_insert_nth in Hg as [->|Hg]; [tauto|apply Hl; exact Hg].
  - intros g Hg. apply in_app_or in Hg as [Hg|[<-|[]]]; [apply Hl; exact Hg|exact Ho].
  - intros g Hg. apply in_del_nth in Hg. apply Hl. exact Hg.
  - intros g Hg. apply Hl. destruct l as [|a l] using rev_ind; [destruct Hg|].
    rewrite removelast_last in Hg. apply in_or_app. left. exact Hg.
  - intros g Hg. apply in_app_or in Hg as [Hg|Hg]; [apply Hl|apply Ho]; exact Hg.
  - intros g Hg. apply in_del_many in Hg. apply Hl. exact Hg.
  - destruct Ho as [_ [_ Hf]]. apply rows_wf_setmany; [exact Hl|]. intros [i0 f0] Ht. apply Hf. apply in_combine_r in Ht. exact Ht.
  - intros g Hg. apply in_rev in Hg. apply Hl. exact Hg.
Qed.

Theorem step_refines n p o : clean n p -> rows_wf n (view p) -> legal n (view p) o ->
  view (apply_op p o) = apply_list (view p) o /\ clean n (apply_op p o).
Proof.
  intros Hc Hwf Ho. destruct o as [i f|i f|f|i| |fs|idx|idx fs|]; cbn [apply_op apply_list legal] in *.
  - destruct Ho as [_ [_ [Hne Hu]]]. split; [apply view_setitem; exact Hne|apply clean_setitem; assumption].
  - destruct Ho as [Hi [_ [Hne Hu]]]. rewrite view_length in Hi.
    split; [apply view_insert; assumption|apply clean_insert; assumption].
  - destruct Ho as [_ [Hne Hu]]. split; [|apply clean_insert; assumption].
    rewrite view_insert by (auto; lia). rewrite <- view_length. apply insert_nth_end.
  - split; [apply view_delitem|apply clean_delitem; exact Hc].
  - split; [|apply clean_delitem; exact Hc]. rewrite view_delitem, <- view_length. apply del_nth_last.
  - apply view_extend; assumption.
  - split.
    + unfold view. cbn [prow]. apply map_del_many.
    + intros r Hr. cbn [prow] in Hr. apply in_del_many in Hr. apply Hc. exact Hr.
  - destruct Ho as [_ [_ Hf]]. apply view_setmany; [|exact Hc]. intros [i0 f0] Ht. apply Hf. apply in_combine_r in Ht. exact Ht.
  - apply view_reverse; assumption.
Qed.

Theorem run_refines n : forall ops p, clean n p -> rows_wf n (view p) -> legal_run n (view p) ops ->
  view (run p ops) = run_list (view p) ops /\ clean n (run p ops).
Proof.
  induction ops as [|o ops IH]; intros p Hc Hwf Hl; cbn [run run_list fold_left legal_run] in *.
  - split; [reflexivity|exact Hc].
  - destruct Hl as [Ho Hl]. destruct (step_refines n p o Hc Hwf Ho) as [E C].
    destruct (IH (apply_op p o) C) as [E2 C2].
    + rewrite E. apply rows_wf_apply; assumption.
    + rewrite E. exact Hl.
    + split; [|exact C2]. unfold run in E2. rewrite E2, E. reflexivity.
Qed.

(* C19 in one statement: after any legal history, length, every read-back and every query are those of the list *)
Theorem refines_list n (fs : list dnf) (ops : list op) (x : assignment) :
  rows_wf n fs -> legal_run n fs ops -> length x = n ->
  let p := run (encode fs) ops in let l := run_list fs ops in
  plen p = length l /\ (forall i, getitem p i = nth i l []) /\ query p (zs x) = map (eval_dnf x) l.
Proof.
  intros Hwf Hl Hx.
  assert (Hv : view (encode fs) = fs) by (apply view_encode; intros f Hf; apply Hwf; exact Hf).
  assert (Hc : clean n (encode fs)) by (apply clean_encode; intros f Hf; apply Hwf; exact Hf).
  destruct (run_refines n ops (encode fs) Hc) as [E C]; rewrite ?Hv; try assumption.
  cbn zeta. rewrite Hv in E. split; [|split].
  - rewrite <- view_length, E. reflexivity.
  - intros i. rewrite getitem_view, E. reflexivity.
  - rewrite query_view by (rewrite Hx; exact C). rewrite E. reflexivity.
Qed.

(* the array stays rectangular (what numpy guarantees by construction, here an invariant of the model) *)
Definition rect (p : prov) : Prop :=
  forall r, In r (prow p) -> length r = pD p /\ forall c, In c r -> length c = pC p.

Lemma norm_insert_spec (n : nat) (i : Z) : norm_insert n i <= n /\
  ((0 <= i <= Z.of_nat n)%Z -> norm_insert n i = Z.to_nat i) /\
  ((- Z.of_nat n <= i < 0)%Z -> norm_insert n i = Z.to_nat (Z.of_nat n + i)).
Proof. unfold norm_insert. destruct (Z.ltb_spec i 0); repeat split; intros; lia. Qed.
