(* C01 (lift of kernel_is_shapley to all validation points and to the row level), C06 (efficiency). *)
From Coq Require Import List Arith ZArith QArith Lia Bool Setoid Morphisms Permutation Lqa Sorting.Sorted.
From DS Require Import Util.SumQ Util.ListX Spec.Shapley Spec.NNGame Model.Kernel Model.Neighbor
     Proofs.ShapleyAxioms Proofs.KernelShapley.
Import ListNotations.
Local Open Scope Q_scope.

(* ---------- scatter: out[idxs[i]] += current ---------- *)
Lemma curs_length u null : forall l pos, length (curs u null pos l) = length l.
Proof. induction l as [|q t IH]; intros pos; cbn [curs length]; [reflexivity|]. rewrite IH. reflexivity. Qed.

Lemma scatter_nth (p : nat) : forall (l : list nat) (vals : list Q) i, NoDup l -> length vals = length l ->
  nth_error l i = Some p ->
  sumQ (fun qc : nat * Q => if Nat.eqb (fst qc) p then snd qc else 0) (combine l vals) == nth i vals 0.
Proof.
  induction l as [|q l IH]; intros vals i Hnd Hlen Hi; [destruct i; discriminate|].
  destruct vals as [|v vals]; [discriminate|]. inversion Hnd as [|? ? Hq Hnd']; subst.
  cbn [combine]. rewrite sumQ_cons. cbn [fst snd]. destruct i as [|i]; cbn [nth_error nth] in *.
  - injection Hi as ->. rewrite Nat.eqb_refl.
    rewrite (sumQ_ext _ (fun _ => 0)); [rewrite sumQ_zero; ring|].
    intros [a b] Hab. cbn [fst snd]. destruct (Nat.eqb_spec a p) as [->|]; [|reflexivity].
    exfalso. apply Hq. apply in_combine_l in Hab. exact Hab.
  - destruct (Nat.eqb_spec q p) as [->|Hne].
    + exfalso. apply Hq. apply nth_error_In in Hi. exact Hi.
    + rewrite (IH vals i Hnd') by (auto; cbn [length] in Hlen; lia). ring.
Qed.

Lemma col_value_nth u null idxs i p : NoDup idxs -> nth_error idxs i = Some p ->
  col_value u null idxs p == nth i (curs u null 0 idxs) 0.
Proof. intros Hnd Hi. unfold col_value. apply scatter_nth; [exact Hnd|apply curs_length|exact Hi]. Qed.

(* ---------- linearity over validation points ---------- *)
Lemma shapley_bf_sum {T} n (g : T -> list bool -> Q) (ts : list T) i :
  shapley_bf n (fun m => sumQ (fun t => g t m) ts) i == sumQ (fun t => shapley_bf n (g t) i) ts.
Proof.
  unfold shapley_bf. rewrite (sumQ_swap (fun t m => g t m * coef n i m) ts (masks n)).
  apply sumQ_ext. intros m _.
  rewrite (sumQ_ext (fun t => g t m * coef n i m) (fun t => coef n i m * g t m)) by (intros; ring).
  rewrite sumQ_scale. ring.
Qed.
Lemma shapley_bf_div n v c i : ~ c == 0 -> shapley_bf n (fun m => v m / c) i == shapley_bf n v i / c.
Proof.
  intros Hc. unfold shapley_bf.
  rewrite (sumQ_ext _ (fun m => (1 / c) * (v m * coef n i m))) by (intros; field; exact Hc).
  rewrite sumQ_scale. field. exact Hc.
Qed.

Lemma perm_units_facts n l : Permutation l (seq 0 n) -> NoDup l /\ (forall r, In r l -> (r < n)%nat) /\ forall p, (p < n)%nat -> In p l.
Proof.
  intros H. split; [|split].
  - apply (Permutation_NoDup (Permutation_sym H)). apply seq_NoDup.
  - intros r Hr. apply (Permutation_in _ H) in Hr. apply in_seq in Hr. lia.
  - intros p Hp. apply (Permutation_in _ (Permutation_sym H)). apply in_seq. lia.
Qed.

(* C01 at kernel level: any number of validation points, any orders that are permutations of the units *)
Theorem kernel_t_is_shapley n (ts : list kpoint) p :
  (p < n)%nat -> ts <> [] -> (forall t, In t ts -> Permutation (snd t) (seq 0 n)) ->
  nth p (kernel_t n ts) 0 == shapley n (vnn_mean_t ts) p.
Proof.
  intros Hp Hne Hperm. rewrite <- shapley_bf_marginal by exact Hp.
  unfold kernel_t.
  rewrite (nth_indep _ 0 ((fun p => sumQ (fun t : kpoint => col_value (fst (fst t)) (snd (fst t)) (snd t) p) ts
                                   / qn (length ts)) 0%nat))
    by (rewrite map_length, seq_length; exact Hp).
  rewrite (map_nth (fun p => sumQ (fun t : kpoint => col_value (fst (fst t)) (snd (fst t)) (snd t) p) ts / qn (length ts))).
  rewrite seq_nth by exact Hp. cbn [Nat.add].
  assert (Hc : ~ qn (length ts) == 0).
  { assert (0 < qn (length ts)) by (apply qn_pos; destruct ts; [contradiction|cbn; lia]). lra. }
  unfold vnn_mean_t. rewrite shapley_bf_div by exact Hc. rewrite shapley_bf_sum.
  apply Qmult_comp; [|reflexivity]. apply sumQ_ext. intros [[u null] l] Hin. cbn [fst snd].
  destruct (perm_units_facts n l (Hperm _ Hin)) as [Hnd [Hlt Hin_all]].
  destruct (In_nth_error l p (Hin_all p Hp)) as [i Hi].
  rewrite (col_value_nth u null l i p Hnd Hi). apply (kernel_is_shapley u null n l i p Hnd Hlt Hi).
Qed.

Lemma points_orders us nulls orders t : In t (points us nulls orders) -> In (snd t) orders.
Proof. intros H. destruct t as [a l]. apply in_combine_r in H. exact H. Qed.

Theorem kernel_is_shapley_mean n us nulls orders p :
  (p < n)%nat -> points us nulls orders <> [] -> (forall l, In l orders -> Permutation l (seq 0 n)) ->
  nth p (kernel n us nulls orders) 0 == shapley n (vnn_mean us nulls orders) p.
Proof.
  intros Hp Hne Hperm. apply kernel_t_is_shapley; [exact Hp|exact Hne|].
  intros t Ht. apply Hperm. apply (points_orders us nulls orders). exact Ht.
Qed.

(* ---------- C06: efficiency through C01 ---------- *)
Lemma nth_alltrue q n : (q < n)%nat -> nth q (alltrue n) false = true.
Proof. unfold alltrue. revert q; induction n as [|n IH]; intros [|q] H; cbn; try lia; auto. apply IH; lia. Qed.
Lemma vnn_alltrue u null l n : (forall r, In r l -> (r < n)%nat) -> vnn u null l (alltrue n) = hd_u u null l.
Proof. intros H. destruct l as [|q t]; [reflexivity|]. cbn [vnn hd_u]. rewrite nth_alltrue by (apply H; left; reflexivity). reflexivity. Qed.
Lemma vnn_allfalse u null l n : vnn u null l (allfalse n) = null.
Proof. induction l as [|q t IH]; [reflexivity|]. cbn [vnn]. rewrite nth_allfalse. exact IH. Qed.

Lemma map_nth_seq {A} (f : nat -> A) d n p : (p < n)%nat -> nth p (map f (seq 0 n)) d = f p.
Proof.
  intros H. rewrite (nth_indep _ d (f 0%nat)) by (rewrite map_length, seq_length; exact H).
  rewrite (map_nth f), seq_nth by exact H. reflexivity.
Qed.
Lemma sumQ_seq_nth (l : list Q) : sumQ (fun p => nth p l 0) (seq 0 (length l)) == sumQ (fun x => x) l.
Proof.
  induction l as [|a l IH]; [reflexivity|]. cbn [length]. rewrite <- cons_seq, <- seq_shift, !sumQ_cons, sumQ_map. cbn [nth].
  rewrite IH. reflexivity.
Qed.

Lemma Qdiv_sub_distr (a b c : Q) : ~ c == 0 -> a / c - b / c == (a - b) / c.
Proof. intros H. field. exact H. Qed.

Theorem kernel_t_efficiency n (ts : list kpoint) :
  (0 < n)%nat -> ts <> [] -> (forall t, In t ts -> Permutation (snd t) (seq 0 n)) ->
  sumQ (fun x => x) (kernel_t n ts)
  == sumQ (fun t : kpoint => hd_u (fst (fst t)) (snd (fst t)) (snd t) - snd (fst t)) ts / qn (length ts).
Proof.
  intros Hn Hne Hperm.
  assert (Hlen : length (kernel_t n ts) = n) by (unfold kernel_t; rewrite map_length, seq_length; reflexivity).
  rewrite <- sumQ_seq_nth, Hlen.
  rewrite (sumQ_ext _ (fun p => shapley_bf n (vnn_mean_t ts) p)).
  2:{ intros p Hp. apply in_seq in Hp. rewrite kernel_t_is_shapley by (auto; lia).
      symmetry. apply shapley_bf_marginal. lia. }
  rewrite shapley_efficiency by exact Hn. unfold vnn_mean_t.
  assert (Hc : ~ qn (length ts) == 0).
  { assert (0 < qn (length ts)) by (apply qn_pos; destruct ts; [contradiction|cbn; lia]). lra. }
  assert (E : sumQ (fun t : kpoint => hd_u (fst (fst t)) (snd (fst t)) (snd t) - snd (fst t)) ts
             == sumQ (fun t : kpoint => vnn (fst (fst t)) (snd (fst t)) (snd t) (alltrue n)) ts
                - sumQ (fun t : kpoint => vnn (fst (fst t)) (snd (fst t)) (snd t) (allfalse n)) ts).
  { rewrite (sumQ_ext (fun t : kpoint => hd_u (fst (fst t)) (snd (fst t)) (snd t) - snd (fst t))
                      (fun t : kpoint => vnn (fst (fst t)) (snd (fst t)) (snd t) (alltrue n)
                                + (-1) * vnn (fst (fst t)) (snd (fst t)) (snd t) (allfalse n))).
    - rewrite sumQ_plus, sumQ_scale. ring.
    - intros [[u null] l] Hin. cbn [fst snd]. rewrite vnn_allfalse.
      rewrite (vnn_alltrue u null l n); [ring|]. apply (perm_units_facts n l (Hperm _ Hin)). }
  rewrite E. apply Qdiv_sub_distr. exact Hc.
Qed.

Theorem kernel_efficiency n us nulls orders :
  (0 < n)%nat -> points us nulls orders <> [] -> (forall l, In l orders -> Permutation l (seq 0 n)) ->
  sumQ (fun x => x) (kernel n us nulls orders)
  == sumQ (fun t : kpoint => hd_u (fst (fst t)) (snd (fst t)) (snd t) - snd (fst t)) (points us nulls orders)
     / qn (length (points us nulls orders)).
Proof.
  intros Hn Hne Hperm. apply kernel_t_efficiency; [exact Hn|exact Hne|].
  intros t Ht. apply Hperm. apply (points_orders us nulls orders). exact Ht.
Qed.
