(* C09: the ADD-based oracle (boundary diagrams, restrict, sum, +1 per present unit, modelcount) returns exactly the
   counts of the counting specification, for every compiled diagram in unit order whose row locations are valid. *)
From Coq Require Import List Arith Bool Lia QArith.
From DS Require Import Util.ListX Model.ADD Spec.Count Model.Oracle Proofs.ADDProofs Proofs.ModelCount Proofs.OracleProofs.
From DS Require Proofs.KnnShapley Proofs.ShapleyAxioms.
Import ListNotations.
Local Close Scope Q_scope.

(* ---------- 1. structure (live flags and children) versus edge values ---------- *)
Definition nshape (n : node) : bool * nat * nat := (n_live n, n_c0 n, n_c1 n).
Definition shape (lvls : list (list node)) : list (list (bool * nat * nat)) := map (map nshape) lvls.

(* reachable nodes are in range and live, and the children of the last level are below w (the width of the table the
   model count starts from) *)
Fixpoint good_from (t : atype) (w : nat) (lvls : list (list node)) (j : nat) : Prop :=
  match lvls with
  | [] => j < w
  | l :: rest => j < length l /\ n_live (getnode t l j) = true
                 /\ good_from t w rest (n_c0 (getnode t l j)) /\ good_from t w rest (n_c1 (getnode t l j))
  end.

Lemma getnode_shape t l l' j : map nshape l = map nshape l' -> nshape (getnode t l j) = nshape (getnode t l' j).
Proof.
  intros H. unfold getnode. rewrite <- (map_nth nshape l), <- (map_nth nshape l'), H. reflexivity.
Qed.
Lemma shape_parts n n' : nshape n = nshape n' -> n_live n = n_live n' /\ n_c0 n = n_c0 n' /\ n_c1 n = n_c1 n'.
Proof. unfold nshape. intros H. injection H as H1 H2 H3. auto. Qed.

Lemma good_from_shape t w : forall lvls lvls' j, shape lvls = shape lvls' -> good_from t w lvls j -> good_from t w lvls' j.
Proof.
  induction lvls as [|l rest IH]; intros [|l' rest'] j H G; try discriminate; [exact G|].
  cbn [shape map] in H. injection H as Hl Hr. cbn [good_from] in *. destruct G as [G1 [G2 [G3 G4]]].
  destruct (shape_parts _ _ (getnode_shape t l l' j Hl)) as [E1 [E2 E3]].
  split; [rewrite <- (map_length nshape l'), <- Hl, map_length; exact G1|]. split; [congruence|].
  rewrite <- E2, <- E3. split; apply (IH rest'); assumption.
Qed.
Lemma good_live t w : forall lvls j, good_from t w lvls j -> live_from t lvls j.
Proof.
  induction lvls as [|l rest IH]; intros j G; [exact I|]. cbn [good_from live_from] in *. destruct G as [G1 [G2 [G3 G4]]]. auto.
Qed.
Lemma good_live_w t w : forall lvls j, good_from t w lvls j -> live_w t w lvls j.
Proof.
  induction lvls as [|l rest IH]; intros j G; cbn [good_from live_w] in *; [exact G|]. destruct G as [G1 [G2 [G3 G4]]]. auto.
Qed.

(* is the edge (level i, node j, value b) on the path of assignment x ? *)
Fixpoint on_path (t : atype) (lvls : list (list node)) (root : nat) (x : list bool) (i j : nat) (b : bool) : bool :=
  match lvls, x with
  | l :: rest, c :: x' =>
      match i with
      | 0 => Nat.eqb root j && Bool.eqb c b
      | S i' => on_path t rest (child (getnode t l root) c) x' i' j b
      end
  | _, _ => false
  end.
Lemma child_shape n n' c : nshape n = nshape n' -> child n c = child n' c.
Proof. intros H. destruct (shape_parts _ _ H) as [_ [E2 E3]]. destruct c; cbn [child]; assumption. Qed.
Lemma on_path_shape t : forall lvls lvls' root x i j b, shape lvls = shape lvls' ->
  on_path t lvls root x i j b = on_path t lvls' root x i j b.
Proof.
  induction lvls as [|l rest IH]; intros [|l' rest'] root x i j b H; try discriminate; [reflexivity|].
  cbn [shape map] in H. injection H as Hl Hr. destruct x as [|c x]; [reflexivity|]. cbn [on_path]. destruct i as [|i]; [reflexivity|].
  rewrite (child_shape _ _ c (getnode_shape t l l' root Hl)). apply IH. exact Hr.
Qed.

(* ---------- 2. adding to the accumulator commutes with evaluation ---------- *)
Lemma eval_from_shift t : forall lvls j acc v x, wt_levels t lvls -> wt t acc -> wt t v ->
  eval_from t lvls j (a_add t acc v) x = a_add t (eval_from t lvls j acc x) v.
Proof.
  induction lvls as [|l rest IH]; intros j acc v x W Wa Wv; [reflexivity|]. destruct x as [|c x]; [reflexivity|]. cbn [eval_from].
  set (n := getnode t l j). assert (Wn : wt t (adder n c)) by (apply adder_wt, getnode_wt, (wt_levels_head t l rest W)).
  rewrite <- (IH _ _ v x (wt_levels_tail t l rest W)); [|apply a_add_wt; assumption|exact Wv]. f_equal.
  rewrite (a_add_assoc t acc v) by assumption. rewrite (a_add_comm t v). rewrite <- (a_add_assoc t acc) by assumption. reflexivity.
Qed.

(* ---------- 3. updating edge values at locations ---------- *)
Fixpoint upd_level (f : aval -> aval) (j : nat) (b : bool) (l : list node) : list node :=
  match l, j with
  | [], _ => []
  | n :: r, 0 => upd_adder f b n :: r
  | n :: r, S j' => n :: upd_level f j' b r
  end.
Fixpoint upd_at (f : aval -> aval) (lvls : list (list node)) (i j : nat) (b : bool) : list (list node) :=
  match lvls, i with
  | [], _ => []
  | l :: rest, 0 => upd_level f j b l :: rest
  | l :: rest, S i' => l :: upd_at f rest i' j b
  end.
Lemma upd_level_eq f b : forall l j, firstn j l ++ match skipn j l with [] => [] | n :: r => upd_adder f b n :: r end = upd_level f j b l.
Proof.
  induction l as [|n l IH]; intros [|j]; cbn [firstn skipn app upd_level]; try reflexivity. rewrite IH. reflexivity.
Qed.
Lemma upd_loc_eq t f b : forall lvls i j, upd_loc t f lvls (i, j, b) = upd_at f lvls i j b.
Proof.
  unfold upd_loc. induction lvls as [|l rest IH]; intros [|i] j; cbn [firstn skipn app upd_at]; try reflexivity.
  - rewrite upd_level_eq. reflexivity.
  - rewrite IH. reflexivity.
Qed.
Lemma upd_adder_shape f b n : nshape (upd_adder f b n) = nshape n.
Proof. unfold upd_adder. destruct b; reflexivity. Qed.
Lemma upd_level_shape f b : forall l j, map nshape (upd_level f j b l) = map nshape l.
Proof. induction l as [|n l IH]; intros [|j]; cbn [upd_level map]; try reflexivity; [rewrite upd_adder_shape|rewrite IH]; reflexivity. Qed.
Lemma upd_at_shape f b : forall lvls i j, shape (upd_at f lvls i j b) = shape lvls.
Proof.
  induction lvls as [|l rest IH]; intros [|i] j; cbn [upd_at shape map]; try reflexivity.
  - rewrite upd_level_shape. reflexivity.
  - fold (shape (upd_at f rest i j b)). rewrite IH. reflexivity.
Qed.
Lemma upd_level_length f b : forall l j, length (upd_level f j b l) = length l.
Proof. intros l j. rewrite <- (map_length nshape), upd_level_shape, map_length. reflexivity. Qed.
Lemma getnode_upd_level t f b : forall l j k, k < length l ->
  getnode t (upd_level f j b l) k = if Nat.eqb k j then upd_adder f b (getnode t l k) else getnode t l k.
Proof.
  unfold getnode. induction l as [|n l IH]; intros j k Hk; [cbn in Hk; lia|]. destruct j as [|j], k as [|k]; cbn [upd_level nth Nat.eqb]; try reflexivity.
  apply IH. cbn in Hk. lia.
Qed.
Lemma upd_adder_wt t f b n : (forall a, wt t a -> wt t (f a)) -> wt_node t n -> wt_node t (upd_adder f b n).
Proof. intros Hf [H0 H1]. unfold upd_adder. destruct b; split; cbn; auto. Qed.
Lemma upd_level_in f b : forall l j n, In n (upd_level f j b l) -> In n l \/ exists m, In m l /\ n = upd_adder f b m.
Proof.
  induction l as [|m l IH]; intros j n H; [destruct j; destruct H|]. destruct j as [|j]; cbn [upd_level] in H.
  - destruct H as [<-|H]; [right; exists m; split; [left; reflexivity|reflexivity]|left; right; exact H].
  - destruct H as [<-|H]; [left; left; reflexivity|]. destruct (IH j n H) as [H'|[m' [H1 H2]]]; [left; right; exact H'|right; exists m'; split; [right; exact H1|exact H2]].
Qed.
Lemma upd_at_wt t f b : (forall a, wt t a -> wt t (f a)) -> forall lvls i j, wt_levels t lvls -> wt_levels t (upd_at f lvls i j b).
Proof.
  intros Hf. induction lvls as [|l rest IH]; intros i j W; [destruct i; exact W|]. destruct i as [|i]; cbn [upd_at].
  - intros l' n Hl Hn. destruct Hl as [<-|Hl].
    + destruct (upd_level_in f b l j n Hn) as [H|[m [H1 ->]]]; [apply (wt_levels_head t l rest W n H)|].
      apply upd_adder_wt; [exact Hf|apply (wt_levels_head t l rest W m H1)].
    + apply (W l' n); [right; exact Hl|exact Hn].
  - intros l' n Hl Hn. destruct Hl as [<-|Hl]; [apply (wt_levels_head t l rest W n Hn)|].
    apply (IH i j (wt_levels_tail t l rest W) l' n Hl Hn).
Qed.

(* one location: the value of the assignments whose path uses the edge grows by v, the others are unchanged *)
Lemma eval_upd_at t v f : (forall a, f a = a_add t a v) -> wt t v ->
  forall lvls i j b root acc x, wt_levels t lvls -> wt t acc -> live_from t lvls root ->
  eval_from t (upd_at f lvls i j b) root acc x
  = if on_path t lvls root x i j b then a_add t (eval_from t lvls root acc x) v else eval_from t lvls root acc x.
Proof.
  intros Hf Wv. induction lvls as [|l rest IH]; intros i j b root acc x W Wa L.
  - destruct i; reflexivity.
  - destruct x as [|c x]; [destruct i; reflexivity|]. cbn [live_from] in L. destruct L as [L1 [L2 [L3 L4]]].
    set (n := getnode t l root) in *. assert (Wn : wt t (adder n c)) by (apply adder_wt, getnode_wt, (wt_levels_head t l rest W)).
    destruct i as [|i]; cbn [upd_at eval_from on_path].
    + rewrite getnode_upd_level by exact L1. fold n. destruct (Nat.eqb root j); cbn [andb]; [|reflexivity].
      unfold upd_adder. destruct b, c; cbn [child adder n_c0 n_c1 n_a0 n_a1 Bool.eqb]; try reflexivity.
      * rewrite Hf. fold (adder n true). rewrite <- a_add_assoc by assumption. apply eval_from_shift; [eapply wt_levels_tail; exact W|apply a_add_wt; assumption|exact Wv].
      * rewrite Hf. fold (adder n false). rewrite <- a_add_assoc by assumption. apply eval_from_shift; [eapply wt_levels_tail; exact W|apply a_add_wt; assumption|exact Wv].
    + fold n. apply IH; [eapply wt_levels_tail; exact W|apply a_add_wt; assumption|]. destruct c; assumption.
Qed.

(* ---------- 4. update(locations, f) on a diagram ---------- *)
Definition rect (d : add) : Prop := forall l, In l (d_levels d) -> length l = diameter d.
Definition okd (d : add) : Prop :=
  wt_levels (d_type d) (d_levels d) /\ rect d /\ good_from (d_type d) (diameter d) (d_levels d) (d_root d).
Definition same (d d' : add) : Prop :=
  d_type d' = d_type d /\ d_root d' = d_root d /\ shape (d_levels d') = shape (d_levels d) /\ d_units d' = d_units d.
Definition on_loc (t : atype) (lvls : list (list node)) (root : nat) (x : list bool) (l : loc) : bool :=
  let '(i, j, b) := l in on_path t lvls root x i j b.
Definition hits (d : add) (x : list bool) (locs : list loc) : nat :=
  length (filter (on_loc (d_type d) (d_levels d) (d_root d) x) locs).

Lemma same_refl d : same d d. Proof. repeat split. Qed.
Lemma same_trans d d' d'' : same d d' -> same d' d'' -> same d d''.
Proof. intros [A [B [C D]]] [A' [B' [C' D']]]. repeat split; congruence. Qed.
Lemma hits_same d d' x locs : same d d' -> hits d' x locs = hits d x locs.
Proof.
  intros [A [B [C D]]]. unfold hits. f_equal. apply filter_ext. intros [[i j] b]. unfold on_loc. rewrite A, B. apply on_path_shape. exact C.
Qed.
Lemma shape_lengths : forall lvls lvls', shape lvls = shape lvls' -> map (@length node) lvls = map (@length node) lvls'.
Proof.
  induction lvls as [|l rest IH]; intros [|l' rest'] H; try discriminate; [reflexivity|]. cbn [shape map] in H. injection H as Hl Hr.
  cbn [map]. f_equal; [rewrite <- (map_length nshape l), Hl, map_length; reflexivity|apply IH; exact Hr].
Qed.
Lemma same_diameter d d' : same d d' -> diameter d' = diameter d.
Proof.
  intros [_ [_ [C _]]]. apply shape_lengths in C. unfold diameter. destruct (d_levels d') as [|l' r'], (d_levels d) as [|l r]; try discriminate; [reflexivity|].
  cbn [map] in C. injection C as C _. exact C.
Qed.
Lemma okd_same d d' : same d d' -> wt_levels (d_type d') (d_levels d') -> okd d -> okd d'.
Proof.
  intros S W' [W [Rc G]]. pose proof (same_diameter d d' S) as Ed. destruct S as [A [B [C D]]]. split; [exact W'|]. split.
  - intros l' Hl'. rewrite Ed. pose proof (shape_lengths _ _ C) as EL.
    assert (Hin : In (length l') (map (@length node) (d_levels d'))) by (apply in_map; exact Hl').
    rewrite EL in Hin. apply in_map_iff in Hin. destruct Hin as [l [<- Hl]]. apply Rc. exact Hl.
  - rewrite A, B, Ed. apply (good_from_shape _ _ (d_levels d)); [symmetry; exact C|exact G].
Qed.

Lemma iter_succ_r {A} (g : A -> A) : forall k e, Nat.iter (S k) g e = Nat.iter k g (g e).
Proof. induction k as [|k IH]; intros e; [reflexivity|]. change (Nat.iter (S (S k)) g e) with (g (Nat.iter (S k) g e)). rewrite IH. reflexivity. Qed.

Lemma fold_iter {A B} (c : B -> bool) (g : A -> A) : forall (l : list B) (e : A),
  fold_left (fun e b => if c b then g e else e) l e = Nat.iter (length (filter c l)) g e.
Proof.
  induction l as [|b l IH]; intros e; [reflexivity|]. cbn [fold_left filter]. rewrite IH. destruct (c b); [|reflexivity].
  cbn [length]. rewrite iter_succ_r. reflexivity.
Qed.

Lemma fold_left_ext {A B} (f g : A -> B -> A) : (forall a b, f a b = g a b) -> forall l a, fold_left f l a = fold_left g l a.
Proof. intros H. induction l as [|b l IH]; intros a; [reflexivity|]. cbn [fold_left]. rewrite H. apply IH. Qed.

Lemma update_levels t w v f : (forall a, f a = a_add t a v) -> wt t v -> forall locs lvls root acc x,
  wt_levels t lvls -> wt t acc -> good_from t w lvls root ->
  eval_from t (fold_left (upd_loc t f) locs lvls) root acc x
  = fold_left (fun e l => if on_loc t lvls root x l then a_add t e v else e) locs (eval_from t lvls root acc x)
  /\ shape (fold_left (upd_loc t f) locs lvls) = shape lvls /\ wt_levels t (fold_left (upd_loc t f) locs lvls).
Proof.
  intros Hf Wv. assert (Hfw : forall a, wt t a -> wt t (f a)) by (intros a Ha; rewrite Hf; apply a_add_wt; assumption).
  induction locs as [|[[i j] b] locs IH]; intros lvls root acc x W Wa G; [cbn [fold_left]; auto|].
  cbn [fold_left]. rewrite upd_loc_eq.
  assert (Sh : shape (upd_at f lvls i j b) = shape lvls) by apply upd_at_shape.
  assert (W' : wt_levels t (upd_at f lvls i j b)) by (apply upd_at_wt; assumption).
  assert (G' : good_from t w (upd_at f lvls i j b) root) by (apply (good_from_shape t w lvls); [symmetry; exact Sh|exact G]).
  destruct (IH (upd_at f lvls i j b) root acc x W' Wa G') as [E [S W'']]. split; [|split; [congruence|exact W'']].
  rewrite E. rewrite (eval_upd_at t v f Hf Wv lvls i j b root acc x W Wa (good_live t w lvls root G)).
  cbn [on_loc]. apply fold_left_ext. intros e [[i' j'] b']. unfold on_loc. rewrite (on_path_shape t _ lvls root x i' j' b' Sh). reflexivity.
Qed.

Lemma update_ok d locs f v : okd d -> (forall a, f a = a_add (d_type d) a v) -> wt (d_type d) v ->
  okd (update d locs f) /\ same d (update d locs f)
  /\ forall x, eval (update d locs f) x = Nat.iter (hits d x locs) (fun e => a_add (d_type d) e v) (eval d x).
Proof.
  intros O Hf Wv. pose proof O as [W [Rc G]].
  assert (H := fun x => update_levels (d_type d) (diameter d) v f Hf Wv locs (d_levels d) (d_root d) (a_zero (d_type d)) x W (a_zero_wt _) G).
  destruct (H []) as [_ [Sh W']].
  assert (S : same d (update d locs f)) by (repeat split; exact Sh).
  split; [apply (okd_same d _ S); [exact W'|exact O]|]. split; [exact S|].
  intros x. unfold update, eval, hits. cbn [d_type d_levels d_root]. destruct (H x) as [E _]. rewrite E. apply fold_iter.
Qed.

(* ---------- 5. the node an assignment reaches at a level; "value 0 of a unit" locations ---------- *)
Fixpoint node_at (t : atype) (lvls : list (list node)) (root : nat) (x : list bool) (lvl : nat) : nat :=
  match lvl with
  | 0 => root
  | S k => match lvls, x with
           | l :: rest, c :: x' => node_at t rest (child (getnode t l root) c) x' k
           | _, _ => 0
           end
  end.
Lemma on_path_node t : forall lvls root x lvl j b, lvl < length lvls -> lvl < length x ->
  on_path t lvls root x lvl j b = Nat.eqb (node_at t lvls root x lvl) j && Bool.eqb (nth lvl x false) b.
Proof.
  induction lvls as [|l rest IH]; intros root x lvl j b H1 H2; [cbn in H1; lia|]. destruct x as [|c x]; [cbn in H2; lia|].
  destruct lvl as [|lvl]; [reflexivity|]. cbn [on_path node_at nth]. apply IH; cbn in H1, H2; lia.
Qed.
Lemma good_node_at t w : forall lvls root x lvl, good_from t w lvls root -> lvl < length lvls -> lvl < length x ->
  node_at t lvls root x lvl < length (nth lvl lvls []) /\ n_live (getnode t (nth lvl lvls []) (node_at t lvls root x lvl)) = true.
Proof.
  induction lvls as [|l rest IH]; intros root x lvl G H1 H2; [cbn in H1; lia|]. destruct x as [|c x]; [cbn in H2; lia|].
  cbn [good_from] in G. destruct G as [G1 [G2 [G3 G4]]]. destruct lvl as [|lvl]; [cbn [node_at nth]; auto|].
  cbn [node_at nth]. apply IH; [destruct c; assumption|cbn in H1; lia|cbn in H2; lia].
Qed.
Lemma count_eq_nodup a : forall l, NoDup l -> In a l -> length (filter (Nat.eqb a) l) = 1.
Proof.
  induction l as [|b l IH]; intros Hnd Hin; [destruct Hin|]. inversion Hnd as [|? ? Hb Hnd']; subst. cbn [filter].
  destruct (Nat.eqb_spec a b) as [->|Hne].
  - cbn [length]. f_equal. rewrite (filter_length_ext _ (fun _ => false)); [apply filter_false_length|].
    intros c Hc. apply Nat.eqb_neq. intros ->. contradiction.
  - apply IH; [exact Hnd'|]. destruct Hin as [->|Hin]; [contradiction|exact Hin].
Qed.

Lemma hits_live_locs d x lvl : okd d -> lvl < length (d_levels d) -> length x = length (d_levels d) ->
  hits d x (live_locs d lvl false) = if nth lvl x false then 0 else 1.
Proof.
  intros [W [Rc G]] H1 H2. unfold hits, live_locs. rewrite filter_map_length.
  set (js := filter (fun j => n_live (nth j (nth lvl (d_levels d) []) (dead (d_type d)))) (seq 0 (length (nth lvl (d_levels d) [])))).
  set (na := node_at (d_type d) (d_levels d) (d_root d) x lvl).
  rewrite (filter_length_ext _ (fun j => Nat.eqb na j && Bool.eqb (nth lvl x false) false)).
  2:{ intros j _. unfold on_loc. apply on_path_node; lia. }
  destruct (nth lvl x false).
  - rewrite (filter_length_ext _ (fun _ => false)); [apply filter_false_length|]. intros j _. apply andb_false_r.
  - rewrite (filter_length_ext _ (Nat.eqb na)) by (intros j _; apply andb_true_r).
    destruct (good_node_at (d_type d) (diameter d) (d_levels d) (d_root d) x lvl G H1 ltac:(lia)) as [N1 N2]. fold na in N1, N2.
    apply count_eq_nodup; [apply NoDup_filter, seq_NoDup|]. apply filter_In. split; [apply in_seq; lia|exact N2].
Qed.

(* ---------- 6. folds of saturating additions ---------- *)
Lemma fold_vadd_ge : forall vs a i, (forall v, In v vs -> length v = length a) ->
  length (fold_left vadd vs a) = length a /\ nth i a 0 <= nth i (fold_left vadd vs a) 0.
Proof.
  induction vs as [|v vs IH]; intros a i H; cbn [fold_left]; [split; [reflexivity|lia]|].
  assert (Lv : length v = length a) by (apply H; left; reflexivity).
  assert (La : length (vadd a v) = length a) by (apply vadd_length; congruence).
  destruct (IH (vadd a v) i) as [L1 L2]; [intros w Hw; rewrite La; apply H; right; exact Hw|].
  split; [congruence|]. rewrite vadd_nth in L2 by congruence. lia.
Qed.
Lemma fold_none t (vs : list (list nat)) : fold_left (fun e v => a_add t e (Some v)) vs None = None.
Proof. induction vs as [|v vs IH]; [reflexivity|exact IH]. Qed.
Lemma fold_a_add_clip t : forall vs a, length a = length (a_max t) -> (forall v, In v vs -> length v = length (a_max t)) ->
  fold_left (fun e v => a_add t e (Some v)) vs (clip t a) = clip t (fold_left vadd vs a).
Proof.
  induction vs as [|v vs IH]; intros a La H; [reflexivity|]. cbn [fold_left].
  assert (Lv : length v = length (a_max t)) by (apply H; left; reflexivity).
  assert (H' : forall w, In w vs -> length w = length (a_max t)) by (intros w Hw; apply H; right; exact Hw).
  assert (Lav : length (vadd a v) = length (a_max t)) by (rewrite vadd_length; congruence).
  unfold clip at 1. destruct (inb t a) eqn:Ea.
  - cbn [a_add]. apply IH; assumption.
  - cbn [a_add]. rewrite fold_none. unfold clip. destruct (inb t (fold_left vadd vs (vadd a v))) eqn:E; [|reflexivity]. exfalso.
    assert (inb t a = true); [|congruence].
    destruct (fold_vadd_ge vs (vadd a v) 0) as [L _]; [intros w Hw; rewrite Lav; apply H'; exact Hw|].
    apply (inb_down t a (fold_left vadd vs (vadd a v))); [congruence| |exact E].
    intros i. destruct (fold_vadd_ge vs (vadd a v) i) as [_ L2]; [intros w Hw; rewrite Lav; apply H'; exact Hw|].
    rewrite vadd_nth in L2 by congruence. lia.
Qed.
Lemma a_add_clip t a b : length a = length (a_max t) -> length b = length (a_max t) ->
  a_add t (clip t a) (clip t b) = clip t (vadd a b).
Proof.
  intros La Lb. unfold clip at 1 2. destruct (inb t a) eqn:Ea; destruct (inb t b) eqn:Eb; cbn [a_add]; try reflexivity;
    unfold clip; destruct (inb t (vadd a b)) eqn:E; try reflexivity; exfalso.
  - assert (inb t b = true); [|congruence]. apply (inb_down t b (vadd a b)); [rewrite vadd_length; congruence| |exact E].
    intros i. rewrite vadd_nth by congruence. lia.
  - assert (inb t a = true); [|congruence]. apply (inb_down t a (vadd a b)); [rewrite vadd_length; congruence| |exact E].
    intros i. rewrite vadd_nth by congruence. lia.
  - assert (inb t a = true); [|congruence]. apply (inb_down t a (vadd a b)); [rewrite vadd_length; congruence| |exact E].
    intros i. rewrite vadd_nth by congruence. lia.
Qed.

(* ---------- 7. restrict keeps diagrams well formed ---------- *)
Lemma upd_node_wt t cur v n : (forall m, In m cur -> wt_node t m) -> wt_node t n -> wt_node t (upd_node t cur v n).
Proof.
  intros Wc [W0 W1]. unfold upd_node. destruct (n_live n); [|split; assumption].
  split; cbn [n_a0 n_a1]; apply a_add_wt; try assumption; apply adder_wt, getnode_wt; exact Wc.
Qed.
Lemma restrict_levels_wt t v : forall k lvls, wt_levels t lvls -> wt_levels t (restrict_levels t lvls (S k) v).
Proof.
  induction k as [|k IH]; intros lvls W.
  - destruct lvls as [|prev [|cur rest]]; [exact W|exact W|]. cbn [restrict_levels].
    intros l n Hl Hn. destruct Hl as [<-|Hl].
    + apply in_map_iff in Hn. destruct Hn as [m [<- Hm]]. apply upd_node_wt.
      * intros m' Hm'. apply (W cur m'); [right; left; reflexivity|exact Hm'].
      * apply (W prev m); [left; reflexivity|exact Hm].
    + apply (W l n); [right; right; exact Hl|exact Hn].
  - destruct lvls as [|l rest]; [exact W|].
    assert (E : restrict_levels t (l :: rest) (S (S k)) v = l :: restrict_levels t rest (S k) v) by (destruct rest; reflexivity).
    rewrite E. intros l' n Hl Hn. destruct Hl as [<-|Hl]; [apply (W l n); [left; reflexivity|exact Hn]|].
    apply (IH rest (wt_levels_tail t l rest W) l' n Hl Hn).
Qed.
Lemma restrict_levels_good t w v : forall k lvls j, good_from t w lvls j -> good_from t w (restrict_levels t lvls (S k) v) j.
Proof.
  induction k as [|k IH]; intros lvls j G.
  - destruct lvls as [|prev [|cur rest]]; [exact G|exact G|]. cbn [restrict_levels good_from] in *.
    destruct G as [G1 [G2 [[A1 [A2 [A3 A4]]] [B1 [B2 [B3 B4]]]]]].
    rewrite map_length, getnode_map_upd. unfold upd_node. rewrite G2. cbn [n_live n_c0 n_c1].
    split; [exact G1|]. split; [reflexivity|]. split; destruct v; cbn [child]; assumption.
  - destruct lvls as [|l rest]; [exact G|].
    assert (E : restrict_levels t (l :: rest) (S (S k)) v = l :: restrict_levels t rest (S k) v) by (destruct rest; reflexivity).
    rewrite E. cbn [good_from] in *. destruct G as [G1 [G2 [G3 G4]]]. repeat split; try assumption; apply IH; assumption.
Qed.
Lemma restrict_levels_length t v : forall k lvls, S k < length lvls -> S (length (restrict_levels t lvls (S k) v)) = length lvls.
Proof.
  induction k as [|k IH]; intros lvls H.
  - destruct lvls as [|prev [|cur rest]]; cbn in H; try lia. reflexivity.
  - destruct lvls as [|l rest]; [cbn in H; lia|].
    assert (E : restrict_levels t (l :: rest) (S (S k)) v = l :: restrict_levels t rest (S k) v) by (destruct rest; reflexivity).
    rewrite E. cbn [length]. f_equal. apply IH. cbn in H. lia.
Qed.

Lemma skipn_S_cons {A} : forall j (l : list A) m r, skipn j l = m :: r -> skipn (S j) l = r.
Proof.
  induction j as [|j IH]; intros l m r H; [cbn in H; subst; reflexivity|]. destruct l as [|a l]; [discriminate|]. cbn [skipn] in *. apply (IH l m r H).
Qed.
Lemma set_node_shape j n l : j < length l -> nshape n = nshape (nth j l n) -> map nshape (set_node j n l) = map nshape l.
Proof.
  intros Hj Hn. unfold set_node. rewrite <- (firstn_skipn j l) at 3. rewrite !map_app. f_equal.
  rewrite <- (firstn_skipn j l) in Hn. rewrite app_nth2 in Hn by (rewrite firstn_length; lia).
  rewrite firstn_length, Nat.min_l, Nat.sub_diag in Hn by lia.
  destruct (skipn j l) as [|m r] eqn:E.
  - exfalso. assert (length (skipn j l) = 0) by (rewrite E; reflexivity). rewrite skipn_length in H. lia.
  - cbn [nth] in Hn. rewrite (skipn_S_cons j l m r E). cbn [map]. rewrite Hn. reflexivity.
Qed.

Lemma set_node_in {A} j (n : A) l m : In m (firstn j l ++ n :: skipn (S j) l) -> m = n \/ In m l.
Proof.
  intros H. apply in_app_or in H. destruct H as [H|[H|H]]; [right; eapply In_firstn; exact H|left; symmetry; exact H|right; eapply In_skipn; exact H].
Qed.

Lemma restrict_levels_lengths t v : forall k lvls, map (@length node) (restrict_levels t lvls (S k) v)
   = match lvls with [] => [] | l :: _ => if Nat.ltb (S k) (length lvls) then firstn (S k) (map (@length node) lvls) ++ skipn (S (S k)) (map (@length node) lvls)
                                          else map (@length node) lvls end.
Proof.
  induction k as [|k IH]; intros lvls.
  - destruct lvls as [|prev [|cur rest]]; try reflexivity. cbn [restrict_levels map length Nat.ltb Nat.leb firstn skipn app]. rewrite map_length. reflexivity.
  - destruct lvls as [|l rest]; [reflexivity|].
    assert (E : restrict_levels t (l :: rest) (S (S k)) v = l :: restrict_levels t rest (S k) v) by (destruct rest; reflexivity).
    rewrite E. cbn [map]. rewrite IH. destruct rest as [|l' rest']; [reflexivity|]. cbn [length map].
    change (Nat.ltb (S (S k)) (S (S (length rest')))) with (Nat.ltb (S k) (S (length rest'))).
    destruct (Nat.ltb (S k) (S (length rest'))); reflexivity.
Qed.
Lemma restrict_levels_in_length t v k lvls l : In l (restrict_levels t lvls (S k) v) -> exists l', In l' lvls /\ length l = length l'.
Proof.
  intros H. assert (Hin : In (length l) (map (@length node) (restrict_levels t lvls (S k) v))) by (apply in_map; exact H).
  rewrite restrict_levels_lengths in Hin. destruct lvls as [|l0 r0]; [destruct Hin|].
  assert (Hin' : In (length l) (map (@length node) (l0 :: r0))).
  { destruct (Nat.ltb (S k) (length (l0 :: r0))); [|exact Hin]. apply in_app_or in Hin. destruct Hin as [Hin|Hin]; [eapply In_firstn; exact Hin|eapply In_skipn; exact Hin]. }
  apply in_map_iff in Hin'. destruct Hin' as [l' [E Hl']]. exists l'. split; [exact Hl'|symmetry; exact E].
Qed.
Lemma restrict_levels_diameter t v k lvls : match restrict_levels t lvls (S k) v with [] => 1 | l :: _ => length l end = match lvls with [] => 1 | l :: _ => length l end.
Proof.
  destruct lvls as [|l rest]; [reflexivity|]. destruct k as [|k].
  - destruct rest as [|cur rest]; [reflexivity|]. cbn [restrict_levels]. apply map_length.
  - assert (E : restrict_levels t (l :: rest) (S (S k)) v = l :: restrict_levels t rest (S k) v) by (destruct rest; reflexivity). rewrite E. reflexivity.
Qed.

Lemma restrict_ok d lvl v : okd d -> 2 <= length (d_levels d) -> lvl < length (d_levels d) ->
  exists r, add_restrict d lvl v = Some r /\ okd r /\ d_type r = d_type d /\ S (length (d_levels r)) = length (d_levels d)
            /\ forall x, S (length x) = length (d_levels d) -> eval r x = eval d (insert_bit lvl v x).
Proof.
  intros [W [Rc G]] H2 Hl. destruct lvl as [|k].
  - destruct (d_levels d) as [|l0 [|l1 rest]] eqn:E; cbn in H2; try lia.
    assert (D0 : diameter d = length l0) by (unfold diameter; rewrite E; reflexivity).
    assert (D1 : length l1 = diameter d) by (apply Rc; rewrite E; right; left; reflexivity).
    cbn [good_from] in G. destruct G as [G1 [G2 [G3 G4]]].
    set (t := d_type d) in *. set (r0 := getnode t l0 (d_root d)) in *. set (root' := child r0 v).
    assert (Gr : good_from t (diameter d) (l1 :: rest) root') by (unfold root'; destruct v; assumption).
    assert (Hr : root' < length l1) by (cbn [good_from] in Gr; tauto).
    set (n := getnode t l1 root').
    set (n' := mkNode (n_live n) (n_c0 n) (n_c1 n) (a_add t (n_a0 n) (adder r0 v)) (a_add t (n_a1 n) (adder r0 v))).
    exists (mkADD t (firstn 0 (d_units d) ++ skipn 1 (d_units d)) root' (set_node root' n' l1 :: rest)).
    split; [unfold add_restrict; rewrite E; reflexivity|].
    assert (Wr0 : wt t (adder r0 v)) by (apply adder_wt, getnode_wt; intros m Hm; apply (W l0 m); [left; reflexivity|exact Hm]).
    assert (Wn : wt_node t n) by (apply getnode_wt; intros m Hm; apply (W l1 m); [right; left; reflexivity|exact Hm]).
    assert (Sh : map nshape (set_node root' n' l1) = map nshape l1).
    { apply set_node_shape; [exact Hr|]. replace (nth root' l1 n') with n; [reflexivity|]. unfold n, getnode. apply nth_indep. exact Hr. }
    assert (Ls : length (set_node root' n' l1) = length l1) by (rewrite <- (map_length nshape), Sh, map_length; reflexivity).
    split; [split; [|split]|].
    + cbn [d_type d_levels]. intros l m Hl' Hm. destruct Hl' as [<-|Hl'].
      * apply set_node_in in Hm. destruct Hm as [->|Hm]; [|apply (W l1 m); [right; left; reflexivity|exact Hm]].
        destruct Wn as [W0 W1]. split; cbn [n_a0 n_a1 n']; apply a_add_wt; assumption.
      * apply (W l m); [right; right; exact Hl'|exact Hm].
    + intros l Hl'. unfold diameter. cbn [d_levels] in *. rewrite Ls, D1. destruct Hl' as [<-|Hl']; [rewrite Ls; exact D1|].
      apply Rc. rewrite E. right. right. exact Hl'.
    + unfold diameter. cbn [d_type d_levels d_root]. rewrite Ls, D1. apply (good_from_shape t _ (l1 :: rest)); [|exact Gr].
      cbn [shape map]. f_equal. symmetry. exact Sh.
    + split; [reflexivity|]. split; [reflexivity|]. intros x Hx.
      destruct (eval_restrict_first d v x l0 l1 rest E) as [r [Er Ev]]; [rewrite E; exact W|exact Hr|destruct x; [cbn in Hx; lia|discriminate]|].
      unfold add_restrict in Er. rewrite E in Er. injection Er as <-. exact Ev.
  - exists (mkADD (d_type d) (firstn (S k) (d_units d) ++ skipn (S (S k)) (d_units d)) (d_root d) (restrict_levels (d_type d) (d_levels d) (S k) v)).
    assert (Dm : diameter (mkADD (d_type d) (firstn (S k) (d_units d) ++ skipn (S (S k)) (d_units d)) (d_root d) (restrict_levels (d_type d) (d_levels d) (S k) v)) = diameter d)
      by (unfold diameter; cbn [d_levels]; apply restrict_levels_diameter).
    split; [reflexivity|]. split; [split; [|split]|].
    + cbn [d_type d_levels]. apply restrict_levels_wt; exact W.
    + intros l Hl'. rewrite Dm. cbn [d_levels] in Hl'. destruct (restrict_levels_in_length _ _ _ _ _ Hl') as [l' [Hin' EL]]. rewrite EL. apply Rc. exact Hin'.
    + rewrite Dm. cbn [d_type d_levels d_root]. apply restrict_levels_good; exact G.
    + split; [reflexivity|]. split; [cbn [d_levels]; apply restrict_levels_length; exact Hl|].
      intros x Hx. destruct (eval_restrict d k v x W (good_live _ _ _ _ G) Hl Hx) as [r [Er Ev]]. injection Er as <-. exact Ev.
Qed.

(* ---------- 8. the product construction keeps diagrams well formed ---------- *)
Lemma plookup_none key : forall m, plookup key m = None -> ~ In key m.
Proof.
  induction m as [|h m IH]; intros H Hin; [destruct Hin|]. cbn [plookup] in H.
  destruct (Nat.eqb (fst h) (fst key) && Nat.eqb (snd h) (snd key)) eqn:E; [discriminate|].
  destruct (plookup key m) eqn:E2; [discriminate|]. destruct Hin as [->|Hin]; [|apply (IH eq_refl Hin)].
  rewrite !Nat.eqb_refl in E. discriminate.
Qed.
Lemma setdefault_cn key m : NoDup m -> NoDup (fst (setdefault key m)) /\ forall q, In q (fst (setdefault key m)) -> In q m \/ q = key.
Proof.
  intros Hnd. unfold setdefault. destruct (plookup key m) as [k|] eqn:E; cbn [fst].
  - split; [exact Hnd|auto].
  - split.
    + apply NoDup_app_disj; [exact Hnd|constructor; [intros []|constructor]|]. intros x Hx [<-|[]]. apply (plookup_none key m E Hx).
    + intros q Hq. apply in_app_or in Hq. destruct Hq as [Hq|[<-|[]]]; auto.
Qed.
Lemma sum_level_cn t l1 l2 : forall pn cn, NoDup cn ->
  NoDup (snd (sum_level t l1 l2 pn cn)) /\
  forall q, In q (snd (sum_level t l1 l2 pn cn)) ->
    In q cn \/ exists k b, k < length pn /\ q = (child (getnode t l1 (fst (nth k pn (0, 0)))) b, child (getnode t l2 (snd (nth k pn (0, 0)))) b).
Proof.
  induction pn as [|[i j] pn IH]; intros cn Hnd; cbn [sum_level]; [cbn [snd]; auto|].
  set (n1 := getnode t l1 i). set (n2 := getnode t l2 j).
  destruct (setdefault_cn (n_c0 n1, n_c0 n2) cn Hnd) as [Nd0 In0]. destruct (setdefault (n_c0 n1, n_c0 n2) cn) as [cn0 k0]. cbn [fst] in Nd0, In0.
  destruct (setdefault_cn (n_c1 n1, n_c1 n2) cn0 Nd0) as [Nd1 In1]. destruct (setdefault (n_c1 n1, n_c1 n2) cn0) as [cn1 k1]. cbn [fst] in Nd1, In1.
  destruct (IH cn1 Nd1) as [Nd' In']. destruct (sum_level t l1 l2 pn cn1) as [nodes cn']. cbn [snd] in *.
  split; [exact Nd'|]. intros q Hq. destruct (In' q Hq) as [H|[k [b [Hk Eq]]]].
  - destruct (In1 q H) as [H1 | ->].
    + destruct (In0 q H1) as [H0 | ->]; [left; exact H0|]. right. exists 0, false. split; [cbn; lia|reflexivity].
    + right. exists 0, true. split; [cbn; lia|reflexivity].
  - right. exists (S k), b. split; [cbn; lia|exact Eq].
Qed.
Lemma nodup_const_length {A} (a : A) : forall l, NoDup l -> (forall q, In q l -> q = a) -> length l <= 1.
Proof.
  intros [|x [|y l]] Hnd H; cbn [length]; try lia. exfalso. inversion Hnd as [|? ? Hx _]; subst. apply Hx. left.
  rewrite (H x (or_introl eq_refl)), (H y (or_intror (or_introl eq_refl))). reflexivity.
Qed.

Lemma pairs_bound (w1 w2 : nat) : forall l : list (nat * nat), NoDup l -> (forall q, In q l -> fst q < w1 /\ snd q < w2) -> length l <= w1 * w2.
Proof.
  intros l Hnd H. replace (w1 * w2) with (length (list_prod (seq 0 w1) (seq 0 w2))) by (rewrite prod_length, !seq_length; reflexivity).
  apply NoDup_incl_length; [exact Hnd|]. intros [a b] Hq. destruct (H _ Hq) as [Ha Hb]. cbn [fst snd] in Ha, Hb.
  apply in_prod; apply in_seq; lia.
Qed.

Lemma sum_levels_good t w1 w2 : forall ls1 ls2 pn, length ls1 = length ls2 -> NoDup pn ->
  (forall l, In l ls1 -> length l = w1) -> (forall l, In l ls2 -> length l = w2) ->
  (forall k, k < length pn -> good_from t w1 ls1 (fst (nth k pn (0, 0))) /\ good_from t w2 ls2 (snd (nth k pn (0, 0)))) ->
  (forall k, k < length pn -> good_from t (w1 * w2) (sum_levels t ls1 ls2 pn (w1 * w2)) k)
  /\ (forall l, In l (sum_levels t ls1 ls2 pn (w1 * w2)) -> length l = w1 * w2).
Proof.
  induction ls1 as [|l1 r1 IH]; intros [|l2 r2] pn Hlen Hnd R1 R2 Hg; try discriminate.
  - cbn [sum_levels good_from]. split; [|intros l []]. intros k Hk.
    assert (length pn <= w1 * w2); [|lia]. apply pairs_bound; [exact Hnd|].
    intros q Hq. destruct (In_nth pn q (0, 0) Hq) as [k' [Hk' <-]]. destruct (Hg k' Hk') as [A B]. cbn [good_from] in A, B. auto.
  - cbn [sum_levels]. pose proof (sum_level_spec t l1 l2 pn []) as S. pose proof (sum_level_cn t l1 l2 pn [] (NoDup_nil _)) as [Nd Incn].
    destruct (sum_level t l1 l2 pn []) as [nodes cn]. cbn [snd] in Nd, Incn. destruct S as [L [_ H]].
    assert (Hnext : forall k', k' < length cn -> good_from t w1 r1 (fst (nth k' cn (0, 0))) /\ good_from t w2 r2 (snd (nth k' cn (0, 0)))).
    { intros k' Hk'. destruct (Incn (nth k' cn (0, 0)) (nth_In cn (0, 0) Hk')) as [ [] | [k0 [b [Hk0 Eq]]] ]. rewrite Eq. cbn [fst snd].
      destruct (Hg k0 Hk0) as [A B]. cbn [good_from] in A, B. destruct A as [_ [_ [A0 A1]]]. destruct B as [_ [_ [B0 B1]]].
      destruct b; cbn [child]; auto. }
    destruct (IH r2 cn ltac:(cbn in Hlen; lia) Nd (fun l Hl => R1 l (or_intror Hl)) (fun l Hl => R2 l (or_intror Hl)) Hnext) as [IG IR].
    assert (Hb : length pn <= w1 * w2).
    { apply pairs_bound; [exact Hnd|]. intros q Hq. destruct (In_nth pn q (0, 0) Hq) as [k' [Hk' <-]]. destruct (Hg k' Hk') as [A B].
      cbn [good_from] in A, B. rewrite <- (R1 l1 (or_introl eq_refl)), <- (R2 l2 (or_introl eq_refl)). tauto. }
    split.
    + intros k Hk. cbn [good_from]. rewrite app_length. split; [lia|]. rewrite getnode_app_l by lia.
      destruct (H k Hk) as [Hlive [_ Hch]]. change (getnode t nodes k) with (nth k nodes (dead t)). split; [exact Hlive|].
      split; [destruct (Hch false) as [_ Hc]|destruct (Hch true) as [_ Hc]]; apply IG; exact Hc.
    + intros l [<-|Hl]; [|apply IR; exact Hl]. rewrite app_length, repeat_length. lia.
Qed.

Lemma sum_levels_wt t : forall ls1 ls2 pn w, wt_levels t ls1 -> wt_levels t ls2 -> wt_levels t (sum_levels t ls1 ls2 pn w).
Proof.
  induction ls1 as [|l1 r1 IH]; intros [|l2 r2] pn w W1 W2; try (intros l n []).
  cbn [sum_levels]. pose proof (sum_level_spec t l1 l2 pn []) as S. destruct (sum_level t l1 l2 pn []) as [nodes cn]. destruct S as [L [_ H]].
  intros l n Hl Hn. destruct Hl as [<-|Hl].
  - apply in_app_or in Hn. destruct Hn as [Hn|Hn]; [|apply repeat_spec in Hn; subst; apply dead_wt].
    destruct (In_nth nodes n (dead t) Hn) as [k [Hk <-]]. destruct (H k ltac:(lia)) as [_ [Had _]].
    split.
    + change (n_a0 (nth k nodes (dead t))) with (adder (nth k nodes (dead t)) false). rewrite Had.
      apply a_add_wt; apply adder_wt, getnode_wt; [apply (wt_levels_head t l1 r1 W1)|apply (wt_levels_head t l2 r2 W2)].
    + change (n_a1 (nth k nodes (dead t))) with (adder (nth k nodes (dead t)) true). rewrite Had.
      apply a_add_wt; apply adder_wt, getnode_wt; [apply (wt_levels_head t l1 r1 W1)|apply (wt_levels_head t l2 r2 W2)].
  - apply (IH r2 cn w (wt_levels_tail t l1 r1 W1) (wt_levels_tail t l2 r2 W2) l n Hl Hn).
Qed.
Lemma sum_levels_length t : forall ls1 ls2 pn w, length ls1 = length ls2 -> length (sum_levels t ls1 ls2 pn w) = length ls1.
Proof.
  induction ls1 as [|l1 r1 IH]; intros [|l2 r2] pn w H; try discriminate; [reflexivity|]. cbn [sum_levels].
  destruct (sum_level t l1 l2 pn []) as [nodes cn]. cbn [length]. f_equal. apply IH. cbn in H. lia.
Qed.

Lemma sum_ok d1 d2 : okd d1 -> okd d2 -> d_type d2 = d_type d1 -> length (d_levels d1) = length (d_levels d2) ->
  okd (add_sum d1 d2) /\ d_type (add_sum d1 d2) = d_type d1 /\ length (d_levels (add_sum d1 d2)) = length (d_levels d1).
Proof.
  intros [W1 [R1 G1]] [W2 [R2 G2]] Ht Hl. rewrite Ht in W2, G2.
  destruct (sum_levels_good (d_type d1) (diameter d1) (diameter d2) (d_levels d1) (d_levels d2) [(d_root d1, d_root d2)] Hl) as [SG SR];
    [constructor; [intros []|constructor]|exact R1|exact R2| |].
  { intros k Hk. cbn in Hk. assert (k = 0) by lia. subst. cbn [nth fst snd]. auto. }
  assert (Dm : diameter (add_sum d1 d2) = match d_levels d1 with [] => 1 | _ => diameter d1 * diameter d2 end).
  { unfold diameter at 1, add_sum. cbn [d_levels].
    destruct (d_levels d1) as [|l1 r1] eqn:E1; destruct (d_levels d2) as [|l2 r2] eqn:E2; try discriminate; [reflexivity|].
    destruct (sum_levels (d_type d1) (l1 :: r1) (l2 :: r2) [(d_root d1, d_root d2)] (diameter d1 * diameter d2)) as [|l r] eqn:Es.
    - exfalso. assert (HL := sum_levels_length (d_type d1) (l1 :: r1) (l2 :: r2) [(d_root d1, d_root d2)] (diameter d1 * diameter d2) Hl). rewrite Es in HL. discriminate.
    - apply SR. left. reflexivity. }
  split; [|split; [reflexivity|apply sum_levels_length; exact Hl]].
  split; [apply sum_levels_wt; assumption|]. split.
  - intros l Hin. unfold add_sum in Hin. cbn [d_levels] in Hin. rewrite Dm. destruct (d_levels d1) as [|l1 r1] eqn:E1.
    + destruct (d_levels d2); [destruct Hin|discriminate].
    + apply SR. exact Hin.
  - rewrite Dm. unfold add_sum. cbn [d_type d_levels d_root]. destruct (d_levels d1) as [|l1 r1] eqn:E1.
    + destruct (d_levels d2); [cbn; lia|discriminate].
    + apply SG. cbn. lia.
Qed.

(* ---------- 9. +1 on every value-1 edge ---------- *)
Definition bump_node (t : atype) (one : aval) (n : node) : node :=
  mkNode (n_live n) (n_c0 n) (n_c1 n) (n_a0 n) (a_add t (n_a1 n) one).
Lemma eval_bump t w one : wt t one -> forall lvls j acc x, wt_levels t lvls -> wt t acc -> good_from t w lvls j -> length x = length lvls ->
  eval_from t (map (map (bump_node t one)) lvls) j acc x
  = Nat.iter (count_true x) (fun e => a_add t e one) (eval_from t lvls j acc x).
Proof.
  intros Wo. induction lvls as [|l rest IH]; intros j acc x W Wa G Hx.
  - destruct x; [reflexivity|discriminate].
  - destruct x as [|c x]; [discriminate|]. cbn [map eval_from]. cbn [good_from] in G. destruct G as [G1 [G2 [G3 G4]]].
    set (n := getnode t l j) in *.
    assert (En : getnode t (map (bump_node t one) l) j = bump_node t one n).
    { unfold n, getnode. rewrite (nth_indep _ (dead t) (bump_node t one (dead t))) by (rewrite map_length; exact G1). apply map_nth. }
    rewrite En. assert (Wn : wt_node t n) by (apply getnode_wt, (wt_levels_head t l rest W)). destruct Wn as [W0 W1].
    assert (Wr := wt_levels_tail t l rest W). cbn in Hx.
    destruct c; cbn [child adder bump_node n_c0 n_c1 n_a0 n_a1].
    + rewrite <- a_add_assoc by assumption.
      rewrite IH; [|exact Wr|repeat apply a_add_wt; assumption|exact G4|lia].
      rewrite eval_from_shift; [|exact Wr|apply a_add_wt; assumption|exact Wo].
      change (count_true (true :: x)) with (S (count_true x)). rewrite iter_succ_r. reflexivity.
    + rewrite IH; [|exact Wr|apply a_add_wt; assumption|exact G3|lia]. reflexivity.
Qed.

Lemma bump_ok p d : okd d -> wt (d_type d) (Some (1 :: repeat 0 (2 * p_classes p))) ->
  okd (bump_ones p d) /\ same d (bump_ones p d)
  /\ forall x, length x = length (d_levels d) ->
       eval (bump_ones p d) x = Nat.iter (count_true x) (fun e => a_add (d_type d) e (Some (1 :: repeat 0 (2 * p_classes p)))) (eval d x).
Proof.
  intros O Wo. pose proof O as [W [Rc G]]. set (one := Some (1 :: repeat 0 (2 * p_classes p))) in *.
  assert (E : d_levels (bump_ones p d) = map (map (bump_node (d_type d) one)) (d_levels d)) by reflexivity.
  assert (Sh : shape (d_levels (bump_ones p d)) = shape (d_levels d)).
  { rewrite E. unfold shape. rewrite map_map. apply map_ext. intros l. rewrite map_map. apply map_ext. intros n. reflexivity. }
  assert (S : same d (bump_ones p d)) by (repeat split; exact Sh).
  split; [|split; [exact S|]].
  - apply (okd_same d _ S); [|exact O]. rewrite E. cbn [d_type bump_ones]. intros l n Hl Hn. apply in_map_iff in Hl. destruct Hl as [l0 [<- Hl0]].
    apply in_map_iff in Hn. destruct Hn as [n0 [<- Hn0]]. destruct (W l0 n0 Hl0 Hn0) as [W0 W1].
    split; cbn [bump_node n_a0 n_a1]; [exact W0|apply a_add_wt; assumption].
  - intros x Hx. unfold eval. rewrite E. cbn [d_type d_root bump_ones]. apply (eval_bump _ (diameter d)); auto using a_zero_wt.
Qed.

(* ---------- 10. several updates in a row; the boundary diagrams ---------- *)
Lemma fold_left_filter {A B} (c : B -> bool) (g : A -> B -> A) : forall l a,
  fold_left (fun acc k => if c k then g acc k else acc) l a = fold_left g (filter c l) a.
Proof. induction l as [|k l IH]; intros a; [reflexivity|]. cbn [fold_left filter]. destruct (c k); cbn [fold_left]; apply IH. Qed.
Lemma fold_left_map {A B C} (h : B -> C) (g : A -> C -> A) : forall l a, fold_left g (map h l) a = fold_left (fun acc k => g acc (h k)) l a.
Proof. induction l as [|k l IH]; intros a; [reflexivity|]. cbn [map fold_left]. apply IH. Qed.

Lemma multi_update {K} (L : K -> list loc) (F : K -> aval -> aval) (V : K -> aval) d :
  (forall k a, F k a = a_add (d_type d) a (V k)) -> (forall k, wt (d_type d) (V k)) ->
  forall ks d0, okd d0 -> same d d0 ->
  okd (fold_left (fun acc k => update acc (L k) (F k)) ks d0) /\ same d (fold_left (fun acc k => update acc (L k) (F k)) ks d0)
  /\ forall x, eval (fold_left (fun acc k => update acc (L k) (F k)) ks d0) x
               = fold_left (fun e k => Nat.iter (hits d x (L k)) (fun e => a_add (d_type d) e (V k)) e) ks (eval d0 x).
Proof.
  intros HF HV. induction ks as [|k ks IH]; intros d0 O S; [cbn [fold_left]; auto|]. cbn [fold_left].
  assert (Ht : d_type d0 = d_type d) by (destruct S as [A _]; exact A).
  destruct (update_ok d0 (L k) (F k) (V k) O) as [O' [S' E']]; [intros a; rewrite Ht; apply HF|rewrite Ht; apply HV|].
  destruct (IH (update d0 (L k) (F k)) O' (same_trans _ _ _ S S')) as [O'' [S'' E'']]. split; [exact O''|]. split; [exact S''|].
  intros x. rewrite E'', E', Ht, (hits_same d d0 x (L k) S). reflexivity.
Qed.

Definition zero_adders (d : add) : Prop :=
  forall l n, In l (d_levels d) -> In n l -> n_a0 n = a_zero (d_type d) /\ n_a1 n = a_zero (d_type d).
Lemma eval_zero_adders d x : inb (d_type d) (repeat 0 (length (a_max (d_type d)))) = true -> okd d -> zero_adders d -> eval d x = a_zero (d_type d).
Proof.
  intros Hz [_ [_ G]] Z. unfold eval. set (t := d_type d) in *. set (w := diameter d) in *.
  assert (Ez : a_add t (a_zero t) (a_zero t) = a_zero t).
  { unfold a_zero. cbn [a_add]. rewrite (ADDProofs.vadd_zero_l (length (a_max t))) by apply repeat_length. unfold clip. rewrite Hz. reflexivity. }
  revert Z G. unfold zero_adders. fold t. generalize (d_root d). generalize (d_levels d). intros lvls. revert x.
  induction lvls as [|l rest IH]; intros x j Z G; [reflexivity|]. destruct x as [|c x]; [reflexivity|]. cbn [eval_from].
  cbn [good_from] in G. destruct G as [G1 [G2 [G3 G4]]].
  assert (Hn : In (getnode t l j) l) by (apply nth_In; exact G1). destruct (Z l _ (or_introl eq_refl) Hn) as [Z0 Z1].
  assert (Ea : adder (getnode t l j) c = a_zero t) by (destruct c; assumption). rewrite Ea, Ez.
  apply IH; [intros l' n Hl' Hn'; apply (Z l' n); [right; exact Hl'|exact Hn']|destruct c; assumption].
Qed.

Lemma level_of_seq d n u : d_units d = seq 0 n -> u < n -> level_of d u = u.
Proof.
  intros E Hu. unfold level_of. rewrite E.
  assert (H : forall m s k i, i < m -> (fix go (l : list nat) (k : nat) {struct l} : nat :=
             match l with [] => k | u0 :: t => if Nat.eqb u0 (s + i) then k else go t (S k) end) (seq s m) k = k + i).
  { induction m as [|m IH]; intros s k i Hi; [lia|]. cbn [seq]. destruct i as [|i].
    - rewrite Nat.add_0_r, Nat.eqb_refl. lia.
    - destruct (Nat.eqb_spec s (s + S i)); [lia|]. replace (s + S i) with (S s + i) by lia. rewrite IH by lia. lia. }
  apply (H n 0 0 u Hu).
Qed.

Lemma iter_none t k e : Nat.iter k (fun e => a_add t e None) e = if Nat.eqb k 0 then e else None.
Proof.
  destruct k as [|k]; [reflexivity|]. cbn [Nat.eqb]. change (a_add t (Nat.iter k (fun e0 => a_add t e0 None) e) None = None).
  destruct (Nat.iter k (fun e0 => a_add t e0 None) e); reflexivity.
Qed.
Lemma fold_units_none t (g : nat -> bool) : forall units e,
  fold_left (fun e u => Nat.iter (if g u then 0 else 1) (fun e => a_add t e None) e) units e
  = if forallb g units then e else None.
Proof.
  induction units as [|u units IH]; intros e; [reflexivity|]. cbn [fold_left forallb]. rewrite IH. destruct (g u); cbn [andb]; [reflexivity|].
  change (Nat.iter 1 (fun e0 => a_add t e0 None) e) with (a_add t e None).
  destruct e; cbn [a_add]; destruct (forallb g units); reflexivity.
Qed.

(* an assignment given in diagram (level) order, read in unit order *)
Definition unit_view (d : add) (n : nat) (y : list bool) : list bool := map (fun u => nth (level_of d u) y false) (seq 0 n).
Lemma unit_view_nth d n y u : u < n -> nth u (unit_view d n y) false = nth (level_of d u) y false.
Proof.
  intros H. unfold unit_view. rewrite (nth_indep _ false ((fun u0 => nth (level_of d u0) y false) 0)) by (rewrite map_length, seq_length; exact H).
  rewrite (map_nth (fun u0 => nth (level_of d u0) y false)). rewrite seq_nth by exact H. reflexivity.
Qed.
Lemma unit_view_length d n y : length (unit_view d n y) = n.
Proof. unfold unit_view. rewrite map_length, seq_length. reflexivity. Qed.

(* sums of (0, one-hot, zeros) / (0, zeros, one-hot) vectors *)
Lemma vadd_app : forall a b c d, length a = length b -> vadd (a ++ c) (b ++ d) = vadd a b ++ vadd c d.
Proof.
  unfold vadd. induction a as [|x a IH]; intros [|y b] c d H; try discriminate; [reflexivity|]. cbn [app combine map]. f_equal. apply IH. cbn in H. lia.
Qed.
Lemma fold_vadd_right c : forall (l : list (list nat)) a, length a = c -> (forall v, In v l -> length v = c) ->
  fold_left vadd l a = vadd a (vsum c l).
Proof.
  induction l as [|v l IH]; intros a La H.
  - cbn [fold_left vsum fold_right]. symmetry. apply vadd_zero_r. exact La.
  - cbn [fold_left]. rewrite IH; [|rewrite ADDProofs.vadd_length; [exact La|rewrite La; symmetry; apply H; left; reflexivity]|intros w Hw; apply H; right; exact Hw].
    unfold vsum. cbn [fold_right]. apply vadd_assoc.
Qed.
Lemma total_side c (oh : nat -> list nat) (side : bool) : (forall r, length (oh r) = c) -> forall l,
  fold_left vadd (map (fun tt => 0 :: (if side then oh tt ++ repeat 0 c else repeat 0 c ++ oh tt)) l) (repeat 0 (S (2 * c)))
  = 0 :: (if side then vsum c (map oh l) ++ repeat 0 c else repeat 0 c ++ vsum c (map oh l)).
Proof.
  intros Hoh l. rewrite (fold_vadd_right (S (2 * c))).
  - replace (S (2 * c)) with (length (vsum (S (2 * c)) (map (fun tt => 0 :: (if side then oh tt ++ repeat 0 c else repeat 0 c ++ oh tt)) l))) at 1.
    + rewrite KnnShapley.vadd_zero_l. induction l as [|tt l IH].
      * assert (E : repeat 0 (2 * c) = repeat 0 c ++ repeat 0 c) by (rewrite <- repeat_app; f_equal; lia).
        unfold vsum. cbn [map fold_right]. change (repeat 0 (S (2 * c))) with (0 :: repeat 0 (2 * c)). rewrite E. destruct side; reflexivity.
      * cbn [map]. unfold vsum at 1. cbn [fold_right]. fold (vsum (S (2 * c)) (map (fun tt => 0 :: (if side then oh tt ++ repeat 0 c else repeat 0 c ++ oh tt)) l)). rewrite IH.
        fold (vsum c (map oh l)).
        assert (Lv : length (vsum c (map oh l)) = c).
        { apply KnnShapley.vsum_length. intros v Hv. apply in_map_iff in Hv. destruct Hv as [r [<- _]]. apply Hoh. }
        unfold vadd at 1. cbn [combine map fst snd]. fold (vadd (if side then oh tt ++ repeat 0 c else repeat 0 c ++ oh tt)
                                                         (if side then vsum c (map oh l) ++ repeat 0 c else repeat 0 c ++ vsum c (map oh l))).
        f_equal. destruct side.
        -- rewrite vadd_app by (rewrite Hoh, Lv; reflexivity). f_equal. apply (ADDProofs.vadd_zero_l c). apply repeat_length.
        -- rewrite vadd_app by (rewrite !repeat_length; reflexivity). f_equal. apply (ADDProofs.vadd_zero_l c). apply repeat_length.
    + apply KnnShapley.vsum_length. intros v Hv. apply in_map_iff in Hv. destruct Hv as [r [<- _]]. cbn [length].
      destruct side; rewrite app_length, Hoh, repeat_length; lia.
  - apply repeat_length.
  - intros v Hv. apply in_map_iff in Hv. destruct Hv as [r [<- _]]. cbn [length]. destruct side; rewrite app_length, Hoh, repeat_length; lia.
Qed.

Lemma forallb_ext_in' {A} (f g : A -> bool) : forall l, (forall a, In a l -> f a = g a) -> forallb f l = forallb g l.
Proof. induction l as [|a l IH]; intros H; [reflexivity|]. cbn [forallb]. rewrite (H a (or_introl eq_refl)), IH; [reflexivity|]. intros b Hb. apply H. right. exact Hb. Qed.
Lemma fold_left_ext_in {A B} (f g : A -> B -> A) : forall l a, (forall a b, In b l -> f a b = g a b) -> fold_left f l a = fold_left g l a.
Proof.
  induction l as [|b l IH]; intros a H; [reflexivity|]. cbn [fold_left]. rewrite (H a b (or_introl eq_refl)). apply IH.
  intros a' b' Hb'. apply H. right. exact Hb'.
Qed.

Lemma onehot_length_c c k : length (onehot c k) = c.
Proof. unfold onehot. rewrite map_length, seq_length. reflexivity. Qed.
Definition row_present_at_gen (rows : list (list nat)) (x : list bool) (r : nat) : bool := row_present (nth r rows []) x.

Section Oracle.
  Variables (p : cprob) (d : add) (locs : list (list loc)).
  Let n := p_units p.
  Let R := length (p_rows p).
  Let t := p_type p.
  Let C := p_classes p.
  Hypothesis Ht : d_type d = p_type p.
  Hypothesis Hok : okd d.
  Hypothesis Hz : zero_adders d.
  Hypothesis Hlv : forall u, u < n -> level_of d u < n.
  Hypothesis Hlen : length (d_levels d) = n.
  Hypothesis Hlocs : forall x, length x = n -> forall r, r < R ->
    hits d x (nth r locs []) = if row_present (nth r (p_rows p) []) (unit_view d n x) then 1 else 0.
  Hypothesis Hrows : forall r u, In u (nth r (p_rows p) []) -> u < n.

  Let within (tb : option nat) (tt : nat) : bool :=
    match tb with None => true | Some b => Qle_bool (nth tt (p_dist p) 0%Q) (nth b (p_dist p) 0%Q) end.
  Let oh (tt : nat) : list nat := onehot (p_classes p) (nth tt (p_labels p) 0).
  Let row_present_at (x : list bool) (r : nat) : bool := row_present (nth r (p_rows p) []) x.
  Let vv (side : bool) (tt : nat) : list nat := 0 :: (if side then oh tt ++ repeat 0 (p_classes p) else repeat 0 (p_classes p) ++ oh tt).

  Lemma t_len : length (a_max (p_type p)) = S (2 * p_classes p).
  Proof. unfold p_type, tally. cbn [a_max length]. rewrite repeat_length. reflexivity. Qed.
  Lemma t_wf : wf_type (p_type p).
  Proof. right. exists (p_numtuples p), (p_k p), (p_classes p). reflexivity. Qed.
  Lemma t_zero : inb (p_type p) (repeat 0 (length (a_max (p_type p)))) = true.
  Proof. apply (zero_index (p_type p) t_wf). Qed.
  Lemma vv_len side tt : length (vv side tt) = length (a_max (p_type p)).
  Proof. rewrite t_len. unfold vv, oh. cbn [length]. destruct side; rewrite app_length, onehot_length_c, repeat_length; lia. Qed.

  Lemma boundary_eval tb side x : length x = n ->
    okd (boundary_add p d locs tb side) /\ same d (boundary_add p d locs tb side) /\
    eval (boundary_add p d locs tb side) x
    = if match tb with None => true | Some b => row_present (nth b (p_rows p) []) (unit_view d n x) end
      then clip (p_type p) (0 :: (if side then label_tally p (unit_view d n x) tb ++ repeat 0 (p_classes p)
                                  else repeat 0 (p_classes p) ++ label_tally p (unit_view d n x) tb))
      else None.
  Proof.
    intros Hx. set (X := unit_view d n x).
    set (L := fun tt : nat => nth tt locs []). set (F := fun (tt : nat) (a : aval) => a_add (p_type p) a (Some (vv side tt))).
    set (D1 := fold_left (fun acc tt => if within tb tt then update acc (L tt) (F tt) else acc) (seq 0 (length (p_rows p))) d).
    assert (EB : boundary_add p d locs tb side
                 = match tb with None => D1
                   | Some b => fold_left (fun acc u => update acc (live_locs d (level_of d u) false) (fun _ => None)) (nth b (p_rows p) []) D1 end)
      by (destruct side; reflexivity).
    (* the row increments *)
    assert (H1 : okd D1 /\ same d D1 /\
                 eval D1 x = clip (p_type p) (0 :: (if side then label_tally p X tb ++ repeat 0 (p_classes p)
                                                    else repeat 0 (p_classes p) ++ label_tally p X tb))).
    { unfold D1. rewrite fold_left_filter.
      destruct (multi_update L F (fun tt => Some (vv side tt)) d) with (ks := filter (within tb) (seq 0 (length (p_rows p)))) (d0 := d)
        as [O [S E]]; [intros k a; rewrite Ht; reflexivity|intros k; rewrite Ht; apply vv_len|exact Hok|apply same_refl|].
      split; [exact O|]. split; [exact S|]. rewrite E. rewrite Ht.
      rewrite (fold_left_ext_in _ (fun e tt => if row_present (nth tt (p_rows p) []) X then a_add (p_type p) e (Some (vv side tt)) else e)).
      2:{ intros e tt Hin. apply filter_In in Hin. destruct Hin as [Hin _]. apply in_seq in Hin. unfold L. rewrite (Hlocs x Hx tt) by (unfold R; lia).
          fold X. destruct (row_present (nth tt (p_rows p) []) X); reflexivity. }
      rewrite fold_left_filter.
      rewrite (eval_zero_adders d x) by (try rewrite Ht; auto using t_zero). rewrite Ht.
      rewrite <- (fold_left_map (vv side) (fun e v => a_add (p_type p) e (Some v))).
      assert (Ez : a_zero (p_type p) = clip (p_type p) (repeat 0 (length (a_max (p_type p))))) by (unfold clip, a_zero; rewrite t_zero; reflexivity).
      rewrite Ez, fold_a_add_clip; [|apply repeat_length|intros v Hv; apply in_map_iff in Hv; destruct Hv as [tt [<- _]]; apply vv_len].
      f_equal. rewrite t_len. unfold vv. rewrite (total_side (p_classes p) oh side) by (intros r; apply onehot_length_c). f_equal.
      assert (El : label_tally p X tb = vsum (p_classes p) (map oh (filter (row_present_at X) (filter (within tb) (seq 0 (length (p_rows p))))))).
      { unfold label_tally. rewrite KnnShapley.filter_filter'. rewrite <- (KnnShapley.vsum_filter (p_classes p) _ oh) by (intros r; apply onehot_length_c).
        f_equal. apply map_ext. intros r. unfold row_present_at, within. rewrite andb_comm. reflexivity. }
      rewrite El. reflexivity. }
    destruct H1 as [O1 [S1 E1]]. rewrite EB. destruct tb as [b|]; [|auto].
    destruct (multi_update (fun u => live_locs d (level_of d u) false) (fun (_ : nat) (_ : aval) => None) (fun _ => None) d)
      with (ks := nth b (p_rows p) []) (d0 := D1) as [O [S E]]; [intros k a; destruct a; reflexivity|intros k; exact I|exact O1|exact S1|].
    split; [exact O|]. split; [exact S|]. rewrite E.
    rewrite (fold_left_ext_in _ (fun e u => Nat.iter (if nth (level_of d u) x false then 0 else 1) (fun e => a_add (d_type d) e None) e)).
    2:{ intros e u Hin. pose proof (Hrows b u Hin) as Hun. pose proof (Hlv u Hun) as Hl.
        rewrite hits_live_locs by (try exact Hok; lia). reflexivity. }
    rewrite (fold_units_none (d_type d) (fun u => nth (level_of d u) x false)), E1.
    replace (forallb (fun u => nth (level_of d u) x false) (nth b (p_rows p) [])) with (row_present (nth b (p_rows p) []) X); [reflexivity|].
    unfold row_present. apply forallb_ext_in'. intros u Hin. unfold X. apply unit_view_nth. apply (Hrows b u Hin).
  Qed.
End Oracle.

(* ---------- 11. the query ---------- *)
Lemma same_length d d' : same d d' -> length (d_levels d') = length (d_levels d).
Proof. intros [_ [_ [S _]]]. unfold shape in S. rewrite <- (map_length (map nshape) (d_levels d')), S, map_length. reflexivity. Qed.
Lemma iter_from_none t one k : Nat.iter k (fun e => a_add t e one) None = None.
Proof. induction k as [|k IH]; [reflexivity|]. change (a_add t (Nat.iter k (fun e => a_add t e one) None) one = None). rewrite IH. reflexivity. Qed.
Lemma iter_fold_repeat t v : forall k e, Nat.iter k (fun e => a_add t e (Some v)) e = fold_left (fun e w => a_add t e (Some w)) (repeat v k) e.
Proof. induction k as [|k IH]; intros e; [reflexivity|]. rewrite iter_succ_r. cbn [repeat fold_left]. apply IH. Qed.
Lemma fold_vadd_ones m : forall k s (r : list nat), length r = m -> fold_left vadd (repeat (1 :: repeat 0 m) k) (s :: r) = (s + k) :: r.
Proof.
  induction k as [|k IH]; intros s r Hr; cbn [repeat fold_left]; [f_equal; lia|].
  assert (E : vadd (s :: r) (1 :: repeat 0 m) = (s + 1) :: r).
  { unfold vadd. cbn [combine map fst snd]. f_equal. fold (vadd r (repeat 0 m)). apply vadd_zero_r. exact Hr. }
  rewrite E, IH by exact Hr. f_equal. lia.
Qed.
Lemma label_tally_length p x tb : length (label_tally p x tb) = p_classes p.
Proof.
  unfold label_tally. apply KnnShapley.vsum_length. intros v Hv. apply in_map_iff in Hv. destruct Hv as [r [<- _]].
  destruct (_ && _); [apply onehot_length_c|apply repeat_length].
Qed.
Lemma insert_bit_len i b x : i <= length x -> length (insert_bit i b x) = S (length x).
Proof. intros H. unfold insert_bit. rewrite app_length, firstn_length, Nat.min_l by lia. cbn [length]. rewrite skipn_length. lia. Qed.

(* removing / inserting one position *)
Definition remove_at {A} (i : nat) (l : list A) : list A := firstn i l ++ skipn (S i) l.
Lemma insert_remove : forall i (l : list bool), i < length l -> insert_bit i (nth i l false) (remove_at i l) = l.
Proof.
  unfold insert_bit, remove_at. induction i as [|i IH]; intros [|a l] H; cbn in H; try lia; [reflexivity|].
  cbn [nth firstn skipn app]. f_equal. change (skipn (S i) l) with (skipn (S i) l). apply IH. lia.
Qed.
Lemma remove_insert : forall i b (l : list bool), i <= length l -> remove_at i (insert_bit i b l) = l.
Proof.
  unfold insert_bit, remove_at. induction i as [|i IH]; intros b l H; [reflexivity|]. destruct l as [|a l]; [cbn in H; lia|].
  cbn [firstn skipn app]. f_equal. apply IH. cbn in H. lia.
Qed.
Lemma nth_insert_same : forall i b (l : list bool), i <= length l -> nth i (insert_bit i b l) false = b.
Proof.
  unfold insert_bit. induction i as [|i IH]; intros b l H; [reflexivity|]. destruct l as [|a l]; [cbn in H; lia|]. cbn [firstn skipn app nth]. apply IH. cbn in H. lia.
Qed.
Lemma nth_insert_other : forall i b b' (l : list bool) k, i <= length l -> k <> i -> nth k (insert_bit i b l) false = nth k (insert_bit i b' l) false.
Proof.
  unfold insert_bit. induction i as [|i IH]; intros b b' l k Hi Hk.
  - destruct k; [lia|reflexivity].
  - destruct l as [|a l]; [cbn in Hi; lia|]. cbn [firstn skipn app].
    destruct k as [|k]; [reflexivity|]. cbn [nth]. apply IH; [cbn in Hi; lia|lia].
Qed.
Lemma nth_remove_at {A} (d0 : A) : forall i (l : list A) k, nth k (remove_at i l) d0 = if k <? i then nth k l d0 else nth (S k) l d0.
Proof.
  unfold remove_at. induction i as [|i IH]; intros l k.
  - cbn [firstn app Nat.ltb Nat.leb]. destruct l as [|a l]; [destruct k; reflexivity|]. reflexivity.
  - destruct l as [|a l].
    + cbn [firstn skipn app]. destruct (k <? S i); destruct k; reflexivity.
    + cbn [firstn skipn app]. destruct k as [|k]; [reflexivity|]. cbn [nth]. rewrite IH. change (S k <? S i) with (k <? i). reflexivity.
Qed.
Lemma remove_at_length {A} i (l : list A) : i < length l -> S (length (remove_at i l)) = length l.
Proof. intros H. unfold remove_at. rewrite app_length, firstn_length, skipn_length. lia. Qed.
Lemma remove_at_ext i (l l' : list bool) : length l = length l' -> i < length l ->
  (forall k, k <> i -> nth k l false = nth k l' false) -> remove_at i l = remove_at i l'.
Proof.
  intros HL Hi H. apply (nth_ext _ _ false false).
  - pose proof (remove_at_length i l Hi). pose proof (remove_at_length i l' ltac:(lia)). lia.
  - intros k _. rewrite !nth_remove_at. destruct (Nat.ltb_spec k i); apply H; lia.
Qed.
Lemma count_true_insert i b (l : list bool) : count_true (insert_bit i b l) = (if b then 1 else 0) + count_true l.
Proof.
  unfold count_true, insert_bit. rewrite <- (firstn_skipn i l) at 3. rewrite !filter_app, !app_length. cbn [filter]. destruct b; cbn [length]; lia.
Qed.
Lemma count_true_perm (l l' : list bool) : Permutation.Permutation l l' -> count_true l = count_true l'.
Proof.
  intros P. unfold count_true. induction P as [|x l l' P IH|x y l|l l' l'' P1 IH1 P2 IH2]; cbn [filter]; try congruence.
  - destruct x; cbn [length]; congruence.
  - destruct x, y; reflexivity.
Qed.
Lemma map_nth_id (y : list bool) : map (fun k => nth k y false) (seq 0 (length y)) = y.
Proof.
  apply (nth_ext _ _ false false); [rewrite map_length, seq_length; reflexivity|]. intros k Hk. rewrite map_length, seq_length in Hk.
  rewrite (nth_indep _ false ((fun k0 => nth k0 y false) 0)) by (rewrite map_length, seq_length; exact Hk).
  rewrite (map_nth (fun k0 => nth k0 y false)), seq_nth by exact Hk. reflexivity.
Qed.

Section UnitOrder.
  Variables (d : add) (n : nat).
  Hypothesis Hperm : Permutation.Permutation (map (level_of d) (seq 0 n)) (seq 0 n).

  Lemma lv_lt u : u < n -> level_of d u < n.
  Proof.
    intros H. assert (Hin : In (level_of d u) (map (level_of d) (seq 0 n))) by (apply in_map, in_seq; lia).
    apply (Permutation.Permutation_in _ Hperm) in Hin. apply in_seq in Hin. lia.
  Qed.
  Lemma lv_inj u u' : u < n -> u' < n -> level_of d u = level_of d u' -> u = u'.
  Proof.
    intros H H' E. assert (Hnd : NoDup (map (level_of d) (seq 0 n))) by (apply (Permutation.Permutation_NoDup (Permutation.Permutation_sym Hperm)), seq_NoDup).
    apply (proj1 (NoDup_nth _ 0) Hnd); rewrite ?map_length, ?seq_length; try assumption.
    rewrite !(nth_indep _ 0 (level_of d 0)) by (rewrite map_length, seq_length; assumption).
    rewrite !(map_nth (level_of d)), !seq_nth by assumption. exact E.
  Qed.
  Lemma lv_surj k : k < n -> exists u, u < n /\ level_of d u = k.
  Proof.
    intros H. assert (Hin : In k (map (level_of d) (seq 0 n))) by (apply (Permutation.Permutation_in _ (Permutation.Permutation_sym Hperm)), in_seq; lia).
    apply in_map_iff in Hin. destruct Hin as [u [E Hu]]. apply in_seq in Hu. exists u. split; [lia|exact E].
  Qed.
  Lemma unit_view_perm y : length y = n -> Permutation.Permutation (unit_view d n y) y.
  Proof.
    intros Hy. unfold unit_view. rewrite <- (map_map (level_of d) (fun k => nth k y false)).
    eapply Permutation.Permutation_trans; [apply Permutation.Permutation_map; exact Hperm|]. rewrite <- Hy, map_nth_id. apply Permutation.Permutation_refl.
  Qed.
  Lemma unit_view_inj z1 z2 : length z1 = n -> length z2 = n -> unit_view d n z1 = unit_view d n z2 -> z1 = z2.
  Proof.
    intros H1 H2 E. apply (nth_ext _ _ false false); [congruence|]. intros k Hk. rewrite H1 in Hk.
    destruct (lv_surj k Hk) as [u [Hu <-]]. rewrite <- !(unit_view_nth d n _ u Hu). rewrite E. reflexivity.
  Qed.
End UnitOrder.

Lemma histogram_perm t vals vals' : Permutation.Permutation vals vals' -> histogram t vals = histogram t vals'.
Proof.
  intros P. unfold histogram. apply map_ext. intros e. apply Permutation.Permutation_length.
  induction P as [|x l l' P IH|x y l|l l' l'' P1 IH1 P2 IH2]; cbn [filter].
  - apply Permutation.Permutation_refl.
  - destruct (a_eqb e x); [apply Permutation.perm_skip|]; exact IH.
  - destruct (a_eqb e y), (a_eqb e x); try apply Permutation.Permutation_refl. apply Permutation.perm_swap.
  - eapply Permutation.Permutation_trans; eassumption.
Qed.

(* the general statement: any order of the units over the levels *)
Theorem oracle_exact_order p d locs target t1 t2 :
  d_type d = p_type p -> okd d -> zero_adders d ->
  Permutation.Permutation (map (level_of d) (seq 0 (p_units p))) (seq 0 (p_units p)) -> length (d_levels d) = p_units p ->
  (forall y, length y = p_units p -> forall r, r < length (p_rows p) ->
     hits d y (nth r locs []) = if row_present (nth r (p_rows p) []) (unit_view d (p_units p) y) then 1 else 0) ->
  (forall r u, In u (nth r (p_rows p) []) -> u < p_units p) ->
  2 <= p_units p -> target < p_units p ->
  oracle_query p d locs target t1 t2 = Some (count_spec p target t1 t2).
Proof.
  intros Ht Hok Hz Hperm Hlen Hlocs Hrows Hn Htg. set (n := p_units p) in *. set (t := p_type p).
  assert (Hlv := lv_lt d n Hperm).
  unfold oracle_query. set (lt := level_of d target). assert (Hlt : lt < n) by (apply Hlv; exact Htg).
  set (BW := boundary_add p d locs (Some t1) true). set (BO := boundary_add p d locs t2 false).
  assert (HW := fun x Hx => boundary_eval p d locs Ht Hok Hz Hlv Hlen Hlocs Hrows (Some t1) true x Hx). fold BW in HW.
  assert (HO := fun x Hx => boundary_eval p d locs Ht Hok Hz Hlv Hlen Hlocs Hrows t2 false x Hx). fold BO in HO.
  destruct (HW (repeat false n) (repeat_length _ _)) as [OW [SW _]]. destruct (HO (repeat false n) (repeat_length _ _)) as [OO [SO _]].
  assert (LW : length (d_levels BW) = n) by (rewrite (same_length d BW SW); exact Hlen).
  assert (LO : length (d_levels BO) = n) by (rewrite (same_length d BO SO); exact Hlen).
  assert (TW : d_type BW = t) by (destruct SW as [A _]; rewrite A; exact Ht).
  assert (TO : d_type BO = t) by (destruct SO as [A _]; rewrite A; exact Ht).
  destruct (restrict_ok BW lt true OW) as [dw [Ew [Odw [Tdw [Ldw Vdw]]]]]; [lia|lia|].
  destruct (restrict_ok BO lt false OO) as [dwo [Eo [Odwo [Tdwo [Ldwo Vdwo]]]]]; [lia|lia|].
  rewrite Ew, Eo. f_equal.
  destruct (sum_ok dw dwo Odw Odwo) as [Os [Ts Ls]]; [congruence|lia|].
  set (D := add_sum dw dwo) in *.
  assert (Wone : wt (d_type D) (Some (1 :: repeat 0 (2 * p_classes p)))).
  { rewrite Ts, Tdw, TW. unfold t. cbn [wt]. rewrite t_len. cbn [length]. rewrite repeat_length. reflexivity. }
  destruct (bump_ok p D Os Wone) as [Ob [Sb Vb]].
  set (DB := bump_ones p D) in *.
  assert (TB : d_type DB = t) by (destruct Sb as [A _]; rewrite A, Ts, Tdw; exact TW).
  assert (LB : length (d_levels DB) = n - 1) by (rewrite (same_length D DB Sb), Ls; lia).
  destruct Ob as [WB [RB GB]].
  rewrite (modelcount_histogram DB); [|rewrite TB; apply t_wf|exact WB|apply good_live_w; exact GB].
  unfold count_spec. rewrite TB, LB. fold t. fold n.
  (* the assignment of the other units, in unit order, that a diagram-order assignment stands for *)
  set (phi := fun y' : list bool => remove_at target (unit_view d n (insert_bit lt false y'))).
  assert (Hphi : forall y', length y' = n - 1 ->
            insert_bit target true (phi y') = unit_view d n (insert_bit lt true y')
            /\ insert_bit target false (phi y') = unit_view d n (insert_bit lt false y')
            /\ count_true (phi y') = count_true y' /\ length (phi y') = n - 1).
  { intros y' Hy. set (zo := insert_bit lt false y'). set (zw := insert_bit lt true y').
    assert (Lzo : length zo = n) by (unfold zo; rewrite insert_bit_len; lia).
    assert (Lzw : length zw = n) by (unfold zw; rewrite insert_bit_len; lia).
    assert (Bo : nth target (unit_view d n zo) false = false) by (rewrite unit_view_nth by exact Htg; apply nth_insert_same; lia).
    assert (Bw : nth target (unit_view d n zw) false = true) by (rewrite unit_view_nth by exact Htg; apply nth_insert_same; lia).
    assert (Eo' : insert_bit target false (phi y') = unit_view d n zo).
    { unfold phi. fold zo. rewrite <- Bo at 1. apply insert_remove. rewrite unit_view_length. exact Htg. }
    assert (Er : remove_at target (unit_view d n zw) = remove_at target (unit_view d n zo)).
    { apply remove_at_ext; rewrite ?unit_view_length; try reflexivity; try exact Htg. intros k Hk.
      destruct (Nat.lt_ge_cases k n) as [Hkn|Hkn].
      - rewrite !unit_view_nth by exact Hkn. apply nth_insert_other; [lia|]. intros E. apply Hk. apply (lv_inj d n Hperm k target Hkn Htg E).
      - rewrite !nth_overflow by (rewrite unit_view_length; exact Hkn). reflexivity. }
    split; [|split; [exact Eo'|split]].
    - unfold phi. fold zo. rewrite <- Er. rewrite <- Bw at 1. apply insert_remove. rewrite unit_view_length. exact Htg.
    - assert (C1 : count_true (unit_view d n zo) = count_true zo) by (apply count_true_perm, (unit_view_perm d n Hperm); exact Lzo).
      rewrite <- Eo', count_true_insert in C1. unfold zo in C1. rewrite count_true_insert in C1. cbn in C1. exact C1.
    - unfold phi. fold zo. pose proof (remove_at_length target (unit_view d n zo)) as HL. rewrite unit_view_length in HL. specialize (HL Htg). lia. }
  assert (Ppm : Permutation.Permutation (map phi (bmasks (n - 1))) (bmasks (n - 1))).
  { apply Permutation.NoDup_Permutation_bis.
    - apply KnnShapley.NoDup_map_inj.
      2:{ intros y1 y2 H1 H2 E. apply bmasks_lengths in H1. apply bmasks_lengths in H2.
        destruct (Hphi y1 H1) as [_ [A1 _]]. destruct (Hphi y2 H2) as [_ [A2 _]]. rewrite E in A1. rewrite A1 in A2.
        apply (unit_view_inj d n Hperm) in A2; [|rewrite insert_bit_len; lia|rewrite insert_bit_len; lia].
        rewrite <- (remove_insert lt false y1), <- (remove_insert lt false y2) by lia. rewrite A2. reflexivity. }
      rewrite <- KnnShapley.masks_bmasks. apply ShapleyAxioms.masks_nodup.
    - rewrite map_length. lia.
    - intros x Hx. apply in_map_iff in Hx. destruct Hx as [y' [<- Hy']]. apply bmasks_lengths in Hy'. destruct (Hphi y' Hy') as [_ [_ [_ L]]].
      rewrite <- KnnShapley.masks_bmasks. apply ShapleyAxioms.masks_length. exact L. }
  rewrite <- (histogram_perm t _ _ (Permutation.Permutation_map (tally_of p target t1 t2) Ppm)). rewrite map_map.
  f_equal. apply map_ext_in. intros x Hx. apply bmasks_lengths in Hx.
  destruct (Hphi x Hx) as [Pw [Po [Pc _]]].
  rewrite Vb by (rewrite Ls; lia). rewrite Ts, Tdw, TW.
  unfold D. rewrite eval_sum; [|congruence|lia|destruct Odw; assumption|rewrite Tdw, TW, <- TO, <- Tdwo; destruct Odwo; assumption|rewrite Tdw, TW; apply t_zero].
  rewrite Tdw, TW. rewrite Vdw, Vdwo by lia.
  assert (Lxw : length (insert_bit lt true x) = n) by (rewrite insert_bit_len; lia).
  assert (Lxo : length (insert_bit lt false x) = n) by (rewrite insert_bit_len; lia).
  destruct (HW _ Lxw) as [_ [_ EW]]. destruct (HO _ Lxo) as [_ [_ EO]]. rewrite EW, EO. fold n.
  unfold tally_of. rewrite Pw, Po, Pc. set (xw := unit_view d n (insert_bit lt true x)). set (xo := unit_view d n (insert_bit lt false x)).
  destruct (row_present (nth t1 (p_rows p) []) xw); cbn [andb]; [|cbn [a_add]; apply iter_from_none].
  destruct (match t2 with Some t0 => row_present (nth t0 (p_rows p) []) xo | None => true end);
    [|unfold clip; destruct (inb _ _); cbn [a_add]; apply iter_from_none].
  fold t. pose proof (label_tally_length p xw (Some t1)) as L1. pose proof (label_tally_length p xo t2) as L2.
  rewrite a_add_clip.
  2:{ unfold t. rewrite t_len. cbn [length]. rewrite app_length, L1, repeat_length. lia. }
  2:{ unfold t. rewrite t_len. cbn [length]. rewrite app_length, L2, repeat_length. lia. }
  assert (Ev : vadd (0 :: label_tally p xw (Some t1) ++ repeat 0 (p_classes p)) (0 :: repeat 0 (p_classes p) ++ label_tally p xo t2)
               = 0 :: label_tally p xw (Some t1) ++ label_tally p xo t2).
  { unfold vadd at 1. cbn [combine map fst snd]. f_equal.
    fold (vadd (label_tally p xw (Some t1) ++ repeat 0 (p_classes p)) (repeat 0 (p_classes p) ++ label_tally p xo t2)).
    rewrite vadd_app by (rewrite L1, repeat_length; reflexivity). f_equal.
    - apply vadd_zero_r. exact L1.
    - apply (ADDProofs.vadd_zero_l (p_classes p)). exact L2. }
  rewrite Ev, iter_fold_repeat.
  rewrite fold_a_add_clip.
  - f_equal. rewrite (fold_vadd_ones (2 * p_classes p)); [reflexivity|]. rewrite app_length, L1, L2. lia.
  - unfold t. rewrite t_len. cbn [length]. rewrite app_length, L1, L2. lia.
  - intros v Hv. apply repeat_spec in Hv. subst v. unfold t. rewrite t_len. cbn [length]. rewrite repeat_length. reflexivity.
Qed.

(* units in provenance order *)
Theorem oracle_exact p d locs target t1 t2 :
  d_type d = p_type p -> okd d -> zero_adders d -> d_units d = seq 0 (p_units p) -> length (d_levels d) = p_units p ->
  (forall x, length x = p_units p -> forall r, r < length (p_rows p) ->
     hits d x (nth r locs []) = if row_present (nth r (p_rows p) []) x then 1 else 0) ->
  (forall r u, In u (nth r (p_rows p) []) -> u < p_units p) ->
  2 <= p_units p -> target < p_units p ->
  oracle_query p d locs target t1 t2 = Some (count_spec p target t1 t2).
Proof.
  intros Ht Hok Hz Hu Hlen Hlocs Hrows Hn Htg.
  assert (Eid : map (level_of d) (seq 0 (p_units p)) = seq 0 (p_units p)).
  { rewrite <- (map_id (seq 0 (p_units p))) at 2. apply map_ext_in. intros u Hin. apply in_seq in Hin. apply (level_of_seq d (p_units p)); [exact Hu|lia]. }
  apply oracle_exact_order; try assumption.
  - rewrite Eid. apply Permutation.Permutation_refl.
  - intros y Hy r Hr. rewrite (Hlocs y Hy r Hr). replace (unit_view d (p_units p) y) with y; [reflexivity|].
    unfold unit_view. rewrite <- (map_map (level_of d) (fun k => nth k y false)), Eid, <- Hy. symmetry. apply map_nth_id.
Qed.

(* ---------- 12. compile(), chain case: one unit per row ---------- *)
Lemma chain_good t : forall (units : list nat), good_from t 1 (map (fun _ : nat => [mkNode true 0 0 (a_zero t) (a_zero t)]) units) 0.
Proof. induction units as [|u units IH]; [cbn; lia|]. cbn [map good_from length getnode nth n_live n_c0 n_c1]. repeat split; try lia; exact IH. Qed.
Lemma chain_okd t units : okd (chain t units).
Proof.
  assert (Dm : diameter (chain t units) = 1) by (unfold diameter, chain; cbn [d_levels]; destruct units; reflexivity).
  split; [|split].
  - cbn [chain d_type d_levels]. intros l nd Hl Hnd. apply in_map_iff in Hl. destruct Hl as [u [<- _]]. destruct Hnd as [<-|[]]. split; apply a_zero_wt.
  - intros l Hl. rewrite Dm. cbn [chain d_levels] in Hl. apply in_map_iff in Hl. destruct Hl as [u [<- _]]. reflexivity.
  - rewrite Dm. cbn [chain d_type d_levels d_root]. apply chain_good.
Qed.
Lemma chain_node_at t : forall (units : list nat) x lvl, node_at t (map (fun _ : nat => [mkNode true 0 0 (a_zero t) (a_zero t)]) units) 0 x lvl = 0.
Proof.
  induction units as [|u units IH]; intros x lvl; destruct lvl as [|lvl]; try reflexivity. cbn [map node_at]. destruct x as [|c x]; [reflexivity|].
  replace (child (getnode t [mkNode true 0 0 (a_zero t) (a_zero t)] 0) c) with 0 by (destruct c; reflexivity). apply IH.
Qed.

Theorem oracle_chain_exact p target t1 t2 :
  (forall r, r < length (p_rows p) -> exists u, nth r (p_rows p) [] = [u] /\ u < p_units p) ->
  2 <= p_units p -> target < p_units p ->
  oracle_query p (fst (compile_chain (p_type p) (p_units p) (map (fun r => (hd 0 r, true)) (p_rows p))))
                 (snd (compile_chain (p_type p) (p_units p) (map (fun r => (hd 0 r, true)) (p_rows p)))) target t1 t2
  = Some (count_spec p target t1 t2).
Proof.
  intros Hrows Hn Htg. unfold compile_chain. cbn [fst snd]. set (t := p_type p). set (n := p_units p) in *.
  apply oracle_exact; try assumption; try reflexivity.
  - apply chain_okd.
  - intros l nd Hl Hnd. cbn [chain d_levels d_type] in *. apply in_map_iff in Hl. destruct Hl as [u [<- _]]. destruct Hnd as [<-|[]]. split; reflexivity.
  - cbn [chain d_levels]. rewrite map_length, seq_length. reflexivity.
  - intros x Hx r Hr. destruct (Hrows r Hr) as [u [Eu Hu]]. rewrite Eu.
    match goal with |- hits _ _ ?LL = _ => assert (El : LL = [(u, 0, true)]) end.
    { rewrite map_map. rewrite (nth_indep _ [] ((fun r0 : list nat => [(fst (hd 0 r0, true), 0, snd (hd 0 r0, true))]) [])) by (rewrite map_length; exact Hr).
      rewrite (map_nth (fun r0 : list nat => [(fst (hd 0 r0, true), 0, snd (hd 0 r0, true))])). rewrite Eu. reflexivity. }
    rewrite El. unfold hits. cbn [filter on_loc chain d_type d_levels d_root].
    rewrite on_path_node by (rewrite ?map_length, ?seq_length; lia). rewrite chain_node_at. cbn [Nat.eqb andb].
    unfold row_present. cbn [forallb]. rewrite andb_true_r. destruct (nth u x false); reflexivity.
  - intros r u Hin. destruct (Nat.lt_ge_cases r (length (p_rows p))) as [Hr|Hr].
    + destruct (Hrows r Hr) as [u' [Eu Hu']]. rewrite Eu in Hin. destruct Hin as [<-|[]]. exact Hu'.
    + rewrite nth_overflow in Hin by exact Hr. destruct Hin.
Qed.

(* ---------- 13. a concrete instance ---------- *)
Definition oracle_chain_instance_statement : Prop :=
  let p := mkProb 3 [[0]; [1]; [1]; [2]] [0; 1; 0; 1] [3#1; 1#1; 2#1; 5#2]%Q 2 2 2 in
  (forall r, r < length (p_rows p) -> exists u, nth r (p_rows p) [] = [u] /\ u < p_units p) /\
  oracle_query p (fst (compile_chain (p_type p) (p_units p) (map (fun r => (hd 0 r, true)) (p_rows p))))
                 (snd (compile_chain (p_type p) (p_units p) (map (fun r => (hd 0 r, true)) (p_rows p)))) 1 2 (Some 3)
  = Some (count_spec p 1 2 (Some 3)) /\
  2 <= length (filter (fun c => negb (Nat.eqb c 0)) (count_spec p 1 2 (Some 3))).
Example oracle_chain_instance : oracle_chain_instance_statement.
Proof.
  unfold oracle_chain_instance_statement. cbv zeta. split; [|split].
  - intros r Hr. cbn in Hr. destruct r as [|[|[|[|r]]]]; cbn; try lia; eexists; split; try reflexivity; lia.
  - vm_compute. reflexivity.
  - vm_compute. lia.
Qed.
