(* C03: the bruteforce loop computes the Shapley value by definition. *)
From Coq Require Import List Arith ZArith QArith Lia Bool Setoid Morphisms Permutation Lqa.
From DS Require Import Util.SumQ Util.ListX Spec.Shapley Spec.Dnf Model.Provenance Model.Bruteforce
     Proofs.ShapleyAxioms Proofs.QueryCorrect.
Import ListNotations.
Local Open Scope Q_scope.

(* ---------- binomial coefficients ---------- *)
Lemma binom_0_r n : binom n 0 = 1%nat. Proof. destruct n; reflexivity. Qed.
Lemma binom_gt n : forall k, (n < k)%nat -> binom n k = 0%nat.
Proof. induction n as [|n IH]; intros [|k] H; cbn [binom]; try lia. rewrite !IH by lia. reflexivity. Qed.
Lemma binom_diag n : binom n n = 1%nat.
Proof. induction n as [|n IH]; [reflexivity|]. cbn [binom]. rewrite IH, binom_gt by lia. lia. Qed.

Lemma binom_fact n : forall k, (k <= n)%nat -> (binom n k * (fact k * fact (n - k)) = fact n)%nat.
Proof.
  induction n as [|n IH]; intros k Hk.
  - assert (k = 0)%nat by lia. subst. reflexivity.
  - destruct k as [|k]; [cbn [binom]; rewrite Nat.sub_0_r; cbn [fact]; lia|].
    cbn [binom]. destruct (Nat.eq_dec k n) as [->|Hne].
    + rewrite binom_diag, binom_gt by lia. rewrite Nat.sub_diag. cbn [fact]. lia.
    + assert (H1 := IH k ltac:(lia)). assert (H2 := IH (S k) ltac:(lia)).
      replace (S n - S k)%nat with (n - k)%nat by lia.
      replace (n - k)%nat with (S (n - S k)) in * by lia.
      change (fact (S k)) with (S k * fact k)%nat in *. change (fact (S (n - S k))) with (S (n - S k) * fact (n - S k))%nat in *.
      change (fact (S n)) with (S n * fact n)%nat.
      rewrite Nat.mul_add_distr_r.
      replace (binom n k * (S k * fact k * (S (n - S k) * fact (n - S k))))%nat
        with (S k * (binom n k * (fact k * (S (n - S k) * fact (n - S k)))))%nat by lia.
      replace (binom n (S k) * (S k * fact k * (S (n - S k) * fact (n - S k))))%nat
        with (S (n - S k) * (binom n (S k) * (S k * fact k * fact (n - S k))))%nat by lia.
      rewrite H1, H2. nia.
Qed.

Lemma qn_inj_mult a b c : (a * b = c)%nat -> qn a * qn b == qn c.
Proof. intros <-. symmetry. apply qn_mult. Qed.

Lemma binom_pos n k : (k <= n)%nat -> (0 < binom n k)%nat.
Proof. intros H. pose proof (binom_fact n k H). pose proof (lt_O_fact n). destruct (binom n k); lia. Qed.

(* ---------- the code's factors are the Shapley coefficients ---------- *)
Lemma factor_1_is_f1 n s : (1 <= s)%nat -> (s <= n)%nat -> factor_1 n s == f1 n s.
Proof.
  intros H1 Hn. unfold factor_1, f1. rewrite Nat.max_0_r.
  destruct n as [|n]; [lia|]. replace (S n - 1)%nat with n by lia.
  pose proof (binom_fact n (s - 1) ltac:(lia)) as Hb.
  replace (n - (s - 1))%nat with (S n - s)%nat in Hb by lia.
  assert (E : qn (binom n (s - 1)) * (qf (s - 1) * qf (S n - s)) == qf n).
  { unfold qf. rewrite <- qn_mult. apply qn_inj_mult. exact Hb. }
  rewrite (qf_S n).
  assert (Hp1 : 0 < qn (binom n (s - 1))) by (apply qn_pos, binom_pos; lia).
  assert (Hp2 : 0 < qn (S n)) by (apply qn_pos; lia).
  pose proof (qf_pos (s - 1)). pose proof (qf_pos (S n - s)). pose proof (qf_pos n).
  rewrite <- E. field. repeat split; lra.
Qed.

Lemma factor_0_is_f0 n s : (s < n)%nat -> factor_0 n s == f0 n s.
Proof.
  intros Hn. unfold factor_0, f0. destruct n as [|n]; [lia|]. replace (S n - 1)%nat with n by lia.
  rewrite Nat.min_l by lia.
  pose proof (binom_fact n s ltac:(lia)) as Hb.
  replace (S n - s - 1)%nat with (n - s)%nat by lia.
  assert (E : qn (binom n s) * (qf s * qf (n - s)) == qf n).
  { unfold qf. rewrite <- qn_mult. apply qn_inj_mult. exact Hb. }
  rewrite (qf_S n).
  assert (Hp1 : 0 < qn (binom n s)) by (apply qn_pos, binom_pos; lia).
  assert (Hp2 : 0 < qn (S n)) by (apply qn_pos; lia).
  pose proof (qf_pos s). pose proof (qf_pos (n - s)). pose proof (qf_pos n).
  rewrite <- E. field. repeat split; lra.
Qed.

Lemma cnt_nth_true m i : nth i m false = true -> (1 <= cnt m)%nat.
Proof. revert i; induction m as [|b t IH]; intros [|i] H; cbn in *; try discriminate; [subst; lia|]. specialize (IH i H). destruct b; lia. Qed.
Lemma cnt_nth_false m i : (i < length m)%nat -> nth i m false = false -> (cnt m < length m)%nat.
Proof.
  revert i; induction m as [|b t IH]; intros [|i] Hi H; cbn in *; try lia.
  - subst. pose proof (cnt_le t). lia.
  - specialize (IH i ltac:(lia) H). destruct b; lia.
Qed.

Lemma code_coef n i m : length m = n -> (i < n)%nat ->
  (1 - b2q (nth i m false)) * factor_0 n (cnt m) + b2q (nth i m false) * factor_1 n (cnt m) == coef n i m.
Proof.
  intros Hm Hi. unfold coef. destruct (nth i m false) eqn:E; unfold b2q.
  - rewrite factor_1_is_f1; [ring|eapply cnt_nth_true; eauto|rewrite <- Hm; apply cnt_le].
  - rewrite factor_0_is_f0; [ring|]. rewrite <- Hm. apply (cnt_nth_false m i); [rewrite Hm; exact Hi|exact E].
Qed.

(* ---------- the accumulating loop is a sum per unit ---------- *)
Lemma bf_fold n p u null : forall ms acc, length acc = n -> (forall m, In m ms -> length m = n) ->
  forall i, (i < n)%nat ->
  nth i (fold_left (bf_step n p u null) ms acc) 0
  == nth i acc 0 + sumQ (fun m => bf_game p u null m *
        ((1 - b2q (nth i m false)) * factor_0 n (cnt m) + b2q (nth i m false) * factor_1 n (cnt m))) ms
  /\ length (fold_left (bf_step n p u null) ms acc) = n.
Proof.
  induction ms as [|m ms IH]; intros acc Hacc Hms i Hi; cbn [fold_left].
  - rewrite sumQ_nil. split; [ring|exact Hacc].
  - assert (Hm : length m = n) by (apply Hms; left; reflexivity).
    assert (Hlen : length (bf_step n p u null acc m) = n).
    { unfold bf_step. rewrite map_length, combine_length, Hacc, Hm. apply Nat.min_id. }
    destruct (IH (bf_step n p u null acc m) Hlen (fun m' H => Hms m' (or_intror H)) i Hi) as [E L].
    split; [|exact L]. rewrite E, sumQ_cons.
    assert (Hstep : nth i (bf_step n p u null acc m) 0
                    == nth i acc 0 + bf_game p u null m *
                       ((1 - b2q (nth i m false)) * factor_0 n (cnt m) + b2q (nth i m false) * factor_1 n (cnt m))).
    { unfold bf_step, bf_game.
      set (f := fun ib : Q * bool => fst ib + score_of u null (rows_selected p m) *
                  ((1 - b2q (snd ib)) * factor_0 n (cnt m) + b2q (snd ib) * factor_1 n (cnt m))).
      rewrite (nth_indep _ 0 (f (0, false))) by (rewrite map_length, combine_length, Hacc, Hm, Nat.min_id; exact Hi).
      rewrite (map_nth f), combine_nth by (rewrite Hacc, Hm; reflexivity). unfold f. cbn [fst snd]. reflexivity. }
    rewrite Hstep. ring.
Qed.

Lemma nth_repeat_0 n i : nth i (repeat 0 n) 0 = 0.
Proof. revert i; induction n as [|n IH]; intros [|i]; cbn; auto. Qed.

(* C03: for every n, provenance, utility and null value, unit by unit *)
Theorem bruteforce_is_shapley n p u null i : (i < n)%nat ->
  nth i (bruteforce n p u null) 0 == shapley n (bf_game p u null) i.
Proof.
  intros Hi. rewrite <- shapley_bf_marginal by exact Hi. unfold bruteforce.
  destruct (bf_fold n p u null (masks n) (repeat 0 n) (repeat_length _ _) (fun m H => proj1 (masks_length n m) H) i Hi) as [E _].
  rewrite E, nth_repeat_0. unfold shapley_bf.
  setoid_replace (0 + sumQ (fun m => bf_game p u null m *
        ((1 - b2q (nth i m false)) * factor_0 n (cnt m) + b2q (nth i m false) * factor_1 n (cnt m))) (masks n))
    with (sumQ (fun m => bf_game p u null m * coef n i m) (masks n)); [reflexivity|].
  rewrite Qplus_0_l. apply sumQ_ext. intros m Hm. apply masks_length in Hm. rewrite code_coef by assumption. reflexivity.
Qed.

(* the game is evaluated on exactly the rows whose formula is true; a failed evaluation is worth the null score *)
Theorem bf_game_rows (fs : list dnf) u null m :
  (forall f, In f fs -> conj_nonempty f) -> (forall f, In f fs -> units_below (length m) f) ->
  bf_game (encode fs) u null m = score_of u null (map (eval_dnf (map (fun b : bool => if b then 1 else 0)%nat m)) fs).
Proof.
  intros Hne Hu. unfold bf_game, rows_selected.
  replace (map b2z m) with (zs (map (fun b : bool => if b then 1 else 0)%nat m)).
  - rewrite query_encode; [reflexivity|exact Hne|]. intros f Hf. rewrite map_length. apply Hu. exact Hf.
  - unfold zs. rewrite map_map. apply map_ext. intros []; reflexivity.
Qed.
